//! melstf verification harness: drives the real implementation and writes, for each
//! operation, one op line (input for the Lean model driver) and one result line.
mod fmt;
mod probes;
mod rng;
mod smallstreams;
mod statefmt;
mod statestream;
mod txgen;
mod vmgen;
mod vmstreams;
mod world;

use std::io::Write;

/// counts what the process allocates, so that the memory a covenant execution needs can be compared with its weight
pub mod allocs {
    use std::alloc::{GlobalAlloc, Layout, System};
    use std::sync::atomic::{AtomicU64, Ordering};
    pub static TOTAL: AtomicU64 = AtomicU64::new(0);
    pub static MAX_SINGLE: AtomicU64 = AtomicU64::new(0);
    pub struct Counting;
    unsafe impl GlobalAlloc for Counting {
        unsafe fn alloc(&self, l: Layout) -> *mut u8 {
            TOTAL.fetch_add(l.size() as u64, Ordering::Relaxed);
            MAX_SINGLE.fetch_max(l.size() as u64, Ordering::Relaxed);
            System.alloc(l)
        }
        unsafe fn dealloc(&self, p: *mut u8, l: Layout) {
            System.dealloc(p, l)
        }
        unsafe fn realloc(&self, p: *mut u8, l: Layout, new_size: usize) -> *mut u8 {
            TOTAL.fetch_add(new_size.saturating_sub(l.size()) as u64, Ordering::Relaxed);
            MAX_SINGLE.fetch_max(new_size as u64, Ordering::Relaxed);
            System.realloc(p, l, new_size)
        }
    }
    pub fn reset() {
        TOTAL.store(0, Ordering::Relaxed);
        MAX_SINGLE.store(0, Ordering::Relaxed);
    }
    pub fn read() -> (u64, u64) {
        (TOTAL.load(Ordering::Relaxed), MAX_SINGLE.load(Ordering::Relaxed))
    }
}
#[global_allocator]
static GLOBAL: allocs::Counting = allocs::Counting;

pub struct Out {
    pub ops: std::io::BufWriter<std::fs::File>,
    pub imp: std::io::BufWriter<std::fs::File>,
    pub lines: u64,
    pub discarded: u64,
    pub last: Option<(String, String)>,
    pub facts: Option<std::io::BufWriter<std::fs::File>>,
}

impl Out {
    pub fn new(dir: &str, stream: &str) -> Self {
        std::fs::create_dir_all(dir).unwrap();
        let ops = std::io::BufWriter::new(std::fs::File::create(format!("{}/{}.ops", dir, stream)).unwrap());
        let imp = std::io::BufWriter::new(std::fs::File::create(format!("{}/{}.impl", dir, stream)).unwrap());
        Out { ops, imp, lines: 0, discarded: 0, last: None, facts: Some(std::io::BufWriter::new(std::fs::File::create(format!("{}/{}.facts", dir, stream)).unwrap())) }
    }
    pub fn emit(&mut self, op: &str, res: &str) {
        debug_assert!(!op.contains('\n') && !res.contains('\n'));
        writeln!(self.ops, "{}", op).unwrap();
        writeln!(self.imp, "{}", res).unwrap();
        self.lines += 1;
        self.last = Some((op.to_string(), res.to_string()));
    }
    /// record the verdict of a harness-side oracle about the operation emitted last
    pub fn fact(&mut self, prop: &str, check: &str, ok: bool, detail: &str) {
        if let Some(f) = self.facts.as_mut() {
            let d = detail.replace('\\', "/").replace('"', "'");
            writeln!(f, "{{\"prop\":\"{}\",\"check\":\"{}\",\"ok\":{},\"line\":{},\"detail\":\"{}\"}}", prop, check, ok, self.lines.saturating_sub(1), d).unwrap();
        }
    }
    pub fn emit2(&mut self, l: (String, String)) {
        self.emit(&l.0, &l.1)
    }
    /// an output that only remembers the last line (used to re-route a line)
    pub fn null() -> Self {
        let f = || std::io::BufWriter::new(std::fs::File::create("/dev/null").unwrap());
        Out { ops: f(), imp: f(), lines: 0, discarded: 0, last: None, facts: None }
    }
    pub fn take_last(&mut self) -> (String, String) {
        self.last.take().unwrap_or_default()
    }
    pub fn finish(mut self) {
        self.ops.flush().unwrap();
        self.imp.flush().unwrap();
        if let Some(f) = self.facts.as_mut() {
            f.flush().unwrap();
        }
    }
}

fn main() {
    let args: Vec<String> = std::env::args().collect();
    if args.len() < 2 {
        eprintln!("usage: harness gen <stream> <seed> <count> <outdir> [thorough]");
        std::process::exit(2);
    }
    // panics are outputs, not noise
    if std::env::var("VERIF_PANIC_VERBOSE").is_err() {
        std::panic::set_hook(Box::new(|_| {}));
    }
    match args[1].as_str() {
        "gen" => {
            let stream = args[2].as_str();
            let seed: u64 = args[3].parse().unwrap();
            let count: usize = args[4].parse().unwrap();
            let dir = args[5].as_str();
            let thorough = args.get(6).map(|s| s == "thorough").unwrap_or(false);
            let mut r = rng::Rng::new(seed ^ fxhash(stream));
            let mut out = Out::new(dir, stream);
            match stream {
                "codec" => vmstreams::codec(&mut r, count, thorough, &mut out),
                "weight" => vmstreams::weight(&mut r, count, thorough, &mut out),
                "exec" => vmstreams::exec(&mut r, count, thorough, &mut out),
                "feemult" => smallstreams::feemult(&mut r, count, thorough, &mut out),
                "confirm" => smallstreams::confirm(&mut r, count, thorough, &mut out),
                "merkle" => smallstreams::merkle(&mut r, count, thorough, &mut out),
                "stdcode" => smallstreams::stdcode_stream(&mut r, count, thorough, &mut out),
                "apply" | "seal" | "chain" | "mint" | "hostile" | "cov" | "stake" | "faucet" | "activation" => {
                    let em = match stream {
                        "apply" => statestream::Emphasis { mutate: 300, pool_ops: 6, stake_ops: 8, mint_ops: 8, batches: 0, blocks: 2, chain_ops: false, twins: 2, epoch_edges: 0, faucets: 8, tip_edges: 0 },
                        "cov" => statestream::Emphasis { mutate: 250, pool_ops: 1, stake_ops: 1, mint_ops: 0, batches: 4, blocks: 3, chain_ops: false, twins: 6, epoch_edges: 0, faucets: 8, tip_edges: 0 },
                        "stake" => statestream::Emphasis { mutate: 100, pool_ops: 1, stake_ops: 60, mint_ops: 0, batches: 3, blocks: 3, chain_ops: true, twins: 2, epoch_edges: 6, faucets: 8, tip_edges: 0 },
                        "faucet" => statestream::Emphasis { mutate: 150, pool_ops: 2, stake_ops: 1, mint_ops: 0, batches: 3, blocks: 3, chain_ops: false, twins: 2, epoch_edges: 0, faucets: 60, tip_edges: 0 },
                        "activation" => statestream::Emphasis { mutate: 100, pool_ops: 6, stake_ops: 4, mint_ops: 2, batches: 2, blocks: 4, chain_ops: true, twins: 2, epoch_edges: 0, faucets: 30, tip_edges: 7 },
                        "hostile" => statestream::Emphasis { mutate: 800, pool_ops: 12, stake_ops: 6, mint_ops: 6, batches: 2, blocks: 3, chain_ops: false, twins: 2, epoch_edges: 0, faucets: 8, tip_edges: 0 },
                        "mint" => statestream::Emphasis { mutate: 60, pool_ops: 2, stake_ops: 1, mint_ops: 70, batches: 4, blocks: 3, chain_ops: false, twins: 2, epoch_edges: 0, faucets: 8, tip_edges: 0 },
                        "seal" => statestream::Emphasis { mutate: 80, pool_ops: 30, stake_ops: 2, mint_ops: 2, batches: 5, blocks: 3, chain_ops: false, twins: 2, epoch_edges: 0, faucets: 8, tip_edges: 0 },
                        _ => statestream::Emphasis { mutate: 100, pool_ops: 10, stake_ops: 6, mint_ops: 4, batches: 0, blocks: 4, chain_ops: true, twins: 2, epoch_edges: 0, faucets: 8, tip_edges: 0 },
                    };
                    let stats = statestream::run(&mut r, count, &em, &mut out);
                    let js: Vec<String> = stats.iter().map(|(k, v)| format!("\"{}\":{}", k, v)).collect();
                    println!("{{\"stats\":{{{}}}}}", js.join(","));
                }
                _ => {
                    eprintln!("unknown stream {}", stream);
                    std::process::exit(2);
                }
            }
            println!("{{\"stream\":\"{}\",\"lines\":{},\"discarded\":{}}}", stream, out.lines, out.discarded);
            out.finish();
        }
        "probe" => {
            probes::run(args[2].as_str());
        }
        "keygen" => {
            for _ in 0..8 {
                println!("{}", hex::encode(tmelcrypt::Ed25519SK::generate().0));
            }
        }
        _ => {
            eprintln!("unknown command");
            std::process::exit(2);
        }
    }
}

fn fxhash(s: &str) -> u64 {
    let mut h = 0xcbf29ce484222325u64;
    for b in s.bytes() {
        h ^= b as u64;
        h = h.wrapping_mul(0x100000001b3);
    }
    h
}
