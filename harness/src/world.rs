//! Named real states, the reverse tables, and the oracle answers shipped to the model.
use crate::fmt::*;
use crate::statefmt::*;
use melstf::{CoinMapping, GenesisConfig, SealedState, SmtMapping, UnsealedState};
use melstructs::*;
use melvm::verif_hooks as hooks;
use melvm::{Covenant, CovenantEnv};
use novasmt::Database;
use std::collections::{BTreeMap, HashMap};
use std::panic::{catch_unwind, AssertUnwindSafe};
use tip911_stakeset::StakeSet;
use tmelcrypt::{HashVal, Hashable};

pub const GRANDFATHERED: &str = "30a60b20830f000f755b70c57c998553a303cc11f8b1f574d5e9f7e26b645d8b";

pub fn fdp(txhash: TxHash) -> CoinID {
    CoinID { txhash: tmelcrypt::hash_keyed(b"fdp", txhash.0).into(), index: 0 }
}

pub struct World {
    pub db: Database<Cas>,
    pub unsealed: HashMap<String, UnsealedState<Cas>>,
    pub sealed: HashMap<String, SealedState<Cas>>,
    pub names: Names,
    pub counter: u64,
    /// verdicts of the independent covenant evaluation of the last `batch_oracles` call:
    /// (tx index, input index, Some(approved) or None when coin/covenant could not be resolved)
    pub approvals: Vec<(usize, usize, Option<bool>)>,
    /// `env` lines of the last `batch_oracles` call: (operation, the heap `Executor::new_from_env` really builds)
    pub env_lines: Vec<(String, String)>,
}

pub fn silent<T>(f: impl FnOnce() -> T) -> Result<T, ()> {
    catch_unwind(AssertUnwindSafe(f)).map_err(|_| ())
}

impl World {
    pub fn new() -> Self {
        let mut names = Names::default();
        names.reg_coin(CoinID::zero_zero());
        names.reg_cov(Address::coin_destroy());
        for (a, b) in [(Denom::Mel, Denom::Sym), (Denom::Mel, Denom::Erg), (Denom::Erg, Denom::Sym)] {
            names.reg_poolkey(PoolKey::new(a, b));
        }
        World { db: Database::new(Cas::default()), unsealed: HashMap::new(), sealed: HashMap::new(), names, counter: 0, approvals: vec![], env_lines: vec![] }
    }

    pub fn fresh(&mut self, prefix: &str) -> String {
        self.counter += 1;
        format!("{}{}", prefix, self.counter)
    }

    /// header used as `last_header` by covenants of transactions applied to `s`
    pub fn last_header(&self, s: &UnsealedState<Cas>) -> Option<Header> {
        let p = s.verif_parts();
        let hist: SmtMapping<Cas, BlockHeight, Header> = SmtMapping::new(p.history.clone());
        match hist.get(&BlockHeight(p.height.0.saturating_sub(1))) {
            Some(h) => Some(h),
            // the first block of a chain has no predecessor: covenants are shown a stand-in that carries only what is
            // fixed for the block (since the fix for F25; before, the header of the block sealed as it stood)
            None => Some(Header {
                network: p.network,
                previous: Default::default(),
                height: p.height,
                history_hash: Default::default(),
                coins_hash: Default::default(),
                transactions_hash: Default::default(),
                fee_pool: CoinValue(0),
                fee_multiplier: p.fee_multiplier,
                dosc_speed: p.dosc_speed,
                pools_hash: Default::default(),
                stakes_hash: Default::default(),
            }),
        }
    }

    /// liq-token oracle entries for every pool key seen so far
    pub fn liq_oracles(&self) -> Vec<String> {
        self.names
            .poolkeys
            .iter()
            .map(|k| {
                let kb = poolkey_bytes(k);
                let d = k.liq_token_denom();
                format!("l:{}:{}", hx(&kb), hx(&d.to_bytes()))
            })
            .collect()
    }

    /// state-level oracle answers for applying `txs` to `s`
    pub fn batch_oracles(&mut self, s: &UnsealedState<Cas>, txs: &[Transaction]) -> String {
        let mut items: Vec<String> = vec![];
        let p = s.verif_parts();
        let hist: SmtMapping<Cas, BlockHeight, Header> = SmtMapping::new(p.history.clone());
        let coins = CoinMapping::new(p.coins.clone());
        for tx in txs {
            self.names.reg_tx(tx);
            let h = tx.hash_nosigs();
            items.push(format!("f:{}:{}", hx(&h.0 .0), hx(&fdp(h).txhash.0 .0)));
            if h.to_string() == GRANDFATHERED {
                items.push(format!("g:{}", hx(&h.0 .0)));
            }
        }
        // created coins of the batch, for resolving inputs
        let mut created: HashMap<CoinID, CoinDataHeight> = HashMap::new();
        for tx in txs {
            for (i, o) in tx.outputs.iter().enumerate() {
                let mut cd = o.clone();
                if cd.denom == Denom::NewCustom {
                    cd.denom = Denom::Custom(tx.hash_nosigs());
                }
                created.insert(CoinID::new(tx.hash_nosigs(), i as u8), CoinDataHeight { coin_data: cd, height: p.height });
            }
        }
        // PoW verdicts, computed from the specification, independently of validate_and_get_doscmint_speed
        for tx in txs {
            if tx.kind != TxKind::DoscMint {
                continue;
            }
            let Some(inp) = tx.inputs.get(0) else { continue };
            let coin = created.get(inp).cloned().or_else(|| coins.get_coin(*inp));
            let Some(coin) = coin else { continue };
            let Some(seed) = hist.get(&coin.height) else { continue };
            let Ok((difficulty, proof_bytes)) = stdcode::deserialize::<(u32, Vec<u8>)>(&tx.data) else { continue };
            let Some(proof) = melpow::Proof::from_bytes(&proof_bytes) else { continue };
            let puzzle = tmelcrypt::hash_keyed(seed.hash(), stdcode::serialize(inp).unwrap());
            let verdict = silent(|| {
                if proof.verify(&puzzle, difficulty as usize, melstf::LegacyMelPowHash) {
                    "legacy"
                } else if proof.verify(&puzzle, difficulty as usize, melstf::Tip910MelPowHash) {
                    "tip910"
                } else {
                    "invalid"
                }
            })
            .unwrap_or("panics");
            items.push(format!(
                "p:{}:{}:{}:{}:{}:{}",
                hx(&seed.hash().0),
                hx(&inp.txhash.0 .0),
                inp.index,
                difficulty,
                hx(&tx.hash_nosigs().0 .0),
                verdict
            ));
        }
        // covenant-level oracle answers: evaluate every resolvable input's covenant independently
        let _ = hooks::take_log();
        self.approvals.clear();
        self.env_lines.clear();
        if let Some(last) = self.last_header(s) {
            for (ti, tx) in txs.iter().enumerate() {
                let scripts = tx.covenants_as_map();
                for (idx, inp) in tx.inputs.iter().enumerate() {
                    let coin = created.get(inp).cloned().or_else(|| coins.get_coin(*inp));
                    let Some(coin) = coin else {
                        self.approvals.push((ti, idx, None));
                        continue;
                    };
                    // the environment an input's covenant is shown: the heap the real executor builds (value.rs conversions,
                    // slot layout) against the model's `heapOfEnv` (a few per batch)
                    if self.env_lines.len() < 3 {
                        let env = CovenantEnv { parent_coinid: *inp, parent_cdh: coin.clone(), spender_index: idx as u8, last_header: last };
                        let tx2 = tx.clone();
                        let heap = silent(move || melvm::VerifExecutor::new_from_env(vec![], tx2, Some(env)).heap);
                        let op = format!("env {} {} {}@{} {} {}", tx_text(tx), coinid_text(inp), coindata_text(&coin.coin_data), coin.height.0, idx as u8, header_text(&last));
                        self.env_lines.push((op, match heap { Ok(h) => format!("ok {}", crate::vmstreams::heap_text(&h)), Err(_) => "panic".into() }));
                    }
                    let Some(script) = scripts.get(&coin.coin_data.covhash) else {
                        self.approvals.push((ti, idx, None));
                        continue;
                    };
                    let Ok(cov) = Covenant::from_bytes(script) else {
                        self.approvals.push((ti, idx, None));
                        continue;
                    };
                    let v = silent(|| {
                        cov.execute(
                            tx,
                            Some(CovenantEnv { parent_coinid: *inp, parent_cdh: coin.clone(), spender_index: idx as u8, last_header: last }),
                        )
                    });
                    self.approvals.push((ti, idx, v.ok().map(|o| o.map(|x| x.into_bool()).unwrap_or(false))));
                }
            }
        }
        let log = hooks::take_log();
        let vm = crate::vmstreams::oracle_text(&log);
        if vm != "-" {
            items.push(vm);
        }
        items.extend(self.liq_oracles());
        if items.is_empty() {
            "-".into()
        } else {
            items.join(",")
        }
    }

    pub fn seal_oracles(&mut self, s: &UnsealedState<Cas>) -> String {
        let h = s.verif_parts().height.0;
        self.names.reg_height(h);
        let mut items = self.liq_oracles();
        items.push(format!("r:{}:{}", h, hx(&CoinID::proposer_reward(BlockHeight(h)).txhash.0 .0)));
        items.join(",")
    }
}

/// specification of a fabricated sealed state
pub struct FabSpec {
    pub network: NetID,
    pub height: u64,
    pub fee_pool: u128,
    pub fee_multiplier: u128,
    pub dosc_speed: u128,
    pub coins: Vec<(CoinID, CoinDataHeight)>,
    pub pools: Vec<(PoolKey, PoolState)>,
    pub stakes: Vec<(TxHash, StakeDoc)>,
    /// synthetic past headers (height, dosc_speed) — at least height-1 when height > 0
    pub history: Vec<(u64, u128)>,
}

pub fn tip906_active(network: NetID, height: u64) -> bool {
    match network {
        NetID::Mainnet => height >= 830000,
        NetID::Testnet => height >= 500,
        _ => true,
    }
}

pub fn synth_header(network: NetID, height: u64, dosc_speed: u128) -> Header {
    let tag = |s: &str| tmelcrypt::hash_keyed(s.as_bytes(), height.to_be_bytes());
    Header {
        network,
        previous: tag("prev"),
        height: BlockHeight(height),
        history_hash: tag("hist"),
        coins_hash: tag("coins"),
        transactions_hash: tag("txs"),
        fee_pool: CoinValue(height as u128 * 7),
        fee_multiplier: 1000 + height as u128,
        dosc_speed,
        pools_hash: tag("pools"),
        stakes_hash: tag("stakes"),
    }
}

impl World {
    /// builds the trees through the public API and restores a sealed state from a hand-made block
    pub fn fabricate(&mut self, spec: &FabSpec) -> (SealedState<Cas>, String) {
        self.fabricate_with(spec, None)
    }

    /// like `fabricate`; with `carried` the state gets that very stake-set object (whatever bookkeeping it has accumulated
    /// through `add_stake` / `unlock_old`) instead of one built afresh from the list - the list in `spec` must be its content
    pub fn fabricate_with(&mut self, spec: &FabSpec, carried: Option<StakeSet>) -> (SealedState<Cas>, String) {
        let empty = self.db.get_tree(HashVal::default().0).unwrap();
        let t906 = tip906_active(spec.network, spec.height);
        let mut coins = CoinMapping::new(empty.clone());
        for (id, cdh) in &spec.coins {
            self.names.reg_coin(*id);
            self.names.reg_cov(cdh.coin_data.covhash);
            coins.insert_coin(*id, cdh.clone(), t906);
        }
        let mut pools: SmtMapping<Cas, PoolKey, PoolState> = SmtMapping::new(empty.clone());
        for (k, p) in &spec.pools {
            self.names.reg_poolkey(*k);
            pools.insert(*k, *p);
        }
        let mut hist: SmtMapping<Cas, BlockHeight, Header> = SmtMapping::new(empty.clone());
        let mut hist_text = vec![];
        for (h, ds) in &spec.history {
            let hdr = synth_header(spec.network, *h, *ds);
            hist.insert(BlockHeight(*h), hdr);
            hist_text.push(format!("{}@{}", header_text(&hdr), hx(&hdr.hash().0)));
        }
        let stakes = carried.unwrap_or_else(|| StakeSet::new(spec.stakes.iter().cloned()));
        let header = Header {
            network: spec.network,
            previous: HashVal::default(),
            height: BlockHeight(spec.height),
            history_hash: hist.root_hash(),
            coins_hash: coins.root_hash(),
            transactions_hash: HashVal::default(),
            fee_pool: CoinValue(spec.fee_pool),
            fee_multiplier: spec.fee_multiplier,
            dosc_speed: spec.dosc_speed,
            pools_hash: pools.root_hash(),
            stakes_hash: HashVal::default(),
        };
        let blk = Block { header, transactions: Default::default(), proposer_action: None };
        let sealed = SealedState::from_block(&blk, &stakes, &self.db);
        let net: u8 = spec.network.into();
        let list = |v: Vec<String>| if v.is_empty() { "-".to_string() } else { v.join(";") };
        let op = format!(
            "{} {} {} {} {} {} {} {} {}",
            net,
            spec.height,
            spec.fee_pool,
            spec.fee_multiplier,
            spec.dosc_speed,
            list(spec.coins.iter().map(|(id, c)| format!("{}={}@{}", coinid_text(id), coindata_text(&c.coin_data), c.height.0)).collect()),
            list(spec.pools.iter().map(|(k, p)| format!("{}={}:{}:{}:{}", hx(&poolkey_bytes(k)), p.lefts, p.rights, p.price_accum, p.liqs)).collect()),
            list(spec.stakes.iter().map(|(k, d)| format!("{}={}", hx(&k.0 .0), stakedoc_text(d))).collect()),
            list(hist_text),
        );
        (sealed, op)
    }

    pub fn genesis(&mut self, cfg: GenesisConfig) -> (UnsealedState<Cas>, String) {
        let net: u8 = cfg.network.into();
        self.names.reg_cov(cfg.init_coindata.covhash);
        let list = |v: Vec<String>| if v.is_empty() { "-".to_string() } else { v.join(";") };
        let op = format!(
            "{} {} {} {} {}",
            net,
            coindata_text(&cfg.init_coindata),
            cfg.init_fee_pool.0,
            cfg.init_fee_multiplier,
            list(cfg.stakes.iter().map(|(k, d)| format!("{}={}", hx(&k.0 .0), stakedoc_text(d))).collect()),
        );
        let st = cfg.realize(&self.db);
        (st, op)
    }
}

#[allow(dead_code)]
pub fn unused(_: BTreeMap<u8, u8>) {}
