//! Canonical text forms shared with the Lean driver.
use ethnum::U256;
use melvm::opcode::OpCode;
use melvm::Value;

pub fn hx(b: &[u8]) -> String {
    hex::encode(b)
}
/// hex with `-` for the empty string (for whitespace-separated fields)
pub fn hxd(b: &[u8]) -> String {
    if b.is_empty() {
        "-".into()
    } else {
        hex::encode(b)
    }
}

pub fn op_text(op: &OpCode) -> String {
    use OpCode::*;
    match op {
        Noop => "noop".into(),
        Add => "add".into(),
        Sub => "sub".into(),
        Mul => "mul".into(),
        Div => "div".into(),
        Rem => "rem".into(),
        Exp(k) => format!("exp:{}", k),
        And => "and".into(),
        Or => "or".into(),
        Xor => "xor".into(),
        Not => "not".into(),
        Eql => "eql".into(),
        Lt => "lt".into(),
        Gt => "gt".into(),
        Shl => "shl".into(),
        Shr => "shr".into(),
        Hash(n) => format!("hash:{}", n),
        SigEOk(n) => format!("sigeok:{}", n),
        Store => "store".into(),
        Load => "load".into(),
        StoreImm(n) => format!("storeimm:{}", n),
        LoadImm(n) => format!("loadimm:{}", n),
        VRef => "vref".into(),
        VAppend => "vappend".into(),
        VEmpty => "vempty".into(),
        VLength => "vlength".into(),
        VSlice => "vslice".into(),
        VSet => "vset".into(),
        VPush => "vpush".into(),
        VCons => "vcons".into(),
        BRef => "bref".into(),
        BAppend => "bappend".into(),
        BEmpty => "bempty".into(),
        BLength => "blength".into(),
        BSlice => "bslice".into(),
        BSet => "bset".into(),
        BPush => "bpush".into(),
        BCons => "bcons".into(),
        Bez(n) => format!("bez:{}", n),
        Bnz(n) => format!("bnz:{}", n),
        Jmp(n) => format!("jmp:{}", n),
        Loop(a, b) => format!("loop:{}:{}", a, b),
        ItoB => "itob".into(),
        BtoI => "btoi".into(),
        TypeQ => "typeq".into(),
        PushB(b) => format!("pushb:{}", hx(b)),
        PushI(v) => format!("pushi:{}", v),
        PushIC(v) => format!("pushic:{}", v),
        Dup => "dup".into(),
    }
}

pub fn ops_text(ops: &[OpCode]) -> String {
    if ops.is_empty() {
        "-".into()
    } else {
        ops.iter().map(op_text).collect::<Vec<_>>().join(",")
    }
}

pub fn value_text(v: &Value) -> String {
    match v {
        Value::Int(i) => format!("i{}", i),
        Value::Bytes(b) => {
            let bv: Vec<u8> = b.clone().into();
            format!("x{}", hx(&bv))
        }
        Value::Vector(vs) => {
            let items: Vec<Value> = vs.clone().into();
            format!("[{}]", items.iter().map(value_text).collect::<Vec<_>>().join(","))
        }
    }
}

pub fn u256_dec(v: U256) -> String {
    format!("{}", v)
}
