//! Minimal witnesses of the findings (DESIGN §5), run one per process:
//!   harness probe <id>   prints `PROBE <id> violates|holds <detail>`
//! "violates" means the property-breaking behaviour is exhibited by the current tree.
use crate::statefmt::*;
use crate::txgen::*;
use crate::world::*;
use ethnum::U256;
use melstf::{CoinMapping, SmtMapping, UnsealedState};
use melstructs::*;
use melvm::opcode::OpCode;
use melvm::Covenant;
use std::collections::BTreeMap;
use tmelcrypt::Hashable;

pub struct Pc {
    pub w: World,
    pub wallet: Wallet,
}

fn pool(l: u128, r: u128, liqs: u128) -> PoolState {
    PoolState { lefts: l, rights: r, price_accum: 0, liqs }
}

impl Pc {
    pub fn new() -> Self {
        Pc { w: World::new(), wallet: Wallet::new() }
    }
    pub fn key_addr(&mut self, k: usize) -> Address {
        self.wallet.spec_addr(CovSpec::StdNew(k))
    }
    /// a funded state: coins c0..c3 MEL (10^12 each), c4 SYM, c5 ERG (10^12), all owned by key 0
    pub fn base(&mut self, network: NetID, height: u64, mult: u128) -> (UnsealedState<Cas>, Vec<WCoin>) {
        let a = self.key_addr(0);
        let mut coins = vec![];
        for i in 0..6u8 {
            let denom = match i {
                4 => Denom::Sym,
                5 => Denom::Erg,
                _ => Denom::Mel,
            };
            coins.push((
                CoinID::new(TxHash(tmelcrypt::hash_keyed(b"probecoin", [i])), 0),
                CoinDataHeight { coin_data: out(a, 1_000_000_000_000, denom), height: BlockHeight(height.saturating_sub(2)) },
            ));
        }
        let mut history = vec![];
        if height > 0 {
            history.push((height - 1, 1_000_000));
        }
        if height > 2 {
            history.push((height - 2, 1_000_000));
        }
        let spec = FabSpec {
            network,
            height,
            fee_pool: 1 << 20,
            fee_multiplier: mult,
            dosc_speed: 1_000_000,
            coins: coins.clone(),
            pools: vec![
                (PoolKey::new(Denom::Mel, Denom::Sym), pool(2_000_000_000, 3_000_000_000, 1_000_000_000)),
                (PoolKey::new(Denom::Mel, Denom::Erg), pool(2_000_000_000, 3_000_000_000, 1_000_000_000)),
                (PoolKey::new(Denom::Erg, Denom::Sym), pool(2_000_000_000, 3_000_000_000, 1_000_000_000)),
            ],
            stakes: vec![],
            history,
        };
        let (sealed, _) = self.w.fabricate(&spec);
        let u = sealed.next_unsealed();
        let wc = coins.into_iter().map(|(id, cdh)| WCoin { id, cdh, spec: CovSpec::StdNew(0) }).collect();
        (u, wc)
    }
    /// spend `inputs` into `outs` (+ MEL change to key 0), kind/data as given
    pub fn tx(&mut self, kind: TxKind, inputs: &[WCoin], outs: Vec<CoinData>, data: Vec<u8>, mult: u128) -> Transaction {
        let a = self.key_addr(0);
        let mut outs = outs;
        let mel_in: u128 = inputs.iter().filter(|c| c.cdh.coin_data.denom == Denom::Mel).map(|c| c.cdh.coin_data.value.0).sum();
        let mel_out: u128 = outs.iter().filter(|o| o.denom == Denom::Mel).map(|o| o.value.0).sum();
        outs.push(out(a, mel_in - mel_out, Denom::Mel));
        let change = outs.len() - 1;
        let mut tx = assemble(&self.wallet, kind, inputs, outs, 0, data);
        assert!(fix_fee(&self.wallet, &mut tx, inputs, mult, 0, Some(change)));
        self.w.names.reg_tx(&tx);
        tx
    }
    pub fn wcoin(&self, tx: &Transaction, i: u8, height: u64) -> WCoin {
        let mut cd = tx.outputs[i as usize].clone();
        if cd.denom == Denom::NewCustom {
            cd.denom = Denom::Custom(tx.hash_nosigs());
        }
        let spec = self.wallet.specs.get(&cd.covhash).cloned().unwrap_or(CovSpec::StdNew(0));
        WCoin { id: tx.output_coinid(i), cdh: CoinDataHeight { coin_data: cd, height: BlockHeight(height) }, spec }
    }
}

fn coins_of(u: &UnsealedState<Cas>) -> CoinMapping<Cas> {
    CoinMapping::new(u.verif_parts().coins)
}

fn pools_of(u: &UnsealedState<Cas>) -> SmtMapping<Cas, PoolKey, PoolState> {
    SmtMapping::new(u.verif_parts().pools)
}

fn verdict(id: &str, violates: bool, detail: &str) {
    println!("PROBE {} {} {}", id, if violates { "violates" } else { "holds" }, detail);
}

pub fn run(id: &str) {
    let mut p = Pc::new();
    let net = NetID::Custom02;
    match id {
        // batch [B, A] with B spending A.out0
        "F1" => {
            let (u, wc) = p.base(net, 10, 1000);
            let a0 = p.key_addr(0);
            let ta = p.tx(TxKind::Normal, &wc[0..1], vec![out(a0, 5000, Denom::Mel)], vec![], 1000);
            let a_out0 = p.wcoin(&ta, 0, 11);
            let tb = p.tx(TxKind::Normal, &[a_out0.clone()], vec![out(a0, 100, Denom::Mel)], vec![], 1000);
            let mut u1 = u.clone();
            let r1 = u1.apply_tx_batch(&[tb.clone(), ta.clone()]);
            let mut u2 = u.clone();
            let r2 = u2.apply_tx_batch(&[ta, tb]);
            let unspent = coins_of(&u1).get_coin(a_out0.id).is_some();
            let same = u1.clone().seal(None).header().coins_hash == u2.clone().seal(None).header().coins_hash;
            verdict(id, r1.is_ok() && r2.is_ok() && (unspent || !same), &format!("[B,A] accepted={} spent-output-still-unspent={} same-root-as-[A,B]={}", r1.is_ok(), unspent, same));
        }
        // zero-valued deposit panics seal
        "F3" => {
            let (mut u, wc) = p.base(net, 10, 0);
            let a0 = p.key_addr(0);
            let tx = p.tx(TxKind::LiqDeposit, &wc[0..1], vec![out(a0, 0, Denom::NewCustom), out(a0, 77, Denom::Mel)], vec![], 0);
            let ok = u.apply_tx(&tx).is_ok();
            let sealed = silent(|| u.clone().seal(None));
            verdict(id, ok && sealed.is_err(), &format!("applied={} seal-panicked={}", ok, sealed.is_err()));
        }
        // swap of zero value
        "F3b" => {
            let (mut u, wc) = p.base(net, 10, 0);
            let a0 = p.key_addr(0);
            let tx = p.tx(TxKind::Swap, &wc[0..1], vec![out(a0, 0, Denom::Mel)], b"s".to_vec(), 0);
            let ok = u.apply_tx(&tx).is_ok();
            let sealed = silent(|| u.clone().seal(None));
            verdict(id, ok && sealed.is_err(), &format!("applied={} seal-panicked={}", ok, sealed.is_err()));
        }
        // Normal tx with data "s" is swapped
        "F4" => {
            let (mut u, wc) = p.base(net, 10, 1000);
            let a0 = p.key_addr(0);
            let tx = p.tx(TxKind::Normal, &wc[0..1], vec![out(a0, 100_000_000, Denom::Mel)], b"s".to_vec(), 1000);
            let ok = u.apply_tx(&tx).is_ok();
            let s = u.seal(None);
            let c = s.coin(tx.output_coinid(0));
            let changed = c.as_ref().map(|c| c.coin_data.denom != Denom::Mel || c.coin_data.value.0 != 100_000_000).unwrap_or(true);
            verdict(id, ok && changed, &format!("applied={} output-after-seal={:?}", ok, c.map(|c| (c.coin_data.denom, c.coin_data.value.0))));
        }
        // reversed long-form pool key
        "F5" => {
            let (mut u, wc) = p.base(net, 10, 1000);
            let a0 = p.key_addr(0);
            let mut data = vec![0u8; 32];
            data.extend_from_slice(&stdcode::serialize(&(Denom::Sym, Denom::Mel)).unwrap());
            let tx = p.tx(TxKind::Swap, &wc[0..1], vec![out(a0, 100_000_000, Denom::Mel)], data, 1000);
            let ok = u.apply_tx(&tx).is_ok();
            let before = pools_of(&u).get(&PoolKey::new(Denom::Mel, Denom::Sym));
            let s = u.seal(None);
            let c = s.coin(tx.output_coinid(0));
            let after = s.pool(PoolKey::new(Denom::Mel, Denom::Sym));
            let changed = c.as_ref().map(|c| c.coin_data.denom != Denom::Mel || c.coin_data.value.0 != 100_000_000).unwrap_or(true);
            verdict(id, ok && changed, &format!("applied={} output-after-seal={:?} pool {:?} -> {:?}", ok, c.map(|c| (c.coin_data.denom, c.coin_data.value.0)), before.map(|p| (p.lefts, p.rights)), after.map(|p| (p.lefts, p.rights))));
        }
        // tips lost on restart
        "F6" => {
            let (mut u, wc) = p.base(net, 10, 1000);
            let a0 = p.key_addr(0);
            let mut tx = p.tx(TxKind::Normal, &wc[0..1], vec![out(a0, 5000, Denom::Mel)], vec![], 1000);
            // overpay: move 1000 from the change to the fee
            let last = tx.outputs.len() - 1;
            tx.outputs[last].value = CoinValue(tx.outputs[last].value.0 - 1000);
            tx.fee = CoinValue(tx.fee.0 + 1000);
            sign(&p.wallet, &mut tx, &wc[0..1]);
            let ok = u.apply_tx(&tx).is_ok();
            let s = u.seal(None);
            let db = p.w.db.clone();
            let r = melstf::SealedState::from_block(&s.to_block(), &s.raw_stakes(), &db);
            let act = Some(ProposerAction { fee_multiplier_delta: 0, reward_dest: a0 });
            let h1 = s.next_unsealed().seal(act).header();
            let h2 = r.next_unsealed().seal(act).header();
            verdict(id, ok && h1 != h2, &format!("applied={} next-headers-equal={} (pending tips are not in the block)", ok, h1 == h2));
        }
        "F7" => {
            let mut bad = vec![];
            for (m, d) in [(1u128, -128i8), (0, -128), (1u128 << 64, 127), (1u128 << 70, 127), (u128::MAX, 127)] {
                let mut w = World::new();
                let spec = FabSpec {
                    network: net, height: 10, fee_pool: 0, fee_multiplier: m, dosc_speed: 1_000_000, coins: vec![],
                    pools: vec![(PoolKey::new(Denom::Mel, Denom::Sym), pool(1 << 30, 1 << 30, 1 << 30)), (PoolKey::new(Denom::Mel, Denom::Erg), pool(1 << 30, 1 << 30, 1 << 30)), (PoolKey::new(Denom::Erg, Denom::Sym), pool(1 << 30, 1 << 30, 1 << 30))],
                    stakes: vec![], history: vec![(9, 1_000_000)],
                };
                let (s, _) = w.fabricate(&spec);
                let r = silent(|| s.next_unsealed().seal(Some(ProposerAction { fee_multiplier_delta: d, reward_dest: Address::coin_destroy() })).header().fee_multiplier);
                let mm = (m >> 7).max(2);
                let step = mm * (d.unsigned_abs() as u128) / 128;
                let want = if d >= 0 { m.saturating_add(step) } else { m.saturating_sub(step) };
                if r != Ok(want) {
                    bad.push(format!("m={} d={} got {:?} want {}", m, d, r, want));
                }
            }
            verdict(id, !bad.is_empty(), &bad.join("; "));
        }
        // covenant "value < 100": [small, big] accepted
        "F8" => {
            let lt = p.wallet.spec_addr(CovSpec::ValueLt(100));
            let a = p.key_addr(0);
            let mk = |i: u8, v: u128, addr: Address| (CoinID::new(TxHash(tmelcrypt::hash_keyed(b"f8", [i])), 0), CoinDataHeight { coin_data: out(addr, v, Denom::Mel), height: BlockHeight(5) });
            let coins = vec![mk(0, 50, lt), mk(1, 1_000_000_000, lt), mk(2, 1_000_000, a)];
            let spec = FabSpec {
                network: net, height: 10, fee_pool: 0, fee_multiplier: 0, dosc_speed: 1_000_000, coins: coins.clone(),
                pools: vec![(PoolKey::new(Denom::Mel, Denom::Sym), pool(1 << 30, 1 << 30, 1 << 30)), (PoolKey::new(Denom::Mel, Denom::Erg), pool(1 << 30, 1 << 30, 1 << 30))],
                stakes: vec![], history: vec![(9, 1_000_000)],
            };
            let (s, _) = p.w.fabricate(&spec);
            let u = s.next_unsealed();
            let wc: Vec<WCoin> = coins.iter().map(|(id, c)| WCoin { id: *id, cdh: c.clone(), spec: if c.coin_data.covhash == lt { CovSpec::ValueLt(100) } else { CovSpec::StdNew(0) } }).collect();
            let both = p.tx(TxKind::Normal, &[wc[0].clone(), wc[1].clone()], vec![], vec![], 0);
            let big = p.tx(TxKind::Normal, &[wc[1].clone()], vec![], vec![], 0);
            let r_both = u.clone().apply_tx(&both).is_ok();
            let r_big = u.clone().apply_tx(&big).is_ok();
            verdict(id, r_both || r_big, &format!("[small,big] accepted={} [big] accepted={}", r_both, r_big));
        }
        // DoscMint with an empty proof panics inside melpow
        "F9" => {
            let (u, wc) = p.base(net, 10, 0);
            let data = stdcode::serialize(&(5u32, Vec::<u8>::new())).unwrap();
            let tx = p.tx(TxKind::DoscMint, &wc[0..1], vec![], data, 0);
            let r = silent(|| u.clone().apply_tx(&tx));
            verdict(id, r.is_err(), &format!("apply_tx panicked={}", r.is_err()));
        }
        // two (1,1) deposits into a fresh pool
        "F10" => {
            let (mut u, wc) = p.base(net, 10, 0);
            let a0 = p.key_addr(0);
            let mint = p.tx(TxKind::Normal, &wc[0..1], vec![out(a0, 10, Denom::NewCustom), out(a0, 5, Denom::Mel), out(a0, 5, Denom::Mel)], vec![], 0);
            u.apply_tx(&mint).unwrap();
            let tok = Denom::Custom(mint.hash_nosigs());
            let s1 = u.seal(None);
            let mut u = s1.next_unsealed();
            // split the token into two coins of 1 and the rest
            let tokc = p.wcoin(&mint, 0, 11);
            let m1 = p.wcoin(&mint, 1, 11);
            let m2 = p.wcoin(&mint, 2, 11);
            let split = p.tx(TxKind::Normal, &[wc[1].clone(), tokc], vec![out(a0, 1, tok), out(a0, 1, tok), out(a0, 8, tok)], vec![], 0);
            u.apply_tx(&split).unwrap();
            let t1 = p.wcoin(&split, 0, 12);
            let t2 = p.wcoin(&split, 1, 12);
            let key = PoolKey::new(Denom::Mel, tok);
            let (l1, r1, l2, r2) = if key.left() == Denom::Mel { (m1.clone(), t1.clone(), m2.clone(), t2.clone()) } else { (t1.clone(), m1.clone(), t2.clone(), m2.clone()) };
            let dep = |p: &mut Pc, fee_coin: &WCoin, l: &WCoin, r: &WCoin| {
                let o0 = out(a0, 1, key.left());
                let o1 = out(a0, 1, key.right());
                p.tx(TxKind::LiqDeposit, &[fee_coin.clone(), l.clone(), r.clone()], vec![o0, o1], key.to_bytes().to_vec(), 0)
            };
            let d1 = dep(&mut p, &wc[2], &l1, &r1);
            let d2 = dep(&mut p, &wc[3], &l2, &r2);
            let ok = u.apply_tx_batch(&[d1.clone(), d2.clone()]).is_ok();
            let s = u.seal(None);
            let liq = key.liq_token_denom();
            let held: u128 = [d1.output_coinid(0), d2.output_coinid(0)].iter().filter_map(|c| s.coin(*c)).filter(|c| c.coin_data.denom == liq).map(|c| c.coin_data.value.0).sum();
            let recorded = s.pool(key).map(|p| p.liqs).unwrap_or(0);
            verdict(id, ok && held > recorded, &format!("deposits-applied={} liq-tokens-held={} pool.liqs={}", ok, held, recorded));
        }
        // grandfathered faucet replay
        "F11" => {
            let tx = Transaction {
                kind: TxKind::Faucet,
                inputs: vec![],
                outputs: vec![CoinData { value: CoinValue::from_millions(1001u64), denom: Denom::Mel, covhash: "t3ew4xh2yts8j1a8vzdfpbkzzvb5gz3sn7s9jw7qc9djrph2wpg52g".parse().unwrap(), additional_data: vec![].into() }],
                data: hex::decode("202fb0573b6dfe780f249bec6069bb39dbccb7ed9536c0480e20e1e29050f430").unwrap().into(),
                fee: CoinValue::from_millions(1001u64),
                covenants: vec![],
                sigs: vec![],
            };
            let (mut u, _) = p.base(NetID::Mainnet, 1_300_000, 0);
            let first = u.apply_tx(&tx).is_ok();
            let s = u.seal(None);
            let mut u2 = s.next_unsealed();
            let second = u2.apply_tx(&tx).is_ok();
            verdict(id, first && second, &format!("hash={} first={} replay-in-next-block={}", tx.hash_nosigs(), first, second));
        }
        // delta-equivalent proposer actions
        "F12" => {
            let (u, _) = p.base(net, 10, 100);
            let a0 = p.key_addr(0);
            let parent = {
                let mut w2 = Pc::new();
                let (u2, _) = w2.base(net, 10, 100);
                drop(u2);
                0
            };
            let _ = parent;
            // parent of `u` is the fabricated state; rebuild it to apply blocks
            let mut p2 = Pc::new();
            let a = p2.key_addr(0);
            let _ = a;
            let (_, _) = (0, 0);
            let sealed0 = {
                let (uu, _) = p2.base(net, 10, 100);
                let _ = uu;
                0
            };
            let _ = sealed0;
            let s1 = u.clone().seal(Some(ProposerAction { fee_multiplier_delta: 0, reward_dest: a0 }));
            let mut blk = s1.to_block();
            blk.proposer_action = Some(ProposerAction { fee_multiplier_delta: 1, reward_dest: a0 });
            // apply to the parent: reconstruct the parent by restoring from the fabricated block is not needed:
            // `u` came from next_unsealed of a sealed state equal to the one below
            let mut p3 = Pc::new();
            p3.key_addr(0);
            let parent_state = {
                let a = p3.key_addr(0);
                let mut coins = vec![];
                for i in 0..6u8 {
                    let denom = match i { 4 => Denom::Sym, 5 => Denom::Erg, _ => Denom::Mel };
                    coins.push((CoinID::new(TxHash(tmelcrypt::hash_keyed(b"probecoin", [i])), 0), CoinDataHeight { coin_data: out(a, 1_000_000_000_000, denom), height: BlockHeight(8) }));
                }
                let spec = FabSpec {
                    network: net, height: 10, fee_pool: 1 << 20, fee_multiplier: 100, dosc_speed: 1_000_000, coins,
                    pools: vec![
                        (PoolKey::new(Denom::Mel, Denom::Sym), pool(2_000_000_000, 3_000_000_000, 1_000_000_000)),
                        (PoolKey::new(Denom::Mel, Denom::Erg), pool(2_000_000_000, 3_000_000_000, 1_000_000_000)),
                        (PoolKey::new(Denom::Erg, Denom::Sym), pool(2_000_000_000, 3_000_000_000, 1_000_000_000)),
                    ],
                    stakes: vec![], history: vec![(9, 1_000_000), (8, 1_000_000)],
                };
                p3.w.fabricate(&spec).0
            };
            let r = parent_state.apply_block(&blk);
            verdict(id, r.is_ok(), &format!("block with delta 0 -> 1 at multiplier 100 accepted={}", r.is_ok()));
        }
        // catvec length overflow after 64 doublings
        "F13" => {
            use OpCode::*;
            let mut ops = vec![PushB(vec![7])];
            for _ in 0..64 {
                ops.push(Dup);
                ops.push(BAppend);
            }
            let r = silent(|| Covenant::from_ops(&ops).debug_execute(&[]));
            verdict(id, r.is_err(), &format!("panicked={} weight={}", r.is_err(), Covenant::from_ops(&ops).weight()));
        }
        // BtoI on a huge rope: bytes materialised must stay small
        "F14" => {
            use OpCode::*;
            let ops = vec![PushB(vec![1, 2]), Loop(24, 2), Dup, BAppend, BtoI];
            melvm::verif_hooks::reset_counters();
            let t = std::time::Instant::now();
            let r = Covenant::from_ops(&ops).debug_execute(&[]);
            let mat = melvm::verif_hooks::bytes_materialised();
            let w = Covenant::from_ops(&ops).weight();
            verdict(id, mat as u128 > 256 * w, &format!("result={:?} bytes-materialised={} weight={} ms={}", r.is_some(), mat, w, t.elapsed().as_millis()));
        }
        "F15" => {
            let k0 = p.wallet.keys[0].pk;
            let spec = FabSpec {
                network: net, height: 10, fee_pool: 0, fee_multiplier: 100, dosc_speed: 1_000_000, coins: vec![],
                pools: vec![(PoolKey::new(Denom::Mel, Denom::Sym), pool(1 << 30, 1 << 30, 1 << 30)), (PoolKey::new(Denom::Mel, Denom::Erg), pool(1 << 30, 1 << 30, 1 << 30))],
                stakes: vec![(TxHash(tmelcrypt::hash_single(b"st")), StakeDoc { pubkey: k0, e_start: 0, e_post_end: 5, syms_staked: CoinValue(90) })],
                history: vec![(9, 1_000_000)],
            };
            let (s, _) = p.w.fabricate(&spec);
            let empty = s.confirm(BTreeMap::new()).is_some();
            let mut full = BTreeMap::new();
            full.insert(k0, p.wallet.keys[0].sk.sign(&s.header().hash().0).into());
            let all = s.confirm(full).is_some();
            verdict(id, empty || !all, &format!("empty-proof-confirms={} unanimous-proof-confirms={}", empty, all));
        }
        // F21: stakes adding up to 2^128 or more: the plain u128 sums in votes/total_votes overflowed (panic with
        // overflow checks; wrapped without them, letting a sliver of the stake confirm)
        "F21" => {
            let ks: Vec<_> = (0..3).map(|i| p.wallet.keys[i].pk).collect();
            let mk = |amts: [u128; 3]| FabSpec {
                network: net, height: 10, fee_pool: 0, fee_multiplier: 100, dosc_speed: 1_000_000, coins: vec![],
                pools: vec![(PoolKey::new(Denom::Mel, Denom::Sym), pool(1 << 30, 1 << 30, 1 << 30)), (PoolKey::new(Denom::Mel, Denom::Erg), pool(1 << 30, 1 << 30, 1 << 30))],
                stakes: (0..3).map(|i| (TxHash(tmelcrypt::hash_single(&[b's', i as u8])), StakeDoc { pubkey: ks[i], e_start: 0, e_post_end: 5, syms_staked: CoinValue(amts[i]) })).collect(),
                history: vec![(9, 1_000_000)],
            };
            let (big, _) = p.w.fabricate(&mk([1 << 127, 1 << 127, 1]));
            let sliver = {
                let mut m = BTreeMap::new();
                m.insert(ks[2], p.wallet.keys[2].sk.sign(&big.header().hash().0).into());
                m
            };
            let r = silent(|| big.confirm(sliver).is_some());
            // control: ordinary totals still follow the two-thirds rule
            let (small, _) = p.w.fabricate(&mk([10, 10, 1]));
            let sign = |s: &melstf::SealedState<Cas>, who: &[usize]| {
                let mut m = BTreeMap::new();
                for i in who {
                    m.insert(ks[*i], p.wallet.keys[*i].sk.sign(&s.header().hash().0).into());
                }
                m
            };
            let maj = small.confirm(sign(&small, &[0, 1])).is_some();
            let mino = small.confirm(sign(&small, &[2])).is_some();
            let bad = !matches!(r, Ok(false));
            verdict(id, bad || !maj || mino, &format!("stakes 2^127+2^127+1, proof by the 1-stake key: {}; control 10+10+1: majority-confirms={} sliver-confirms={}", match r { Ok(true) => "CONFIRMED", Ok(false) => "not confirmed", Err(_) => "panicked" }, maj, mino));
        }
        // swap into a pool emptied by a full withdrawal
        "F16" => {
            let (mut u, wc) = p.base(net, 10, 0);
            let a0 = p.key_addr(0);
            // new pool MEL/ERG is builtin; use a custom token pool
            let mint = p.tx(TxKind::Normal, &wc[0..1], vec![out(a0, 1000, Denom::NewCustom), out(a0, 1000, Denom::Mel)], vec![], 0);
            u.apply_tx(&mint).unwrap();
            let tok = Denom::Custom(mint.hash_nosigs());
            let key = PoolKey::new(Denom::Mel, tok);
            let mut u = u.seal(None).next_unsealed();
            let tokc = p.wcoin(&mint, 0, 11);
            let melc = p.wcoin(&mint, 1, 11);
            let (o0, o1) = (out(a0, 1000, key.left()), out(a0, 1000, key.right()));
            let dep = p.tx(TxKind::LiqDeposit, &[wc[1].clone(), tokc, melc], vec![o0, o1], key.to_bytes().to_vec(), 0);
            u.apply_tx(&dep).unwrap();
            let s = u.seal(None);
            let liqc = s.coin(dep.output_coinid(0)).unwrap();
            let mut u = s.next_unsealed();
            // withdraw everything: single output = the liq coin; the MEL fee coin is consumed entirely (multiplier 0 => fee = its value)
            let feec = WCoin { id: wc[2].id, cdh: wc[2].cdh.clone(), spec: CovSpec::StdNew(0) };
            let liqw = WCoin { id: dep.output_coinid(0), cdh: liqc.clone(), spec: CovSpec::StdNew(0) };
            let wd = assemble(&p.wallet, TxKind::LiqWithdraw, &[feec.clone(), liqw], vec![out(a0, liqc.coin_data.value.0, liqc.coin_data.denom)], feec.cdh.coin_data.value.0, key.to_bytes().to_vec());
            p.w.names.reg_tx(&wd);
            let wok = u.apply_tx(&wd).is_ok();
            let s = u.seal(None);
            let emptied = s.pool(key).map(|p| (p.lefts, p.rights, p.liqs));
            let mut u = s.next_unsealed();
            let sw = p.tx(TxKind::Swap, &wc[3..4], vec![out(a0, 100, Denom::Mel)], key.to_bytes().to_vec(), 0);
            let sok = u.apply_tx(&sw).is_ok();
            let r = silent(|| u.seal(None));
            verdict(id, r.is_err(), &format!("withdraw-applied={} pool-after={:?} swap-applied={} seal-panicked={}", wok, emptied, sok, r.is_err()));
        }
        // deep nesting: recursive drop overflows the native stack (aborts the process)
        "F17" => {
            use OpCode::*;
            let ops = vec![VEmpty, Loop(60000, 2), VEmpty, VPush, VLength];
            let w = Covenant::from_ops(&ops).weight();
            println!("PROBE-START F17 weight={}", w);
            let r = std::thread::Builder::new().stack_size(2 << 20).spawn(move || Covenant::from_ops(&ops).debug_execute(&[]).is_some()).unwrap().join();
            verdict(id, r.is_err(), &format!("survived={:?}", r.ok()));
        }
        // the per-denomination input total is a plain `+`: on MAINNET, within any supply, a batch of two faucet
        // transactions (which will be rejected later: no faucets on mainnet) and a spender of 256 of their 2^120-valued
        // outputs overflows it while the transactions are validated - a panic with overflow checks, a wrapped total
        // without (the passing test `overflow_coins` is #[should_panic]: it pins the panic)
        "F26" => {
            let at = melvm::Covenant::always_true().hash();
            let cfg = melstf::GenesisConfig {
                network: NetID::Mainnet,
                init_coindata: out(at, 1_000_000, Denom::Mel),
                stakes: Default::default(),
                init_fee_pool: CoinValue(0),
                init_fee_multiplier: 0,
            };
            let u = cfg.realize(&p.w.db);
            let mk = |tag: u8| Transaction {
                kind: TxKind::Faucet,
                inputs: vec![],
                outputs: (0..200).map(|_| out(at, 1 << 120, Denom::Mel)).collect(),
                fee: CoinValue(0),
                covenants: vec![],
                data: vec![tag].into(),
                sigs: vec![],
            };
            let (f1, f2) = (mk(1), mk(2));
            let mut inputs: Vec<CoinID> = (0..200u8).map(|i| f1.output_coinid(i)).collect();
            inputs.extend((0..56u8).map(|i| f2.output_coinid(i)));
            let spender = Transaction {
                kind: TxKind::Normal,
                inputs,
                outputs: vec![out(at, 12345, Denom::Mel)],
                fee: CoinValue(0),
                covenants: vec![melvm::Covenant::always_true().to_bytes()],
                data: Default::default(),
                sigs: vec![],
            };
            let batch = vec![f1, f2, spender];
            let r = silent(|| u.clone().apply_tx_batch(&batch));
            // control: without the spender the batch is simply rejected (faucets are not allowed on mainnet)
            let c = silent(|| u.clone().apply_tx_batch(&batch[..2]));
            verdict(id, r.is_err(), &format!("mainnet batch [faucet, faucet, spender of 256 outputs of 2^120] panicked={} result={:?}; the two faucets alone: {:?}", r.is_err(), r.ok().map(|x| x.is_ok()), c.ok().map(|x| x.is_ok())));
        }
        // MEL outputs + fee = 2^128
        "F18" => {
            let (u, _) = p.base(net, 10, 0);
            let a0 = p.key_addr(0);
            let tx = Transaction {
                kind: TxKind::Normal,
                inputs: vec![],
                outputs: (0..255).map(|_| out(a0, 1 << 120, Denom::Mel)).collect(),
                fee: CoinValue(1 << 120),
                covenants: vec![],
                data: Default::default(),
                sigs: vec![],
            };
            let r = silent(|| u.clone().apply_tx(&tx));
            verdict(id, r.is_err(), &format!("apply_tx panicked={} result={:?}", r.is_err(), r.ok().map(|x| x.is_ok())));
        }
        // novasmt alone: random inserts / deletes (empty value) of keys with shared nibble prefixes, against a map
        "smt-fuzz" => {
            use crate::rng::Rng;
            use novasmt::Database;
            let seed: u64 = std::env::var("VERIF_SEED").ok().and_then(|v| v.parse().ok()).unwrap_or(1);
            let rounds: u64 = std::env::var("VERIF_ROUNDS").ok().and_then(|v| v.parse().ok()).unwrap_or(2000);
            let mut r = Rng::new(seed);
            let mut bad = None;
            'outer: for round in 0..rounds {
                let db = Database::new(Cas::default());
                let mut tree = db.get_tree([0u8; 32]).unwrap();
                let mut model: BTreeMap<[u8; 32], Vec<u8>> = BTreeMap::new();
                // a pool of keys sharing prefixes of various lengths
                let nkeys = 2 + r.below(14) as usize;
                let mut keys: Vec<[u8; 32]> = vec![];
                for _ in 0..nkeys {
                    let mut k = [0u8; 32];
                    for b in k.iter_mut() {
                        *b = r.next() as u8;
                    }
                    if !keys.is_empty() && r.chance(2, 3) {
                        let base = keys[r.below(keys.len() as u64) as usize];
                        let share_nibbles = 1 + r.below(6) as usize;
                        for i in 0..share_nibbles {
                            let byte = i / 2;
                            if i % 2 == 0 {
                                k[byte] = (base[byte] & 0xf0) | (k[byte] & 0x0f);
                            } else {
                                k[byte] = base[byte];
                            }
                        }
                    }
                    keys.push(k);
                }
                let mut trace: Vec<String> = vec![];
                let nops = 2 + r.below(40);
                for _ in 0..nops {
                    let k = keys[r.below(keys.len() as u64) as usize];
                    let mut del = r.chance(2, 5);
                    // VERIF_SMT_STRICT: never delete a key that is not bound (what a careful caller does)
                    if del && std::env::var("VERIF_SMT_STRICT").is_ok() && !model.contains_key(&k) {
                        del = false;
                    }
                    let v: Vec<u8> = if del { vec![] } else { vec![r.next() as u8; 1 + r.below(3) as usize] };
                    trace.push(format!("{}:{}", hex::encode(&k[..4]), hex::encode(&v)));
                    let res = std::panic::catch_unwind(std::panic::AssertUnwindSafe(|| tree.clone().with(k, &v)));
                    match res {
                        Ok(t) => tree = t,
                        Err(_) => {
                            bad = Some(format!("round {} panicked after ops {}", round, trace.join(",")));
                            break 'outer;
                        }
                    }
                    if del {
                        model.remove(&k);
                    } else {
                        model.insert(k, v);
                    }
                    // count, contents, and history-independence of the root
                    let cnt = std::panic::catch_unwind(std::panic::AssertUnwindSafe(|| tree.count())).unwrap_or(u64::MAX);
                    if cnt != model.len() as u64 && std::env::var("VERIF_SMT_NOCOUNT").is_err() {
                        bad = Some(format!("round {} count {} but {} entries after ops {}", round, cnt, model.len(), trace.join(",")));
                        break 'outer;
                    }
                    let mut fresh = db.get_tree([0u8; 32]).unwrap();
                    for (mk, mv) in model.iter() {
                        fresh = fresh.with(*mk, mv);
                    }
                    if fresh.root_hash() != tree.root_hash() {
                        bad = Some(format!("round {} root depends on history after ops {}", round, trace.join(",")));
                        break 'outer;
                    }
                }
            }
            verdict(id, bad.is_some(), &bad.unwrap_or_else(|| format!("{} rounds consistent", rounds)));
        }
        // F22: the grandfathered faucet transaction twice in one batch (identical, or two signature variants, both orders):
        // accepted before the fix, with a transactions root that depended on the order
        "F22" => {
            let (u0, _) = p.base(net, 10, 2);
            let mut g = grandfathered_faucet();
            g.sigs = vec![vec![1u8; 64].into()];
            let mut g2 = g.clone();
            g2.sigs.push(vec![0x12u8, 0xb4, 0xd4].into());
            let act = Some(ProposerAction { fee_multiplier_delta: -128, reward_dest: p.key_addr(1) });
            let run = |txs: &[Transaction]| {
                let mut u = u0.clone();
                let r = u.apply_tx_batch(txs);
                let h = u.seal(act).header();
                (r.is_ok(), h.coins_hash, h.transactions_hash, h.fee_pool)
            };
            let a = run(&[g.clone(), g2.clone()]);
            let b = run(&[g2.clone(), g.clone()]);
            let c = run(&[g.clone(), g.clone()]);
            verdict(id, a.0 || b.0 || c.0 || a != b, &format!("accepted / coins root / transactions root / fee pool: [g,g']={:?} [g',g]={:?} [g,g]={:?}", a, b, c));
        }
        // F23: before TIP-902 is active (Testnet below height 500, Mainnet below 180000) the ERG/SYM pool is not a builtin
        // yet, so a user can open it with an ordinary deposit and withdraw everything again; `create_builtins` only asks
        // whether the pool exists, so at activation it exists with zero reserves and pegging divides by zero
        "F23" => {
            // like `base`, but without the ERG/SYM pool
            let a0 = p.key_addr(0);
            let mut coins = vec![];
            for i in 0..6u8 {
                let denom = match i { 4 => Denom::Sym, 5 => Denom::Erg, _ => Denom::Mel };
                coins.push((CoinID::new(TxHash(tmelcrypt::hash_keyed(b"probecoin", [i])), 0), CoinDataHeight { coin_data: out(a0, 1_000_000_000_000, denom), height: BlockHeight(400) }));
            }
            let spec = FabSpec {
                network: NetID::Testnet, height: 496, fee_pool: 1 << 20, fee_multiplier: 0, dosc_speed: 1_000_000, coins: coins.clone(),
                pools: vec![
                    (PoolKey::new(Denom::Mel, Denom::Sym), pool(2_000_000_000, 3_000_000_000, 1_000_000_000)),
                    (PoolKey::new(Denom::Mel, Denom::Erg), pool(2_000_000_000, 3_000_000_000, 1_000_000_000)),
                ],
                stakes: vec![], history: vec![(495, 1_000_000), (494, 1_000_000)],
            };
            let (sealed0, _) = p.w.fabricate(&spec);
            let mut u = sealed0.next_unsealed();
            let wc: Vec<WCoin> = coins.into_iter().map(|(id, cdh)| WCoin { id, cdh, spec: CovSpec::StdNew(0) }).collect();
            let key = PoolKey::new(Denom::Erg, Denom::Sym);
            let (l, rr) = (key.left(), key.right());
            let coin_of = |d: Denom| if d == Denom::Sym { wc[4].clone() } else { wc[5].clone() };
            let dep = p.tx(TxKind::LiqDeposit, &[wc[0].clone(), coin_of(l), coin_of(rr)], vec![out(a0, 1000, l), out(a0, 1000, rr), out(a0, 1_000_000_000_000 - 1000, l), out(a0, 1_000_000_000_000 - 1000, rr)], key.to_bytes().to_vec(), 0);
            let dep_ok = u.apply_tx(&dep).is_ok();
            let s = u.seal(None);
            let opened = s.pool(key).map(|p| (p.lefts, p.rights, p.liqs));
            let mut u = s.next_unsealed(); // height 498
            let liqc = s.coin(dep.output_coinid(0));
            let mut wd_ok = false;
            if let Some(liqc) = liqc {
                let feec = wc[1].clone();
                let liqw = WCoin { id: dep.output_coinid(0), cdh: liqc.clone(), spec: CovSpec::StdNew(0) };
                let wd = assemble(&p.wallet, TxKind::LiqWithdraw, &[feec.clone(), liqw], vec![out(a0, liqc.coin_data.value.0, liqc.coin_data.denom)], feec.cdh.coin_data.value.0, key.to_bytes().to_vec());
                p.w.names.reg_tx(&wd);
                wd_ok = u.apply_tx(&wd).is_ok();
            }
            let s = u.seal(None);
            let emptied = s.pool(key).map(|p| (p.lefts, p.rights, p.liqs));
            // blocks 499 and 500: TIP-902 switches on at 500
            let mut panicked = false;
            let mut cur = s;
            for _ in 0..3 {
                let nu = cur.next_unsealed();
                match silent(|| nu.seal(None)) {
                    Ok(ns) => cur = ns,
                    Err(_) => {
                        panicked = true;
                        break;
                    }
                }
            }
            let at_end = cur.pool(key).map(|p| (p.lefts, p.rights, p.liqs));
            let has_reserves = at_end.map(|p| p.0 > 0 && p.1 > 0).unwrap_or(false);
            verdict(id, dep_ok && wd_ok && (panicked || !has_reserves), &format!("deposit={} opened={:?} withdraw-all={} emptied={:?} sealing-through-activation-panicked={} erg/sym pool at height {}={:?}", dep_ok, opened, wd_ok, emptied, panicked, cur.header().height.0, at_end));
        }
        // a user-opened ERG/SYM pool from before TIP-902, emptied by its only holder *after* the activation: the
        // withdrawals of that block leave it without reserves and the pegging step of the same block needs its price
        "F24" => {
            let a0 = p.key_addr(0);
            let mut coins = vec![];
            for i in 0..6u8 {
                let denom = match i { 4 => Denom::Sym, 5 => Denom::Erg, _ => Denom::Mel };
                coins.push((CoinID::new(TxHash(tmelcrypt::hash_keyed(b"probecoin", [i])), 0), CoinDataHeight { coin_data: out(a0, 1_000_000_000_000, denom), height: BlockHeight(400) }));
            }
            let spec = FabSpec {
                network: NetID::Testnet, height: 496, fee_pool: 1 << 20, fee_multiplier: 0, dosc_speed: 1_000_000, coins: coins.clone(),
                pools: vec![
                    (PoolKey::new(Denom::Mel, Denom::Sym), pool(2_000_000_000, 3_000_000_000, 1_000_000_000)),
                    (PoolKey::new(Denom::Mel, Denom::Erg), pool(2_000_000_000, 3_000_000_000, 1_000_000_000)),
                ],
                stakes: vec![], history: vec![(495, 1_000_000), (494, 1_000_000)],
            };
            let (sealed0, _) = p.w.fabricate(&spec);
            let mut u = sealed0.next_unsealed();
            let wc: Vec<WCoin> = coins.into_iter().map(|(id, cdh)| WCoin { id, cdh, spec: CovSpec::StdNew(0) }).collect();
            let key = PoolKey::new(Denom::Erg, Denom::Sym);
            let (l, rr) = (key.left(), key.right());
            let coin_of = |d: Denom| if d == Denom::Sym { wc[4].clone() } else { wc[5].clone() };
            let dep = p.tx(TxKind::LiqDeposit, &[wc[0].clone(), coin_of(l), coin_of(rr)], vec![out(a0, 5000, l), out(a0, 7000, rr), out(a0, 1_000_000_000_000 - 5000, l), out(a0, 1_000_000_000_000 - 7000, rr)], key.to_bytes().to_vec(), 0);
            let dep_ok = u.apply_tx(&dep).is_ok();
            let mut cur = u.seal(None); // block 497
            let opened = cur.pool(key).map(|p| (p.lefts, p.rights, p.liqs));
            while cur.header().height.0 < 501 {
                cur = cur.next_unsealed().seal(None);
            }
            let kept = cur.pool(key).map(|p| (p.lefts, p.rights, p.liqs));
            let mut u = cur.next_unsealed(); // height 502, TIP-902 active since 500
            let mut wd_ok = false;
            if let Some(liqc) = cur.coin(dep.output_coinid(0)) {
                let feec = wc[1].clone();
                let liqw = WCoin { id: dep.output_coinid(0), cdh: liqc.clone(), spec: CovSpec::StdNew(0) };
                let wd = assemble(&p.wallet, TxKind::LiqWithdraw, &[feec.clone(), liqw], vec![out(a0, liqc.coin_data.value.0, liqc.coin_data.denom)], feec.cdh.coin_data.value.0, key.to_bytes().to_vec());
                p.w.names.reg_tx(&wd);
                wd_ok = u.apply_tx(&wd).is_ok();
            }
            let r = silent(|| u.seal(None));
            let after = r.as_ref().ok().and_then(|s| s.pool(key)).map(|p| (p.lefts, p.rights, p.liqs));
            let priced = after.map(|p| p.0 > 0 && p.1 > 0).unwrap_or(false);
            verdict(id, dep_ok && wd_ok && (r.is_err() || !priced), &format!("deposit={} opened={:?} kept-at-activation={:?} withdraw-all-after-activation={} seal-panicked={} erg/sym pool after that seal={:?}", dep_ok, opened, kept, wd_ok, r.is_err(), after));
        }
        // the first block of a chain: a coin whose covenant reads the (stand-in) previous header is made and spent; one at a
        // time and as one batch must give the same verdict
        "F25" => {
            let free = Covenant::always_true();
            let mk = |c: &Covenant, v: u128| CoinData { covhash: c.hash(), value: CoinValue(v), denom: Denom::Mel, additional_data: vec![].into() };
            let mut differing = vec![];
            for field in [4u8, 5, 6, 9] {
                for want_zero in [false, true] {
                    let mut ops = vec![OpCode::PushI(U256::from(field)), OpCode::LoadImm(10), OpCode::VRef];
                    if field != 6 {
                        ops.push(OpCode::BtoI);
                    }
                    if want_zero {
                        ops.push(OpCode::PushI(U256::from(0u8)));
                        ops.push(OpCode::Eql);
                    }
                    let reader = Covenant::from_ops(&ops);
                    let db = novasmt::Database::new(Cas::default());
                    let genesis = melstf::GenesisConfig { network: NetID::Custom02, init_coindata: mk(&free, 1_000_000), stakes: Default::default(), init_fee_pool: CoinValue(0), init_fee_multiplier: 0 }.realize(&db);
                    let a = Transaction { kind: TxKind::Normal, inputs: vec![CoinID::zero_zero()], outputs: vec![mk(&reader, 1_000_000)], fee: CoinValue(0), covenants: vec![free.to_bytes()], data: vec![].into(), sigs: vec![] };
                    let b = Transaction { kind: TxKind::Normal, inputs: vec![a.output_coinid(0)], outputs: vec![mk(&free, 1_000_000)], fee: CoinValue(0), covenants: vec![reader.to_bytes()], data: vec![].into(), sigs: vec![] };
                    let mut one = genesis.clone();
                    let seq = silent(|| one.apply_tx(&a).and_then(|_| one.apply_tx(&b)).is_ok()).unwrap_or(false);
                    let mut all = genesis.clone();
                    let batch = silent(|| all.apply_tx_batch(&[a.clone(), b.clone()]).is_ok()).unwrap_or(false);
                    if seq != batch {
                        differing.push((field, want_zero, seq, batch));
                    }
                }
            }
            verdict(id, !differing.is_empty(), &format!("(header field, wants zero, accepted one at a time, accepted as a batch) where the two differ={:?}", differing));
        }
        // melpow 0.1.2 (dependency): `Proof::verify` recomputes the Merkle-like commitment but compares the root label
        // with itself, and the 200 challenged leaves are derived from the puzzle alone — so a "proof" of any difficulty
        // is written down with about 200 x difficulty hash evaluations and no sequential work, and melstf mints against it
        "K-melpow-forgeable" => {
            use melpow::HashFunction;
            #[derive(Clone, Copy, PartialEq, Eq, PartialOrd, Ord)]
            struct Node {
                bv: u64,
                len: usize,
            }
            impl Node {
                fn take(self, n: usize) -> Node {
                    Node { bv: self.bv & ((1u64 << n) - 1), len: n }
                }
                fn append(self, b: u64) -> Node {
                    Node { bv: self.bv | (b << self.len), len: self.len + 1 }
                }
                fn bit(self, n: usize) -> u64 {
                    (self.bv >> n) & 1
                }
                fn bytes(self) -> [u8; 8] {
                    (((self.len as u64) << 56) | self.bv).to_be_bytes()
                }
            }
            let forge = |puzzle: &[u8], d: usize| -> Vec<u8> {
                let h = melstf::LegacyMelPowHash;
                let chi = tmelcrypt::hash_keyed(b"chi", puzzle);
                let gammas: Vec<Node> = (0..200)
                    .map(|i| {
                        let seed = tmelcrypt::hash_keyed(format!("gamma-{}", i).as_bytes(), puzzle);
                        let g = u64::from_le_bytes(seed[0..8].try_into().unwrap());
                        let shift = 64 - d;
                        Node { bv: ((g >> shift) << shift).reverse_bits(), len: d }
                    })
                    .collect();
                let mut labels: BTreeMap<Node, Vec<u8>> = BTreeMap::new();
                labels.insert(Node { bv: 0, len: 0 }, vec![7u8; 32]);
                for g in &gammas {
                    for i in 0..d {
                        labels.entry(g.take(i).append(1 - g.bit(i))).or_insert_with(|| vec![7u8; 32]);
                    }
                }
                for last in [0u64, 1] {
                    for g in gammas.iter().filter(|g| g.bit(d - 1) == last) {
                        let mut acc: Vec<u8> = vec![];
                        let mut add = |b: &[u8]| {
                            acc.extend_from_slice(&(b.len() as u64).to_be_bytes());
                            acc.extend_from_slice(b);
                        };
                        add(&g.bytes());
                        for i in 0..d {
                            if g.bit(i) == 1 {
                                add(&labels[&g.take(i).append(0)]);
                            }
                        }
                        labels.insert(*g, h.hash(&acc, &chi).to_vec());
                    }
                }
                labels.iter().flat_map(|(n, l)| n.bytes().into_iter().chain(l.iter().copied())).collect()
            };
            let free = Covenant::always_true();
            let mk = |denom: Denom, v: u128| CoinData { covhash: free.hash(), value: CoinValue(v), denom, additional_data: vec![].into() };
            let db = novasmt::Database::new(Cas::default());
            let sealed0 = melstf::GenesisConfig { network: NetID::Custom02, init_coindata: mk(Denom::Mel, 1_000_000), stakes: Default::default(), init_fee_pool: CoinValue(0), init_fee_multiplier: 0 }.realize(&db).seal(None);
            let mut state1 = sealed0.next_unsealed();
            let seed = CoinID::zero_zero();
            let puzzle = tmelcrypt::hash_keyed(sealed0.header().hash(), &stdcode::serialize(&seed).unwrap());
            let d = 40usize;
            let t0 = std::time::Instant::now();
            let bytes = forge(&puzzle, d);
            let forged_ms = t0.elapsed().as_millis();
            let verifies = silent(|| melpow::Proof::from_bytes(&bytes).map(|p| p.verify(&puzzle, d, melstf::LegacyMelPowHash)).unwrap_or(false)).unwrap_or(false);
            let minted = 419_766_329_354_321u128;
            let mint = Transaction { kind: TxKind::DoscMint, inputs: vec![seed], outputs: vec![mk(Denom::Mel, 1_000_000), mk(Denom::Erg, minted)], fee: CoinValue(0), covenants: vec![free.to_bytes()], data: stdcode::serialize(&(d as u32, bytes)).unwrap().into(), sigs: vec![] };
            let accepted = silent(|| state1.apply_tx(&mint).is_ok()).unwrap_or(false);
            let speed = state1.clone().seal(None).header().dosc_speed;
            verdict(id, verifies && accepted, &format!("difficulty-{} proof written down in {} ms without sequential work: verify={} mint of {} microERG accepted={} dosc_speed afterwards={}", d, forged_ms, verifies, minted, accepted, speed));
        }
        // two covenants of saturated weight: the plain sum overflows
        "F19" => {
            use OpCode::*;
            let (u, wc) = p.base(net, 10, 0);
            let mut heavy: Vec<OpCode> = (0..9).map(|i| Loop(65535, 9 - i)).collect();
            heavy.push(Noop);
            let hb = Covenant::from_ops(&heavy).to_bytes();
            let mut hb2 = hb.to_vec();
            hb2.push(0x09);
            let mut tx = p.tx(TxKind::Normal, &wc[0..1], vec![], vec![], 0);
            tx.covenants.push(hb.clone());
            tx.covenants.push(hb2.into());
            sign(&p.wallet, &mut tx, &wc[0..1]);
            let r = silent(|| u.clone().apply_tx(&tx));
            verdict(id, r.is_err(), &format!("covenant weight={} apply_tx panicked={}", melvm::covenant_weight_from_bytes(&hb), r.is_err()));
        }
        // exponential weighing
        "F2" => {
            use OpCode::*;
            let mut calls = vec![];
            for n in [8usize, 12, 16] {
                let ops: Vec<OpCode> = (0..n).map(|_| Loop(1, 1000)).collect();
                let b = Covenant::from_ops(&ops).to_bytes();
                melvm::verif_hooks::reset_counters();
                let _ = melvm::covenant_weight_from_bytes(&b);
                calls.push((n, b.len(), melvm::verif_hooks::weigh_pass_steps() + melvm::verif_hooks::car_weight_calls()));
            }
            let expo = calls.iter().all(|(n, _, c)| *c as u128 >= (1u128 << n) - 1);
            verdict(id, expo, &format!("(loops, bytes, weigher steps)={:?}", calls));
        }
        // legacy deposit rule inflates (deliberate bug compatibility below height 978392 on mainnet/testnet)
        "K-legacy-deposit" => {
            let (mut u, wc) = p.base(NetID::Testnet, 600, 0);
            let a0 = p.key_addr(0);
            let key = PoolKey::new(Denom::Mel, Denom::Sym);
            let dep = p.tx(TxKind::LiqDeposit, &[wc[0].clone(), wc[4].clone()], vec![out(a0, 1000, Denom::Mel), out(a0, 1000, Denom::Sym), out(a0, 1_000_000_000_000 - 1000, Denom::Sym)], key.to_bytes().to_vec(), 0);
            let ok = u.apply_tx(&dep).is_ok();
            let s = u.seal(None);
            let still = s.coin(dep.output_coinid(1)).is_some();
            verdict(id, ok && still, &format!("deposit-applied={} deposited-right-side-coin-still-unspent={}", ok, still));
        }
        // … and the way the legacy rule "removes" the second output — it deletes the coin id of the *rewritten* deposit,
        // a key that is not in the tree — leaves the coin tree in a state novasmt never produces otherwise: the node
        // counts no longer match the contents and the root is not the root of the same contents inserted afresh
        "K-legacy-smt" => {
            // control: on a network without the legacy rule the sealed coin tree is the tree of its contents
            let mut res = vec![];
            // (before TIP-906 whether the miscount shows depends on where the absent key's path ends, i.e. on the
            // transaction hash: several variants of the deposit are tried and the first that shows it is reported)
            let mut variants = vec![(net, 600u64, 0u128), (NetID::Testnet, 600, 0)];
            for salt in 0..40u128 {
                variants.push((NetID::Testnet, 400, salt));
            }
            for (network, height, salt) in variants {
                if res.len() == 3 {
                    let l2: &(bool, u64, u64, u64, u64, bool) = &res[2];
                    if !l2.5 || l2.2 != l2.4 {
                        break;
                    }
                    res.pop();
                }
                let mut p = Pc::new();
                let (mut u, wc) = p.base(network, height, 0);
                let counted = network != NetID::Testnet || height >= 500;
                let a0 = p.key_addr(0);
                let key = PoolKey::new(Denom::Mel, Denom::Sym);
                let dep = p.tx(TxKind::LiqDeposit, &[wc[0].clone(), wc[4].clone()], vec![out(a0, 1000 + salt, Denom::Mel), out(a0, 1000, Denom::Sym), out(a0, 1_000_000_000_000 - 1000, Denom::Sym)], key.to_bytes().to_vec(), 0);
                let ok = u.apply_tx(&dep).is_ok();
                let before = u.verif_parts().coins.count();
                let s = u.seal(None);
                let after = s.raw_coins_smt().count();
                // the same contents inserted into an empty tree
                let db = novasmt::Database::new(Cas::default());
                let mut fresh: CoinMapping<Cas> = CoinMapping::new(db.get_tree([0u8; 32]).unwrap());
                let mut ids: Vec<CoinID> = wc.iter().map(|c| c.id).collect();
                ids.extend((0..dep.outputs.len() as u8).map(|i| dep.output_coinid(i)));
                let mut n = 0u64;
                for id in ids {
                    if let Some(c) = s.coin(id) {
                        fresh.insert_coin(id, c, counted);
                        n += 1;
                    }
                }
                let same_root = fresh.root_hash().0 == s.raw_coins_smt().root_hash();
                res.push((ok, before, after, n, fresh.inner().count(), same_root));
            }
            let (c, l, l2) = (res[0], res[1], res[2]);
            verdict(id, c.0 && l.0 && l2.0 && c.5 && c.2 == c.4 && (!l.5 || l.2 != l.4 || !l2.5 || l2.2 != l2.4),
                &format!("control(net {:?}): applied={} tree-count before/after seal={}/{} rebuilt={} root-equals-rebuilt={}; legacy(testnet 600): applied={} tree-count before/after seal={}/{} rebuilt={} coins={} root-equals-rebuilt={}; legacy before TIP-906 (testnet 400): tree-count after seal={} rebuilt={} root-equals-rebuilt={}",
                    net, c.0, c.1, c.2, c.4, c.5, l.0, l.1, l.2, l.4, l.3, l.5, l2.2, l2.4, l2.5));
        }
        // K-liq-saturation: `PoolState::deposit` (melstructs) adds the liquidity it issues with a saturating add, but
        // hands out the unsaturated amount: pool (2^120, 1) with 2^120 tokens issued; a deposit of (2^120, 2^120)
        // issues u128::MAX more while the record stops at u128::MAX
        "K-liq-saturation" => {
            let (mut u, wc) = p.base(net, 10, 0);
            let a0 = p.key_addr(0);
            let big: u128 = 1 << 120;
            let mint_a = p.tx(TxKind::Normal, &wc[0..1], vec![out(a0, big, Denom::NewCustom), out(a0, big, Denom::NewCustom), out(a0, 1, Denom::NewCustom)], vec![], 0);
            let mint_b = p.tx(TxKind::Normal, &wc[1..2], vec![out(a0, big, Denom::NewCustom), out(a0, big, Denom::NewCustom), out(a0, 1, Denom::NewCustom)], vec![], 0);
            let m_ok = u.apply_tx_batch(&[mint_a.clone(), mint_b.clone()]).is_ok();
            let (ta, tb) = (Denom::Custom(mint_a.hash_nosigs()), Denom::Custom(mint_b.hash_nosigs()));
            let key = PoolKey::new(ta, tb);
            let (ml, mr) = if key.left() == ta { (&mint_a, &mint_b) } else { (&mint_b, &mint_a) };
            let s1 = u.seal(None);
            let mut u = s1.next_unsealed();
            let d1 = p.tx(TxKind::LiqDeposit, &[wc[2].clone(), p.wcoin(ml, 0, 10), p.wcoin(mr, 2, 10)], vec![out(a0, big, key.left()), out(a0, 1, key.right())], key.to_bytes().to_vec(), 0);
            let d1_ok = u.apply_tx(&d1).is_ok();
            let s2 = u.seal(None);
            let liqs1 = s2.pool(key).map(|p| p.liqs).unwrap_or(0);
            let mut u = s2.next_unsealed();
            let d2 = p.tx(TxKind::LiqDeposit, &[wc[3].clone(), p.wcoin(ml, 1, 10), p.wcoin(mr, 0, 10)], vec![out(a0, big, key.left()), out(a0, big, key.right())], key.to_bytes().to_vec(), 0);
            let d2_ok = u.apply_tx(&d2).is_ok();
            let s3 = silent(|| u.seal(None));
            match s3 {
                Ok(s3) => {
                    let liq = key.liq_token_denom();
                    let held: Vec<u128> = [d1.output_coinid(0), d2.output_coinid(0)].iter().filter_map(|c| s3.coin(*c)).filter(|c| c.coin_data.denom == liq).map(|c| c.coin_data.value.0).collect();
                    let recorded = s3.pool(key).map(|p| p.liqs).unwrap_or(0);
                    let total = held.iter().fold(0u128, |a, b| a.saturating_add(*b));
                    let over = held.len() == 2 && held[0].checked_add(held[1]).map(|t| t > recorded).unwrap_or(true);
                    verdict(id, m_ok && d1_ok && d2_ok && over, &format!("mints={} deposits={}/{} liqs-after-first={} tokens-held={:?} (sum saturates at {}) pool.liqs={}", m_ok, d1_ok, d2_ok, liqs1, held, total, recorded));
                }
                Err(_) => verdict(id, true, "seal panicked"),
            }
        }
        // off mainnet a faucet can mint a pool's liquidity token
        "K-faucet-liq" => {
            let (mut u, wc) = p.base(net, 10, 0);
            let a0 = p.key_addr(0);
            let key = PoolKey::new(Denom::Mel, Denom::Sym);
            let liq = key.liq_token_denom();
            let f = Transaction { kind: TxKind::Faucet, inputs: vec![], outputs: vec![out(a0, 1_000_000_000, liq)], fee: CoinValue(0), covenants: vec![], data: b"x".to_vec().into(), sigs: vec![] };
            p.w.names.reg_tx(&f);
            let fok = u.apply_tx(&f).is_ok();
            let s = u.seal(None);
            let held = s.coin(f.output_coinid(0)).map(|c| c.coin_data.value.0).unwrap_or(0);
            let owned_by_users = held;
            let recorded = s.pool(key).map(|p| p.liqs).unwrap_or(0);
            // withdraw all of it: the builtin pool is emptied and the next pegging step divides by zero
            let mut u = s.next_unsealed();
            let liqw = WCoin { id: f.output_coinid(0), cdh: s.coin(f.output_coinid(0)).unwrap(), spec: CovSpec::StdNew(0) };
            let feec = wc[0].clone();
            let wd = assemble(&p.wallet, TxKind::LiqWithdraw, &[feec.clone(), liqw], vec![out(a0, held, liq)], feec.cdh.coin_data.value.0, key.to_bytes().to_vec());
            p.w.names.reg_tx(&wd);
            let wok = u.apply_tx(&wd).is_ok();
            let r = silent(|| u.seal(None));
            verdict(id, fok && (owned_by_users >= recorded || r.is_err()), &format!("faucet-applied={} liq-tokens-minted={} pool.liqs={} withdraw-applied={} seal-panicked={}", fok, held, recorded, wok, r.is_err()));
        }
        _ => {
            println!("PROBE {} unknown", id);
            std::process::exit(2);
        }
    }
    let _ = U256::ZERO;
}
