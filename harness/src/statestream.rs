//! The state-level correspondence stream: histories of fabricate/genesis, batches, seals,
//! next_unsealed, apply_block, restore, confirm.
use crate::fmt::*;
use crate::rng::Rng;
use crate::statefmt::*;
use crate::txgen::*;
use crate::world::*;
use crate::Out;
use melstf::{CoinMapping, GenesisConfig, SealedState, SmtMapping, StateError, UnsealedState};
use melstructs::*;
use std::collections::BTreeMap;
use tmelcrypt::Hashable;

pub fn err_text(e: &StateError) -> &'static str {
    match e {
        StateError::MalformedTx => "MalformedTx",
        StateError::NonexistentCoin(_) => "NonexistentCoin",
        StateError::UnbalancedInOut => "UnbalancedInOut",
        StateError::InsufficientFees(_) => "InsufficientFees",
        StateError::NonexistentScript(_) => "NonexistentScript",
        StateError::ViolatesScript(_) => "ViolatesScript",
        StateError::InvalidMelPoW => "InvalidMelPoW",
        StateError::WrongHeader(_, _) => "WrongHeader",
        StateError::CoinLocked => "CoinLocked",
        StateError::DuplicateTx => "DuplicateTx",
    }
}

pub fn roots_text(h: &Header) -> String {
    format!(
        "{},{},{},{},{}",
        hx(&h.history_hash.0),
        hx(&h.coins_hash.0),
        hx(&h.transactions_hash.0),
        hx(&h.pools_hash.0),
        hx(&h.stakes_hash.0)
    )
}

pub struct Emphasis {
    pub mutate: u64,   // per-mille of transactions mutated
    pub twins: u64,    // eighths: how often identical coins are created and spent together
    pub epoch_edges: u64, // eighths: how often a fabricated history starts next to a staking-epoch boundary
    pub faucets: u64,  // weight of faucet transactions
    pub tip_edges: u64, // eighths: how often a fabricated history starts one or two blocks below a TIP activation height
    pub pool_ops: u64, // weight of swap/deposit/withdraw
    pub stake_ops: u64,
    pub mint_ops: u64,
    pub batches: u64, // up to this many extra batches per block
    pub blocks: u64,   // blocks per history
    pub chain_ops: bool,
}

pub struct Hist<'a> {
    pub w: &'a mut World,
    pub wallet: Wallet,
    pub out: &'a mut Out,
    pub stats: BTreeMap<String, u64>,
    /// faucet transactions generated so far in this history (for replays)
    pub faucets_seen: Vec<Transaction>,
    /// candidates of the batch generated last: (transaction, the coins it spends), promoted to `spent_in_block` when the
    /// batch is accepted
    pub pending_spenders: Vec<(Transaction, Vec<WCoin>)>,
    /// transactions accepted earlier in the block being built, with the coins they spent (those coins are gone now)
    pub spent_in_block: Vec<(Transaction, Vec<WCoin>)>,
    /// hashes of the stake transactions generated in this history
    pub stake_txs: Vec<TxHash>,
    /// the header every sealed state of this history had when it was made
    pub sealed_headers: Vec<(String, Header)>,
}

impl<'a> Hist<'a> {
    pub fn bump(&mut self, k: &str) {
        *self.stats.entry(k.to_string()).or_insert(0) += 1;
    }

    /// C07 / C03: a sealed state's header is a function of that state alone — read again at the end of the history,
    /// after descendants, siblings and restored copies of the state have been made and sealed, it is the header the
    /// state had when it was sealed, and its stake root is still the root of the state's own stake set
    pub fn recheck_headers(&mut self) {
        let recorded = std::mem::take(&mut self.sealed_headers);
        if recorded.is_empty() {
            return;
        }
        let mut same = true;
        let mut stake_ok = true;
        let mut which = String::new();
        for (name, hdr) in recorded.iter() {
            let Some(sealed) = self.w.sealed.get(name) else { continue };
            let again = silent(|| sealed.header());
            if again.as_ref().ok() != Some(hdr) {
                same = false;
                which = name.clone();
            }
            let stakes = sealed.raw_stakes();
            let db = novasmt::Database::new(Cas::default());
            let mut t = db.get_tree([0u8; 32]).unwrap();
            for (k, v) in stakes.iter() {
                t = t.with(tmelcrypt::hash_single(&stdcode::serialize(k).unwrap()).0, &stdcode::serialize(v).unwrap());
            }
            if let Ok(a) = &again {
                if t.root_hash() != a.stakes_hash.0 {
                    stake_ok = false;
                    which = name.clone();
                }
            }
        }
        self.out.fact("C07", "header-read-again-later-is-the-same", same, &format!("sealed-states={} {}", recorded.len(), which));
        self.out.fact("C07", "stake-root-read-again-later-is-the-stake-set", stake_ok, &format!("sealed-states={} {}", recorded.len(), which));
        // C13: "the stake commitment in the header reflects exactly the registered, unexpired stakes" — of that state
        self.out.fact("C13", "stake-root-read-again-later-is-the-stake-set", stake_ok && same, &format!("sealed-states={} {}", recorded.len(), which));
    }

    // ---------------------------------------------------------------- basic ops

    pub fn op_fab(&mut self, spec: &FabSpec) -> String {
        let name = self.w.fresh("s");
        let (sealed, text) = self.w.fabricate(spec);
        let dump = dump_unsealed(sealed.verif_inner(), &self.w.names);
        self.out.emit(&format!("fab {} {}", name, text), &format!("ok {}", dump));
        self.w.sealed.insert(name.clone(), sealed);
        self.bump("op:fab");
        name
    }

    /// "many blocks later": the content of the sealed state `src` (coins, pools, fee pool, multiplier, speed, stakes)
    /// as a sealed state at the later height `height`, with the stake-set OBJECT of `src` carried along (a chain that ran
    /// on would still hold it), and one synthetic previous header.  For the model this is an ordinary fabricated state.
    pub fn op_warp(&mut self, src: &str, height: u64) -> String {
        let s = self.w.sealed.get(src).unwrap().clone();
        let p = s.verif_inner().verif_parts();
        let coins_map = melstf::CoinMapping::new(p.coins.clone());
        let mut coins: Vec<(CoinID, CoinDataHeight)> = self.w.names.coins.values().filter_map(|id| coins_map.get_coin(*id).map(|c| (*id, c))).collect();
        coins.sort_by_key(|c| (c.0.txhash.0 .0, c.0.index));
        coins.dedup_by_key(|c| c.0);
        let pools_map: melstf::SmtMapping<Cas, PoolKey, PoolState> = melstf::SmtMapping::new(p.pools.clone());
        let mut pools: Vec<(PoolKey, PoolState)> = vec![];
        for k in self.w.names.poolkeys.clone() {
            if let Some(ps) = pools_map.get(&k) {
                if !pools.iter().any(|(q, _)| crate::statefmt::poolkey_bytes(q) == crate::statefmt::poolkey_bytes(&k)) {
                    pools.push((k, ps));
                }
            }
        }
        let mut stakes: Vec<(TxHash, StakeDoc)> = p.stakes.iter().map(|(k, d)| (*k, *d)).collect();
        stakes.sort_by_key(|e| e.0 .0 .0);
        let spec = FabSpec {
            network: p.network,
            height,
            fee_pool: p.fee_pool.0,
            fee_multiplier: p.fee_multiplier,
            dosc_speed: p.dosc_speed,
            coins,
            pools,
            stakes,
            history: vec![(height - 1, p.dosc_speed)],
        };
        let name = self.w.fresh("s");
        let (sealed, text) = self.w.fabricate_with(&spec, Some(p.stakes.clone()));
        let dump = dump_unsealed(sealed.verif_inner(), &self.w.names);
        self.out.emit(&format!("fab {} {}", name, text), &format!("ok {}", dump));
        self.w.sealed.insert(name.clone(), sealed);
        self.bump("op:warp");
        name
    }

    pub fn op_genesis(&mut self, cfg: GenesisConfig) -> String {
        let name = self.w.fresh("u");
        let (st, text) = self.w.genesis(cfg);
        let dump = dump_unsealed(&st, &self.w.names);
        self.out.emit(&format!("genesis {} {}", name, text), &format!("ok {}", dump));
        self.w.unsealed.insert(name.clone(), st);
        self.bump("op:genesis");
        name
    }

    pub fn op_next(&mut self, src: &str) -> Option<String> {
        let dst = self.w.fresh("u");
        let s = self.w.sealed.get(src).unwrap().clone();
        let res = silent(|| {
            let hdr = s.header();
            (hdr, s.next_unsealed())
        });
        match res {
            Ok((hdr, nu)) => {
                self.w.names.reg_height(nu.verif_parts().height.0);
                let dump = dump_unsealed(&nu, &self.w.names);
                self.out.emit(
                    &format!("next {} {} {} {}", src, dst, roots_text(&hdr), hx(&hdr.hash().0)),
                    &format!("ok {} {}", header_text(&hdr), dump),
                );
                self.w.unsealed.insert(dst.clone(), nu);
                self.bump("op:next");
                Some(dst)
            }
            Err(_) => {
                self.out.emit(&format!("next {} {} - -", src, dst), "panic");
                self.bump("op:next-panic");
                None
            }
        }
    }

    /// apply a batch to a clone of `src`; on success the result is stored under the returned name
    pub fn op_batch(&mut self, src: &str, txs: &[Transaction], label: &str) -> Option<String> {
        let dst = self.w.fresh("u");
        let s = self.w.unsealed.get(src).unwrap().clone();
        let oracles = self.w.batch_oracles(&s, txs);
        let height = s.verif_parts().height.0;
        let lasthdr = if height == 0 {
            self.w.last_header(&s).map(|h| format!("{}@{}", header_text(&h), hx(&h.hash().0))).unwrap_or("-".into())
        } else {
            "-".into()
        };
        let mut st = s.clone();
        // with RAYON_NUM_THREADS set, the batch is validated from INSIDE a rayon pool of that many threads (a node that
        // validates on a pool worker): rayon then cuts the slice up differently than for a call from outside the pool
        let res = silent(|| match explicit_pool() {
            Some(p) => p.install(|| st.apply_tx_batch(txs)),
            None => st.apply_tx_batch(txs),
        });
        let _ = melvm::verif_hooks::take_log();
        let line = format!(
            "batch {} {} {} {} {}",
            src,
            dst,
            lasthdr,
            oracles,
            if txs.is_empty() { "-".to_string() } else { txs.iter().map(tx_text).collect::<Vec<_>>().join(" ") }
        );
        for tx in txs {
            let k: u8 = tx.kind.into();
            self.bump(&format!("txkind:{:02x}", k));
        }
        let approvals = self.w.approvals.clone();
        for (o, i) in std::mem::take(&mut self.w.env_lines) {
            self.out.emit(&o, &i);
            self.bump("op:env");
        }
        match res {
            Ok(Ok(())) => {
                let dump = dump_unsealed(&st, &self.w.names);
                self.out.emit(&line, &format!("ok {}", dump));
                // C04: every input of an accepted batch is approved by its covenant, evaluated independently
                let bad: Vec<String> = approvals.iter().filter(|a| a.2 != Some(true)).map(|a| format!("tx{}.in{}={:?}", a.0, a.1, a.2)).collect();
                self.out.fact("C04", "independent-covenant-evaluation", bad.is_empty(), &bad.join(" "));
                // C05: every accepted transaction pays at least its own minimum fee
                let mult = s.verif_parts().fee_multiplier;
                let under: Vec<String> = txs
                    .iter()
                    .enumerate()
                    .filter(|(_, t)| t.fee.0 < crate::txgen::min_fee(t, mult))
                    .map(|(i, t)| format!("tx{} pays {} < minimum {}", i, t.fee.0, crate::txgen::min_fee(t, mult)))
                    .collect();
                self.out.fact("C05", "accepted-tx-pays-minimum-fee", under.is_empty(), &under.join("; "));
                self.batch_order_facts(&s, txs, Some(&dump));
                self.w.unsealed.insert(dst.clone(), st);
                self.bump(&format!("batch-ok:{}", label));
                Some(dst)
            }
            Ok(Err(e)) => {
                self.out.emit(&line, &format!("err {}", err_text(&e)));
                // C02: a rejected batch leaves the state exactly as it was
                let same = dump_unsealed(&st, &self.w.names) == dump_unsealed(&s, &self.w.names)
                    && silent(|| st.clone().seal(None).header()).ok() == silent(|| s.clone().seal(None).header()).ok();
                self.out.fact("C02", "reject-noop", same, err_text(&e));
                self.batch_order_facts(&s, txs, None);
                // a node keeps using the state it offered the batch to: whatever a rejected batch left behind in it
                // is what later operations on `src` run against (the model's `src` is unchanged by a rejection)
                self.w.unsealed.insert(src.to_string(), st);
                self.bump(&format!("batch-err:{}:{}", label, err_text(&e)));
                None
            }
            Err(_) => {
                self.out.emit(&line, "panic");
                self.bump(&format!("batch-panic:{}", label));
                None
            }
        }
    }

    /// C03: every permutation of a small batch gives the same verdict and the same state; an accepted
    /// batch equals applying its transactions one at a time in dependency order.
    pub fn batch_order_facts(&mut self, s: &UnsealedState<Cas>, txs: &[Transaction], accepted_dump: Option<&String>) {
        if txs.len() < 2 || txs.len() > 4 {
            return;
        }
        let n = txs.len();
        let mut idx: Vec<usize> = (0..n).collect();
        let mut perms: Vec<Vec<usize>> = vec![];
        permute(&mut idx, 0, &mut perms);
        let mut bad = vec![];
        for p in perms.iter().skip(1) {
            let ptx: Vec<Transaction> = p.iter().map(|i| txs[*i].clone()).collect();
            let mut c = s.clone();
            let r = silent(|| c.apply_tx_batch(&ptx));
            let _ = melvm::verif_hooks::take_log();
            let verdict = match (&r, accepted_dump) {
                (Ok(Ok(())), Some(d)) => dump_unsealed(&c, &self.w.names) == **d,
                (Ok(Err(_)), None) => true,
                _ => false,
            };
            if !verdict {
                bad.push(format!("perm{:?}{}", p, if r.is_err() { " panicked" } else { "" }));
            }
        }
        self.out.fact("C03", "permutation-invariance", bad.is_empty(), &bad.join(" "));
        if let Some(d) = accepted_dump {
            // dependency order: a transaction follows those whose outputs it spends
            let hashes: Vec<TxHash> = txs.iter().map(|t| t.hash_nosigs()).collect();
            let mut order: Vec<usize> = vec![];
            let mut left: Vec<usize> = (0..n).collect();
            while !left.is_empty() {
                let pos = left.iter().position(|i| {
                    txs[*i].inputs.iter().all(|inp| !left.iter().any(|j| j != i && hashes[*j] == inp.txhash))
                });
                match pos {
                    Some(p) => order.push(left.remove(p)),
                    None => break,
                }
            }
            if left.is_empty() {
                let mut c = s.clone();
                let mut ok = true;
                for i in &order {
                    let r = silent(|| c.apply_tx(&txs[*i]));
                    if !matches!(r, Ok(Ok(()))) {
                        ok = false;
                        break;
                    }
                }
                let _ = melvm::verif_hooks::take_log();
                let same = ok && dump_unsealed(&c, &self.w.names) == **d;
                if !same && std::env::var("VERIF_TRACE").is_ok() {
                    eprintln!("TRACE batch-equals-sequential differs\n  batch: {}\n  seq:   {}", d, dump_unsealed(&c, &self.w.names));
                }
                self.out.fact("C03", "batch-equals-sequential", same, &format!("order{:?} all-accepted={}", order, ok));
            }
        }
    }

    pub fn op_seal(&mut self, src: &str, action: Option<ProposerAction>) -> Option<String> {
        let dst = self.w.fresh("s");
        let s = self.w.unsealed.get(src).unwrap().clone();
        let oracles = self.w.seal_oracles(&s);
        if let Some(a) = &action {
            self.w.names.reg_cov(a.reward_dest);
        }
        let line = format!("seal {} {} {} {}", src, dst, action_text(&action), oracles);
        match silent(|| s.seal(action)) {
            Ok(sealed) => {
                let dump = dump_unsealed(sealed.verif_inner(), &self.w.names);
                self.out.emit(&line, &format!("ok {} {}", action_text(&sealed.proposer_action().cloned()), dump));
                // C07: the transactions root is the commitment the specification describes, and every transaction's
                // position is provable (TIP-908: dense tree over sorted nosigs-hash ++ full-hash; before: SMT txhash -> tx)
                let hdr = sealed.header();
                let txs: Vec<Transaction> = sealed.transactions().cloned().collect();
                let pp = sealed.verif_inner().verif_parts();
                let tip908 = pp.network == NetID::Custom08;
                let (root_ok, proofs_ok) = if tip908 {
                    let mut leaves: Vec<Vec<u8>> = txs
                        .iter()
                        .map(|t| {
                            let mut v = t.hash_nosigs().0 .0.to_vec();
                            v.extend_from_slice(&tmelcrypt::hash_single(&stdcode::serialize(t).unwrap()).0);
                            v
                        })
                        .collect();
                    leaves.sort();
                    let dt = novasmt::dense::DenseMerkleTree::new(&leaves);
                    let mut ok = true;
                    for t in &txs {
                        match sealed.transaction_sorted_posn(t.hash_nosigs()) {
                            Some(i) => {
                                if i >= leaves.len() || !novasmt::dense::verify_dense(&dt.proof(i), hdr.transactions_hash.0, i, novasmt::hash_data(&leaves[i])) || leaves[i][..32] != t.hash_nosigs().0 .0 {
                                    ok = false;
                                }
                            }
                            None => ok = false,
                        }
                    }
                    (dt.root_hash() == hdr.transactions_hash.0, ok)
                } else {
                    let db2 = novasmt::Database::new(novasmt::InMemoryCas::default());
                    let mut smt: SmtMapping<Cas, TxHash, Transaction> = SmtMapping::new(db2.get_tree([0u8; 32]).unwrap());
                    for t in &txs {
                        smt.insert(t.hash_nosigs(), t.clone());
                    }
                    let mut ok = true;
                    for t in &txs {
                        let (v, proof) = smt.get_with_proof(&t.hash_nosigs());
                        let key = tmelcrypt::hash_single(&stdcode::serialize(&t.hash_nosigs()).unwrap());
                        if v.as_ref() != Some(t) || !proof.verify(hdr.transactions_hash.0, key.0, &stdcode::serialize(t).unwrap()) {
                            ok = false;
                        }
                    }
                    (smt.root_hash() == hdr.transactions_hash, ok)
                };
                self.out.fact("C07", "txroot-matches-spec", root_ok, if tip908 { "tip908" } else { "pre-tip908" });
                self.out.fact("C07", "tx-membership-provable", proofs_ok, if tip908 { "tip908" } else { "pre-tip908" });
                // the position accessor: a block transaction's position is its rank among the block's hashes, and a hash
                // that is not in the block has none (the zero hash, the largest hash, a transaction's hash off by one bit
                // at either end, the signature-carrying hash)
                {
                    let mut hashes: Vec<[u8; 32]> = txs.iter().map(|t| t.hash_nosigs().0 .0).collect();
                    hashes.sort();
                    hashes.dedup();
                    let mut bad: Vec<String> = vec![];
                    for (i, h) in hashes.iter().enumerate() {
                        let got = sealed.transaction_sorted_posn(TxHash(tmelcrypt::HashVal(*h)));
                        if got != Some(i) {
                            bad.push(format!("present {} at rank {} answered {:?}", hx(&h[..4]), i, got));
                        }
                    }
                    let mut absent: Vec<[u8; 32]> = vec![[0u8; 32], [0xffu8; 32], tmelcrypt::hash_single(b"no such transaction").0];
                    for t in txs.iter().take(6) {
                        let h = t.hash_nosigs().0 .0;
                        let mut a = h;
                        a[31] ^= 1;
                        absent.push(a);
                        let mut b = h;
                        b[0] ^= 0x80;
                        absent.push(b);
                        absent.push(tmelcrypt::hash_single(&stdcode::serialize(t).unwrap()).0);
                    }
                    for a in absent {
                        if hashes.contains(&a) {
                            continue;
                        }
                        let got = sealed.transaction_sorted_posn(TxHash(tmelcrypt::HashVal(a)));
                        if got.is_some() {
                            bad.push(format!("absent {} answered {:?}", hx(&a[..4]), got));
                        }
                    }
                    self.out.fact("C07", "tx-position-is-rank-absent-has-none", bad.is_empty(), &bad.join("; "));
                }
                // every coin and pool of the sealed state is provable against the header's roots; an absent key is provably absent
                let mut prov_ok = true;
                {
                    let ct = sealed.raw_coins_smt();
                    for (k, v) in ct.iter().take(12) {
                        let (val, proof) = ct.get_with_proof(k);
                        if val.as_ref() != v.as_ref() || !proof.verify(hdr.coins_hash.0, k, &v) {
                            prov_ok = false;
                        }
                    }
                    let absent = tmelcrypt::hash_single(b"surely absent").0;
                    let (val, proof) = ct.get_with_proof(absent);
                    if !val.is_empty() || !proof.verify(hdr.coins_hash.0, absent, b"") || proof.verify(hdr.coins_hash.0, absent, b"x") {
                        prov_ok = false;
                    }
                    let pt = sealed.raw_pools_smt();
                    for (k, v) in pt.iter().take(6) {
                        let (_, proof) = pt.get_with_proof(k);
                        if !proof.verify(hdr.pools_hash.0, k, &v) {
                            prov_ok = false;
                        }
                    }
                    let ht = sealed.raw_history_smt();
                    for (k, v) in ht.iter().take(4) {
                        let (_, proof) = ht.get_with_proof(k);
                        if !proof.verify(hdr.history_hash.0, k, &v) {
                            prov_ok = false;
                        }
                    }
                }
                // the stake commitment: the root of the tree built here, independently, from the stake set (key =
                // hash of the encoded transaction hash, value = the encoded stake document) is the header's stakes_hash,
                // and every stake is provably in it
                {
                    let stakes = sealed.raw_stakes();
                    let db = novasmt::Database::new(Cas::default());
                    let mut t = db.get_tree([0u8; 32]).unwrap();
                    let mut n = 0usize;
                    for (k, v) in stakes.iter() {
                        t = t.with(tmelcrypt::hash_single(&stdcode::serialize(k).unwrap()).0, &stdcode::serialize(v).unwrap());
                        n += 1;
                    }
                    let mut ok = t.root_hash() == hdr.stakes_hash.0;
                    let committed = stakes.pre_tip911();
                    for (k, v) in stakes.iter().take(8) {
                        let key = tmelcrypt::hash_single(&stdcode::serialize(k).unwrap()).0;
                        let (val, proof) = committed.get_with_proof(key);
                        if val.as_ref() != stdcode::serialize(v).unwrap().as_slice() || !proof.verify(hdr.stakes_hash.0, key, &stdcode::serialize(v).unwrap()) {
                            ok = false;
                        }
                    }
                    self.out.fact("C07", "stake-commitment-is-the-stake-set", ok, &format!("stakes={}", n));
                }
                self.out.fact("C07", "state-entries-provable", prov_ok, "");
                self.sealed_headers.push((dst.clone(), hdr));
                self.w.sealed.insert(dst.clone(), sealed);
                self.bump(if action.is_some() { "op:seal-action" } else { "op:seal-none" });
                Some(dst)
            }
            Err(_) => {
                self.out.emit(&line, "panic");
                self.bump("op:seal-panic");
                None
            }
        }
    }

    pub fn op_restore(&mut self, src: &str) -> Option<String> {
        let dst = self.w.fresh("s");
        let s = self.w.sealed.get(src).unwrap().clone();
        let db = self.w.db.clone();
        match silent(|| SealedState::from_block(&s.to_block(), &s.raw_stakes(), &db)) {
            Ok(restored) => {
                let dump = dump_unsealed(restored.verif_inner(), &self.w.names);
                self.out.emit(&format!("restore {} {}", src, dst), &format!("ok {} {}", action_text(&restored.proposer_action().cloned()), dump));
                // C08: the rebuilt state has the same header now, and the same header after the next block
                let tips = s.verif_inner().verif_parts().tips.0;
                let same_now = silent(|| restored.header() == s.header()).unwrap_or(false);
                self.out.fact("C08", "restored-header-equals-original", same_now, "");
                let act = Some(ProposerAction { fee_multiplier_delta: 3, reward_dest: Address(tmelcrypt::hash_single(b"c08")) });
                let cont = silent(|| {
                    let a = s.next_unsealed().seal(act).header();
                    let b = restored.next_unsealed().seal(act).header();
                    a == b
                });
                let detail = if tips > 0 { "pending-tips" } else { "no-pending-tips" };
                self.out.fact("C08", "continuation-differs", cont == Ok(true), detail);
                // faucets across the restart: on the original and on the rebuilt state alike, a faucet nobody has seen is
                // accepted in the next block and every faucet accepted earlier is refused (the one grandfathered transaction
                // aside, which both sides must treat alike) - also AFTER the rebuilt state has accepted a new one
                {
                    let fresh = Transaction {
                        kind: TxKind::Faucet,
                        inputs: vec![],
                        outputs: vec![crate::txgen::out(Address(tmelcrypt::hash_single(b"restart faucet")), 1000, Denom::Mel)],
                        fee: CoinValue(0),
                        covenants: vec![],
                        data: tmelcrypt::hash_single(dst.as_bytes()).0.to_vec().into(),
                        sigs: vec![],
                    };
                    let olds: Vec<Transaction> = self.faucets_seen.iter().rev().take(4).cloned().collect();
                    let run = |st: &SealedState<Cas>| -> Result<Vec<bool>, ()> {
                        silent(|| {
                            let mut u = st.next_unsealed();
                            let mut v = vec![u.apply_tx(&fresh).is_ok()];
                            for f in &olds {
                                v.push(u.apply_tx(f).is_ok());
                            }
                            v
                        })
                    };
                    let (a, b) = (run(&s), run(&restored));
                    self.out.fact("C08", "faucet-verdicts-equal-after-restart", a == b, &format!("original {:?} rebuilt {:?}", a, b));
                    if let Ok(vb) = &b {
                        let gf = crate::txgen::grandfathered_faucet().hash_nosigs();
                        let p = s.verif_inner().verif_parts();
                        let in_state = |f: &Transaction| {
                            // was this faucet really accepted on this lineage? its marker is in the coin tree
                            melstf::CoinMapping::new(p.coins.clone()).get_coin(crate::world::fdp(f.hash_nosigs())).is_some()
                        };
                        let replayed: Vec<String> = olds.iter().zip(vb.iter().skip(1)).filter(|(f, ok)| **ok && f.hash_nosigs() != gf && in_state(f)).map(|(f, _)| hx(&f.hash_nosigs().0 .0[..4])).collect();
                        self.out.fact("C19", "faucet-replayed-after-restart-refused", replayed.is_empty(), &replayed.join(" "));
                    }
                }
                self.w.sealed.insert(dst.clone(), restored);
                self.bump("op:restore");
                Some(dst)
            }
            Err(_) => {
                self.out.emit(&format!("restore {} {}", src, dst), "panic");
                None
            }
        }
    }

    /// apply `block` to the sealed state `src`
    pub fn op_block(&mut self, src: &str, block: &Block, label: &str) -> Option<String> {
        let dst = self.w.fresh("s");
        let s = self.w.sealed.get(src).unwrap().clone();
        // listed in a canonical order (the real apply_block iterates its HashSet in a per-process random order)
        let mut txs: Vec<Transaction> = block.transactions.iter().cloned().collect();
        txs.sort_by_key(|t| (t.hash_nosigs().0 .0, t.sigs.iter().map(|s| s.to_vec()).collect::<Vec<_>>()));
        if let Some(a) = &block.proposer_action {
            self.w.names.reg_cov(a.reward_dest);
        }
        // the roots the honest post-state would have for this transaction set and action
        let honest = silent(|| {
            let mut nu = s.next_unsealed();
            let pre = nu.clone();
            match nu.apply_tx_batch(&txs) {
                Ok(()) => (Some(nu.seal(block.proposer_action).header()), pre),
                Err(_) => (None, pre),
            }
        });
        let _ = melvm::verif_hooks::take_log();
        let (roots, hh, oracles) = match &honest {
            Ok((h, pre)) => {
                let mut o = self.w.batch_oracles(pre, &txs);
                let so = self.w.seal_oracles(pre);
                o = if o == "-" { so } else { format!("{},{}", o, so) };
                match h {
                    Some(h) => (roots_text(h), hx(&h.hash().0), o),
                    None => ("-".to_string(), "-".to_string(), o),
                }
            }
            Err(_) => ("-".to_string(), "-".to_string(), "-".to_string()),
        };
        let parent = silent(|| s.header());
        let (proots, phash) = match &parent {
            Ok(h) => (roots_text(h), hx(&h.hash().0)),
            Err(_) => ("-".into(), "-".into()),
        };
        let line = format!(
            "block {} {} {} {} {} {} {} {} {} {}",
            src,
            dst,
            proots,
            phash,
            roots,
            hh,
            header_text(&block.header),
            action_text(&block.proposer_action),
            oracles,
            if txs.is_empty() { "-".to_string() } else { txs.iter().map(tx_text).collect::<Vec<_>>().join(" ") }
        );
        let res = silent(|| s.apply_block(block));
        let _ = melvm::verif_hooks::take_log();
        match res {
            Ok(Ok(ns)) => {
                self.w.names.reg_height(block.header.height.0);
                let dump = dump_unsealed(ns.verif_inner(), &self.w.names);
                self.out.emit(&line, &format!("ok {}", dump));
                // C06: the returned state has precisely the block's header; a mutated block is not accepted
                let hdr_ok = silent(|| ns.header()).ok() == Some(block.header);
                self.out.fact("C06", "accepted-state-has-block-header", hdr_ok, label);
                if label != "honest" && label != "action.dest-same" {
                    self.out.fact("C06", "mutated-block-accepted", false, label);
                }
                self.w.sealed.insert(dst.clone(), ns);
                self.bump(&format!("block-ok:{}", label));
                Some(dst)
            }
            Ok(Err(e)) => {
                self.out.emit(&line, &format!("err {}", err_text(&e)));
                if label == "honest" {
                    self.out.fact("C06", "honest-block-rejected", false, err_text(&e));
                }
                self.bump(&format!("block-err:{}:{}", label, err_text(&e)));
                None
            }
            Err(_) => {
                self.out.emit(&line, "panic");
                self.bump(&format!("block-panic:{}", label));
                None
            }
        }
    }

    pub fn op_confirm(&mut self, src: &str, proof: ConsensusProof) {
        let s = self.w.sealed.get(src).unwrap().clone();
        let hdr = s.header();
        let hh = hdr.hash();
        let entries: Vec<String> = proof.iter().map(|(k, sig)| format!("{}:{}:{}", hx(&k.0), hx(sig), k.verify(&hh.0, sig) as u8)).collect();
        let res = match silent(|| s.confirm(proof.clone()).is_some()) {
            Ok(true) => "some",
            Ok(false) => "none",
            Err(_) => "panic",
        };
        self.out.emit(
            &format!("confirm {} {} {} {}", src, roots_text(&hdr), hx(&hh.0), if entries.is_empty() { "-".into() } else { entries.join(",") }),
            res,
        );
        self.bump(&format!("confirm:{}", res));
    }

    // ---------------------------------------------------------------- generation

    pub fn parts(&self, name: &str) -> melstf::VerifParts<Cas> {
        self.w.unsealed.get(name).unwrap().verif_parts()
    }

    /// generate one transaction for the unsealed state `name`
    pub fn gen_tx(&mut self, r: &mut Rng, name: &str, em: &Emphasis) -> Option<(Transaction, String)> {
        let p = self.parts(name);
        let coins_map = CoinMapping::new(p.coins.clone());
        let wcoins = self.wallet.coins(&coins_map, &self.w.names);
        let pools: SmtMapping<Cas, PoolKey, PoolState> = SmtMapping::new(p.pools.clone());
        let known: Vec<PoolKey> = self.w.names.poolkeys.iter().filter(|k| k.left().to_bytes() < k.right().to_bytes()).cloned().collect();
        let cx = Ctx { height: p.height.0, network: p.network, mult: p.fee_multiplier, coins: &wcoins, pools: &pools, known_pools: &known };
        let hist: SmtMapping<Cas, BlockHeight, Header> = SmtMapping::new(p.history.clone());
        let total_w = 40 + em.pool_ops * 3 + em.stake_ops + em.faucets + em.mint_ops;
        let pick = r.below(total_w);
        let (tx, label): (Option<Transaction>, &str) = if pick >= total_w - em.mint_ops {
            (gen_doscmint(r, &mut self.wallet, &cx, &hist), "doscmint")
        } else if pick < 40 {
            (gen_normal(r, &mut self.wallet, &cx), "normal")
        } else if pick < 40 + em.pool_ops {
            (gen_swap(r, &mut self.wallet, &cx), "swap")
        } else if pick < 40 + em.pool_ops * 2 {
            (gen_deposit(r, &mut self.wallet, &cx), "deposit")
        } else if pick < 40 + em.pool_ops * 3 {
            (gen_withdraw(r, &mut self.wallet, &cx), "withdraw")
        } else if pick < 40 + em.pool_ops * 3 + em.stake_ops {
            (gen_stake(r, &mut self.wallet, &cx), "stake")
        } else {
            (Some(gen_faucet(r, &mut self.wallet, &cx)), "faucet")
        };
        let mut tx = tx?;
        let mut label = label.to_string();
        // nothing goes in: no inputs, no fee, no outputs (or, for a mint, only the ERG it claims)
        if em.mutate > 0 && r.chance(if tx.kind == TxKind::DoscMint { 4 } else { 1 }, 40) {
            tx.inputs.clear();
            tx.fee = CoinValue(0);
            let keep_erg = tx.kind == TxKind::DoscMint && r.chance(1, 2);
            tx.outputs.retain(|o| keep_erg && o.denom == Denom::Erg);
            tx.sigs.clear();
            self.bump("tx:inputless");
            return Some((tx, format!("{}+inputless", label)));
        }
        // an ordinary, fully authorised spend relabelled as an ERG mint whose data is a difficulty and a proof that proves
        // nothing (empty, a few nodes, garbage) — at any height, the first block of a chain included, where there is
        // neither a header for the coin's height nor a previous block
        if em.mutate > 0 && tx.kind == TxKind::Normal && r.chance(1, if p.height.0 == 0 { 8 } else { 40 }) {
            tx.kind = TxKind::DoscMint;
            let difficulty: u32 = *r.pick(&[0u32, 1, 5, 16, 64, 100, 101, 127, 128, 4000]);
            let proof: Vec<u8> = match r.below(4) {
                0 => vec![],
                1 => r.bytes(40),
                2 => r.bytes(80),
                _ => {
                    let n = r.below(50) as usize;
                    r.bytes(n)
                }
            };
            tx.data = stdcode::serialize(&(difficulty, proof)).unwrap().into();
            let ins: Vec<WCoin> = tx.inputs.iter().filter_map(|i| wcoins.iter().find(|c| c.id == *i).cloned()).collect();
            sign(&self.wallet, &mut tx, &ins);
            self.bump("tx:blind-mint");
            self.w.names.reg_tx(&tx);
            return Some((tx, format!("{}+as-blind-mint-d{}", label, difficulty)));
        }
        // an ordinary, fully authorised spend relabelled as a faucet
        if em.mutate > 0 && tx.kind == TxKind::Normal && r.chance(1, 25) {
            tx.kind = TxKind::Faucet;
            let ins: Vec<WCoin> = tx.inputs.iter().filter_map(|i| wcoins.iter().find(|c| c.id == *i).cloned()).collect();
            sign(&self.wallet, &mut tx, &ins);
            label = format!("{}+as-faucet", label);
        }
        if matches!(tx.kind, TxKind::Swap | TxKind::LiqDeposit | TxKind::LiqWithdraw) && r.chance(1, 6) {
            if let Some(k) = PoolKey::from_bytes(&tx.data) {
                tx.data = pool_spellings(r, k).into();
                let ins: Vec<WCoin> = tx.inputs.iter().filter_map(|i| wcoins.iter().find(|c| c.id == *i).cloned()).collect();
                sign(&self.wallet, &mut tx, &ins);
                label = format!("{}+spelling", label);
            }
        }
        // inputs with identical coin data (twins): the covenant must still be judged once per input
        let cdh_of = |i: &CoinID| wcoins.iter().find(|c| c.id == *i).map(|c| c.cdh.clone());
        let twin_at: Vec<usize> = (1..tx.inputs.len())
            .filter(|&i| {
                let c = cdh_of(&tx.inputs[i]);
                c.is_some() && (0..i).any(|j| cdh_of(&tx.inputs[j]) == c)
            })
            .collect();
        if !twin_at.is_empty() {
            self.bump("tx:twin-inputs");
            label = format!("{}+twins", label);
            if em.mutate > 0 && r.chance(1, 2) {
                // the later twin's own signature slot is emptied or damaged
                let at = *r.pick(&twin_at);
                if at < tx.sigs.len() && !tx.sigs[at].is_empty() {
                    let mut v = tx.sigs[at].to_vec();
                    if r.chance(1, 2) {
                        v[5] ^= 0x40;
                    } else {
                        v.clear();
                    }
                    tx.sigs[at] = v.into();
                    self.bump("tx:twin-inputs-later-sig-damaged");
                    label = format!("{}+twin-sig-damaged", label);
                }
            }
        }
        if r.below(1000) < em.mutate {
            let m = mutate(r, &self.wallet, &mut tx, &wcoins, p.fee_multiplier, em.mutate >= 700);
            label = format!("{}+{}", label, m);
        }
        Some((tx, label))
    }

    /// a batch of 1..=4 transactions; later ones may spend outputs of earlier ones
    pub fn gen_batch(&mut self, r: &mut Rng, name: &str, em: &Emphasis) -> (Vec<Transaction>, String) {
        let n = match r.below(10) {
            0..=4 => 1,
            5..=7 => 2,
            8 => 3,
            _ => 4,
        };
        let mut txs: Vec<Transaction> = vec![];
        let mut labels = vec![];
        // one member pays less than its minimum fee while its batch mate overpays by more than the shortfall
        if em.mutate > 0 && r.chance(1, 10) {
            let p = self.parts(name);
            let coins_map = CoinMapping::new(p.coins.clone());
            let wcoins = self.wallet.coins(&coins_map, &self.w.names);
            let pools: SmtMapping<Cas, PoolKey, PoolState> = SmtMapping::new(p.pools.clone());
            let known: Vec<PoolKey> = vec![];
            let cx = Ctx { height: p.height.0, network: p.network, mult: p.fee_multiplier, coins: &wcoins, pools: &pools, known_pools: &known };
            if let Some(mut a) = gen_normal(r, &mut self.wallet, &cx) {
                let rest: Vec<WCoin> = wcoins.iter().filter(|c| !a.inputs.contains(&c.id)).cloned().collect();
                let cx2 = Ctx { height: p.height.0, network: p.network, mult: p.fee_multiplier, coins: &rest, pools: &pools, known_pools: &known };
                if let Some(mut b) = gen_normal(r, &mut self.wallet, &cx2) {
                    let big = |t: &Transaction| t.outputs.iter().position(|o| o.denom == Denom::Mel && o.value.0 > 5000);
                    let min_a = min_fee(&a, p.fee_multiplier);
                    let short = 1 + r.below(40) as u128;
                    if let (Some(ia), Some(ib)) = (big(&a), big(&b)) {
                        if a.fee.0 >= min_a && min_a > short {
                            let cut = a.fee.0 - (min_a - short);
                            a.outputs[ia].value = CoinValue(a.outputs[ia].value.0 + cut);
                            a.fee = CoinValue(a.fee.0 - cut);
                            b.outputs[ib].value = CoinValue(b.outputs[ib].value.0 - short - 7);
                            b.fee = CoinValue(b.fee.0 + short + 7);
                            for t in [&mut a, &mut b] {
                                let ins: Vec<WCoin> = t.inputs.iter().filter_map(|c| wcoins.iter().find(|k| k.id == *c).cloned()).collect();
                                sign(&self.wallet, t, &ins);
                                self.w.names.reg_tx(t);
                            }
                            self.bump("batch:fee-subsidised-by-batch-mate");
                            let v = if r.chance(1, 2) { vec![a, b] } else { vec![b, a] };
                            return (v, "fee-subsidised-by-batch-mate".into());
                        }
                    }
                }
            }
        }
        // two members spend coins locked by the SAME covenant, and only one of them carries it: what a transaction may use
        // is what that transaction itself lists (and pays for), not what a batch mate brought along
        if em.mutate > 0 && r.chance(1, 12) {
            let p = self.parts(name);
            let coins_map = CoinMapping::new(p.coins.clone());
            let wcoins = self.wallet.coins(&coins_map, &self.w.names);
            // two coins of one covenant hash, each worth enough to pay a fee
            let mut pair: Option<(WCoin, WCoin)> = None;
            for (i, a) in wcoins.iter().enumerate() {
                if a.cdh.coin_data.denom != Denom::Mel || a.cdh.coin_data.value.0 < 100_000_000 || !matches!(a.spec, CovSpec::StdNew(_) | CovSpec::AlwaysTrue | CovSpec::StdLegacy(_)) {
                    continue;
                }
                if let Some(b) = wcoins.iter().skip(i + 1).find(|b| b.cdh.coin_data.covhash == a.cdh.coin_data.covhash && b.cdh.coin_data.denom == Denom::Mel && b.cdh.coin_data.value.0 >= 100_000_000) {
                    pair = Some((a.clone(), b.clone()));
                    break;
                }
            }
            if let Some((ca, cb)) = pair {
                let dest = self.wallet.spec_addr(CovSpec::StdNew(0));
                let mk = |w: &Wallet, c: &WCoin, tag: u8| {
                    let fee = 50_000_000u128.min(c.cdh.coin_data.value.0 / 2);
                    assemble(w, TxKind::Normal, &[c.clone()], vec![crate::txgen::out(dest, c.cdh.coin_data.value.0 - fee, Denom::Mel)], fee, vec![tag])
                };
                let a = mk(&self.wallet, &ca, 1);
                let mut b = mk(&self.wallet, &cb, 2);
                // `b` is signed (the signature-free hash does not cover the covenant list either way) but lists no covenant
                b.covenants.clear();
                sign(&self.wallet, &mut b, &[cb.clone()]);
                for t in [&a, &b] {
                    self.w.names.reg_tx(t);
                }
                self.bump("batch:covenant-carried-by-a-batch-mate-only");
                let v = if r.chance(1, 2) { vec![a, b] } else { vec![b, a] };
                return (v, "covenant-carried-by-a-batch-mate-only".into());
            }
        }
        // a transaction that creates MEL from nothing — its outputs exceed its inputs by exactly what a FAUCET standing next
        // to it in the batch takes in through its inputs (a faucet's own balance is not checked; what it brings in belongs to
        // nobody else).  Rejected wherever it stands, however the batch is cut up between threads.
        if em.mutate > 0 && r.chance(1, 12) {
            let p = self.parts(name);
            let coins_map = CoinMapping::new(p.coins.clone());
            let wcoins = self.wallet.coins(&coins_map, &self.w.names);
            let usable: Vec<&WCoin> = wcoins
                .iter()
                .filter(|c| c.cdh.coin_data.denom == Denom::Mel && c.cdh.coin_data.value.0 >= 200_000_000 && c.cdh.coin_data.value.0 < (1 << 100)
                    && matches!(c.spec, CovSpec::StdNew(_) | CovSpec::AlwaysTrue))
                .collect();
            // several (faucet, over-spender) pairs in a row, 2, 4 or 8 of them: however rayon halves the slice, down to
            // leaves of two, each over-spender is validated right after "its" faucet by the same worker
            if usable.len() >= 4 && r.chance(2, 3) {
                let dest = self.wallet.spec_addr(CovSpec::StdNew(0));
                let k = if usable.len() >= 16 { 8 } else if usable.len() >= 8 { 4 } else { 2 };
                let fee = 50_000_000u128;
                let mut v = vec![];
                for i in 0..k {
                    let (cf, ct) = (usable[2 * i].clone(), usable[2 * i + 1].clone());
                    let fv = cf.cdh.coin_data.value.0;
                    let faucet = assemble(&self.wallet, TxKind::Faucet, &[cf], vec![crate::txgen::out(dest, 1000 + i as u128, Denom::Mel)], fee, r.bytes(5));
                    let over = assemble(&self.wallet, TxKind::Normal, &[ct.clone()], vec![crate::txgen::out(dest, ct.cdh.coin_data.value.0 - fee + fv, Denom::Mel)], fee, vec![8, i as u8]);
                    self.w.names.reg_tx(&faucet);
                    self.w.names.reg_tx(&over);
                    v.push(faucet);
                    v.push(over);
                }
                self.bump("batch:over-spenders-paired-with-faucets-with-inputs");
                return (v, "over-spenders-paired-with-faucets-with-inputs".into());
            }
            if usable.len() >= 3 {
                let dest = self.wallet.spec_addr(CovSpec::StdNew(0));
                let (cp, cf, ct) = (usable[0].clone(), usable[1].clone(), usable[2].clone());
                let fee = 50_000_000u128;
                let v = cf.cdh.coin_data.value.0;
                let plain = assemble(&self.wallet, TxKind::Normal, &[cp.clone()], vec![crate::txgen::out(dest, cp.cdh.coin_data.value.0 - fee, Denom::Mel)], fee, vec![7]);
                let faucet = assemble(&self.wallet, TxKind::Faucet, &[cf.clone()], vec![crate::txgen::out(dest, 1000, Denom::Mel)], fee, r.bytes(5));
                let over = assemble(&self.wallet, TxKind::Normal, &[ct.clone()], vec![crate::txgen::out(dest, ct.cdh.coin_data.value.0 - fee + v, Denom::Mel)], fee, vec![8]);
                for t in [&plain, &faucet, &over] {
                    self.w.names.reg_tx(t);
                }
                self.bump("batch:over-spender-next-to-a-faucet-with-inputs");
                let v = match r.below(3) {
                    0 => vec![plain, faucet, over],
                    1 => vec![faucet, over, plain],
                    _ => vec![over, faucet, plain],
                };
                return (v, "over-spender-next-to-a-faucet-with-inputs".into());
            }
        }
        // an output of a stake transaction accepted earlier (its first output, or — what a staker would rather try —
        // the change) is spent: locked for the life of the stake, whichever output it is, whichever batch or block
        if em.stake_ops > 0 && !self.stake_txs.is_empty() && r.chance(1, 5) {
            let p = self.parts(name);
            let coins_map = CoinMapping::new(p.coins.clone());
            let wcoins = self.wallet.coins(&coins_map, &self.w.names);
            let pools: SmtMapping<Cas, PoolKey, PoolState> = SmtMapping::new(p.pools.clone());
            let known: Vec<PoolKey> = vec![];
            let cx = Ctx { height: p.height.0, network: p.network, mult: p.fee_multiplier, coins: &wcoins, pools: &pools, known_pools: &known };
            let cands: Vec<WCoin> = wcoins.iter().filter(|c| self.stake_txs.contains(&c.id.txhash) && (c.id.index >= 1 || r.chance(1, 3))).cloned().collect();
            if !cands.is_empty() {
                let c = r.pick(&cands).clone();
                if let Some(t) = gen_spend_of(r, &mut self.wallet, &cx, &c) {
                    self.w.names.reg_tx(&t);
                    self.bump("batch:spends-stake-output");
                    return (vec![t], format!("spends-stake-output-{}", c.id.index.min(1)));
                }
            }
        }
        // a coin whose covenant reads a field of the previous header is made and spent in the same block — in the first
        // block of a chain there is no previous header and the header of this very block, sealed as it stands, is used
        {
            let p = self.parts(name);
            if r.chance(1, if p.height.0 == 0 { 3 } else { 25 }) {
                let coins_map = CoinMapping::new(p.coins.clone());
                let wcoins = self.wallet.coins(&coins_map, &self.w.names);
                let pools: SmtMapping<Cas, PoolKey, PoolState> = SmtMapping::new(p.pools.clone());
                let known: Vec<PoolKey> = vec![];
                let cx = Ctx { height: p.height.0, network: p.network, mult: p.fee_multiplier, coins: &wcoins, pools: &pools, known_pools: &known };
                if let Some(mut a) = gen_normal(r, &mut self.wallet, &cx) {
                    let field = *r.pick(&[9u8, 9, 6, 1, 4, 5]);
                    let zero = r.chance(1, 3);
                    let spec = CovSpec::HeaderField(field, zero);
                    if !a.outputs.is_empty() {
                        a.outputs[0].covhash = self.wallet.spec_addr(spec.clone());
                        let ins: Vec<WCoin> = a.inputs.iter().filter_map(|c| wcoins.iter().find(|k| k.id == *c).cloned()).collect();
                        sign(&self.wallet, &mut a, &ins);
                        self.w.names.reg_tx(&a);
                        let made = WCoin { id: a.output_coinid(0), cdh: CoinDataHeight { coin_data: a.outputs[0].clone(), height: p.height }, spec };
                        let rest: Vec<WCoin> = wcoins.iter().filter(|c| !a.inputs.contains(&c.id)).cloned().collect();
                        let cx2 = Ctx { height: p.height.0, network: p.network, mult: p.fee_multiplier, coins: &rest, pools: &pools, known_pools: &known };
                        if let Some(b) = gen_spend_of(r, &mut self.wallet, &cx2, &made) {
                            self.w.names.reg_tx(&b);
                            self.bump("batch:spends-header-reading-coin");
                            let v = if r.chance(1, 2) { vec![a, b] } else { vec![b, a] };
                            return (v, format!("spends-header-reading-coin-field{}{}", field, if zero { "-is-zero" } else { "" }));
                        }
                    }
                }
            }
        }
        // a stake transaction and a spender of one of its outputs (the staked coin, or — what a staker would rather try —
        // the change) in the same batch, in either order: a stake registered by the batch locks from that batch on
        if em.stake_ops > 0 && r.chance(1, 12) {
            let p = self.parts(name);
            let coins_map = CoinMapping::new(p.coins.clone());
            let wcoins = self.wallet.coins(&coins_map, &self.w.names);
            let pools: SmtMapping<Cas, PoolKey, PoolState> = SmtMapping::new(p.pools.clone());
            let known: Vec<PoolKey> = vec![];
            let cx = Ctx { height: p.height.0, network: p.network, mult: p.fee_multiplier, coins: &wcoins, pools: &pools, known_pools: &known };
            if let Some(st) = gen_stake(r, &mut self.wallet, &cx) {
                self.w.names.reg_tx(&st);
                let idx = if st.outputs.len() > 1 && r.chance(2, 3) { 1 + r.below(st.outputs.len() as u64 - 1) as usize } else { 0 };
                let cd = st.outputs[idx].clone();
                let spec = self.wallet.specs.get(&cd.covhash).cloned().unwrap_or(CovSpec::StdNew(0));
                let made = WCoin { id: st.output_coinid(idx as u8), cdh: CoinDataHeight { coin_data: cd, height: p.height }, spec };
                let rest: Vec<WCoin> = wcoins.iter().filter(|c| !st.inputs.contains(&c.id)).cloned().collect();
                let cx2 = Ctx { height: p.height.0, network: p.network, mult: p.fee_multiplier, coins: &rest, pools: &pools, known_pools: &known };
                if let Some(sp) = gen_spend_of(r, &mut self.wallet, &cx2, &made) {
                    self.w.names.reg_tx(&sp);
                    self.stake_txs.push(st.hash_nosigs());
                    self.bump("batch:stake-and-spender-of-its-output");
                    let v = if r.chance(1, 2) { vec![st, sp] } else { vec![sp, st] };
                    return (v, format!("stake-and-spender-of-its-output-{}", idx.min(1)));
                }
            }
        }
        // withdrawals that are fine one by one and too much together
        if em.pool_ops > 0 && r.chance(1, 2) {
            let p = self.parts(name);
            let coins_map = CoinMapping::new(p.coins.clone());
            let wcoins = self.wallet.coins(&coins_map, &self.w.names);
            let pools: SmtMapping<Cas, PoolKey, PoolState> = SmtMapping::new(p.pools.clone());
            let known: Vec<PoolKey> = self.w.names.poolkeys.iter().filter(|k| k.left().to_bytes() < k.right().to_bytes()).cloned().collect();
            let cx = Ctx { height: p.height.0, network: p.network, mult: p.fee_multiplier, coins: &wcoins, pools: &pools, known_pools: &known };
            if let Some(ts) = gen_joint_overdraw(r, &mut self.wallet, &cx) {
                for t in &ts {
                    self.w.names.reg_tx(t);
                }
                self.bump("batch:joint-overdraw");
                return (ts, "joint-overdraw".into());
            }
        }
        // dependent transactions: build against a scratch copy of the state with earlier txs applied
        let scratch_name = format!("{}~scratch", name);
        let base = self.w.unsealed.get(name).unwrap().clone();
        self.w.unsealed.insert(scratch_name.clone(), base);
        // clusters of same-kind pool requests against several pools in one block (settlement processes pools in
        // key order and requests in hash order: interleavings matter)
        let cluster = em.pool_ops >= 30 && r.chance(1, 3);
        let n = if cluster { 3 + r.below(4) } else { n };
        let cluster_em = Emphasis { mutate: 0, pool_ops: 1000, stake_ops: 0, mint_ops: 0, batches: 0, blocks: 0, chain_ops: false, twins: 2, epoch_edges: 0, faucets: 0, tip_edges: 0 };
        for _ in 0..n {
            let em_here = if cluster { &cluster_em } else { em };
            if let Some((tx, label)) = self.gen_tx(r, &scratch_name, em_here) {
                let mut sc = self.w.unsealed.get(&scratch_name).unwrap().clone();
                self.w.names.reg_tx(&tx);
                if std::env::var("VERIF_TRACE").is_ok() {
                    eprintln!("TRACE scratch apply_tx [{}] {:?}", label, tx);
                }
                if silent(|| sc.apply_tx(&tx)).map(|r| r.is_ok()).unwrap_or(false) {
                    self.w.unsealed.insert(scratch_name.clone(), sc);
                }
                let _ = melvm::verif_hooks::take_log();
                if tx.kind == TxKind::Stake && self.stake_txs.len() < 32 {
                    self.stake_txs.push(tx.hash_nosigs());
                }
                txs.push(tx);
                labels.push(label);
            }
        }
        self.w.unsealed.remove(&scratch_name);
        if txs.len() > 1 && r.chance(1, 2) {
            r.shuffle(&mut txs);
            labels.push("shuffled".into());
        }
        if !txs.is_empty() && r.chance(1, 25) {
            let t = txs[0].clone();
            txs.push(t);
            labels.push("repeat-tx".into());
        }
        // a second, different transaction spending the same inputs as a member of the batch (the inputs may be
        // coins of the prior state or coins created inside the batch)
        if !txs.is_empty() && r.chance(1, 5) {
            // prefer a member that spends a coin created inside this batch
            let hashes: Vec<TxHash> = txs.iter().map(|t| t.hash_nosigs()).collect();
            let inner: Vec<usize> = (0..txs.len()).filter(|&i| txs[i].inputs.iter().any(|c| hashes.contains(&c.txhash))).collect();
            let k = if !inner.is_empty() && r.chance(3, 4) { *r.pick(&inner) } else { r.below(txs.len() as u64) as usize };
            let mut t = txs[k].clone();
            if !t.inputs.is_empty() && t.kind != TxKind::Faucet {
                if let Some(o) = t.outputs.iter_mut().find(|o| o.denom == Denom::Mel && o.value.0 > 0) {
                    o.value = CoinValue(o.value.0 - 1);
                    t.fee = CoinValue(t.fee.0 + 1);
                    // re-sign: the wallet knows the covenants of the inputs through the scratch history
                    let p0 = self.parts(name);
                    let cm = CoinMapping::new(p0.coins.clone());
                    let mut known = self.wallet.coins(&cm, &self.w.names);
                    for other in txs.iter() {
                        for (i, oc) in other.outputs.iter().enumerate() {
                            if let Some(spec) = self.wallet.specs.get(&oc.covhash) {
                                let mut cd = oc.clone();
                                if cd.denom == Denom::NewCustom {
                                    cd.denom = Denom::Custom(other.hash_nosigs());
                                }
                                known.push(WCoin { id: other.output_coinid(i as u8), cdh: CoinDataHeight { coin_data: cd, height: p0.height }, spec: spec.clone() });
                            }
                        }
                    }
                    let ins: Vec<WCoin> = t.inputs.iter().filter_map(|i| known.iter().find(|c| c.id == *i).cloned()).collect();
                    if ins.len() == t.inputs.len() {
                        sign(&self.wallet, &mut t, &ins);
                        self.w.names.reg_tx(&t);
                        let pos = r.below(txs.len() as u64 + 1) as usize;
                        txs.insert(pos, t);
                        labels.push("conflicting-spender".into());
                    }
                }
            }
        }
        // a faucet seen earlier in this history (or in this very batch) comes back: unchanged, or with
        // junk in its signature list (the signatures are not part of a transaction's identity)
        for t in txs.iter() {
            if t.kind == TxKind::Faucet && t.inputs.is_empty() && self.faucets_seen.len() < 64 {
                self.faucets_seen.push(t.clone());
            }
        }
        // a coin spent by an earlier batch of this very block is spent again (by a different transaction): the coin is
        // gone from the state although its creator may sit in the block's transaction set
        if em.mutate > 0 && !self.spent_in_block.is_empty() && r.chance(1, 4) {
            let (t0, ins) = r.pick(&self.spent_in_block).clone();
            let mut t = t0.clone();
            if let Some(o) = t.outputs.iter_mut().find(|o| o.denom == Denom::Mel && o.value.0 > 0) {
                o.value = CoinValue(o.value.0 - 1);
                t.fee = CoinValue(t.fee.0 + 1);
                sign(&self.wallet, &mut t, &ins);
                self.w.names.reg_tx(&t);
                let pos = r.below(txs.len() as u64 + 1) as usize;
                txs.insert(pos, t);
                labels.push("respends-coin-spent-earlier-in-block".into());
            }
        }
        // remember which coins the members of this batch spend (used if the batch is accepted)
        {
            let p0 = self.parts(name);
            let cm = CoinMapping::new(p0.coins.clone());
            let mut known = self.wallet.coins(&cm, &self.w.names);
            for other in txs.iter() {
                for (i, oc) in other.outputs.iter().enumerate() {
                    if let Some(spec) = self.wallet.specs.get(&oc.covhash) {
                        let mut cd = oc.clone();
                        if cd.denom == Denom::NewCustom {
                            cd.denom = Denom::Custom(other.hash_nosigs());
                        }
                        known.push(WCoin { id: other.output_coinid(i as u8), cdh: CoinDataHeight { coin_data: cd, height: p0.height }, spec: spec.clone() });
                    }
                }
            }
            self.pending_spenders = txs
                .iter()
                .filter(|t| !t.inputs.is_empty() && t.kind != TxKind::Faucet)
                .filter_map(|t| {
                    let ins: Vec<WCoin> = t.inputs.iter().filter_map(|i| known.iter().find(|c| c.id == *i).cloned()).collect();
                    (ins.len() == t.inputs.len()).then(|| (t.clone(), ins))
                })
                .collect();
        }
        // the grandfathered faucet in company: whatever exemption it enjoys is its own
        if em.faucets >= 30 && r.chance(1, 8) {
            let g = grandfathered_faucet();
            self.w.names.reg_tx(&g);
            let pos = r.below(txs.len() as u64 + 1) as usize;
            txs.insert(pos, g);
            if !txs.iter().any(|t| t.kind == TxKind::Faucet && t.hash_nosigs() != txs[pos].hash_nosigs()) {
                let p = self.parts(name);
                let coins_map = CoinMapping::new(p.coins.clone());
                let wcoins = self.wallet.coins(&coins_map, &self.w.names);
                let pools: SmtMapping<Cas, PoolKey, PoolState> = SmtMapping::new(p.pools.clone());
                let known: Vec<PoolKey> = vec![];
                let cx = Ctx { height: p.height.0, network: p.network, mult: p.fee_multiplier, coins: &wcoins, pools: &pools, known_pools: &known };
                let f = gen_faucet(r, &mut self.wallet, &cx);
                self.w.names.reg_tx(&f);
                let pos2 = r.below(txs.len() as u64 + 1) as usize;
                txs.insert(pos2, f);
            }
            labels.push("with-grandfathered-faucet".into());
        }
        if em.mutate > 0 && !self.faucets_seen.is_empty() && r.chance(1, 6) {
            let mut t = r.pick(&self.faucets_seen).clone();
            let how = match r.below(3) {
                0 => "faucet-replay",
                1 => {
                    t.sigs.push(bytes::Bytes::from(r.bytes(3)));
                    "faucet-replay-junk-sig"
                }
                _ => {
                    let n = 1 + r.below(3);
                    t.sigs = (0..n).map(|_| { let k = r.below(70) as usize; bytes::Bytes::from(r.bytes(k)) }).collect();
                    "faucet-replay-other-sigs"
                }
            };
            let pos = r.below(txs.len() as u64 + 1) as usize;
            txs.insert(pos, t);
            labels.push(how.into());
        }
        (txs, labels.join("/"))
    }
}

fn permute(idx: &mut Vec<usize>, k: usize, out: &mut Vec<Vec<usize>>) {
    if k == idx.len() {
        out.push(idx.clone());
        return;
    }
    for i in k..idx.len() {
        idx.swap(k, i);
        permute(idx, k + 1, out);
        idx.swap(k, i);
    }
}

pub fn rand_action(r: &mut Rng, wallet: &mut Wallet, height: u64) -> Option<ProposerAction> {
    if r.chance(1, 4) {
        return None;
    }
    let delta: i8 = match r.below(6) {
        0 => -128,
        1 => 127,
        2 => 0,
        3 => 1,
        _ => r.next() as i8,
    };
    Some(ProposerAction { fee_multiplier_delta: delta, reward_dest: wallet.rand_addr(r, height) })
}

/// a fabricated starting point: coins for the wallet in several denominations, builtin pools, stakes
pub fn rand_fab(r: &mut Rng, wallet: &mut Wallet, em: &Emphasis) -> FabSpec {
    let network = *r.pick(&[
        NetID::Custom02, NetID::Custom02, NetID::Custom03, NetID::Custom08, NetID::Testnet, NetID::Testnet, NetID::Mainnet, NetID::Mainnet,
    ]);
    let height: u64 = match network {
        NetID::Mainnet => *r.pick(&[5u64, 42699, 42700, 179999, 180000, 199999, 499999, 500000, 829999, 830000, 899999, 900000, 949999, 950000, 978391, 978392, 1047999, 1048000, 1999999]),
        NetID::Testnet => *r.pick(&[3u64, 498, 499, 500, 199999, 499999, 500000, 899999, 978391, 978392]),
        _ => *r.pick(&[1u64, 7, 199998, 199999, 200000, 399999]),
    };
    // one or two blocks below an activation height of the network (so that the history crosses it)
    let (network, height) = if r.chance(em.tip_edges, 8) {
        if r.chance(1, 2) {
            (NetID::Testnet, *r.pick(&[497u64, 498, 498, 499]))
        } else {
            (NetID::Mainnet, *r.pick(&[42698u64, 42699, 179998, 179999, 829998, 829998, 829999, 949998, 949999, 978390, 978391, 1047998, 1047999]))
        }
    } else {
        (network, height)
    };
    // the block built on a state at height k*STAKE_EPOCH - 1 is the first block of epoch k
    let height = if r.chance(em.epoch_edges, 8) { *r.pick(&[199_998u64, 199_999, 199_999, 200_000, 399_999, 399_999, 1_999_999, 599_999]) } else { height };
    // … and, for the staking-centred stream, the legacy cut-offs of stake registration (500000) and of the stake lock
    // (900000) on the two networks that have them
    let (network, height) = if em.epoch_edges > 0 && r.chance(1, 4) {
        (*r.pick(&[NetID::Mainnet, NetID::Testnet]), *r.pick(&[499_998u64, 499_999, 500_000, 899_998, 899_998, 899_999, 899_999, 900_000]))
    } else {
        (network, height)
    };
    // heights at which the DOSC inflator (which grows by one per block up to height 2 000 000 and by 1/2 000 000 of itself
    // per block from there on) has long left its linear stretch
    let (network, height) = if em.mint_ops >= 30 && r.chance(1, 6) {
        (network, *r.pick(&[1_999_999u64, 2_000_001, 2_999_999, 3_000_000, 3_000_001, 3_021_739, 4_000_003]))
    } else {
        (network, height)
    };
    let t906 = tip906_active(network, height);
    let _ = t906;
    let mut coins = vec![];
    let nk = wallet.keys.len() as u64;
    let ncoins = 4 + r.below(8);
    for i in 0..ncoins {
        let denom = match i {
            0 | 1 => Denom::Mel,
            2 => Denom::Sym,
            3 => Denom::Erg,
            _ => *r.pick(&[Denom::Mel, Denom::Mel, Denom::Sym, Denom::Erg, Denom::Custom(TxHash(tmelcrypt::hash_single(b"tok")))]),
        };
        let value: u128 = match r.below(6) {
            0 => 1u128 << (80 + r.below(30)),
            1 => 1_000_000_000_000,
            2 => r.below(1000) as u128,
            _ => 1 + r.u128() % (1u128 << 64),
        };
        let spec = if i < 4 || r.chance(2, 3) { CovSpec::StdNew(r.below(nk) as usize) } else { wallet.rand_spec(r, height) };
        let addr = wallet.spec_addr(spec);
        let id = CoinID::new(TxHash(tmelcrypt::hash_keyed(b"fabcoin", [i as u8, r.next() as u8])), (i % 3) as u8);
        let ch = if height > 150 && r.chance(1, 2) { height - 100 - r.below(50) } else { height.saturating_sub(r.below(3)) };
        coins.push((id, CoinDataHeight { coin_data: crate::txgen::out(addr, value, denom), height: BlockHeight(ch) }));
    }
    let pool = |r: &mut Rng| {
        let l = 1_000_000_000u128 + r.u128() % (1u128 << (30 + r.below(40)));
        let rr = 1_000_000_000u128 + r.u128() % (1u128 << (30 + r.below(40)));
        PoolState { lefts: l, rights: rr, price_accum: r.below(1000) as u128, liqs: 1_000_000_000 + r.below(1 << 30) as u128 }
    };
    let mut pools = vec![(PoolKey::new(Denom::Mel, Denom::Sym), pool(r)), (PoolKey::new(Denom::Mel, Denom::Erg), pool(r))];
    if r.chance(3, 4) {
        pools.push((PoolKey::new(Denom::Erg, Denom::Sym), pool(r)));
    }
    let epoch = height / STAKE_EPOCH;
    let mut stakes = vec![];
    for i in 0..r.below(4) {
        let k = r.below(nk) as usize;
        let start = epoch.saturating_sub(r.below(2));
        stakes.push((
            TxHash(tmelcrypt::hash_keyed(b"fabstake", [i as u8])),
            StakeDoc { pubkey: wallet.keys[k].pk, e_start: start, e_post_end: start + r.below(3), syms_staked: CoinValue(match r.below(8) { 0 => 0, 1 => 1 << 100, _ => 1 + r.below(1000) as u128 }) },
        ));
    }
    let mut history = vec![];
    if height > 0 {
        let prev_speed = if r.chance(1, 2) { 1 + r.below(20) as u128 } else { 1_000_000 + r.below(1000) as u128 };
        history.push((height - 1, prev_speed));
    }
    for (_, c) in &coins {
        if c.height.0 < height && !history.iter().any(|(h, _)| *h == c.height.0) {
            history.push((c.height.0, 1_000_000));
        }
    }
    FabSpec {
        network,
        height,
        fee_pool: *r.pick(&[0u128, 1 << 16, 6553600000000, 1 << 100, (1 << 120) - 5, (1 << 120) + 12345, 1 << 123]),
        fee_multiplier: *r.pick(&[0u128, 1, 2, 100, 127, 128, 255, 256, 65536, 1_000_000, 1 << 40]),
        // small speeds make rewards non-zero at the small difficulties proofs can be generated for
        dosc_speed: if r.chance(1, 2) { 1 + r.below(40) as u128 } else { 1_000_000 + r.below(100) as u128 },
        coins,
        pools,
        stakes,
        history,
    }
}

pub fn rand_genesis(r: &mut Rng, wallet: &mut Wallet) -> GenesisConfig {
    let network = *r.pick(&[NetID::Custom02, NetID::Custom04, NetID::Custom08, NetID::Testnet, NetID::Mainnet]);
    let nk = wallet.keys.len() as u64;
    let addr = wallet.spec_addr(CovSpec::StdNew(r.below(nk) as usize));
    let mut stakes = BTreeMap::new();
    for i in 0..r.below(3) {
        let k = r.below(nk) as usize;
        stakes.insert(
            TxHash(tmelcrypt::hash_keyed(b"genstake", [i as u8])),
            StakeDoc { pubkey: wallet.keys[k].pk, e_start: 0, e_post_end: 1 + r.below(3), syms_staked: CoinValue(match r.below(8) { 0 => 0, 1 => 1 << 100, _ => 1 + r.below(100) as u128 }) },
        );
    }
    GenesisConfig {
        network,
        init_coindata: crate::txgen::out(addr, 1u128 << (40 + r.below(60)), Denom::Mel),
        stakes,
        init_fee_pool: CoinValue(*r.pick(&[0u128, 6553600000000, (1 << 120) + 777])),
        init_fee_multiplier: *r.pick(&[0u128, 1, 1000, 1_000_000]),
    }
}

/// A scripted history around the u128 ceiling of a pool's liquidity record: a lopsided first deposit (big, tiny)
/// gives the pool `big` liquidity; a later deposit of (x, y) is then worth big * sqrt(x*y / (big*tiny)) tokens, which
/// reaches or passes 2^128.  Three variants: the issue itself saturates, the sum just passes the ceiling, the sum
/// just fits.
fn script_liquidity_ceiling(h: &mut Hist, r: &mut Rng) {
    let a0 = h.wallet.spec_addr(CovSpec::StdNew(0));
    let network = *r.pick(&[NetID::Custom02, NetID::Custom03, NetID::Testnet]);
    let cfg = GenesisConfig {
        network,
        init_coindata: crate::txgen::out(a0, 1u128 << 60, Denom::Mel),
        stakes: BTreeMap::new(),
        init_fee_pool: CoinValue(0),
        init_fee_multiplier: 0,
    };
    let mut u = h.op_genesis(cfg);
    let big: u128 = 1 << 120;
    // the second deposit, per variant: (left, right)
    let (x, y): (u128, u128) = match r.below(4) {
        0 => (big, big),                                        // worth 2^180: the issue saturates
        1 => ((1 << 68) - (1 << 59), (1 << 68) - (1 << 59)),    // worth 2^128 - 2^119: only the sum passes the ceiling
        2 => (1 << 67, 1 << 67),                                // worth 2^127: the sum fits
        _ => (1 + r.u128() % (1 << 70), 1 + r.u128() % (1 << 70)),
    };
    // a faucet mints both sides: MEL and a new token, each as [big, x-or-y, 1]
    let f = Transaction {
        kind: TxKind::Faucet,
        inputs: vec![],
        outputs: vec![
            crate::txgen::out(a0, big, Denom::Mel), crate::txgen::out(a0, x.max(y), Denom::Mel), crate::txgen::out(a0, 1, Denom::Mel),
            crate::txgen::out(a0, big, Denom::NewCustom), crate::txgen::out(a0, x.max(y), Denom::NewCustom), crate::txgen::out(a0, 1, Denom::NewCustom),
            // every transaction needs a MEL input (the fee is an output of MEL, even when it is 0): one coin per withdrawal
            crate::txgen::out(a0, 2, Denom::Mel), crate::txgen::out(a0, 2, Denom::Mel),
        ],
        fee: CoinValue(0),
        covenants: vec![],
        data: r.bytes(6).into(),
        sigs: vec![],
    };
    h.w.names.reg_tx(&f);
    let Some(u1) = h.op_batch(&u, &[f.clone()], "ceiling:faucet") else { return };
    u = u1;
    let tok = Denom::Custom(f.hash_nosigs());
    let key = PoolKey::new(Denom::Mel, tok);
    let height = h.parts(&u).height;
    let coin = |i: u8, denom: Denom, v: u128| WCoin {
        id: f.output_coinid(i),
        cdh: CoinDataHeight { coin_data: crate::txgen::out(a0, v, denom), height },
        spec: CovSpec::StdNew(0),
    };
    // index of the `big`, the second and the `1` coin of a denomination
    let base = |d: Denom| if d == Denom::Mel { 0u8 } else { 3u8 };
    let (l, rr) = (key.left(), key.right());
    let seal_next = |h: &mut Hist, u: &str| -> Option<String> {
        let s = h.op_seal(u, None)?;
        h.op_next(&s)
    };
    let Some(u2) = seal_next(h, &u) else { return };
    u = u2;
    // first deposit: (big, 1)
    let ins1 = vec![coin(base(l), l, big), coin(base(rr) + 2, rr, 1)];
    let d1 = assemble(&h.wallet, TxKind::LiqDeposit, &ins1, vec![crate::txgen::out(a0, big, l), crate::txgen::out(a0, 1, rr)], 0, key.to_bytes().to_vec());
    h.w.names.reg_tx(&d1);
    h.w.names.reg_poolkey(key);
    let Some(u3) = h.op_batch(&u, &[d1.clone()], "ceiling:first-deposit") else { return };
    let Some(u4) = seal_next(h, &u3) else { return };
    u = u4;
    // second deposit: (x, y) out of the second coins (their values are max(x, y): the rest is change)
    let m = x.max(y);
    let ins2 = vec![coin(base(l) + 1, l, m), coin(base(rr) + 1, rr, m)];
    let mut outs2 = vec![crate::txgen::out(a0, x, l), crate::txgen::out(a0, y, rr)];
    if m > x {
        outs2.push(crate::txgen::out(a0, m - x, l));
    }
    if m > y {
        outs2.push(crate::txgen::out(a0, m - y, rr));
    }
    let d2 = assemble(&h.wallet, TxKind::LiqDeposit, &ins2, outs2, 0, key.to_bytes().to_vec());
    h.w.names.reg_tx(&d2);
    let Some(u5) = h.op_batch(&u, &[d2.clone()], "ceiling:second-deposit") else { return };
    let Some(u6) = seal_next(h, &u5) else { return };
    // and everybody tries to get out again
    let cm = CoinMapping::new(h.parts(&u6).coins.clone());
    let liq = key.liq_token_denom();
    let mut wds = vec![];
    for (d, feeidx) in [(&d1, 6u8), (&d2, 7u8)] {
        if let Some(c) = cm.get_coin(d.output_coinid(0)) {
            if c.coin_data.denom == liq {
                let ins = vec![coin(feeidx, Denom::Mel, 2), WCoin { id: d.output_coinid(0), cdh: c.clone(), spec: CovSpec::StdNew(0) }];
                let wd = assemble(&h.wallet, TxKind::LiqWithdraw, &ins, vec![crate::txgen::out(a0, c.coin_data.value.0, liq)], 2, key.to_bytes().to_vec());
                h.w.names.reg_tx(&wd);
                wds.push(wd);
            }
        }
    }
    if !wds.is_empty() {
        if let Some(u7) = h.op_batch(&u6, &wds, "ceiling:withdraw") {
            let _ = seal_next(h, &u7);
        }
    }
    h.bump("history:liquidity-ceiling-script");
}

/// A scripted history with *heavy* deposits: two parties deposit into the same pool in the same block, in the same
/// proportion but sixteen-fold apart in size, with a weight `sqrt(left) * sqrt(right)` at or beyond 2^64 (a new token of
/// huge supply against a little MEL) — the new liquidity is shared out by those weights, 1/17 : 16/17, whatever their size.
/// Afterwards both redeem what they got.
fn script_heavy_deposits(h: &mut Hist, r: &mut Rng) {
    let a0 = h.wallet.spec_addr(CovSpec::StdNew(0));
    let a1 = h.wallet.spec_addr(CovSpec::StdNew(1));
    let network = *r.pick(&[NetID::Custom02, NetID::Custom03, NetID::Mainnet]);
    let cfg = GenesisConfig {
        network,
        init_coindata: crate::txgen::out(a0, 1u128 << 40, Denom::Mel),
        stakes: BTreeMap::new(),
        init_fee_pool: CoinValue(0),
        init_fee_multiplier: 0,
    };
    let mut u = h.op_genesis(cfg);
    // the genesis coin is split: [m, 16 m, 3, 3] MEL, and the same transaction makes a new token: [t, 16 t]
    let (mexp, texp) = *r.pick(&[(12u32, 116u32), (12, 116), (20, 108), (30, 100), (8, 60)]);
    let (m, t) = (1u128 << mexp, 1u128 << texp);
    let gen = WCoin { id: CoinID::zero_zero(), cdh: CoinDataHeight { coin_data: crate::txgen::out(a0, 1u128 << 40, Denom::Mel), height: BlockHeight(0) }, spec: CovSpec::StdNew(0) };
    let rest = (1u128 << 40) - 17 * m - 6;
    let mk = assemble(&h.wallet, TxKind::Normal, &[gen], vec![
        crate::txgen::out(a0, m, Denom::Mel), crate::txgen::out(a1, 16 * m, Denom::Mel), crate::txgen::out(a0, 3, Denom::Mel), crate::txgen::out(a1, 3, Denom::Mel),
        crate::txgen::out(a0, t, Denom::NewCustom), crate::txgen::out(a1, 16 * t, Denom::NewCustom), crate::txgen::out(a0, rest, Denom::Mel),
    ], 0, vec![]);
    h.w.names.reg_tx(&mk);
    let Some(u1) = h.op_batch(&u, &[mk.clone()], "heavy:make-token") else { return };
    let seal_next = |h: &mut Hist, u: &str| -> Option<String> {
        let s = h.op_seal(u, None)?;
        h.op_next(&s)
    };
    let Some(u2) = seal_next(h, &u1) else { return };
    u = u2;
    let tok = Denom::Custom(mk.hash_nosigs());
    let key = PoolKey::new(Denom::Mel, tok);
    h.w.names.reg_poolkey(key);
    let liq = key.liq_token_denom();
    let mc = |i: u8, who: usize, v: u128, d: Denom| WCoin {
        id: mk.output_coinid(i),
        cdh: CoinDataHeight { coin_data: crate::txgen::out(if who == 0 { a0 } else { a1 }, v, d), height: BlockHeight(0) },
        spec: CovSpec::StdNew(who),
    };
    let (l, rr) = (key.left(), key.right());
    let dep = |h: &mut Hist, who: usize, mel_i: u8, tok_i: u8, k: u128| {
        let (cm, ct) = (mc(mel_i, who, k * m, Denom::Mel), mc(tok_i, who, k * t, tok));
        let addr = if who == 0 { a0 } else { a1 };
        let (cl, cr, vl, vr) = if l == Denom::Mel { (cm, ct, k * m, k * t) } else { (ct, cm, k * t, k * m) };
        let d = assemble(&h.wallet, TxKind::LiqDeposit, &[cl, cr], vec![crate::txgen::out(addr, vl, l), crate::txgen::out(addr, vr, rr)], 0, key.to_bytes().to_vec());
        h.w.names.reg_tx(&d);
        d
    };
    let (da, db) = (dep(h, 0, 0, 4, 1), dep(h, 1, 1, 5, 16));
    let both = if r.chance(1, 2) { vec![da.clone(), db.clone()] } else { vec![db.clone(), da.clone()] };
    let Some(u3) = h.op_batch(&u, &both, "heavy:two-deposits-one-block") else { return };
    let Some(u4) = seal_next(h, &u3) else { return };
    // both redeem
    let cm = CoinMapping::new(h.parts(&u4).coins.clone());
    let mut wds = vec![];
    for (d, who, fee_i) in [(&da, 0usize, 2u8), (&db, 1usize, 3u8)] {
        if let Some(c) = cm.get_coin(d.output_coinid(0)) {
            if c.coin_data.denom == liq && c.coin_data.value.0 > 0 {
                let ins = vec![mc(fee_i, who, 3, Denom::Mel), WCoin { id: d.output_coinid(0), cdh: c.clone(), spec: CovSpec::StdNew(who) }];
                let wd = assemble(&h.wallet, TxKind::LiqWithdraw, &ins, vec![crate::txgen::out(if who == 0 { a0 } else { a1 }, c.coin_data.value.0, liq)], 3, key.to_bytes().to_vec());
                h.w.names.reg_tx(&wd);
                wds.push(wd);
            }
        }
    }
    if !wds.is_empty() {
        if let Some(u5) = h.op_batch(&u4, &wds, "heavy:withdraw") {
            let _ = seal_next(h, &u5);
        }
    }
    h.bump("history:heavy-deposits-script");
}

/// A scripted history with *dust* withdrawals: a pool is opened, a large swap makes it lopsided (one reserve far above,
/// the other far below the recorded liquidity), the depositor splits the liquidity tokens into coins of 1, 1, 2 and the
/// rest, and redeems them — the dust first (two in one batch), the rest a block later.  The share of the thin side of a
/// dust redemption rounds down to zero: the request's coins are still rewritten (to zero-valued coins of the pool's
/// sides) and the record of issued liquidity goes down by exactly what was redeemed.
fn script_dust_withdrawal(h: &mut Hist, r: &mut Rng) {
    let a0 = h.wallet.spec_addr(CovSpec::StdNew(0));
    let network = *r.pick(&[NetID::Custom02, NetID::Custom02, NetID::Custom03, NetID::Testnet]);
    let cfg = GenesisConfig {
        network,
        init_coindata: crate::txgen::out(a0, 1u128 << 60, Denom::Mel),
        stakes: BTreeMap::new(),
        init_fee_pool: CoinValue(0),
        init_fee_multiplier: 0,
    };
    let mut u = h.op_genesis(cfg);
    let base: u128 = *r.pick(&[1000u128, 1000, 77, 1 << 20]);
    let swap_in: u128 = base * (50 + r.below(200) as u128);
    // a faucet mints both sides: [base, swap_in] of MEL and of a new token
    let f = Transaction {
        kind: TxKind::Faucet,
        inputs: vec![],
        outputs: vec![
            crate::txgen::out(a0, base, Denom::Mel), crate::txgen::out(a0, swap_in, Denom::Mel),
            crate::txgen::out(a0, base, Denom::NewCustom), crate::txgen::out(a0, swap_in, Denom::NewCustom),
            // every transaction needs a MEL input (the fee is an output of MEL, even when it is 0): six coins of 3
            crate::txgen::out(a0, 3, Denom::Mel), crate::txgen::out(a0, 3, Denom::Mel), crate::txgen::out(a0, 3, Denom::Mel),
            crate::txgen::out(a0, 3, Denom::Mel), crate::txgen::out(a0, 3, Denom::Mel), crate::txgen::out(a0, 3, Denom::Mel),
            // a second deposit into the (then existing) pool, in the block of a withdrawal from it
            crate::txgen::out(a0, base, Denom::Mel), crate::txgen::out(a0, base, Denom::NewCustom),
        ],
        fee: CoinValue(0),
        covenants: vec![],
        data: r.bytes(6).into(),
        sigs: vec![],
    };
    h.w.names.reg_tx(&f);
    let Some(u1) = h.op_batch(&u, &[f.clone()], "dust:faucet") else { return };
    u = u1;
    let tok = Denom::Custom(f.hash_nosigs());
    let key = PoolKey::new(Denom::Mel, tok);
    h.w.names.reg_poolkey(key);
    let liq = key.liq_token_denom();
    let seal_next = |h: &mut Hist, u: &str| -> Option<String> {
        let s = h.op_seal(u, None)?;
        h.op_next(&s)
    };
    let Some(u2) = seal_next(h, &u) else { return };
    u = u2;
    let height = h.parts(&u).height;
    let fcoin = |i: u8, denom: Denom, v: u128| WCoin {
        id: f.output_coinid(i),
        cdh: CoinDataHeight { coin_data: crate::txgen::out(a0, v, denom), height: BlockHeight(height.0 - 1) },
        spec: CovSpec::StdNew(0),
    };
    let idx = |d: Denom, second: bool| (if d == Denom::Mel { 0u8 } else { 2u8 }) + second as u8;
    let (l, rr) = (key.left(), key.right());
    // deposit (base, base)
    let d1 = assemble(&h.wallet, TxKind::LiqDeposit, &[fcoin(idx(l, false), l, base), fcoin(idx(rr, false), rr, base)],
        vec![crate::txgen::out(a0, base, l), crate::txgen::out(a0, base, rr)], 0, key.to_bytes().to_vec());
    h.w.names.reg_tx(&d1);
    let Some(u3) = h.op_batch(&u, &[d1.clone()], "dust:deposit") else { return };
    let Some(u4) = seal_next(h, &u3) else { return };
    u = u4;
    // a large swap from one side makes the other side thin
    let from = if r.chance(1, 2) { l } else { rr };
    let sw = if from == Denom::Mel {
        assemble(&h.wallet, TxKind::Swap, &[fcoin(idx(from, true), from, swap_in)], vec![crate::txgen::out(a0, swap_in, from)], 0, key.to_bytes().to_vec())
    } else {
        assemble(&h.wallet, TxKind::Swap, &[fcoin(idx(from, true), from, swap_in), fcoin(4, Denom::Mel, 3)], vec![crate::txgen::out(a0, swap_in, from)], 3, key.to_bytes().to_vec())
    };
    h.w.names.reg_tx(&sw);
    // the depositor splits the liquidity tokens: 1, 1, 2, rest
    let cm = CoinMapping::new(h.parts(&u).coins.clone());
    let Some(lc) = cm.get_coin(d1.output_coinid(0)) else { return };
    if lc.coin_data.denom != liq || lc.coin_data.value.0 < 8 {
        return;
    }
    let total = lc.coin_data.value.0;
    let parts = [1u128, 1, 2, total - 4];
    let split = assemble(&h.wallet, TxKind::Normal, &[WCoin { id: d1.output_coinid(0), cdh: lc.clone(), spec: CovSpec::StdNew(0) }, fcoin(5, Denom::Mel, 3)],
        parts.iter().map(|v| crate::txgen::out(a0, *v, liq)).collect(), 3, vec![]);
    h.w.names.reg_tx(&split);
    let Some(u5a) = h.op_batch(&u, &[sw.clone()], "dust:swap") else { return };
    let Some(u5) = h.op_batch(&u5a, &[split.clone()], "dust:split") else { return };
    let Some(u6) = seal_next(h, &u5) else { return };
    u = u6;
    let hsplit = BlockHeight(h.parts(&u).height.0 - 1);
    let wd = |h: &mut Hist, i: u8, v: u128| {
        let ins = vec![fcoin(6 + i, Denom::Mel, 3), WCoin { id: split.output_coinid(i), cdh: CoinDataHeight { coin_data: crate::txgen::out(a0, v, liq), height: hsplit }, spec: CovSpec::StdNew(0) }];
        let t = assemble(&h.wallet, TxKind::LiqWithdraw, &ins, vec![crate::txgen::out(a0, v, liq)], 3, key.to_bytes().to_vec());
        h.w.names.reg_tx(&t);
        t
    };
    // dust first: two requests of 1 in one batch, then the request of 2 in a batch of its own, same block
    let (w0, w1, w2) = (wd(h, 0, 1), wd(h, 1, 1), wd(h, 2, 2));
    let Some(u7) = h.op_batch(&u, &[w0, w1], "dust:withdraw-1-1") else { return };
    // … together with a deposit into the same, existing pool: deposits are settled before withdrawals, and the withdrawal
    // must see the pool the deposit left behind
    let (dl, dr) = if l == Denom::Mel { (fcoin(10, l, base), fcoin(11, rr, base)) } else { (fcoin(11, l, base), fcoin(10, rr, base)) };
    let d2 = assemble(&h.wallet, TxKind::LiqDeposit, &[dl, dr], vec![crate::txgen::out(a0, base, l), crate::txgen::out(a0, base, rr)], 0, key.to_bytes().to_vec());
    h.w.names.reg_tx(&d2);
    let second = if r.chance(1, 2) { vec![w2, d2] } else { vec![d2, w2] };
    let Some(u8) = h.op_batch(&u7, &second, "dust:withdraw-2+deposit") else { return };
    let Some(u9) = seal_next(h, &u8) else { return };
    // the rest a block later
    let w3 = wd(h, 3, total - 4);
    if let Some(u10) = h.op_batch(&u9, &[w3], "dust:withdraw-rest") {
        if let Some(u11) = seal_next(h, &u10) {
            let _ = seal_next(h, &u11);
        }
    }
    h.bump("history:dust-withdrawal-script");
}

/// A scripted history across the TIP-902 activation: before it the ERG/SYM pool is an ordinary pool; a user opens it,
/// withdraws everything again (or not), and the chain seals on through the activation height, where the pool becomes a
/// built-in that pegging reads its price from.
fn script_ergsym_before_tip902(h: &mut Hist, r: &mut Rng) {
    let a0 = h.wallet.spec_addr(CovSpec::StdNew(0));
    let (network, height) = if r.chance(1, 2) { (NetID::Testnet, 496u64) } else { (NetID::Mainnet, 179_996u64) };
    let mut coins = vec![];
    for i in 0..6u8 {
        let denom = match i {
            4 => Denom::Sym,
            5 => Denom::Erg,
            _ => Denom::Mel,
        };
        coins.push((CoinID::new(TxHash(tmelcrypt::hash_keyed(b"t902coin", [i])), 0), CoinDataHeight { coin_data: crate::txgen::out(a0, 1_000_000_000_000, denom), height: BlockHeight(height - 3) }));
    }
    let pl = |l: u128, rr: u128, q: u128| PoolState { lefts: l, rights: rr, price_accum: 0, liqs: q };
    let spec = FabSpec {
        network,
        height,
        fee_pool: 1 << 20,
        fee_multiplier: 0,
        dosc_speed: 1_000_000,
        coins: coins.clone(),
        pools: vec![(PoolKey::new(Denom::Mel, Denom::Sym), pl(2_000_000_000, 3_000_000_000, 1_000_000_000)), (PoolKey::new(Denom::Mel, Denom::Erg), pl(2_000_000_000, 3_000_000_000, 1_000_000_000))],
        stakes: vec![],
        history: vec![(height - 1, 1_000_000), (height - 2, 1_000_000)],
    };
    let s0 = h.op_fab(&spec);
    let Some(mut u) = h.op_next(&s0) else { return };
    let wc: Vec<WCoin> = coins.into_iter().map(|(id, cdh)| WCoin { id, cdh, spec: CovSpec::StdNew(0) }).collect();
    let key = PoolKey::new(Denom::Erg, Denom::Sym);
    h.w.names.reg_poolkey(key);
    let (l, rr) = (key.left(), key.right());
    let coin_of = |d: Denom| if d == Denom::Sym { wc[4].clone() } else { wc[5].clone() };
    let amount = *r.pick(&[1u128, 1000, 1_000_000_000]);
    let ins = vec![coin_of(l), coin_of(rr), wc[0].clone()];
    let outs = vec![crate::txgen::out(a0, amount, l), crate::txgen::out(a0, amount, rr), crate::txgen::out(a0, 1_000_000_000_000 - amount, l), crate::txgen::out(a0, 1_000_000_000_000 - amount, rr), crate::txgen::out(a0, 1_000_000_000_000, Denom::Mel)];
    let dep = assemble(&h.wallet, TxKind::LiqDeposit, &ins, outs, 0, key.to_bytes().to_vec());
    h.w.names.reg_tx(&dep);
    if r.chance(1, 2) {
        // variant: nobody opens the pool before the activation.  The first request for it arrives in the activation block
        // itself - on the node that ran through, and on a node restarted from the last block before the activation: the
        // built-in pool is created (10^9 a side, owned by nobody) before the deposit is settled into it, on both
        let activation = if network == NetID::Testnet { 500u64 } else { 180_000 };
        let mut last: Option<String> = None;
        while h.parts(&u).height.0 < activation {
            let Some(s) = h.op_seal(&u, None) else { return };
            let Some(nu) = h.op_next(&s) else { return };
            last = Some(s);
            u = nu;
        }
        let mut lineages = vec![u.clone()];
        if let Some(s) = last {
            if let Some(rs) = h.op_restore(&s) {
                if let Some(ru) = h.op_next(&rs) {
                    lineages.push(ru);
                }
            }
        }
        for lu in lineages {
            let Some(b) = h.op_batch(&lu, &[dep.clone()], "t902:first-request-in-the-activation-block") else { continue };
            let Some(s) = h.op_seal(&b, None) else { continue };
            let Some(n1) = h.op_next(&s) else { continue };
            let Some(s2) = h.op_seal(&n1, None) else { continue };
            let _ = h.op_next(&s2);
        }
        h.bump("history:ergsym-first-request-at-activation-script");
        return;
    }
    let Some(u1) = h.op_batch(&u, &[dep.clone()], "t902:open-ergsym") else { return };
    let Some(s1) = h.op_seal(&u1, None) else { return };
    let Some(u2) = h.op_next(&s1) else { return };
    u = u2;
    // the only holder withdraws everything — before the activation (the emptied pool is still there when TIP-902 makes
    // it a built-in one) or after it (the built-in pool is emptied by the withdrawals of a block whose pegging step
    // then needs its price) — or nothing
    let liqc = h.w.sealed.get(&s1).unwrap().coin(dep.output_coinid(0));
    let late = r.chance(1, 2);
    let mut wd: Option<Transaction> = None;
    if let Some(liqc) = liqc {
        if r.chance(3, 4) && liqc.coin_data.value.0 > 0 && liqc.coin_data.denom == key.liq_token_denom() {
            let liqw = WCoin { id: dep.output_coinid(0), cdh: liqc.clone(), spec: CovSpec::StdNew(0) };
            let outs = vec![crate::txgen::out(a0, liqc.coin_data.value.0, liqc.coin_data.denom)];
            let feec = wc[1].clone();
            let t = assemble(&h.wallet, TxKind::LiqWithdraw, &[feec.clone(), liqw], outs, feec.cdh.coin_data.value.0, key.to_bytes().to_vec());
            h.w.names.reg_tx(&t);
            wd = Some(t);
        }
    }
    if !late {
        if let Some(t) = wd.take() {
            if let Some(u3) = h.op_batch(&u, &[t], "t902:withdraw-everything") {
                u = u3;
            }
        }
    }
    // seal on through the activation height
    for _ in 0..4 {
        let Some(s) = h.op_seal(&u, None) else { return };
        let Some(nu) = h.op_next(&s) else { return };
        u = nu;
    }
    if let Some(t) = wd.take() {
        if let Some(u3) = h.op_batch(&u, &[t], "t902:withdraw-everything-after-activation") {
            u = u3;
        }
        for _ in 0..2 {
            let Some(s) = h.op_seal(&u, None) else { return };
            let Some(nu) = h.op_next(&s) else { return };
            u = nu;
        }
    }
    h.bump("history:ergsym-before-tip902-script");
}

/// A scripted history from a real Testnet genesis (not a fabricated state) through the TIP activation height 500: the
/// genesis coin is left alone or moved in block 0, about five hundred empty blocks are sealed, and the coins are spent
/// after the activation.  The one-off count migration starts from the tree the genesis built: a count entry written
/// before the activation, or a coin the migration does not see, shows in the counts from block 500 on.
fn script_testnet_from_genesis(h: &mut Hist, r: &mut Rng) {
    let a0 = h.wallet.spec_addr(CovSpec::StdNew(0));
    let a1 = h.wallet.spec_addr(CovSpec::StdNew(1));
    let cfg = GenesisConfig {
        network: NetID::Testnet,
        init_coindata: crate::txgen::out(a0, 1u128 << 40, Denom::Mel),
        stakes: BTreeMap::new(),
        init_fee_pool: CoinValue(1 << 20),
        init_fee_multiplier: 0,
    };
    let mut u = h.op_genesis(cfg);
    let gen = WCoin { id: CoinID::zero_zero(), cdh: CoinDataHeight { coin_data: crate::txgen::out(a0, 1u128 << 40, Denom::Mel), height: BlockHeight(0) }, spec: CovSpec::StdNew(0) };
    // the coin that is there at the activation: the genesis coin itself, or two coins made from it in block 0
    let mut live: Vec<WCoin> = vec![gen.clone()];
    if r.chance(1, 2) {
        let mv = assemble(&h.wallet, TxKind::Normal, &[gen], vec![crate::txgen::out(a1, 1u128 << 39, Denom::Mel), crate::txgen::out(a1, 1u128 << 39, Denom::Mel)], 0, vec![]);
        h.w.names.reg_tx(&mv);
        let Some(u1) = h.op_batch(&u, &[mv.clone()], "fromgenesis:move-genesis-coin") else { return };
        u = u1;
        live = (0..2u8).map(|i| WCoin { id: mv.output_coinid(i), cdh: CoinDataHeight { coin_data: mv.outputs[i as usize].clone(), height: BlockHeight(0) }, spec: CovSpec::StdNew(1) }).collect();
    }
    while h.parts(&u).height.0 < 501 {
        let Some(s) = h.op_seal(&u, None) else { return };
        let Some(nu) = h.op_next(&s) else { return };
        u = nu;
    }
    // after the activation: spend what was there before it, one coin per block
    for c in live {
        let v = c.cdh.coin_data.value.0;
        let t = assemble(&h.wallet, TxKind::Normal, &[c], vec![crate::txgen::out(a0, v, Denom::Mel)], 0, vec![]);
        h.w.names.reg_tx(&t);
        let Some(b) = h.op_batch(&u, &[t], "fromgenesis:spend-after-activation") else { return };
        let Some(s) = h.op_seal(&b, None) else { return };
        let Some(nu) = h.op_next(&s) else { return };
        u = nu;
    }
    h.bump("history:testnet-from-genesis-script");
}

/// A scripted history across the TIP-906 activation (Testnet height 500): a faucet accepted before it, replayed in every
/// block up to and after it — "at most once over the whole life of the chain" includes the block in which the coin tree
/// is rebuilt with counts — and a faucet first accepted after the activation, replayed once more.
fn script_faucet_across_activation(h: &mut Hist, r: &mut Rng) {
    let a0 = h.wallet.spec_addr(CovSpec::StdNew(0));
    let height = 496 + r.below(3);
    let mut coins = vec![];
    for i in 0..3u8 {
        coins.push((CoinID::new(TxHash(tmelcrypt::hash_keyed(b"t906coin", [i])), 0), CoinDataHeight { coin_data: crate::txgen::out(a0, 1_000_000_000_000, Denom::Mel), height: BlockHeight(height - 3) }));
    }
    let pl = |l: u128, rr: u128, q: u128| PoolState { lefts: l, rights: rr, price_accum: 0, liqs: q };
    let spec = FabSpec {
        network: NetID::Testnet,
        height,
        fee_pool: 1 << 20,
        fee_multiplier: 0,
        dosc_speed: 1_000_000,
        coins,
        pools: vec![(PoolKey::new(Denom::Mel, Denom::Sym), pl(2_000_000_000, 3_000_000_000, 1_000_000_000)), (PoolKey::new(Denom::Mel, Denom::Erg), pl(2_000_000_000, 3_000_000_000, 1_000_000_000))],
        stakes: vec![],
        history: vec![(height - 1, 1_000_000), (height - 2, 1_000_000)],
    };
    let s0 = h.op_fab(&spec);
    let Some(mut u) = h.op_next(&s0) else { return };
    let mk = |r: &mut Rng, outs: Vec<CoinData>, fee: u128| Transaction { kind: TxKind::Faucet, inputs: vec![], outputs: outs, fee: CoinValue(fee), covenants: vec![], data: r.bytes(8).into(), sigs: vec![] };
    // three shapes: one output, several outputs, no output at all (only a fee)
    let early = vec![
        mk(r, vec![crate::txgen::out(a0, 1000, Denom::Mel)], 0),
        mk(r, vec![crate::txgen::out(a0, 5, Denom::Sym), crate::txgen::out(a0, 7, Denom::Erg)], 1000),
        mk(r, vec![], 50_000),
    ];
    for f in &early {
        h.w.names.reg_tx(f);
        if let Some(nu) = h.op_batch(&u, &[f.clone()], "t906:faucet-before-activation") {
            u = nu;
        }
    }
    for _ in 0..(502 - height) {
        let Some(s) = h.op_seal(&u, None) else { return };
        let Some(nu) = h.op_next(&s) else { return };
        u = nu;
        // every earlier faucet is a duplicate in every later block
        for f in &early {
            if let Some(nu) = h.op_batch(&u, &[f.clone()], "t906:faucet-replay") {
                u = nu;
            }
        }
    }
    let late = mk(r, vec![crate::txgen::out(a0, 1000, Denom::Mel)], 0);
    h.w.names.reg_tx(&late);
    if let Some(nu) = h.op_batch(&u, &[late.clone()], "t906:faucet-after-activation") {
        u = nu;
    }
    let _ = h.op_batch(&u, &[late.clone()], "t906:faucet-replay-same-block");
    if let Some(s) = h.op_seal(&u, None) {
        if let Some(nu) = h.op_next(&s) {
            let _ = h.op_batch(&nu, &[late], "t906:faucet-replay");
            let _ = h.op_batch(&nu, &[early[0].clone()], "t906:faucet-replay");
        }
    }
    h.bump("history:faucet-across-activation-script");
}

/// A scripted history with one big block: a chain of `n` transactions each spending the previous one's output (locked
/// by the always-true covenant), applied one at a time, sealed, and then offered as a block to the parent — whose
/// `apply_block` sees them as an unordered set of more than 256 members with dependencies all over it.
fn script_big_block(h: &mut Hist, r: &mut Rng) {
    let at = h.wallet.spec_addr(CovSpec::AlwaysTrue);
    let cfg = GenesisConfig {
        network: *r.pick(&[NetID::Custom02, NetID::Custom08]),
        init_coindata: crate::txgen::out(at, 1u128 << 60, Denom::Mel),
        stakes: BTreeMap::new(),
        init_fee_pool: CoinValue(0),
        init_fee_multiplier: 0,
    };
    let u0 = h.op_genesis(cfg);
    let Some(s0) = h.op_seal(&u0, None) else { return };
    let Some(mut u) = h.op_next(&s0) else { return };
    let n = 257 + r.below(60) as usize;
    let mut prev = WCoin { id: CoinID::zero_zero(), cdh: CoinDataHeight { coin_data: crate::txgen::out(at, 1u128 << 60, Denom::Mel), height: BlockHeight(0) }, spec: CovSpec::AlwaysTrue };
    let height = h.parts(&u).height;
    let mut all = vec![];
    for i in 0..n {
        let v = prev.cdh.coin_data.value.0;
        let tx = assemble(&h.wallet, TxKind::Normal, &[prev.clone()], vec![crate::txgen::out(at, v, Denom::Mel)], 0, vec![(i % 251) as u8, (i / 251) as u8]);
        h.w.names.reg_tx(&tx);
        prev = WCoin { id: tx.output_coinid(0), cdh: CoinDataHeight { coin_data: tx.outputs[0].clone(), height }, spec: CovSpec::AlwaysTrue };
        all.push(tx);
    }
    // applied in three batches (the last one in reverse order): the state is the same however they arrive
    let (a, rest) = all.split_at(n / 3);
    let (b, c) = rest.split_at(n / 3);
    let mut c: Vec<Transaction> = c.to_vec();
    c.reverse();
    for (part, label) in [(a.to_vec(), "bigblock:first"), (b.to_vec(), "bigblock:second"), (c, "bigblock:third-reversed")] {
        match h.op_batch(&u, &part, label) {
            Some(nu) => u = nu,
            None => return,
        }
    }
    let Some(sealed) = h.op_seal(&u, None) else { return };
    let blk = h.w.sealed.get(&sealed).unwrap().to_block();
    // several times: the block's HashSet is re-hashed per clone, the verdict must not depend on its iteration order
    for _ in 0..3 {
        let copy = Block { header: blk.header, transactions: blk.transactions.iter().cloned().collect(), proposer_action: blk.proposer_action };
        let _ = h.op_block(&s0, &copy, "honest");
    }
    h.bump("history:big-block-script");
}

/// A scripted history with a transaction of more than 256 inputs (an input's position is a `u8` in a coin id and in
/// the covenant environment, but a transaction may list any number of inputs): every input, wherever it stands, must
/// exist, be approved by its covenant and count towards the balance.
fn script_many_inputs(h: &mut Hist, r: &mut Rng) {
    let at = h.wallet.spec_addr(CovSpec::AlwaysTrue);
    let never = h.wallet.spec_addr(CovSpec::Never);
    let cfg = GenesisConfig {
        network: *r.pick(&[NetID::Custom02, NetID::Custom08, NetID::Testnet]),
        init_coindata: crate::txgen::out(at, 1u128 << 60, Denom::Mel),
        stakes: BTreeMap::new(),
        init_fee_pool: CoinValue(0),
        init_fee_multiplier: 0,
    };
    let u0 = h.op_genesis(cfg);
    let height0 = h.parts(&u0).height;
    // two transactions of 255 outputs each: 250 spendable by anyone + 4 that nobody can spend + the change
    let mut free: Vec<WCoin> = vec![];
    let mut locked: Vec<WCoin> = vec![];
    let mut prev = WCoin { id: CoinID::zero_zero(), cdh: CoinDataHeight { coin_data: crate::txgen::out(at, 1u128 << 60, Denom::Mel), height: BlockHeight(0) }, spec: CovSpec::AlwaysTrue };
    let mut u = u0;
    for round in 0..2u8 {
        let mut outs = vec![];
        for _ in 0..250 {
            outs.push(crate::txgen::out(at, 1000, Denom::Mel));
        }
        for _ in 0..4 {
            outs.push(crate::txgen::out(never, 1000, Denom::Mel));
        }
        let rest = prev.cdh.coin_data.value.0 - 254 * 1000;
        outs.push(crate::txgen::out(at, rest, Denom::Mel));
        let tx = assemble(&h.wallet, TxKind::Normal, &[prev.clone()], outs, 0, vec![round]);
        h.w.names.reg_tx(&tx);
        for i in 0..250u8 {
            free.push(WCoin { id: tx.output_coinid(i), cdh: CoinDataHeight { coin_data: tx.outputs[i as usize].clone(), height: height0 }, spec: CovSpec::AlwaysTrue });
        }
        for i in 250..254u8 {
            locked.push(WCoin { id: tx.output_coinid(i), cdh: CoinDataHeight { coin_data: tx.outputs[i as usize].clone(), height: height0 }, spec: CovSpec::Never });
        }
        prev = WCoin { id: tx.output_coinid(254), cdh: CoinDataHeight { coin_data: tx.outputs[254].clone(), height: height0 }, spec: CovSpec::AlwaysTrue };
        match h.op_batch(&u, &[tx], "many-inputs:fan-out") {
            Some(nu) => u = nu,
            None => return,
        }
    }
    // sometimes the spending happens in a later block
    if r.chance(1, 2) {
        let Some(s) = h.op_seal(&u, None) else { return };
        let Some(nu) = h.op_next(&s) else { return };
        u = nu;
    }
    let n = 257 + r.below(120) as usize;
    let pay = |ins: &[WCoin], skip_from: usize| -> Vec<CoinData> {
        // one output carrying the value of the inputs before position `skip_from`
        let v: u128 = ins.iter().take(skip_from).map(|c| c.cdh.coin_data.value.0).sum();
        vec![crate::txgen::out(at, v, Denom::Mel)]
    };
    // (a) all approved, all counted
    let ins: Vec<WCoin> = free.iter().take(n).cloned().collect();
    let ok_tx = assemble(&h.wallet, TxKind::Normal, &ins, pay(&ins, n), 0, vec![1]);
    // (b) a coin nobody may spend, at a position beyond 255 (and, as a control, at a position below)
    let pos_hi = 256 + r.below((n - 256) as u64) as usize;
    let pos_lo = r.below(256) as usize;
    let mut variants: Vec<(Transaction, String)> = vec![(ok_tx, "many-inputs:all-approved".into())];
    for (pos, label) in [(pos_hi, "many-inputs:unapproved-input-beyond-255"), (pos_lo, "many-inputs:unapproved-input-below-256")] {
        let mut ins: Vec<WCoin> = free.iter().take(n).cloned().collect();
        ins[pos] = locked[r.below(locked.len() as u64) as usize].clone();
        let tx = assemble(&h.wallet, TxKind::Normal, &ins, pay(&ins, n), 0, vec![2, pos as u8]);
        variants.push((tx, label.into()));
    }
    // (c) the outputs are worth the first 256 inputs only: the rest of the inputs would be burnt
    let ins: Vec<WCoin> = free.iter().take(n).cloned().collect();
    variants.push((assemble(&h.wallet, TxKind::Normal, &ins, pay(&ins, 256), 0, vec![3]), "many-inputs:inputs-beyond-255-not-paid-out".into()));
    // (d) a coin that does not exist at a position beyond 255
    let mut ins: Vec<WCoin> = free.iter().take(n).cloned().collect();
    ins[pos_hi].id = CoinID::new(TxHash(tmelcrypt::hash_single(b"no such transaction")), 0);
    variants.push((assemble(&h.wallet, TxKind::Normal, &ins, pay(&ins, n), 0, vec![4]), "many-inputs:missing-coin-beyond-255".into()));
    // (e) the same coin twice, the second time beyond 255
    let mut ins: Vec<WCoin> = free.iter().take(n).cloned().collect();
    ins[pos_hi] = ins[pos_lo].clone();
    variants.push((assemble(&h.wallet, TxKind::Normal, &ins, pay(&ins, n), 0, vec![5]), "many-inputs:same-coin-twice-second-beyond-255".into()));
    for (tx, label) in &variants {
        h.w.names.reg_tx(tx);
        let _ = h.op_batch(&u, &[tx.clone()], label);
    }
    // (f) a coin made INSIDE the batch, worth the largest value a coin may have, listed 256 times by another member of the
    // batch: a repeated input is a double spend wherever the coin comes from (and 256 x 2^120 does not fit the total)
    {
        let fund = free[n].clone();
        let maker = assemble(&h.wallet, TxKind::Normal, &[fund.clone()], vec![crate::txgen::out(at, 1u128 << 120, Denom::NewCustom), crate::txgen::out(at, fund.cdh.coin_data.value.0, Denom::Mel)], 0, vec![6]);
        h.w.names.reg_tx(&maker);
        let mut made_cd = maker.outputs[0].clone();
        made_cd.denom = Denom::Custom(maker.hash_nosigs());
        let made = WCoin { id: maker.output_coinid(0), cdh: CoinDataHeight { coin_data: made_cd.clone(), height: h.parts(&u).height }, spec: CovSpec::AlwaysTrue };
        let fee_coin = WCoin { id: maker.output_coinid(1), cdh: CoinDataHeight { coin_data: maker.outputs[1].clone(), height: h.parts(&u).height }, spec: CovSpec::AlwaysTrue };
        for times in [2usize, 256] {
            let mut ins: Vec<WCoin> = vec![fee_coin.clone()];
            for _ in 0..times {
                ins.push(made.clone());
            }
            let mut out_cd = made_cd.clone();
            out_cd.value = CoinValue(1u128 << 120);
            let spender = assemble(&h.wallet, TxKind::Normal, &ins, vec![out_cd, crate::txgen::out(at, fee_coin.cdh.coin_data.value.0, Denom::Mel)], 0, vec![7, times as u8]);
            h.w.names.reg_tx(&spender);
            let _ = h.op_batch(&u, &[maker.clone(), spender.clone()], &format!("many-inputs:coin-made-in-the-batch-listed-{}-times", times));
            let _ = h.op_batch(&u, &[spender, maker.clone()], &format!("many-inputs:coin-made-in-the-batch-listed-{}-times-spender-first", times));
        }
    }
    // and the honest one goes into a block
    if let Some(nu) = h.op_batch(&u, &[variants[0].0.clone()], "many-inputs:all-approved") {
        let _ = h.op_seal(&nu, None);
    }
    h.bump("history:many-inputs-script");
}


/// A scripted block whose fees add up to more than a u128 holds: 254..=258 faucet transactions each paying the largest
/// representable fee (2^120).  Fee pool and tips saturate per transaction; summing first and splitting afterwards, or
/// summing in a different grouping, gives different tips once the total passes 2^128.  Applied as one batch, in two
/// halves and one at a time; sealed without a proposer action (paying out saturated tips is outside the supply premise).
fn script_fee_saturation(h: &mut Hist, r: &mut Rng) {
    let a0 = h.wallet.spec_addr(CovSpec::StdNew(0));
    let cfg = GenesisConfig {
        network: *r.pick(&[NetID::Custom02, NetID::Custom08, NetID::Testnet]),
        init_coindata: crate::txgen::out(a0, 1u128 << 40, Denom::Mel),
        stakes: BTreeMap::new(),
        init_fee_pool: CoinValue(*r.pick(&[0u128, 1 << 30])),
        init_fee_multiplier: *r.pick(&[1u128 << 16, 1 << 20, 1, 0]),
    };
    let u0 = h.op_genesis(cfg);
    let n = 254 + r.below(5) as usize;
    let mut all = vec![];
    for i in 0..n {
        let tx = Transaction {
            kind: TxKind::Faucet,
            inputs: vec![],
            outputs: if i % 7 == 0 { vec![crate::txgen::out(a0, 1 + i as u128, Denom::Mel)] } else { vec![] },
            fee: CoinValue(1u128 << 120),
            covenants: vec![],
            data: vec![(i % 251) as u8, (i / 251) as u8, 0x5a].into(),
            sigs: vec![],
        };
        h.w.names.reg_tx(&tx);
        all.push(tx);
    }
    let mut ends: Vec<(String, String)> = vec![];
    // the whole block at once
    if let Some(u) = h.op_batch(&u0, &all, "feesat:one-batch") {
        ends.push(("one batch".into(), dump_unsealed(h.w.unsealed.get(&u).unwrap(), &h.w.names)));
        let _ = h.op_seal(&u, None);
    }
    // in two halves
    let (a, b) = all.split_at(n / 2);
    if let Some(u) = h.op_batch(&u0, a, "feesat:first-half") {
        if let Some(u) = h.op_batch(&u, b, "feesat:second-half") {
            ends.push(("two halves".into(), dump_unsealed(h.w.unsealed.get(&u).unwrap(), &h.w.names)));
            let _ = h.op_seal(&u, None);
        }
    }
    // the last few one at a time on top of the rest
    let (a, b) = all.split_at(n - 4);
    if let Some(mut u) = h.op_batch(&u0, a, "feesat:all-but-four") {
        for tx in b {
            match h.op_batch(&u, &[tx.clone()], "feesat:single") {
                Some(nu) => u = nu,
                None => return,
            }
        }
        ends.push(("all but four, then one at a time".into(), dump_unsealed(h.w.unsealed.get(&u).unwrap(), &h.w.names)));
        let _ = h.op_seal(&u, None);
    }
    // C03: the same transactions give the same state however they are grouped into batches
    if ends.len() >= 2 {
        let differing: Vec<String> = ends.iter().skip(1).filter(|e| e.1 != ends[0].1).map(|e| format!("'{}' differs from '{}'", e.0, ends[0].0)).collect();
        h.out.fact("C03", "batch-equals-sequential", differing.is_empty(), &format!("{} max-fee faucets: {}", n, differing.join("; ")));
    }
    h.bump("history:fee-saturation-script");
}


/// A scripted block whose swap requests against one builtin pool add up to exactly 2^128 on one side (256 coins of
/// 2^120, minted by faucets the block before; 255 as the control): the request total saturates at u128::MAX, every
/// request is still paid its floor share, the reserves move by exactly what the requests brought and took.
fn script_swap_saturation(h: &mut Hist, r: &mut Rng) {
    let at = h.wallet.spec_addr(CovSpec::AlwaysTrue);
    let cfg = GenesisConfig {
        network: *r.pick(&[NetID::Custom02, NetID::Custom08]),
        init_coindata: crate::txgen::out(at, 1u128 << 40, Denom::Mel),
        stakes: BTreeMap::new(),
        init_fee_pool: CoinValue(0),
        init_fee_multiplier: 0,
    };
    let u0 = h.op_genesis(cfg);
    let (denom, key) = if r.chance(1, 2) { (Denom::Sym, PoolKey::new(Denom::Mel, Denom::Sym)) } else { (Denom::Erg, PoolKey::new(Denom::Mel, Denom::Erg)) };
    let n = *r.pick(&[256usize, 256, 255]);
    let mut mints = vec![];
    for i in 0..n {
        let tx = Transaction {
            kind: TxKind::Faucet,
            inputs: vec![],
            outputs: vec![crate::txgen::out(at, 1u128 << 120, denom), crate::txgen::out(at, 1000, Denom::Mel)],
            fee: CoinValue(0),
            covenants: vec![],
            data: vec![(i % 251) as u8, (i / 251) as u8, 0xa5].into(),
            sigs: vec![],
        };
        h.w.names.reg_tx(&tx);
        mints.push(tx);
    }
    let Some(u1) = h.op_batch(&u0, &mints, "swapsat:mint") else { return };
    let Some(s1) = h.op_seal(&u1, None) else { return };
    let Some(u2) = h.op_next(&s1) else { return };
    let height = h.parts(&u2).height;
    let mut swaps = vec![];
    for (i, m) in mints.iter().enumerate() {
        let c = WCoin { id: m.output_coinid(0), cdh: CoinDataHeight { coin_data: m.outputs[0].clone(), height: BlockHeight(height.0 - 1) }, spec: CovSpec::AlwaysTrue };
        // every transaction needs a MEL input (the fee, even a zero one, is balanced against it)
        let c2 = WCoin { id: m.output_coinid(1), cdh: CoinDataHeight { coin_data: m.outputs[1].clone(), height: BlockHeight(height.0 - 1) }, spec: CovSpec::AlwaysTrue };
        let tx = assemble(&h.wallet, TxKind::Swap, &[c, c2], vec![crate::txgen::out(at, 1u128 << 120, denom), crate::txgen::out(at, 1000, Denom::Mel)], 0, key.to_bytes().to_vec());
        let _ = i;
        h.w.names.reg_tx(&tx);
        swaps.push(tx);
    }
    // a small request on the other side as well, so that both directions settle in the block
    let Some(u3) = h.op_batch(&u2, &swaps, "swapsat:requests") else { return };
    let _ = h.op_seal(&u3, None);
    h.bump("history:swap-saturation-script");
}


/// A scripted TIP-906 activation over a LARGE coin set: more than 4096 distinct covenant hashes, and a few covenant
/// hashes whose coins are spread all over the tree's iteration order - the one-off initialisation has to count every
/// coin of every covenant hash however it batches its work.
fn script_big_activation(h: &mut Hist, r: &mut Rng) {
    let a0 = h.wallet.spec_addr(CovSpec::StdNew(0));
    let at = h.wallet.spec_addr(CovSpec::AlwaysTrue);
    let height = 499u64;
    let n_distinct = 4100 + r.below(300) as usize;
    let mut coins = vec![];
    for i in 0..n_distinct {
        let cov = Address(tmelcrypt::hash_keyed(b"t906 big activation", (i as u32).to_be_bytes()));
        coins.push((CoinID::new(TxHash(tmelcrypt::hash_keyed(b"t906bigcoin", (i as u32).to_be_bytes())), 0), CoinDataHeight { coin_data: crate::txgen::out(cov, 1 + i as u128, Denom::Mel), height: BlockHeight(height - 3) }));
    }
    // shared covenant hashes: 700 coins of the wallet's key, 300 spendable by anyone
    for i in 0..1000u32 {
        let cov = if i % 10 < 7 { a0 } else { at };
        coins.push((CoinID::new(TxHash(tmelcrypt::hash_keyed(b"t906sharedcoin", i.to_be_bytes())), (i % 3) as u8), CoinDataHeight { coin_data: crate::txgen::out(cov, 1_000_000_000, Denom::Mel), height: BlockHeight(height - 2) }));
    }
    let pl = |l: u128, rr: u128, q: u128| PoolState { lefts: l, rights: rr, price_accum: 0, liqs: q };
    let spec = FabSpec {
        network: NetID::Testnet,
        height,
        fee_pool: 1 << 20,
        fee_multiplier: 0,
        dosc_speed: 1_000_000,
        coins,
        pools: vec![(PoolKey::new(Denom::Mel, Denom::Sym), pl(2_000_000_000, 3_000_000_000, 1_000_000_000)), (PoolKey::new(Denom::Mel, Denom::Erg), pl(2_000_000_000, 3_000_000_000, 1_000_000_000))],
        stakes: vec![],
        history: vec![(height - 1, 1_000_000), (height - 2, 1_000_000)],
    };
    let s0 = h.op_fab(&spec);
    let Some(u) = h.op_next(&s0) else { return }; // 500: the counts are initialised here
    // after the activation: spend one coin of a shared covenant hash and one of a singleton
    let shared = WCoin { id: CoinID::new(TxHash(tmelcrypt::hash_keyed(b"t906sharedcoin", 7u32.to_be_bytes())), 1), cdh: CoinDataHeight { coin_data: crate::txgen::out(at, 1_000_000_000, Denom::Mel), height: BlockHeight(height - 2) }, spec: CovSpec::AlwaysTrue };
    let tx = assemble(&h.wallet, TxKind::Normal, &[shared.clone()], vec![crate::txgen::out(a0, 1_000_000_000, Denom::Mel)], 0, vec![1]);
    h.w.names.reg_tx(&tx);
    let _ = h.op_batch(&u, &[tx], "bigactivation:spend-after");
    h.bump("history:big-activation-script");
}

/// an explicit rayon pool of RAYON_NUM_THREADS threads, when that variable is set
fn explicit_pool() -> Option<&'static rayon::ThreadPool> {
    static POOL: std::sync::OnceLock<Option<rayon::ThreadPool>> = std::sync::OnceLock::new();
    POOL.get_or_init(|| {
        std::env::var("RAYON_NUM_THREADS").ok().and_then(|v| v.parse::<usize>().ok()).filter(|n| *n > 0).and_then(|n| rayon::ThreadPoolBuilder::new().num_threads(n).build().ok())
    })
    .as_ref()
}

/// one history
pub fn history(r: &mut Rng, w: &mut World, out: &mut Out, em: &Emphasis, stats: &mut BTreeMap<String, u64>) {
    let mut h = Hist { w, wallet: Wallet::new(), out, stats: BTreeMap::new(), faucets_seen: vec![], pending_spenders: vec![], spent_in_block: vec![], stake_txs: vec![], sealed_headers: vec![] };
    history_body(&mut h, r, em);
    h.recheck_headers();
    merge(stats, &h.stats);
}

fn history_body(h: &mut Hist, r: &mut Rng, em: &Emphasis) {
    if em.pool_ops >= 10 && r.chance(1, 16) {
        script_liquidity_ceiling(h, r);
        return;
    }
    if em.pool_ops >= 10 && r.chance(1, 16) {
        script_dust_withdrawal(h, r);
        return;
    }
    if em.pool_ops >= 10 && r.chance(1, 16) {
        script_heavy_deposits(h, r);
        return;
    }
    if em.tip_edges > 0 && r.chance(1, 30) {
        script_testnet_from_genesis(h, r);
        return;
    }
    if em.tip_edges > 0 && r.chance(1, 10) {
        script_ergsym_before_tip902(h, r);
        return;
    }
    if em.chain_ops && r.chance(1, 15) {
        script_big_block(h, r);
        return;
    }
    if em.mutate > 0 && r.chance(1, 50) {
        script_many_inputs(h, r);
        return;
    }
    if em.faucets >= 30 && r.chance(1, 25) {
        script_faucet_across_activation(h, r);
        return;
    }
    if (em.mutate == 300 || em.faucets >= 30) && r.chance(1, 30) {
        script_fee_saturation(h, r);
        return;
    }
    if em.pool_ops >= 30 && r.chance(1, 30) {
        script_swap_saturation(h, r);
        return;
    }
    // (expensive for the model's association lists - ~20 s per script: only in the thorough tier and when the code of the
    // repository differs from the committed baseline, i.e. when VERIF_HEAVY is set by tools/check.py)
    if em.tip_edges > 0 && std::env::var("VERIF_HEAVY").is_ok() && r.chance(1, 45) {
        script_big_activation(h, r);
        return;
    }
    // starting point
    let mut unsealed: String;
    let mut parent: Option<String> = None;
    let mut grandparent: Option<String> = None;
    if r.chance(1, 4) {
        let cfg = rand_genesis(r, &mut h.wallet);
        unsealed = h.op_genesis(cfg);
    } else {
        let spec = rand_fab(r, &mut h.wallet, em);
        let s0 = h.op_fab(&spec);
        match h.op_next(&s0) {
            Some(u) => {
                parent = Some(s0);
                unsealed = u;
            }
            None => {
                return;
            }
        }
    }
    // the open block of a sibling fork (the previous block sealed with a different proposer action): the batches of
    // the main lineage's next block are replayed on it — same transactions, a different past
    let mut sibling: Option<String> = None;
    for _b in 0..em.blocks {
        let nb = 1 + r.below(3 + em.batches);
        for _ in 0..nb {
            let (txs, label) = h.gen_batch(r, &unsealed, em);
            if let Some(next) = h.op_batch(&unsealed, &txs, &label) {
                // what was validated a moment ago must not colour what is validated next (verdict memos, decoded-coin
                // caches shared between snapshots): (a) a member of the accepted batch with its first signature
                // destroyed, offered to the state the batch was applied to - the coins are unspent there, the covenant
                // must run again and refuse; (b) then a different, properly signed spender of the same coins offered to
                // the state AFTER the batch - the coins are gone there
                if em.mutate > 0 && r.chance(1, 3) {
                    let cands: Vec<(Transaction, Vec<WCoin>)> = h.pending_spenders.iter().filter(|(t, _)| t.sigs.iter().any(|s| !s.is_empty()) && txs.iter().any(|x| x.hash_nosigs() == t.hash_nosigs())).cloned().collect();
                    if !cands.is_empty() {
                        let (t0, ins) = cands[r.below(cands.len() as u64) as usize].clone();
                        let mut bad = t0.clone();
                        if let Some(sg) = bad.sigs.iter_mut().find(|s| !s.is_empty()) {
                            *sg = vec![0u8; sg.len()].into();
                        }
                        let _ = h.op_batch(&unsealed, &[bad], "signature-destroyed-after-the-good-one-was-accepted");
                        let mut again = t0.clone();
                        again.data = r.bytes(5).into();
                        if again.kind == TxKind::Normal {
                            sign(&h.wallet, &mut again, &ins);
                            h.w.names.reg_tx(&again);
                            let _ = h.op_batch(&next, &[again], "second-spender-after-the-coins-were-looked-up-through-the-older-state");
                        }
                    }
                }
                unsealed = next;
                let p = std::mem::take(&mut h.pending_spenders);
                h.spent_in_block.extend(p);
                if h.spent_in_block.len() > 24 {
                    h.spent_in_block.drain(0..8);
                }
                if let Some(sib) = sibling.clone() {
                    if let Some(n2) = h.op_batch(&sib, &txs, &format!("{}/on-sibling-fork", label)) {
                        sibling = Some(n2);
                    }
                }
            }
        }
        sibling = None;
        h.spent_in_block.clear();
        let height = h.parts(&unsealed).height.0;
        let action = rand_action(r, &mut h.wallet, height);
        // sealing the same state both ways is informative for tips/rewards
        if r.chance(1, 5) {
            let other = if action.is_some() { None } else { rand_action(r, &mut h.wallet, height) };
            if let Some(alt) = h.op_seal(&unsealed, other) {
                sibling = h.op_next(&alt);
            }
        }
        let Some(sealed) = h.op_seal(&unsealed, action) else { break };
        if em.chain_ops {
            // the honest block is accepted by the parent; mutations are not
            if let Some(p) = &parent {
                let blk = h.w.sealed.get(&sealed).unwrap().to_block();
                let _ = h.op_block(p, &blk, "honest");
                for _ in 0..2 {
                    let mut m = blk.clone();
                    let pp = h.w.sealed.get(p).unwrap().verif_inner().verif_parts();
                    let tip901 = match pp.network {
                        NetID::Mainnet => pp.height.0 + 1 >= 42700,
                        NetID::Testnet => pp.height.0 + 1 >= 500,
                        _ => true,
                    };
                    let label = mutate_block(r, &mut m, h, pp.fee_multiplier, tip901);
                    let _ = h.op_block(p, &m, &label);
                }
                // a block is a successor of its parent only: neither the state it produced nor a
                // stripped copy carrying the tip's own header may be accepted by that state
                if r.chance(1, 2) {
                    let _ = h.op_block(&sealed, &blk, "wrong-parent.replay-tip");
                }
                if r.chance(1, 3) {
                    let mut m = blk.clone();
                    m.transactions = Default::default();
                    m.proposer_action = None;
                    let _ = h.op_block(&sealed, &m, "wrong-parent.tip-header-stripped");
                }
                if r.chance(1, 3) {
                    if let Some(g) = &grandparent {
                        let _ = h.op_block(g, &blk, "wrong-parent.skips-a-block");
                    }
                }
            }
            if r.chance(1, 2) {
                if let Some(rs) = h.op_restore(&sealed) {
                    // continue one lineage from the restored copy half of the time
                    if r.chance(1, 2) {
                        grandparent = parent.take();
                        parent = Some(rs.clone());
                        match h.op_next(&rs) {
                            Some(u) => {
                                unsealed = u;
                                continue;
                            }
                            None => break,
                        }
                    }
                }
            }
        }
        // many blocks later: when the sealed state holds stakes, jump - with the very same stake-set object - to one or
        // two blocks before the epoch in which one of them starts or expires, and carry on from there
        if em.stake_ops >= 8 && r.chance(1, if em.stake_ops >= 60 { 3 } else { 10 }) {
            let mut docs: Vec<StakeDoc> = h.w.sealed.get(&sealed).unwrap().raw_stakes().iter().map(|(_, d)| *d).collect();
            // the set iterates in a per-process order: the choice below must not depend on it
            docs.sort_by_key(|d| (d.e_start, d.e_post_end, d.syms_staked.0, d.pubkey.0));
            if !docs.is_empty() {
                let d = docs[r.below(docs.len() as u64) as usize];
                let target_epoch = if r.chance(2, 3) { d.e_post_end.saturating_add(1) } else { d.e_start };
                let th = target_epoch.saturating_mul(200_000);
                if th > height + 4 && th < 4_000_000_000 {
                    let w = h.op_warp(&sealed, th - 1 - r.below(2));
                    grandparent = None;
                    parent = Some(w.clone());
                    match h.op_next(&w) {
                        Some(u) => {
                            unsealed = u;
                            continue;
                        }
                        None => break,
                    }
                }
            }
        }
        // faucet-centred histories restart now and then as well
        if !em.chain_ops && em.faucets >= 30 && r.chance(1, 2) {
            if let Some(rs) = h.op_restore(&sealed) {
                if r.chance(1, 2) {
                    grandparent = parent.take();
                    parent = Some(rs.clone());
                    match h.op_next(&rs) {
                        Some(u) => {
                            unsealed = u;
                            continue;
                        }
                        None => break,
                    }
                }
            }
        }
        grandparent = parent.take();
        parent = Some(sealed.clone());
        match h.op_next(&sealed) {
            Some(u) => unsealed = u,
            None => break,
        }
    }
}

pub fn merge(a: &mut BTreeMap<String, u64>, b: &BTreeMap<String, u64>) {
    for (k, v) in b {
        *a.entry(k.clone()).or_insert(0) += v;
    }
}

fn sorted_txs(b: &Block) -> Vec<Transaction> {
    let mut v: Vec<Transaction> = b.transactions.iter().cloned().collect();
    v.sort_by_key(|t| t.hash_nosigs().0 .0);
    v
}

/// single-field mutations of a block
pub fn mutate_block(r: &mut Rng, b: &mut Block, h: &mut Hist, pre_mult: u128, tip901: bool) -> String {
    let flip = |x: &mut tmelcrypt::HashVal| x.0[0] ^= 1;
    match r.below(18) {
        16 | 17 => {
            // a copy of a member transaction that differs only in its signatures (same hash_nosigs)
            if let Some(t) = sorted_txs(b).into_iter().find(|t| !t.inputs.is_empty()).or_else(|| sorted_txs(b).into_iter().next()) {
                let mut t2 = t.clone();
                t2.sigs.push(r.bytes(3).into());
                b.transactions.insert(t2);
                "tx.dup-different-sigs".into()
            } else {
                flip(&mut b.header.coins_hash);
                "hdr.coins_hash".into()
            }
        }
        0 => {
            b.header.network = if b.header.network == NetID::Custom02 { NetID::Custom03 } else { NetID::Custom02 };
            "hdr.network".into()
        }
        1 => {
            flip(&mut b.header.previous);
            "hdr.previous".into()
        }
        2 => {
            b.header.height = BlockHeight(b.header.height.0 + 1);
            "hdr.height".into()
        }
        3 => {
            flip(&mut b.header.history_hash);
            "hdr.history_hash".into()
        }
        4 => {
            flip(&mut b.header.coins_hash);
            "hdr.coins_hash".into()
        }
        5 => {
            flip(&mut b.header.transactions_hash);
            "hdr.transactions_hash".into()
        }
        6 => {
            b.header.fee_pool = CoinValue(b.header.fee_pool.0 + 1);
            "hdr.fee_pool".into()
        }
        7 => {
            b.header.fee_multiplier += 1;
            "hdr.fee_multiplier".into()
        }
        8 => {
            b.header.dosc_speed += 1;
            "hdr.dosc_speed".into()
        }
        9 => {
            flip(&mut b.header.pools_hash);
            "hdr.pools_hash".into()
        }
        10 => {
            flip(&mut b.header.stakes_hash);
            "hdr.stakes_hash".into()
        }
        11 => {
            if let Some(t) = sorted_txs(b).into_iter().next() {
                b.transactions.remove(&t);
                "tx.remove".into()
            } else {
                b.header.fee_pool = CoinValue(b.header.fee_pool.0 + 1);
                "hdr.fee_pool".into()
            }
        }
        12 => {
            if let Some(t) = sorted_txs(b).into_iter().next() {
                b.transactions.remove(&t);
                let mut t2 = t.clone();
                t2.fee = CoinValue(t2.fee.0 + 1);
                h.w.names.reg_tx(&t2);
                b.transactions.insert(t2);
                "tx.edit".into()
            } else {
                flip(&mut b.header.coins_hash);
                "hdr.coins_hash".into()
            }
        }
        13 => {
            let cx_h = b.header.height.0;
            let mut t = Transaction::default();
            t.kind = TxKind::Faucet;
            t.outputs = vec![crate::txgen::out(h.wallet.rand_addr(r, cx_h), 5, Denom::Mel)];
            t.data = r.bytes(3).into();
            h.w.names.reg_tx(&t);
            b.transactions.insert(t);
            "tx.add".into()
        }
        14 => {
            b.proposer_action = match b.proposer_action {
                None => Some(ProposerAction { fee_multiplier_delta: 0, reward_dest: h.wallet.rand_addr(r, 0) }),
                Some(_) => None,
            };
            "action.toggle".into()
        }
        _ => {
            match &mut b.proposer_action {
                Some(a) => {
                    if r.chance(1, 2) {
                        let old = a.fee_multiplier_delta;
                        a.fee_multiplier_delta = a.fee_multiplier_delta.wrapping_add(if r.chance(1, 2) { 1 } else { 64 });
                        // two deltas with the same scaled movement have the same effect (and the same header)
                        let m = pre_mult;
                        let mv = |d: i8| {
                            let mm = if tip901 { (m >> 7).max(2) } else { m >> 7 };
                            let step = mm * (d.unsigned_abs() as u128) / 128;
                            if d >= 0 { m.saturating_add(step) } else { m.saturating_sub(step) }
                        };
                        if mv(old) == mv(a.fee_multiplier_delta) {
                            "action.delta-equivalent".into()
                        } else {
                            "action.delta".into()
                        }
                    } else {
                        let old = a.reward_dest;
                        a.reward_dest = h.wallet.rand_addr(r, 1);
                        if old == a.reward_dest { "action.dest-same".into() } else { "action.dest".into() }
                    }
                }
                None => {
                    flip(&mut b.header.stakes_hash);
                    "hdr.stakes_hash".into()
                }
            }
        }
    }
}

pub fn run(r: &mut Rng, n: usize, em: &Emphasis, out: &mut Out) -> BTreeMap<String, u64> {
    crate::txgen::TWINS.store(em.twins, std::sync::atomic::Ordering::Relaxed);
    let mut stats = BTreeMap::new();
    // VERIF_HISTORY_RNG=<u64> replays the single history that started from that fork seed (the fork seed of every
    // history is appended, flushed, to $VERIF_HISTORY_LOG so that a run killed by an abort can be replayed)
    let only: Option<u64> = std::env::var("VERIF_HISTORY_RNG").ok().and_then(|v| v.parse().ok());
    let mut log = std::env::var("VERIF_HISTORY_LOG").ok().and_then(|p| std::fs::OpenOptions::new().create(true).append(true).open(p).ok());
    for i in 0..(if only.is_some() { 1 } else { n }) {
        let mut w = World::new();
        let fork_seed = match only {
            Some(v) => v,
            None => r.next(),
        };
        if let Some(f) = log.as_mut() {
            use std::io::Write;
            let _ = writeln!(f, "{} {} {}", i, fork_seed, out.lines);
            let _ = f.flush();
        }
        // self-test of the crash localisation in tools/check.py
        if std::env::var("VERIF_TEST_ABORT_AT").ok().and_then(|v| v.parse::<usize>().ok()) == Some(i) || std::env::var("VERIF_TEST_ABORT_SEED").ok().and_then(|v| v.parse::<u64>().ok()) == Some(fork_seed) {
            std::process::abort();
        }
        let mut rr = Rng::new(fork_seed);
        history(&mut rr, &mut w, out, em, &mut stats);
        out.emit("reset", "ok");
    }
    stats
}
