//! Correspondence streams for the MelVM: codec, weight, exec.
use crate::fmt::*;
use crate::rng::Rng;
use crate::vmgen;
use crate::Out;
use melvm::opcode::OpCode;
use melvm::verif_hooks as hooks;
use melvm::{Covenant, Value};
use std::collections::HashMap;
use std::panic::{catch_unwind, AssertUnwindSafe};

pub fn oracle_text(log: &[hooks::OracleCall]) -> String {
    if log.is_empty() {
        return "-".into();
    }
    log.iter()
        .map(|c| match c {
            hooks::OracleCall::Hash(i, o) => format!("h:{}:{}", hx(i), hx(o)),
            hooks::OracleCall::SigOk(pk, m, s, ok) => format!("s:{}:{}:{}:{}", hx(pk), hx(m), hx(s), *ok as u8),
        })
        .collect::<Vec<_>>()
        .join(",")
}

// ---------------------------------------------------------------- codec

fn dec_line(bytes: &[u8]) -> (String, String) {
    let op = format!("dec {}", hxd(bytes));
    let res = catch_unwind(|| match Covenant::from_bytes(bytes) {
        Ok(c) => {
            let ops = c.to_ops();
            let re = c.to_bytes();
            format!("ok {} {}", ops_text(&ops), hxd(&re))
        }
        Err(_) => "err".to_string(),
    })
    .unwrap_or_else(|_| "panic".into());
    (op, res)
}

fn enc_line(ops: &[OpCode]) -> (String, String) {
    let op = format!("enc {}", ops_text(ops));
    let res = catch_unwind(|| {
        let c = Covenant::from_ops(ops);
        let b = c.to_bytes();
        let back = Covenant::from_bytes(&b).map(|c2| c2.to_ops() == ops).unwrap_or(false);
        format!("ok {} back={}", hxd(&b), back as u8)
    })
    .unwrap_or_else(|_| "panic".into());
    (op, res)
}

/// Byte strings that differ from a standard signature covenant (new and legacy form, a fresh key) in exactly one byte:
/// every position, with the byte flipped in its lowest bit and replaced by a few bytes that are opcodes, lengths or
/// immediates elsewhere (thorough: by every other byte).  Nearly all of them are different programs or no programs —
/// a shortcut that recognises "the" standard covenant by shape must not swallow any of them.
pub fn std_near_misses(r: &mut Rng, thorough: bool) -> Vec<Vec<u8>> {
    let mut k = [0u8; 32];
    k.copy_from_slice(&r.bytes(32));
    let pk = tmelcrypt::Ed25519PK(k);
    let mut res = vec![];
    for base in [Covenant::std_ed25519_pk_new(pk).to_bytes(), Covenant::std_ed25519_pk_legacy(pk).to_bytes()] {
        res.push(base.to_vec());
        for i in 0..base.len() {
            let mut vals: Vec<u8> = if thorough {
                (0..=255u8).collect()
            } else {
                vec![base[i] ^ 1, 0x00, 0x01, 0x09, 0x1f, 0x20, 0x21, 0x30, 0x32, 0x42, 0x43, 0xa0, 0xa1, 0xa2, 0xb0, 0xf0, 0xf1, 0xf2, 0xff, r.next() as u8]
            };
            vals.sort();
            vals.dedup();
            for v in vals {
                if v != base[i] {
                    let mut b = base.to_vec();
                    b[i] = v;
                    res.push(b);
                }
            }
        }
        // one byte dropped / one byte doubled at a few positions
        for _ in 0..12 {
            let i = r.below(base.len() as u64) as usize;
            let mut b = base.to_vec();
            b.remove(i);
            res.push(b);
            let mut b = base.to_vec();
            b.insert(i, base[i]);
            res.push(b);
        }
    }
    res
}

pub fn codec(r: &mut Rng, n: usize, thorough: bool, out: &mut Out) {
    for b in std_near_misses(r, thorough) {
        out.emit2(dec_line(&b));
    }
    // exhaustive: all strings of length <= 2 (and, thorough, every 3-byte string)
    out.emit2(dec_line(&[]));
    for a in 0..=255u8 {
        out.emit2(dec_line(&[a]));
    }
    for a in 0..=255u8 {
        for b in 0..=255u8 {
            if thorough || b < 40 || b % 16 == 0 || b > 250 {
                out.emit2(dec_line(&[a, b]));
            }
        }
    }
    if thorough {
        for a in 0..=255u8 {
            // only prefixes that need >= 2 argument bytes are interesting at length 3
            if Covenant::from_bytes(&[a]).is_ok() || Covenant::from_bytes(&[a, 0]).is_ok() {
                continue;
            }
            for b in 0..=255u8 {
                for c in (0..=255u8).step_by(5) {
                    out.emit2(dec_line(&[a, b, c]));
                }
            }
        }
    }
    // very long programs: around the 16-bit boundaries of instruction counts (jump and loop operands are 16 bits wide,
    // instruction counts are not), with a well-formed, a truncated and a garbage tail
    for n in [65534usize, 65535, 65536, 65537, 70000] {
        let mut b = vec![0x09u8; n]; // noop
        b.extend_from_slice(&[0xf2, 0x01, 0x01]); // pushic 1
        out.emit2(dec_line(&b));
        let mut t = b.clone();
        t.extend_from_slice(&[0xf2, 0x01]); // pushic cut off
        out.emit2(dec_line(&t));
        let mut g = b.clone();
        g.extend_from_slice(&[0xee, 0x03]); // not an opcode
        out.emit2(dec_line(&g));
        let mut z = b.clone();
        z.extend_from_slice(&[0xf2, 0x00]); // pushic 0 after it: a different program
        out.emit2(dec_line(&z));
    }
    // every opcode with every argument-length class, plus truncations
    for _ in 0..(if thorough { 40 } else { 6 }) {
        for op in vmgen::all_ops(r) {
            let ops = vec![op];
            out.emit2(enc_line(&ops));
            if let Ok(b) = catch_unwind(|| Covenant::from_ops(&ops).to_bytes()) {
                out.emit2(dec_line(&b));
                for cut in 0..b.len().min(6) {
                    out.emit2(dec_line(&b[..cut]));
                }
                if b.len() > 1 {
                    out.emit2(dec_line(&b[..b.len() - 1]));
                }
                let mut ext = b.to_vec();
                ext.push(r.next() as u8);
                out.emit2(dec_line(&ext));
            }
        }
    }
    // PushIC canonicity classes and PushB lengths
    for len in 0..=34u8 {
        let mut v = vec![0xf2, len];
        let body = r.bytes(len as usize);
        v.extend_from_slice(&body);
        out.emit2(dec_line(&v));
        if len > 0 {
            let mut z = v.clone();
            z[2] = 0;
            out.emit2(dec_line(&z));
            z[2] = 1;
            out.emit2(dec_line(&z));
        }
    }
    for len in [0usize, 1, 2, 254, 255, 256, 300] {
        out.emit2(enc_line(&[OpCode::PushB(r.bytes(len))]));
    }
    // random programs, random and mutated strings
    for i in 0..n {
        match i % 4 {
            0 => {
                let ops = vmgen::mixed_program(r);
                out.emit2(enc_line(&ops));
                if let Ok(b) = catch_unwind(|| Covenant::from_ops(&ops).to_bytes()) {
                    out.emit2(dec_line(&b));
                }
            }
            1 => {
                let ops = vmgen::mixed_program(r);
                if let Ok(b) = catch_unwind(|| Covenant::from_ops(&ops).to_bytes()) {
                    let mut b = b.to_vec();
                    if !b.is_empty() {
                        for _ in 0..=r.below(2) {
                            let k = r.below(b.len() as u64) as usize;
                            match r.below(3) {
                                0 => b[k] = r.next() as u8,
                                1 => {
                                    b.remove(k);
                                }
                                _ => b.insert(k, r.next() as u8),
                            }
                            if b.is_empty() {
                                break;
                            }
                        }
                    }
                    out.emit2(dec_line(&b));
                }
            }
            2 => {
                let len = r.below(12) as usize;
                out.emit2(dec_line(&r.bytes(len)));
            }
            _ => {
                // strings made of valid opcode bytes
                let pool: Vec<u8> = vmgen::all_ops(r)
                    .iter()
                    .filter_map(|o| catch_unwind(|| Covenant::from_ops(&[o.clone()]).to_bytes()[0]).ok())
                    .collect();
                let len = r.below(10) as usize;
                let b: Vec<u8> = (0..len).map(|_| if r.chance(3, 4) { *r.pick(&pool) } else { r.next() as u8 }).collect();
                out.emit2(dec_line(&b));
            }
        }
    }
}

// ---------------------------------------------------------------- weight

fn w_line(bytes: &[u8]) -> (String, String, u64) {
    let op = format!("w {}", hxd(bytes));
    let mut total = 0u64;
    let res = catch_unwind(AssertUnwindSafe(|| {
        hooks::reset_counters();
        let w = melvm::covenant_weight_from_bytes(bytes);
        let calls = hooks::weigh_pass_steps();
        // everything the weigher did: the steps of its passes and the single-instruction look-ups
        total = calls + hooks::car_weight_calls();
        format!("w={} work={}", w, calls)
    }))
    .unwrap_or_else(|_| "panic".into());
    (op, res, total)
}

/// C11: weighing costs at most a modest polynomial in the size of the covenant: every step of the weigher (pass steps
/// and single-instruction look-ups, both counted by the hooks) — at most (bytes + 1)^2 in all, whatever the nesting.
/// The unchanged weigher makes at most len * (distinct ends) pass steps and as many look-ups at most.
fn emit_w(out: &mut Out, bytes: &[u8]) {
    let (op, res, total) = w_line(bytes);
    out.emit(&op, &res);
    let n = bytes.len() as u64 + 1;
    out.fact("C11", "weighing-work-quadratic-in-size", total <= n * n, &format!("weigher-steps={} covenant-bytes={}", total, bytes.len()));
}

pub fn weight(r: &mut Rng, n: usize, thorough: bool, out: &mut Out) {
    use OpCode::*;
    emit_w(out, &[]);
    for b in std_near_misses(r, thorough) {
        emit_w(out, &b);
    }
    // programs longer than 2^16 instructions with two loops 65535, 65536 and 65537 instructions apart, the heavy one first
    // or last (positions are not 16-bit quantities, though jump and loop operands are)
    for gap in [65535usize, 65536, 65537] {
        for heavy_first in [true, false] {
            let (l1, l2) = if heavy_first { (Loop(60000, 2), Loop(1, 1)) } else { (Loop(1, 2), Loop(60000, 1)) };
            let mut ops = vec![PushI(0u8.into()), l1, PushI(1u8.into()), Add];
            // the first loop stands at index 1, the second at index 1 + gap
            ops.extend(std::iter::repeat(Noop).take(gap - 3));
            ops.push(l2);
            ops.push(Noop);
            emit_w(out, &Covenant::from_ops(&ops).to_bytes());
        }
    }
    for op in vmgen::all_ops(r) {
        if let Ok(b) = catch_unwind(|| Covenant::from_ops(&[op.clone()]).to_bytes()) {
            emit_w(out, &b);
        }
    }
    // stacked loops (F2, fixed): the work doubled per loop; keep n small enough for a reverted weigher to still finish
    for k in 0..(if thorough { 24 } else { 20 }) {
        let ops: Vec<OpCode> = (0..k).map(|_| Loop(1, 1000)).collect();
        emit_w(out, &Covenant::from_ops(&ops).to_bytes());
    }
    // saturation
    let sat: Vec<Vec<OpCode>> = vec![
        vec![Loop(65535, 1), Loop(65535, 1), Loop(65535, 1), Loop(65535, 1), Loop(65535, 1), Loop(65535, 1), Loop(65535, 1), Loop(65535, 1), Loop(65535, 1), Hash(65535)],
        vec![Loop(65535, 3), Loop(65535, 2), Loop(65535, 1), SigEOk(65535)],
        vec![Loop(0, 5), Add, Add],
        vec![Loop(3, 0), Add],
        vec![Loop(2, 10), Add],
        vec![Exp(255), Exp(0)],
    ];
    for ops in sat {
        emit_w(out, &Covenant::from_ops(&ops).to_bytes());
    }
    // properly nested saturated loops (each loop's body is everything after it), with and without something after
    // the nest and inside the innermost body: every accumulation of the weigher meets values at the u128 ceiling
    for depth in 5u16..=10 {
        let nest: Vec<OpCode> = (0..depth).map(|i| Loop(65535, depth - i)).collect();
        for tail in [vec![Noop], vec![Noop, Noop], vec![Hash(65535)], vec![Noop, Add, Hash(65535), Noop]] {
            let mut ops = nest.clone();
            ops.extend(tail);
            emit_w(out, &Covenant::from_ops(&ops).to_bytes());
        }
    }
    for i in 0..n {
        let ops = if i % 3 == 0 { vmgen::loopy_program(r) } else { vmgen::mixed_program(r) };
        if let Ok(b) = catch_unwind(|| Covenant::from_ops(&ops).to_bytes()) {
            emit_w(out, &b);
        }
        if i % 5 == 0 {
            let len = r.below(10) as usize;
            emit_w(out, &r.bytes(len));
        }
    }
}

// ---------------------------------------------------------------- exec

pub const GROWTH_CAP: usize = 1 << 16;

thread_local! {
    /// the growth cap in force (raised for the cases that are about values of 2^16 and more elements)
    static CAP: std::cell::Cell<usize> = std::cell::Cell::new(GROWTH_CAP);
}

fn too_big(v: &Value) -> bool {
    let cap = CAP.with(|c| c.get());
    match v {
        Value::Int(_) => false,
        Value::Bytes(b) => b.len() > cap,
        Value::Vector(vs) => vs.len() > cap,
    }
}

/// `run_line` with the growth cap raised to `cap` elements
pub fn run_line_cap(ops: &[OpCode], heap: &HashMap<u16, Value>, cap: usize) -> Option<(String, String)> {
    CAP.with(|c| c.set(cap));
    let r = run_line(ops, heap);
    CAP.with(|c| c.set(GROWTH_CAP));
    r
}

/// Values of exactly 2^16, 2^16 + 1, 2^16 + 2 and 2^17 elements (lengths that do not fit the u16 of an index operand),
/// built by doubling, under every instruction that takes a length or an index: the result is reduced to a length or
/// an element so that the lines stay short.
pub fn big_value_cases() -> Vec<Vec<OpCode>> {
    use OpCode::*;
    let pi = |n: u32| PushI(ethnum::U256::from(n));
    let mut out: Vec<Vec<OpCode>> = vec![];
    for (extra, doublings) in [(0u32, 16u16), (1, 16), (2, 16), (0, 17), (3, 8)] {
        let len = (1u32 << doublings) + extra;
        let top = len.min(65535);
        let vec_build = |ops: &mut Vec<OpCode>| {
            ops.extend([pi(7), VEmpty, VPush, Loop(doublings, 2), Dup, VAppend]);
            for k in 0..extra {
                ops.extend([pi(100 + k), VCons]);
            }
        };
        let byt_build = |ops: &mut Vec<OpCode>| {
            ops.extend([PushB(vec![5]), Loop(doublings, 2), Dup, BAppend]);
            for k in 0..extra {
                ops.extend([pi(200 + k), BCons]);
            }
        };
        for (b, e) in [(0u32, 1u32), (1, 4), (0, 65535), (65535, 65535), (3, 2), (0, top), (top.saturating_sub(1), top), (extra, extra + 2)] {
            let mut v = vec![pi(e), pi(b)];
            vec_build(&mut v);
            v.extend([VSlice, VLength]);
            out.push(v);
            let mut v = vec![pi(0), pi(e), pi(b)];
            vec_build(&mut v);
            v.extend([VSlice, VRef]);
            out.push(v);
            let mut v = vec![pi(e), pi(b)];
            byt_build(&mut v);
            v.extend([BSlice, BLength]);
            out.push(v);
        }
        for idx in [0u32, 1, extra, 255, 256, 65535, top.saturating_sub(1)] {
            let mut v = vec![pi(idx)];
            vec_build(&mut v);
            v.push(VRef);
            out.push(v);
            let mut v = vec![pi(idx)];
            byt_build(&mut v);
            v.push(BRef);
            out.push(v);
            let mut v = vec![pi(idx), pi(42), pi(idx)];
            vec_build(&mut v);
            v.extend([VSet, VRef]);
            out.push(v);
            let mut v = vec![pi(idx), pi(42), pi(idx)];
            byt_build(&mut v);
            v.extend([BSet, BRef]);
            out.push(v);
        }
        let mut v = vec![];
        vec_build(&mut v);
        v.push(VLength);
        out.push(v);
        let mut v = vec![];
        byt_build(&mut v);
        v.push(BLength);
        out.push(v);
        for n in [0u16, 1, 255, 65535] {
            let mut v = vec![];
            byt_build(&mut v);
            v.push(Hash(n));
            out.push(v);
            // message of that length under SigEOk (operands: message on top, then the key, then the signature)
            let mut v = vec![PushB(vec![1u8; 64]), PushB(vec![2u8; 32])];
            byt_build(&mut v);
            v.push(SigEOk(n));
            out.push(v);
        }
        let mut v = vec![];
        byt_build(&mut v);
        v.push(BtoI);
        out.push(v);
    }
    out
}

pub enum RunOut {
    Done(Option<Value>, u64),
    Capped,
}

/// drive the real executor step by step, counting steps
thread_local! {
    /// executed table weight (sum of the single-instruction weights of every instruction started) of the last `run_counted`
    pub static LAST_XW: std::cell::Cell<u128> = std::cell::Cell::new(0);
}

pub fn run_counted(ops: &[OpCode], heap: &HashMap<u16, Value>, max_steps: u64) -> RunOut {
    let mut ex = melvm::VerifExecutor::new(ops.to_vec(), heap.clone());
    let mut steps = 0u64;
    // the weight the real weigher gives each instruction on its own (a `Loop` alone weighs its extra 1)
    let single: Vec<u128> = ops.iter().map(|o| Covenant::from_ops(std::slice::from_ref(o)).weight()).collect();
    let mut xw = 0u128;
    LAST_XW.with(|c| c.set(0));
    while ex.pc() < ops.len() {
        steps += 1;
        xw = xw.saturating_add(single[ex.pc()]);
        LAST_XW.with(|c| c.set(xw));
        if ex.step().is_none() {
            return RunOut::Done(None, steps);
        }
        if steps > max_steps || ex.stack.iter().rev().take(3).any(too_big) || ex.stack.len() > 4096 {
            return RunOut::Capped;
        }
    }
    RunOut::Done(ex.stack.pop(), steps)
}

pub fn heap_text(heap: &HashMap<u16, Value>) -> String {
    if heap.is_empty() {
        return "-".into();
    }
    let mut ks: Vec<_> = heap.keys().copied().collect();
    ks.sort();
    ks.iter().map(|k| format!("{}={}", k, value_text(&heap[k]))).collect::<Vec<_>>().join(";")
}

thread_local! {
    /// (bytes allocated, largest single allocation, weight, size of the inputs) of the execution `run_line` did last
    pub static LAST_ALLOC: std::cell::Cell<(u64, u64, u128, u64)> = std::cell::Cell::new((0, 0, 0, 0));
}

/// C11: what an execution allocates is bounded by what its weight pays for.  The bounds are generous multiples of
/// what the unchanged interpreter needs (see DESIGN): 16 KiB + 2 KiB per unit of weight in total, and no single
/// allocation beyond 32 KiB plus the size of the inputs plus twice the weight (the unchanged interpreter stays below 4 KiB
/// - ropes are chunked - except when `Hash`/`SigEOk` flatten an operand within their declared, paid-for length).
pub fn alloc_fact(out: &mut Out) {
    let (total, max, w, insz) = LAST_ALLOC.with(|c| c.get());
    let w64 = w.min(u64::MAX as u128 / 4096) as u64;
    let ok_total = total <= 16384 + 2048 * w64 + 8 * insz;
    // a single allocation may be as large as what a length-guarded instruction is allowed to flatten, which its weight pays for
    let ok_max = max <= 32768 + 4 * insz + 2 * w64;
    out.fact("C11", "allocation-bounded-by-weight", ok_total && ok_max, &format!("allocated={} largest={} weight={} input-bytes={}", total, max, w, insz));
}

/// returns None when the case was discarded by the growth cap
pub fn run_line(ops: &[OpCode], heap: &HashMap<u16, Value>) -> Option<(String, String)> {
    let bytes = match catch_unwind(|| Covenant::from_ops(ops).to_bytes()) {
        Ok(b) => b,
        Err(_) => return None,
    };
    // go through the decoder so that the codec is part of the path
    let decoded = Covenant::from_bytes(&bytes).ok()?.to_ops();
    let _ = hooks::take_log();
    hooks::reset_counters();
    let w = melvm::covenant_weight_from_bytes(&bytes);
    crate::allocs::reset();
    let res = catch_unwind(AssertUnwindSafe(|| run_counted(&decoded, heap, 2_000_000)));
    let (alloc_total, alloc_max) = crate::allocs::read();
    LAST_ALLOC.with(|c| c.set((alloc_total, alloc_max, w, bytes.len() as u64 + heap.len() as u64 * 64)));
    let mat = hooks::bytes_materialised();
    let log = hooks::take_log();
    let res_text = match res {
        Err(_) => "panic".to_string(),
        Ok(RunOut::Capped) => return None,
        Ok(RunOut::Done(None, steps)) => format!("fail steps={} w={} le={}", steps, w, (steps as u128 <= w) as u8),
        Ok(RunOut::Done(Some(v), steps)) => {
            format!("ok {} steps={} w={} le={}", value_text(&v), steps, w, (steps as u128 <= w) as u8)
        }
    };
    let res_text = if res_text == "panic" { res_text } else { format!("{} dbg=@ xw={} flat={}", res_text, LAST_XW.with(|c| c.get()), mat) };
    // the high-level entry point must agree with the stepped run
    let dbg = catch_unwind(AssertUnwindSafe(|| {
        let mut env: Vec<Value> = vec![];
        // debug_execute takes a dense prefix heap; only usable when keys are 0..k
        let mut k = 0u16;
        while let Some(v) = heap.get(&k) {
            env.push(v.clone());
            k += 1;
        }
        if env.len() == heap.len() {
            Some(Covenant::from_bytes(&bytes).unwrap().debug_execute(&env))
        } else {
            None
        }
    }));
    let _ = hooks::take_log();
    let agree = match (&dbg, &res_text) {
        (Ok(Some(Some(v))), t) => t.starts_with(&format!("ok {} ", value_text(v))),
        (Ok(Some(None)), t) => t.starts_with("fail"),
        (Ok(None), _) => true,
        (Err(_), t) => t == "panic",
    };
    let op = format!("run {} {} {}", hxd(&bytes), heap_text(heap), oracle_text(&log));
    Some((op, if res_text == "panic" { format!("panic dbg={}", agree as u8) } else { res_text.replace("dbg=@", &format!("dbg={}", agree as u8)) }))
}

pub fn rand_heap(r: &mut Rng) -> HashMap<u16, Value> {
    let mut h = HashMap::new();
    let n = r.below(4) as u16;
    for k in 0..n {
        if r.chance(4, 5) {
            h.insert(k, vmgen::rand_value(r, 2));
        }
    }
    h
}

fn sig_case(r: &mut Rng) -> (Vec<OpCode>, HashMap<u16, Value>) {
    use OpCode::*;
    // a real key pair; message/signature variations
    let sk = tmelcrypt::Ed25519SK::generate();
    let pk = sk.to_public();
    let ml = r.below(40) as usize;
    let msg = r.bytes(ml);
    let mut sig = sk.sign(&msg);
    let mut pkb = pk.0.to_vec();
    let mut msg2 = msg.clone();
    match r.below(8) {
        0 => sig[r.below(64) as usize] ^= 1,
        1 => {
            sig.pop();
        }
        2 => sig.push(0),
        3 => {
            pkb.pop();
        }
        4 => pkb.push(0),
        5 => msg2.push(1),
        _ => {}
    }
    let n = *r.pick(&[0u16, 10, 39, 40, 100]);
    let mut heap = HashMap::new();
    heap.insert(0u16, Value::from_bytes(&sig));
    heap.insert(1u16, Value::from_bytes(&pkb));
    heap.insert(2u16, Value::from_bytes(&msg2));
    (vec![LoadImm(0), LoadImm(1), LoadImm(2), SigEOk(n)], heap)
}

pub fn exec(r: &mut Rng, n: usize, thorough: bool, out: &mut Out) {
    use OpCode::*;
    // exhaustive short programs over a reduced alphabet
    let alpha: Vec<OpCode> = vec![
        PushIC(0u8.into()), PushIC(1u8.into()), PushIC(2u8.into()), Add, Sub, Dup, Loop(2, 1), Loop(2, 2), Loop(0, 1),
        Jmp(1), Bez(1), Bnz(1), VEmpty, VPush, VLength, BEmpty, BPush, BLength, Eql, Noop, LoadImm(0), StoreImm(0),
    ];
    let heap0: HashMap<u16, Value> = HashMap::new();
    let depth = if thorough { 4 } else { 3 };
    let mut idx = vec![0usize; depth];
    let total = alpha.len().pow(depth as u32);
    let stride = if thorough { 1 } else { 3 };
    for code in (0..total).step_by(stride) {
        let mut c = code;
        for d in 0..depth {
            idx[d] = c % alpha.len();
            c /= alpha.len();
        }
        let ops: Vec<OpCode> = idx.iter().map(|i| alpha[*i].clone()).collect();
        if let Some(l) = run_line(&ops, &heap0) {
            out.emit2(l);
            alloc_fact(out);
        }
    }
    for len in 1..depth {
        let total = alpha.len().pow(len as u32);
        for code in 0..total {
            let mut c = code;
            let mut ops = vec![];
            for _ in 0..len {
                ops.push(alpha[c % alpha.len()].clone());
                c /= alpha.len();
            }
            if let Some(l) = run_line(&ops, &heap0) {
                out.emit2(l);
                alloc_fact(out);
            }
        }
    }
    // the boundary cases of the documented laws
    let mut fixed: Vec<(Vec<OpCode>, HashMap<u16, Value>)> = vec![];
    for k in [0u8, 1, 7, 8, 254, 255] {
        for e in [0u32, 1, 2, 3, 255, 256, 257, 511, 512] {
            fixed.push((vec![PushIC(e.into()), PushIC(3u8.into()), Exp(k)], HashMap::new()));
        }
    }
    for sh in [0u32, 1, 255, 256, 257, 511] {
        fixed.push((vec![PushIC(sh.into()), PushI(ethnum::U256::MAX), Shl], HashMap::new()));
        fixed.push((vec![PushIC(sh.into()), PushI(ethnum::U256::MAX), Shr], HashMap::new()));
    }
    fixed.push((vec![PushI(ethnum::U256::from_words(1, 3)), PushI(ethnum::U256::MAX), Shl], HashMap::new()));
    for _ in 0..(if thorough { 40 } else { 10 }) {
        fixed.push(sig_case(r));
    }
    // index / address operands around and beyond the u16 range, for every indexed instruction
    let big: Vec<ethnum::U256> = vec![65535u32.into(), 65536u32.into(), ethnum::U256::from_words(1, 0), ethnum::U256::from_words(1, 1),
        ethnum::U256::from_words(1, 65535), ethnum::U256::ONE << 255, ethnum::U256::MAX];
    for b in &big {
        let idx = PushI(*b);
        fixed.push((vec![PushIC(9u8.into()), idx.clone(), Store, PushIC(1u8.into()), Load], HashMap::new()));
        fixed.push((vec![PushIC(9u8.into()), PushIC(1u8.into()), Store, idx.clone(), Load], HashMap::new()));
        fixed.push((vec![idx.clone(), VEmpty, PushIC(4u8.into()), VCons, VRef], HashMap::new()));
        fixed.push((vec![PushIC(5u8.into()), idx.clone(), VEmpty, PushIC(4u8.into()), VCons, VSet], HashMap::new()));
        fixed.push((vec![idx.clone(), PushB(vec![1, 2, 3]), BRef], HashMap::new()));
        fixed.push((vec![PushIC(5u8.into()), idx.clone(), PushB(vec![1, 2, 3]), BSet], HashMap::new()));
        fixed.push((vec![PushIC(2u8.into()), idx.clone(), PushB(vec![1, 2, 3]), BSlice], HashMap::new()));
        fixed.push((vec![idx.clone(), PushIC(0u8.into()), PushB(vec![1, 2, 3]), BSlice], HashMap::new()));
        fixed.push((vec![idx.clone(), PushIC(0u8.into()), VEmpty, PushIC(4u8.into()), VCons, VSlice], HashMap::new()));
    }
    // jumps into the bodies of loops whose header is skipped
    for it in [0u16, 1, 3] {
        for inner in [2u16, 9, 300] {
            fixed.push((vec![PushIC(0u8.into()), Jmp(1), Loop(it, 4), Loop(inner, 2), PushIC(1u8.into()), Add, Noop], HashMap::new()));
            fixed.push((vec![PushIC(0u8.into()), Dup, Bez(1), Loop(it, 3), Loop(inner, 2), PushIC(1u8.into()), Add], HashMap::new()));
        }
    }
    // a rope doubled k times (2^k * 64 bytes, weight ~ 14k) handed to every operand position of the instructions that
    // have to look at whole byte strings: what they allocate must stay within what the weight pays for
    for k in [6u16, 10, 14, 16] {
        let rope = vec![PushB(vec![7u8; 64]), Loop(k, 2), Dup, BAppend];
        let pk = PushB(vec![3u8; 32]);
        let msg = PushB(vec![5u8; 8]);
        let sig = PushB(vec![9u8; 64]);
        let with = |a: Vec<OpCode>, rest: Vec<OpCode>| {
            let mut v = a.clone();
            v.extend(rest);
            v
        };
        // SigEOk pops message (top), public key, signature
        fixed.push((with(rope.clone(), vec![pk.clone(), msg.clone(), SigEOk(32)]), HashMap::new()));
        fixed.push((with(vec![sig.clone()], with(rope.clone(), vec![msg.clone(), SigEOk(32)])), HashMap::new()));
        fixed.push((with(vec![sig.clone(), pk.clone()], with(rope.clone(), vec![SigEOk(32)])), HashMap::new()));
        fixed.push((with(rope.clone(), vec![Hash(32)]), HashMap::new()));
        fixed.push((with(rope.clone(), vec![BtoI]), HashMap::new()));
        fixed.push((with(rope.clone(), vec![BLength]), HashMap::new()));
        fixed.push((with(rope.clone(), vec![Dup, Eql]), HashMap::new()));
        fixed.push((with(rope.clone(), vec![PushIC(0u8.into()), Eql]), HashMap::new()));
    }
    // the three instructions that flatten ropes, at every boundary of their length guards (C11: what is flattened is what
    // the model's `flat` says, site by site; a guard moved behind its flattening, or compared in a narrower type, shows here)
    {
        // ops leaving a byte string of length n on the stack (a literal up to 255 bytes, a doubled and sliced rope beyond)
        let bytes_of_len = |n: usize, fill: u8| -> Vec<OpCode> {
            if n <= 255 {
                vec![PushB(vec![fill; n])]
            } else {
                let mut k = 0u16;
                while (64usize << k) < n {
                    k += 1;
                }
                vec![PushI((n as u64).into()), PushIC(0u8.into()), PushB(vec![fill; 64]), Loop(k, 2), Dup, BAppend, BSlice]
            }
        };
        for n in [0u16, 1, 32, 255, 256, 1000, 65535] {
            for d in [-1i64, 0, 1] {
                let l = n as i64 + d;
                if l < 0 {
                    continue;
                }
                let mut p = bytes_of_len(l as usize, 0x11);
                p.push(Hash(n));
                fixed.push((p, HashMap::new()));
                // SigEOk(n): signature, public key, message (top)
                for (pkl, sigl) in [(32usize, 64usize), (32, 65), (32, 0), (31, 64), (33, 64), (0, 64), (5, 70)] {
                    if n > 1000 && (pkl, sigl) != (32, 64) {
                        continue;
                    }
                    let mut p = bytes_of_len(sigl, 0x22);
                    p.extend(bytes_of_len(pkl, 0x33));
                    p.extend(bytes_of_len(l as usize, 0x44));
                    p.push(SigEOk(n));
                    fixed.push((p, HashMap::new()));
                }
            }
        }
        for l in [0usize, 31, 32, 33, 256, 65536, 65568] {
            let mut p = bytes_of_len(l, 0x55);
            p.push(BtoI);
            fixed.push((p, HashMap::new()));
        }
    }
    // success and type-failure paths that random typed programs rarely reach (found by line coverage of the executor)
    {
        let v3 = vec![VEmpty, PushIC(3u8.into()), VCons, PushIC(2u8.into()), VCons, PushIC(1u8.into()), VCons];
        let with = |pre: Vec<OpCode>, mid: Vec<OpCode>, post: Vec<OpCode>| {
            let mut v = pre;
            v.extend(mid);
            v.extend(post);
            v
        };
        for idx in [0u8, 1, 2, 3] {
            // VSet pops vector (top), index, value
            fixed.push((with(vec![PushIC(9u8.into()), PushIC(idx.into())], v3.clone(), vec![VSet]), HashMap::new()));
            fixed.push((with(vec![PushIC(9u8.into()), PushIC(idx.into())], v3.clone(), vec![VSet, PushIC(idx.into()), Dup, Noop]), HashMap::new()));
            fixed.push((with(vec![PushIC(7u8.into()), PushIC(idx.into())], vec![PushB(vec![1, 2, 3])], vec![BSet]), HashMap::new()));
        }
        // slices of the wrong kind of value, conversions of byte strings that are not 32 bytes long
        fixed.push((vec![PushIC(1u8.into()), PushIC(0u8.into()), PushIC(5u8.into()), VSlice], HashMap::new()));
        fixed.push((vec![PushIC(1u8.into()), PushIC(0u8.into()), PushB(vec![1, 2, 3]), VSlice], HashMap::new()));
        fixed.push((vec![PushIC(1u8.into()), PushIC(0u8.into()), VEmpty, BSlice], HashMap::new()));
        for n in [0usize, 1, 31, 33, 64] {
            fixed.push((vec![PushB(vec![0xabu8; n]), BtoI], HashMap::new()));
        }
        fixed.push((vec![PushB(vec![0xabu8; 32]), BtoI], HashMap::new()));
    }
    for (ops, heap) in fixed {
        if let Some(l) = run_line(&ops, &heap) {
            out.emit2(l);
            alloc_fact(out);
        }
    }
    // the heap a covenant starts with (`Executor::new_from_env`: value.rs conversions of transaction, coin and header,
    // slot layout) against the model's `heapOfEnv` - whatever the program is (the heap must not depend on it)
    for i in 0..(if thorough { 400 } else { 40 }) {
        let (op, res) = env_line(r, i);
        out.emit(&op, &res);
    }
    for ops in big_value_cases() {
        if let Some(l) = run_line_cap(&ops, &heap0, 1 << 18) {
            out.emit2(l);
        }
    }
    // the standard covenants as the library builds them, against the programs the theorems of Props/C04 are about
    for i in 0..6u8 {
        let pk = tmelcrypt::Ed25519PK(tmelcrypt::hash_keyed(b"stdpk", [i]).0);
        let t = |c: melvm::Covenant| catch_unwind(AssertUnwindSafe(|| format!("ok {}", hxd(&c.to_bytes())))).unwrap_or_else(|_| "panic".into());
        out.emit(&format!("std new {}", hxd(&pk.0)), &t(melvm::Covenant::std_ed25519_pk_new(pk)));
        out.emit(&format!("std legacy {}", hxd(&pk.0)), &t(melvm::Covenant::std_ed25519_pk_legacy(pk)));
    }
    out.emit("std true 00", &format!("ok {}", hxd(&melvm::Covenant::always_true().to_bytes())));
    for _ in 0..n {
        let ops = vmgen::mixed_program(r);
        let heap = rand_heap(r);
        if let Some(l) = run_line(&ops, &heap) {
            out.emit2(l);
            alloc_fact(out);
        } else {
            out.discarded += 1;
        }
    }
}


/// one `env` operation on a hand-made transaction, coin and header with boundary-heavy field values
pub fn env_line(r: &mut Rng, i: usize) -> (String, String) {
    use melstructs::*;
    let h32 = |r: &mut Rng| tmelcrypt::HashVal(<[u8; 32]>::try_from(r.bytes(32)).unwrap());
    let big = |r: &mut Rng| -> u128 {
        *r.pick(&[0u128, 1, 255, 256, 65535, 65536, u32::MAX as u128, 1 << 32, u64::MAX as u128, 1 << 64, (1 << 64) + 7, 1 << 100, (1 << 120) - 1, 1 << 120, u128::MAX >> 1, u128::MAX])
    };
    let denom = |r: &mut Rng| match r.below(5) {
        0 => Denom::Mel,
        1 => Denom::Sym,
        2 => Denom::Erg,
        3 => Denom::NewCustom,
        _ => Denom::Custom(TxHash(h32(r))),
    };
    let coindata = |r: &mut Rng| {
        let n = *r.pick(&[0usize, 0, 1, 5, 32, 300]);
        CoinData { covhash: Address(h32(r)), value: CoinValue(big(r)), denom: denom(r), additional_data: r.bytes(n).into() }
    };
    let kinds = [TxKind::Normal, TxKind::Stake, TxKind::DoscMint, TxKind::Swap, TxKind::LiqDeposit, TxKind::LiqWithdraw, TxKind::Faucet];
    let n_in = *r.pick(&[0usize, 1, 1, 2, 3, 9]);
    let n_out = *r.pick(&[0usize, 1, 1, 2, 4]);
    let tx = Transaction {
        kind: kinds[r.below(kinds.len() as u64) as usize],
        inputs: (0..n_in).map(|_| CoinID { txhash: TxHash(h32(r)), index: *r.pick(&[0u8, 1, 7, 255]) }).collect(),
        outputs: (0..n_out).map(|_| coindata(r)).collect(),
        fee: CoinValue(big(r)),
        covenants: (0..r.below(3)).map(|_| { let n = *r.pick(&[0usize, 1, 8, 40]); r.bytes(n).into() }).collect(),
        data: { let n = *r.pick(&[0usize, 0, 1, 32, 200]); r.bytes(n).into() },
        sigs: (0..r.below(3)).map(|_| { let n = *r.pick(&[0usize, 64, 65, 3]); r.bytes(n).into() }).collect(),
    };
    let parent = CoinID { txhash: TxHash(h32(r)), index: *r.pick(&[0u8, 1, 200, 255]) };
    let cdh = CoinDataHeight { coin_data: coindata(r), height: BlockHeight(*r.pick(&[0u64, 1, 499, 65535, 65536, u32::MAX as u64, 1 << 32, 978392, u64::MAX])) };
    let nets = [NetID::Mainnet, NetID::Testnet, NetID::Custom02, NetID::Custom08];
    let hdr = Header {
        network: nets[r.below(4) as usize],
        previous: h32(r),
        height: BlockHeight(*r.pick(&[0u64, 1, 500, 1 << 32, u64::MAX])),
        history_hash: h32(r),
        coins_hash: h32(r),
        transactions_hash: h32(r),
        fee_pool: CoinValue(big(r)),
        fee_multiplier: big(r),
        dosc_speed: big(r),
        pools_hash: h32(r),
        stakes_hash: h32(r),
    };
    let idx = *r.pick(&[0u8, 1, 2, 100, 255]);
    // the program the executor is created for must not matter
    let instrs = match i % 4 {
        0 => vec![],
        1 => vec![OpCode::PushI(0u8.into()), OpCode::Load],
        2 => vec![OpCode::LoadImm(0)],
        _ => vec![OpCode::LoadImm(7), OpCode::Noop],
    };
    let env = melvm::CovenantEnv { parent_coinid: parent, parent_cdh: cdh.clone(), spender_index: idx, last_header: hdr };
    let tx2 = tx.clone();
    let heap = catch_unwind(AssertUnwindSafe(move || melvm::VerifExecutor::new_from_env(instrs, tx2, Some(env)).heap));
    let op = format!(
        "env {} {} {}@{} {} {}",
        crate::statefmt::tx_text(&tx),
        crate::statefmt::coinid_text(&parent),
        crate::statefmt::coindata_text(&cdh.coin_data),
        cdh.height.0,
        idx,
        crate::statefmt::header_text(&hdr)
    );
    (op, match heap { Ok(h) => format!("ok {}", heap_text(&h)), Err(_) => "panic".into() })
}
