//! Canonical text forms of transactions, headers and states (shared with the Lean driver).
use crate::fmt::*;
use melstf::{CoinMapping, SmtMapping, UnsealedState, VerifParts};
use melstructs::*;
use novasmt::InMemoryCas;
use std::collections::{BTreeMap, BTreeSet, HashMap};
use stdcode::StdcodeSerializeExt;
use tmelcrypt::Hashable;

pub type Cas = InMemoryCas;

pub fn coinid_text(c: &CoinID) -> String {
    format!("{}:{}", hx(&c.txhash.0 .0), c.index)
}

pub fn coindata_text(cd: &CoinData) -> String {
    format!("{}:{}:{}:{}", hx(&cd.covhash.0 .0), cd.value.0, hx(&cd.denom.to_bytes()), hx(&cd.additional_data))
}

fn list_text(items: Vec<String>) -> String {
    if items.is_empty() {
        "-".into()
    } else {
        items.join(",")
    }
}

pub fn stakedoc_text(d: &StakeDoc) -> String {
    format!("{}:{}:{}:{}", hx(&d.pubkey.0), d.e_start, d.e_post_end, d.syms_staked.0)
}

/// one token describing a transaction together with the externally computed facts about it
pub fn tx_text(tx: &Transaction) -> String {
    let kind: u8 = tx.kind.into();
    let stakedoc = match stdcode::deserialize::<StakeDoc>(&tx.data) {
        Ok(d) => stakedoc_text(&d),
        Err(_) => "-".into(),
    };
    let pow = match stdcode::deserialize::<(u32, Vec<u8>)>(&tx.data) {
        Ok((d, pb)) => format!("{}:{}", d, melpow::Proof::from_bytes(&pb).is_some() as u8),
        Err(_) => "-".into(),
    };
    format!(
        "{}|{}|{}|{}|{}|{}|{}|{}|{}|{}|{}|{}",
        kind,
        list_text(tx.inputs.iter().map(coinid_text).collect()),
        list_text(tx.outputs.iter().map(coindata_text).collect()),
        tx.fee.0,
        list_text(tx.covenants.iter().map(|c| hx(c)).collect()),
        hx(&tx.data),
        list_text(tx.sigs.iter().map(|c| hx(c)).collect()),
        hx(&tx.hash_nosigs().0 .0),
        stdcode::serialize(tx).unwrap().len(),
        list_text(tx.covenants.iter().map(|c| hx(&tmelcrypt::hash_single(c).0)).collect()),
        stakedoc,
        pow
    )
}

pub fn header_text(h: &Header) -> String {
    let net: u8 = h.network.into();
    format!(
        "{}:{}:{}:{}:{}:{}:{}:{}:{}:{}:{}",
        net,
        hx(&h.previous.0),
        h.height.0,
        hx(&h.history_hash.0),
        hx(&h.coins_hash.0),
        hx(&h.transactions_hash.0),
        h.fee_pool.0,
        h.fee_multiplier,
        h.dosc_speed,
        hx(&h.pools_hash.0),
        hx(&h.stakes_hash.0)
    )
}

pub fn action_text(a: &Option<ProposerAction>) -> String {
    match a {
        None => "-".into(),
        Some(a) => format!("{}:{}", a.fee_multiplier_delta, hx(&a.reward_dest.0 .0)),
    }
}

/// reverse tables from SMT keys to the things they denote
#[derive(Default)]
pub struct Names {
    pub coins: HashMap<[u8; 32], CoinID>,
    pub counts: HashMap<[u8; 32], Address>,
    pub pools: BTreeSet<Vec<u8>>, // serialized raw pool keys seen (data bytes that parse)
    pub poolkeys: Vec<PoolKey>,
}

impl Names {
    pub fn reg_coin(&mut self, id: CoinID) {
        self.coins.insert(id.stdcode().hash().0, id);
    }
    pub fn reg_cov(&mut self, a: Address) {
        self.counts.insert(tmelcrypt::hash_keyed(b"coin_count", a.0).0, a);
    }
    pub fn reg_poolkey(&mut self, k: PoolKey) {
        if !self.poolkeys.contains(&k) {
            self.poolkeys.push(k);
        }
    }
    pub fn reg_tx(&mut self, tx: &Transaction) {
        let h = tx.hash_nosigs();
        for i in 0..=(tx.outputs.len().min(254) + 1) {
            self.reg_coin(CoinID::new(h, i as u8));
        }
        for inp in &tx.inputs {
            self.reg_coin(*inp);
        }
        for o in &tx.outputs {
            self.reg_cov(o.covhash);
        }
        self.reg_coin(crate::world::fdp(h));
        if let Some(k) = PoolKey::from_bytes(&tx.data) {
            self.reg_poolkey(k);
        }
    }
    pub fn reg_height(&mut self, h: u64) {
        self.reg_coin(CoinID::proposer_reward(BlockHeight(h)));
    }
}

pub fn poolkey_bytes(k: &PoolKey) -> Vec<u8> {
    k.to_bytes().to_vec()
}

/// canonical dump of an unsealed state's content
pub fn dump(p: &VerifParts<Cas>, names: &Names) -> String {
    let net: u8 = p.network.into();
    // coins and counts
    let mut coins: Vec<(Vec<u8>, u8, String)> = vec![];
    let mut counts: Vec<(Vec<u8>, String)> = vec![];
    let mut unknown: Vec<String> = vec![];
    for (k, v) in p.coins.iter() {
        if let Some(id) = names.coins.get(&k) {
            match stdcode::deserialize::<CoinDataHeight>(&v) {
                Ok(cdh) => coins.push((
                    id.txhash.0 .0.to_vec(),
                    id.index,
                    format!("{}={}@{}", coinid_text(id), coindata_text(&cdh.coin_data), cdh.height.0),
                )),
                Err(_) => unknown.push(format!("badcoin:{}", hx(&k))),
            }
        } else if let Some(a) = names.counts.get(&k) {
            match stdcode::deserialize::<u64>(&v) {
                Ok(n) => counts.push((a.0 .0.to_vec(), format!("{}={}", hx(&a.0 .0), n))),
                Err(_) => unknown.push(format!("badcount:{}", hx(&k))),
            }
        } else {
            unknown.push(format!("unknown:{}", hx(&k)));
        }
    }
    coins.sort();
    counts.sort();
    unknown.sort();
    // pools
    let pools_map: SmtMapping<Cas, PoolKey, PoolState> = SmtMapping::new(p.pools.clone());
    let mut pools: Vec<(Vec<u8>, String)> = vec![];
    for k in &names.poolkeys {
        if let Some(ps) = pools_map.get(k) {
            let kb = poolkey_bytes(k);
            let entry = format!("{}={}:{}:{}:{}", hx(&kb), ps.lefts, ps.rights, ps.price_accum, ps.liqs);
            if !pools.iter().any(|(b, _)| *b == kb) {
                pools.push((kb, entry));
            }
        }
    }
    pools.sort();
    let pool_total = p.pools.iter().count();
    // stakes
    let mut stakes: Vec<(Vec<u8>, String)> = p
        .stakes
        .iter()
        .map(|(k, d)| (k.0 .0.to_vec(), format!("{}={}", hx(&k.0 .0), stakedoc_text(d))))
        .collect();
    stakes.sort();
    let mut txs: Vec<String> = p.transactions.iter().map(|t| hx(&t.hash_nosigs().0 .0)).collect();
    txs.sort();
    format!(
        "net={} h={} fp={} fm={} tips={} ds={} coins=[{}] counts=[{}] extra=[{}] pools=[{}]/{} stakes=[{}] txs=[{}] hist={}",
        net,
        p.height.0,
        p.fee_pool.0,
        p.fee_multiplier,
        p.tips.0,
        p.dosc_speed,
        coins.into_iter().map(|c| c.2).collect::<Vec<_>>().join(";"),
        counts.into_iter().map(|c| c.1).collect::<Vec<_>>().join(";"),
        unknown.join(";"),
        pools.into_iter().map(|c| c.1).collect::<Vec<_>>().join(";"),
        pool_total,
        stakes.into_iter().map(|c| c.1).collect::<Vec<_>>().join(";"),
        txs.join(";"),
        p.history.iter().count()
    )
}

pub fn dump_unsealed(s: &UnsealedState<Cas>, names: &Names) -> String {
    dump(&s.verif_parts(), names)
}

#[allow(dead_code)]
pub fn unused(_: BTreeMap<u8, u8>, _: CoinMapping<Cas>) {}
