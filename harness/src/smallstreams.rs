//! feemult and confirm streams
use crate::rng::Rng;
use crate::statestream::*;
use crate::txgen::*;
use crate::world::*;
use crate::Out;
use melstructs::*;
use std::collections::BTreeMap;

/// `fm <mult> <delta> <tip901>`: seal a fabricated state with an action and read the new multiplier
fn fm_line(w: &mut World, mult: u128, delta: i8, tip901: bool) -> (String, String) {
    // TIP-901 is off only on mainnet below its height
    let network = if tip901 { NetID::Custom02 } else { NetID::Mainnet };
    let pool = PoolState { lefts: 1_000_000_000, rights: 1_000_000_000, price_accum: 0, liqs: 1_000_000_000 };
    let spec = FabSpec {
        network,
        height: 10,
        fee_pool: 0,
        fee_multiplier: mult,
        dosc_speed: 1_000_000,
        coins: vec![],
        pools: vec![
            (PoolKey::new(Denom::Mel, Denom::Sym), pool),
            (PoolKey::new(Denom::Mel, Denom::Erg), pool),
            (PoolKey::new(Denom::Erg, Denom::Sym), pool),
        ],
        stakes: vec![],
        history: vec![(9, 1_000_000)],
    };
    let (sealed, _) = w.fabricate(&spec);
    let res = silent(|| {
        let u = sealed.next_unsealed();
        let before = u.clone().seal(None).header().fee_multiplier;
        let after = u.seal(Some(ProposerAction { fee_multiplier_delta: delta, reward_dest: Address::coin_destroy() })).header().fee_multiplier;
        (before, after)
    });
    let op = format!("fm {} {} {}", mult, delta, tip901 as u8);
    match res {
        Ok((before, after)) => {
            if before != mult {
                (op, format!("ok {} none-changed", after))
            } else {
                (op, format!("ok {}", after))
            }
        }
        Err(_) => (op, "panic".into()),
    }
}

pub fn feemult(r: &mut Rng, n: usize, thorough: bool, out: &mut Out) {
    let mut w = World::new();
    let mut mults: Vec<u128> = (0..=(if thorough { 300 } else { 40 })).collect();
    for k in 1..=127u32 {
        if thorough || k % 4 == 0 || k < 12 || k > 60 && k < 72 || k > 120 {
            mults.push((1u128 << k) - 1);
            mults.push(1u128 << k);
            mults.push((1u128 << k) + 1);
        }
    }
    mults.push(u128::MAX);
    mults.push(u128::MAX - 1);
    mults.push(u128::MAX / 128);
    mults.push(u128::MAX - u128::MAX / 128);
    let deltas: Vec<i8> = if thorough { (-128i16..=127).map(|d| d as i8).collect() } else { vec![-128, -127, -65, -64, -63, -2, -1, 0, 1, 2, 63, 64, 65, 126, 127] };
    for m in &mults {
        for d in &deltas {
            for t in [false, true] {
                out.emit2(fm_line(&mut w, *m, *d, t));
            }
        }
        // keep the in-memory store small
        w = World::new();
    }
    for _ in 0..n {
        let m = match r.below(4) {
            0 => r.u128(),
            1 => r.u128() >> (r.below(128) as u32),
            2 => r.below(1000) as u128,
            _ => (1u128 << r.below(128)) + r.below(5) as u128,
        };
        out.emit2(fm_line(&mut w, m, r.next() as i8, r.chance(1, 2)));
    }
    // long runs of extreme deltas from the shipped genesis value
    for (start, d) in [(1_000_000u128, -128i8), (1_000_000, 127), (3, -128)] {
        let mut m = start;
        for _ in 0..(if thorough { 3000 } else { 400 }) {
            let (op, res) = fm_line(&mut w, m, d, true);
            let next = res.strip_prefix("ok ").and_then(|s| s.split(' ').next()).and_then(|s| s.parse::<u128>().ok());
            out.emit(&op, &res);
            match next {
                Some(x) if x != m => m = x,
                _ => break,
            }
        }
        w = World::new();
    }
}

/// stake distributions × signer subsets × signature corruptions
pub fn confirm(r: &mut Rng, n: usize, thorough: bool, out: &mut Out) {
    let mut stats = BTreeMap::new();
    let wallet = Wallet::new();
    let nk = wallet.keys.len();
    let cases = if thorough { n * 4 } else { n };
    for case in 0..cases {
        let mut w = World::new();
        let height: u64 = *r.pick(&[5u64, 199_999, 200_000, 400_001]);
        let epoch = height / STAKE_EPOCH;
        let nst = 1 + r.below(6) as usize;
        let mut stakes = vec![];
        for i in 0..nst {
            let k = r.below(nk.min(4) as u64) as usize; // several stakes per key are likely
            let (s, e) = match r.below(8) {
                0 => (epoch + 1, epoch + 2),               // not yet active
                1 => (epoch.saturating_sub(1), epoch),     // expired
                _ => (epoch.saturating_sub(r.below(2)), epoch + 1 + r.below(2)),
            };
            let amount = match r.below(6) {
                5 => 1u128 << 127, // two of these reach 2^128: the tallies saturate
                0 => 1u128 << 126,
                1 => 1u128 << 100,
                _ => 1 + r.below(5) as u128,
            };
            stakes.push((
                TxHash(tmelcrypt::hash_keyed(b"cstake", [i as u8, case as u8])),
                StakeDoc { pubkey: wallet.keys[k].pk, e_start: s, e_post_end: e, syms_staked: CoinValue(amount) },
            ));
        }
        let pool = PoolState { lefts: 1_000_000_000, rights: 1_000_000_000, price_accum: 0, liqs: 1_000_000_000 };
        let spec = FabSpec {
            network: NetID::Custom02,
            height,
            fee_pool: 0,
            fee_multiplier: 100,
            dosc_speed: 1_000_000,
            coins: vec![],
            pools: vec![(PoolKey::new(Denom::Mel, Denom::Sym), pool), (PoolKey::new(Denom::Mel, Denom::Erg), pool)],
            stakes,
            history: if height > 0 { vec![(height - 1, 1_000_000)] } else { vec![] },
        };
        let mut h = Hist { w: &mut w, wallet: Wallet::new(), out, stats: BTreeMap::new(), faucets_seen: vec![], pending_spenders: vec![], spent_in_block: vec![], stake_txs: vec![], sealed_headers: vec![] };
        let name = h.op_fab(&spec);
        let hh = {
            use tmelcrypt::Hashable;
            h.w.sealed.get(&name).unwrap().header().hash()
        };
        // every signer subset of the first min(nk,5) keys (exhaustive), with corruptions
        let kk = nk.min(5);
        let subsets: Vec<u32> = if thorough || kk <= 4 { (0..(1u32 << kk)).collect() } else { (0..12).map(|_| r.below(1 << kk) as u32).collect() };
        for mask in subsets {
            let mut proof: ConsensusProof = BTreeMap::new();
            for k in 0..kk {
                if mask & (1 << k) != 0 {
                    let mut sig = h.wallet.keys[k].sk.sign(&hh.0);
                    match r.below(24) {
                        0 => sig[3] ^= 1,                                           // corrupted
                        1 => sig = h.wallet.keys[(k + 1) % nk].sk.sign(&hh.0),     // swapped
                        2 => sig = h.wallet.keys[k].sk.sign(b"other message"),     // foreign
                        3 => {
                            sig.pop();
                        }
                        _ => {}
                    }
                    proof.insert(h.wallet.keys[k].pk, sig.into());
                }
            }
            h.op_confirm(&name, proof);
        }
        merge(&mut stats, &h.stats);
        out.emit("reset", "ok");
    }
    let js: Vec<String> = stats.iter().map(|(k, v)| format!("\"{}\":{}", k, v)).collect();
    println!("{{\"stats\":{{{}}}}}", js.join(","));
}

// ---------------------------------------------------------------- merkle

use novasmt::{Database, InMemoryCas};

fn hexs(b: &[u8]) -> String {
    hex::encode(b)
}

/// sparse and dense Merkle trees of the real novasmt: root equalities and proof verdicts
pub fn merkle(r: &mut Rng, n: usize, thorough: bool, out: &mut Out) {
    let cases = if thorough { n * 4 } else { n };
    for case in 0..cases {
        let db = Database::new(InMemoryCas::default());
        let mut classes: Vec<[u8; 32]> = vec![];
        let mut class_of = |root: [u8; 32], classes: &mut Vec<[u8; 32]>| -> usize {
            match classes.iter().position(|x| *x == root) {
                Some(i) => i,
                None => {
                    classes.push(root);
                    classes.len() - 1
                }
            }
        };
        // keys: random, plus keys sharing long prefixes with an existing key
        let nk = 1 + r.below(10) as usize;
        let mut keys: Vec<[u8; 32]> = vec![];
        for _ in 0..nk {
            let mut k = [0u8; 32];
            if !keys.is_empty() && r.chance(1, 3) {
                k = *r.pick(&keys);
                let pos = *r.pick(&[31usize, 31, 16, 1, 0]);
                k[pos] ^= 1 << r.below(8);
            } else {
                k.copy_from_slice(&r.bytes(32));
            }
            if !keys.contains(&k) {
                keys.push(k);
            }
        }
        let vals: Vec<Vec<u8>> = keys.iter().map(|_| { let n = 1 + r.below(6) as usize; r.bytes(n) }).collect();
        // the same content built in two different orders, with an insert-then-delete detour
        let mut order1: Vec<usize> = (0..keys.len()).collect();
        let mut order2 = order1.clone();
        r.shuffle(&mut order1);
        r.shuffle(&mut order2);
        let detour_key: [u8; 32] = { let mut k = [0u8; 32]; k.copy_from_slice(&r.bytes(32)); k };
        let build = |name: &str, order: &[usize], detour: bool, out: &mut Out, classes: &mut Vec<[u8; 32]>, class_of: &mut dyn FnMut([u8; 32], &mut Vec<[u8; 32]>) -> usize| {
            let mut t = db.get_tree([0u8; 32]).unwrap();
            let mut entries = vec![];
            for (j, i) in order.iter().enumerate() {
                if detour && j == order.len() / 2 {
                    t.insert(detour_key, b"x");
                    entries.push(format!("{}={}", hexs(&detour_key), hexs(b"x")));
                }
                t.insert(keys[*i], &vals[*i]);
                entries.push(format!("{}={}", hexs(&keys[*i]), hexs(&vals[*i])));
            }
            if detour {
                t.insert(detour_key, b"");
                entries.push(format!("{}=", hexs(&detour_key)));
            }
            let c = class_of(t.root_hash(), classes);
            out.emit(&format!("mt {} {}", name, entries.join(";")), &format!("ok r{}", c));
            t
        };
        let n1 = format!("t{}a", case);
        let n2 = format!("t{}b", case);
        let t1 = build(&n1, &order1, false, out, &mut classes, &mut class_of);
        let _t2 = build(&n2, &order2, true, out, &mut classes, &mut class_of);
        // a different content: one value changed / one key removed
        if !keys.is_empty() {
            let i = r.below(keys.len() as u64) as usize;
            let mut t3 = t1.clone();
            let newv: Vec<u8> = if r.chance(1, 2) { vec![] } else { let mut v = vals[i].clone(); v.push(9); v };
            t3.insert(keys[i], &newv);
            let c = class_of(t3.root_hash(), &mut classes);
            out.emit(&format!("mt {} {}={}", n1, hexs(&keys[i]), hexs(&newv)), &format!("ok r{}", c));
            // (the model continues from the tree named n1: re-establish it)
            let mut t4 = t3.clone();
            t4.insert(keys[i], &vals[i]);
            let c = class_of(t4.root_hash(), &mut classes);
            out.emit(&format!("mt {} {}={}", n1, hexs(&keys[i]), hexs(&vals[i])), &format!("ok r{}", c));
        }
        // proofs for every present key and some absent keys, honest and tampered
        let root = t1.root_hash();
        let mut probe_keys: Vec<[u8; 32]> = keys.clone();
        for _ in 0..2 {
            let mut k = [0u8; 32];
            k.copy_from_slice(&r.bytes(32));
            probe_keys.push(k);
        }
        if let Some(k0) = keys.get(0) {
            let mut k = *k0;
            k[31] ^= 1;
            if !keys.contains(&k) {
                probe_keys.push(k);
            }
        }
        for k in &probe_keys {
            let (val, proof) = t1.get_with_proof(*k);
            let val = val.to_vec();
            out.emit(&format!("mp {} {} honest", n1, hexs(k)), &format!("{} {}", proof.verify(root, *k, &val), crate::fmt::hxd(&val)));
            let mut wrong = val.clone();
            wrong.push(1);
            out.emit(&format!("mp {} {} wrongval", n1, hexs(k)), &format!("{}", proof.verify(root, *k, &wrong)));
            out.emit(&format!("mp {} {} emptyval", n1, hexs(k)), &format!("{}", proof.verify(root, *k, b"")));
            let i = *r.pick(&[0usize, 1, 128, 254, 255]);
            let mut p2 = proof.clone();
            p2.0[i] = novasmt::hash_data(b"tamper");
            out.emit(&format!("mp {} {} sibling:{}", n1, hexs(k), i), &format!("{}", p2.verify(root, *k, &val)));
            let other = *r.pick(&probe_keys);
            out.emit(&format!("mp {} {} otherkey:{}", n1, hexs(k), hexs(&other)), &format!("{}", proof.verify(root, other, &val)));
        }
        // dense tree (the TIP-908 transaction commitment): 0..9 blocks
        let nb = r.below(10) as usize;
        let blocks: Vec<Vec<u8>> = (0..nb).map(|_| { let n = 1 + r.below(5) as usize; r.bytes(n) }).collect();
        let dt = novasmt::dense::DenseMerkleTree::new(&blocks);
        let dn = format!("d{}", case);
        let c = class_of(dt.root_hash(), &mut classes);
        out.emit(&format!("dt {} {}", dn, if blocks.is_empty() { "-".to_string() } else { blocks.iter().map(|b| hexs(b)).collect::<Vec<_>>().join(",") }), &format!("ok r{}", c));
        for i in 0..nb {
            let proof = dt.proof(i);
            let leaf = novasmt::hash_data(&blocks[i]);
            out.emit(&format!("dp {} {} honest", dn, i), &format!("{}", novasmt::dense::verify_dense(&proof, dt.root_hash(), i, leaf)));
            let mut wl = blocks[i].clone();
            wl.push(7);
            out.emit(&format!("dp {} {} wrongleaf", dn, i), &format!("{}", novasmt::dense::verify_dense(&proof, dt.root_hash(), i, novasmt::hash_data(&wl))));
            let j = (i + 1 + r.below(3) as usize) % nb.max(1);
            if j != i {
                out.emit(&format!("dp {} {} wrongidx:{}", dn, i, j), &format!("{}", novasmt::dense::verify_dense(&proof, dt.root_hash(), j, leaf)));
            }
        }
        out.emit("reset", "ok");
    }
}

// ------------------------------------------------------------------------------------------------------------------
// `stdcode` stream: the serialisation glue the state transition function relies on (MelModel/Stdcode.lean)
//   sdoc <hex>   stdcode::deserialize::<StakeDoc>           -> ok pk:start:end:syms | err
//   powd <hex>   stdcode::deserialize::<(u32, Vec<u8>)>     -> ok difficulty proofhex | err
//   txlen <tx>   stdcode::serialize(tx).len()               -> len N

/// bincode varint of `v` written with the marker `width` (0 = single byte; 2, 4, 8, 16 = literal width) — possibly
/// wider than necessary (bincode's reader accepts that), possibly too narrow (the value is then truncated)
fn varint_with(v: u128, width: u8) -> Vec<u8> {
    match width {
        0 => vec![v as u8],
        2 => { let mut o = vec![251u8]; o.extend_from_slice(&(v as u16).to_le_bytes()); o }
        4 => { let mut o = vec![252u8]; o.extend_from_slice(&(v as u32).to_le_bytes()); o }
        8 => { let mut o = vec![253u8]; o.extend_from_slice(&(v as u64).to_le_bytes()); o }
        16 => { let mut o = vec![254u8]; o.extend_from_slice(&v.to_le_bytes()); o }
        _ => vec![255u8],
    }
}

fn minimal_width(v: u128) -> u8 {
    if v <= 250 { 0 } else if v < 1 << 16 { 2 } else if v < 1 << 32 { 4 } else if v < 1 << 64 { 8 } else { 16 }
}

fn some_width(r: &mut Rng, v: u128) -> u8 {
    match r.below(10) {
        0 => *r.pick(&[0u8, 2, 4, 8, 16]),
        1 => 255,
        2 | 3 => { let m = minimal_width(v); *r.pick(&[2u8, 4, 8, 16]).max(&m) }
        _ => minimal_width(v),
    }
}

const VARINT_EDGES: [u128; 22] = [
    0, 1, 2, 249, 250, 251, 252, 253, 254, 255, 256, 65535, 65536, (1 << 32) - 1, 1 << 32, (1 << 32) + 1,
    u64::MAX as u128, u64::MAX as u128 + 1, 1 << 120, (1 << 120) + 1, u128::MAX - 1, u128::MAX,
];

fn edge_value(r: &mut Rng) -> u128 {
    match r.below(4) {
        0 => *r.pick(&VARINT_EDGES),
        1 => r.u128() >> (r.below(128) as u32),
        2 => r.below(300) as u128,
        _ => (1u128 << r.below(128)) + r.below(3) as u128,
    }
}

fn mangle(r: &mut Rng, mut b: Vec<u8>) -> Vec<u8> {
    match r.below(12) {
        0 => { let k = 1 + r.below(3) as usize; b.truncate(b.len().saturating_sub(k)); b }
        1 => { let k = 1 + r.below(3) as usize; b.extend(r.bytes(k)); b }
        2 => { if !b.is_empty() { let i = r.below(b.len() as u64) as usize; b[i] ^= 1 << r.below(8); } b }
        3 => { if !b.is_empty() { let i = r.below(b.len() as u64) as usize; b.remove(i); } b }
        _ => b,
    }
}

fn sdoc_line(bytes: &[u8]) -> (String, String) {
    let res = match silent(|| stdcode::deserialize::<StakeDoc>(bytes)) {
        Ok(Ok(d)) => format!("ok {}", crate::statefmt::stakedoc_text(&d)),
        Ok(Err(_)) => "err".to_string(),
        Err(_) => "panic".to_string(),
    };
    (format!("sdoc {}", crate::fmt::hxd(bytes)), res)
}

fn powd_line(bytes: &[u8]) -> (String, String) {
    let res = match silent(|| stdcode::deserialize::<(u32, Vec<u8>)>(bytes)) {
        Ok(Ok((d, p))) => format!("ok {} {}", d, crate::fmt::hxd(&p)),
        Ok(Err(_)) => "err".to_string(),
        Err(_) => "panic".to_string(),
    };
    (format!("powd {}", crate::fmt::hxd(bytes)), res)
}

fn txlen_line(tx: &Transaction) -> (String, String) {
    let res = match silent(|| stdcode::serialize(tx).map(|b| b.len())) {
        Ok(Ok(n)) => format!("len {}", n),
        Ok(Err(_)) => "err".to_string(),
        Err(_) => "panic".to_string(),
    };
    (format!("txlen {}", crate::statefmt::tx_text(tx)), res)
}

/// `txenc <tx>`: the bytes of `stdcode::serialize(tx)` (the model writes them with `Stdcode.encodeTx`)
fn txenc_line(tx: &Transaction) -> (String, String) {
    let res = match silent(|| stdcode::serialize(tx)) {
        Ok(Ok(b)) => format!("bytes {}", crate::fmt::hxd(&b)),
        Ok(Err(_)) => "err".to_string(),
        Err(_) => "panic".to_string(),
    };
    (format!("txenc {}", crate::statefmt::tx_text(tx)), res)
}

/// `hdrenc <header>`: the bytes of `stdcode::serialize(header)`, the preimage of the header hash
fn hdrenc_line(h: &Header) -> (String, String) {
    let res = match silent(|| stdcode::serialize(h)) {
        Ok(Ok(b)) => format!("bytes {}", crate::fmt::hxd(&b)),
        Ok(Err(_)) => "err".to_string(),
        Err(_) => "panic".to_string(),
    };
    (format!("hdrenc {}", crate::statefmt::header_text(h)), res)
}

fn some_len(r: &mut Rng, thorough: bool) -> usize {
    match r.below(12) {
        0 => 250,
        1 => 251,
        2 => 252,
        3 => 300,
        4 => if thorough { 65535 } else { 1000 },
        5 => if thorough { 65536 } else { 1001 },
        6 | 7 => 0,
        _ => r.below(40) as usize,
    }
}

fn some_denom(r: &mut Rng) -> Denom {
    match r.below(6) {
        0 => Denom::Mel,
        1 => Denom::Sym,
        2 => Denom::Erg,
        3 => Denom::NewCustom,
        _ => { let mut h = [0u8; 32]; h.copy_from_slice(&r.bytes(32)); Denom::Custom(TxHash(tmelcrypt::HashVal(h))) }
    }
}

pub fn stdcode_stream(r: &mut Rng, n: usize, thorough: bool, out: &mut Out) {
    // every single byte, and every marker followed by too little / just enough
    for b in 0..=255u8 {
        out.emit2(powd_line(&[b]));
        out.emit2(powd_line(&[b, 0]));
        let mut v = vec![7u8; 32];
        v.extend_from_slice(&[b, 1, 2]);
        out.emit2(sdoc_line(&v));
        let mut v = vec![7u8; 32];
        v.extend_from_slice(&[1, 2, b]);
        out.emit2(sdoc_line(&v));
    }
    out.emit2(sdoc_line(&[]));
    out.emit2(powd_line(&[]));
    for e in VARINT_EDGES {
        for w in [0u8, 2, 4, 8, 16, 255] {
            let mut v = vec![9u8; 32];
            v.extend(varint_with(e, w));
            v.extend(varint_with(e, minimal_width(e).min(8)));
            v.extend(varint_with(e, w));
            out.emit2(sdoc_line(&v));
            let mut p = varint_with(e, w);
            p.extend(varint_with(3, 0));
            p.extend_from_slice(&[1, 2, 3]);
            out.emit2(powd_line(&p));
        }
    }
    for _ in 0..n {
        // stake documents
        let mut pk = r.bytes(32);
        if r.chance(1, 12) { let k = *r.pick(&[0usize, 1, 31, 33]); pk = r.bytes(k); }
        let (a, b, c) = (edge_value(r), edge_value(r), edge_value(r));
        let mut v = pk.clone();
        v.extend(varint_with(a, some_width(r, a)));
        v.extend(varint_with(b, some_width(r, b)));
        v.extend(varint_with(c, some_width(r, c)));
        let v = mangle(r, v);
        out.emit2(sdoc_line(&v));
        // the real encoder's output decodes to what went in
        if pk.len() == 32 {
            let mut k = [0u8; 32];
            k.copy_from_slice(&pk);
            let d = StakeDoc { pubkey: tmelcrypt::Ed25519PK(k), e_start: a as u64, e_post_end: b as u64, syms_staked: CoinValue(c) };
            out.emit2(sdoc_line(&stdcode::serialize(&d).unwrap()));
        }
        // proof-of-work payloads
        let d = edge_value(r);
        let plen = some_len(r, thorough);
        let proof = r.bytes(plen);
        let promised = match r.below(8) { 0 => plen as u128 + 1, 1 => (plen as u128).saturating_sub(1), 2 => edge_value(r), _ => plen as u128 };
        let mut p = varint_with(d, some_width(r, d));
        p.extend(varint_with(promised, some_width(r, promised)));
        p.extend_from_slice(&proof);
        let p = mangle(r, p);
        out.emit2(powd_line(&p));
        if d <= u32::MAX as u128 {
            out.emit2(powd_line(&stdcode::serialize(&(d as u32, proof.clone())).unwrap()));
        }
        // raw noise
        if r.chance(1, 3) {
            let k = r.below(80) as usize;
            let noise = r.bytes(k);
            out.emit2(sdoc_line(&noise));
            out.emit2(powd_line(&noise));
        }
        // the serialised size of a transaction
        let kinds = [TxKind::Normal, TxKind::Stake, TxKind::DoscMint, TxKind::Swap, TxKind::LiqDeposit, TxKind::LiqWithdraw, TxKind::Faucet];
        let nin = match r.below(10) { 0 => 250, 1 => 251, 2 => 300, _ => r.below(4) as usize };
        let nout = match r.below(10) { 0 => 250, 1 => 251, 2 => 255, _ => r.below(5) as usize };
        let tx = Transaction {
            kind: *r.pick(&kinds),
            inputs: (0..nin).map(|_| { let mut h = [0u8; 32]; h.copy_from_slice(&r.bytes(32)); CoinID { txhash: TxHash(tmelcrypt::HashVal(h)), index: r.next() as u8 } }).collect(),
            outputs: (0..nout).map(|_| {
                let mut h = [0u8; 32];
                h.copy_from_slice(&r.bytes(32));
                let adl = if nout > 10 { r.below(3) as usize } else { some_len(r, thorough) };
                CoinData { covhash: Address(tmelcrypt::HashVal(h)), value: CoinValue(edge_value(r)), denom: some_denom(r), additional_data: r.bytes(adl).into() }
            }).collect(),
            fee: CoinValue(edge_value(r)),
            covenants: (0..r.below(4)).map(|_| { let l = some_len(r, thorough); r.bytes(l).into() }).collect(),
            data: { let l = some_len(r, thorough); r.bytes(l).into() },
            sigs: (0..r.below(4)).map(|_| { let l = *r.pick(&[0usize, 1, 64, 64, 64, 250, 251]); r.bytes(l).into() }).collect(),
        };
        out.emit2(txlen_line(&tx));
        // the preimage of a header hash
        {
            let hv = |r: &mut Rng| { let mut h = [0u8; 32]; h.copy_from_slice(&r.bytes(32)); tmelcrypt::HashVal(h) };
            let nets = [NetID::Testnet, NetID::Custom02, NetID::Custom03, NetID::Custom04, NetID::Custom05, NetID::Custom06, NetID::Custom07, NetID::Custom08, NetID::Mainnet];
            let hd = Header {
                network: *r.pick(&nets),
                previous: hv(r),
                height: BlockHeight(edge_value(r) as u64),
                history_hash: hv(r),
                coins_hash: hv(r),
                transactions_hash: if r.chance(1, 4) { tmelcrypt::HashVal([0u8; 32]) } else { hv(r) },
                fee_pool: CoinValue(edge_value(r)),
                fee_multiplier: edge_value(r),
                dosc_speed: edge_value(r),
                pools_hash: hv(r),
                stakes_hash: hv(r),
            };
            out.emit2(hdrenc_line(&hd));
        }
        // … and the bytes themselves, for transactions of moderate size
        if tx.inputs.len() + tx.outputs.len() < 40 {
            out.emit2(txenc_line(&tx));
        }
    }
}
