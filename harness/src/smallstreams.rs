//! feemult and confirm streams
use crate::rng::Rng;
use crate::statestream::*;
use crate::txgen::*;
use crate::world::*;
use crate::Out;
use melstructs::*;
use std::collections::BTreeMap;

/// `fm <mult> <delta> <tip901>`: seal a fabricated state with an action and read the new multiplier
fn fm_line(w: &mut World, mult: u128, delta: i8, tip901: bool) -> (String, String) {
    // TIP-901 is off only on mainnet below its height
    let network = if tip901 { NetID::Custom02 } else { NetID::Mainnet };
    let pool = PoolState { lefts: 1_000_000_000, rights: 1_000_000_000, price_accum: 0, liqs: 1_000_000_000 };
    let spec = FabSpec {
        network,
        height: 10,
        fee_pool: 0,
        fee_multiplier: mult,
        dosc_speed: 1_000_000,
        coins: vec![],
        pools: vec![
            (PoolKey::new(Denom::Mel, Denom::Sym), pool),
            (PoolKey::new(Denom::Mel, Denom::Erg), pool),
            (PoolKey::new(Denom::Erg, Denom::Sym), pool),
        ],
        stakes: vec![],
        history: vec![(9, 1_000_000)],
    };
    let (sealed, _) = w.fabricate(&spec);
    let res = silent(|| {
        let u = sealed.next_unsealed();
        let before = u.clone().seal(None).header().fee_multiplier;
        let after = u.seal(Some(ProposerAction { fee_multiplier_delta: delta, reward_dest: Address::coin_destroy() })).header().fee_multiplier;
        (before, after)
    });
    let op = format!("fm {} {} {}", mult, delta, tip901 as u8);
    match res {
        Ok((before, after)) => {
            if before != mult {
                (op, format!("ok {} none-changed", after))
            } else {
                (op, format!("ok {}", after))
            }
        }
        Err(_) => (op, "panic".into()),
    }
}

pub fn feemult(r: &mut Rng, n: usize, thorough: bool, out: &mut Out) {
    let mut w = World::new();
    let mut mults: Vec<u128> = (0..=(if thorough { 300 } else { 40 })).collect();
    for k in 1..=127u32 {
        if thorough || k % 4 == 0 || k < 12 || k > 60 && k < 72 || k > 120 {
            mults.push((1u128 << k) - 1);
            mults.push(1u128 << k);
            mults.push((1u128 << k) + 1);
        }
    }
    mults.push(u128::MAX);
    mults.push(u128::MAX - 1);
    mults.push(u128::MAX / 128);
    mults.push(u128::MAX - u128::MAX / 128);
    let deltas: Vec<i8> = if thorough { (-128i16..=127).map(|d| d as i8).collect() } else { vec![-128, -127, -65, -64, -63, -2, -1, 0, 1, 2, 63, 64, 65, 126, 127] };
    for m in &mults {
        for d in &deltas {
            for t in [false, true] {
                out.emit2(fm_line(&mut w, *m, *d, t));
            }
        }
        // keep the in-memory store small
        w = World::new();
    }
    for _ in 0..n {
        let m = match r.below(4) {
            0 => r.u128(),
            1 => r.u128() >> (r.below(128) as u32),
            2 => r.below(1000) as u128,
            _ => (1u128 << r.below(128)) + r.below(5) as u128,
        };
        out.emit2(fm_line(&mut w, m, r.next() as i8, r.chance(1, 2)));
    }
    // long runs of extreme deltas from the shipped genesis value
    for (start, d) in [(1_000_000u128, -128i8), (1_000_000, 127), (3, -128)] {
        let mut m = start;
        for _ in 0..(if thorough { 3000 } else { 400 }) {
            let (op, res) = fm_line(&mut w, m, d, true);
            let next = res.strip_prefix("ok ").and_then(|s| s.split(' ').next()).and_then(|s| s.parse::<u128>().ok());
            out.emit(&op, &res);
            match next {
                Some(x) if x != m => m = x,
                _ => break,
            }
        }
        w = World::new();
    }
}

/// stake distributions × signer subsets × signature corruptions
pub fn confirm(r: &mut Rng, n: usize, thorough: bool, out: &mut Out) {
    let mut stats = BTreeMap::new();
    let wallet = Wallet::new();
    let nk = wallet.keys.len();
    let cases = if thorough { n * 4 } else { n };
    for case in 0..cases {
        let mut w = World::new();
        let height: u64 = *r.pick(&[5u64, 199_999, 200_000, 400_001]);
        let epoch = height / STAKE_EPOCH;
        let nst = 1 + r.below(6) as usize;
        let mut stakes = vec![];
        for i in 0..nst {
            let k = r.below(nk.min(4) as u64) as usize; // several stakes per key are likely
            let (s, e) = match r.below(8) {
                0 => (epoch + 1, epoch + 2),               // not yet active
                1 => (epoch.saturating_sub(1), epoch),     // expired
                _ => (epoch.saturating_sub(r.below(2)), epoch + 1 + r.below(2)),
            };
            let amount = match r.below(5) {
                0 => 1u128 << 126,
                1 => 1u128 << 100,
                _ => 1 + r.below(5) as u128,
            };
            stakes.push((
                TxHash(tmelcrypt::hash_keyed(b"cstake", [i as u8, case as u8])),
                StakeDoc { pubkey: wallet.keys[k].pk, e_start: s, e_post_end: e, syms_staked: CoinValue(amount) },
            ));
        }
        let pool = PoolState { lefts: 1_000_000_000, rights: 1_000_000_000, price_accum: 0, liqs: 1_000_000_000 };
        let spec = FabSpec {
            network: NetID::Custom02,
            height,
            fee_pool: 0,
            fee_multiplier: 100,
            dosc_speed: 1_000_000,
            coins: vec![],
            pools: vec![(PoolKey::new(Denom::Mel, Denom::Sym), pool), (PoolKey::new(Denom::Mel, Denom::Erg), pool)],
            stakes,
            history: if height > 0 { vec![(height - 1, 1_000_000)] } else { vec![] },
        };
        let mut h = Hist { w: &mut w, wallet: Wallet::new(), out, stats: BTreeMap::new() };
        let name = h.op_fab(&spec);
        let hh = {
            use tmelcrypt::Hashable;
            h.w.sealed.get(&name).unwrap().header().hash()
        };
        // every signer subset of the first min(nk,5) keys (exhaustive), with corruptions
        let kk = nk.min(5);
        let subsets: Vec<u32> = if thorough || kk <= 4 { (0..(1u32 << kk)).collect() } else { (0..12).map(|_| r.below(1 << kk) as u32).collect() };
        for mask in subsets {
            let mut proof: ConsensusProof = BTreeMap::new();
            for k in 0..kk {
                if mask & (1 << k) != 0 {
                    let mut sig = h.wallet.keys[k].sk.sign(&hh.0);
                    match r.below(24) {
                        0 => sig[3] ^= 1,                                           // corrupted
                        1 => sig = h.wallet.keys[(k + 1) % nk].sk.sign(&hh.0),     // swapped
                        2 => sig = h.wallet.keys[k].sk.sign(b"other message"),     // foreign
                        3 => {
                            sig.pop();
                        }
                        _ => {}
                    }
                    proof.insert(h.wallet.keys[k].pk, sig.into());
                }
            }
            h.op_confirm(&name, proof);
        }
        merge(&mut stats, &h.stats);
        out.emit("reset", "ok");
    }
    let js: Vec<String> = stats.iter().map(|(k, v)| format!("\"{}\":{}", k, v)).collect();
    println!("{{\"stats\":{{{}}}}}", js.join(","));
}
