//! MelVM program generators.
use crate::rng::Rng;
use ethnum::U256;
use melvm::opcode::OpCode;
use melvm::Value;

#[derive(Clone, Copy, PartialEq, Eq, Debug)]
pub enum Ty {
    I,
    B,
    V,
}

fn rand_u256(r: &mut Rng) -> U256 {
    match r.below(9) {
        8 => U256::from_words(1 + r.below(3) as u128, r.below(70000) as u128), // high half set, small low half
        0 => U256::ZERO,
        1 => U256::ONE,
        2 => U256::from(r.below(40)),
        3 => U256::MAX,
        4 => U256::MAX - U256::from(r.below(3)),
        5 => U256::ONE << (r.below(256) as u32),
        6 => U256::from(r.next()),
        _ => U256::from_words(r.u128(), r.u128()),
    }
}

fn small_bytes(r: &mut Rng) -> Vec<u8> {
    let n = match r.below(6) {
        0 => 0,
        1 => 1,
        2 => 32,
        3 => r.below(5) as usize,
        4 => 31 + r.below(3) as usize,
        _ => r.below(70) as usize,
    };
    r.bytes(n)
}

pub fn rand_value(r: &mut Rng, depth: u32) -> Value {
    match r.below(if depth == 0 { 2 } else { 3 }) {
        0 => Value::Int(rand_u256(r)),
        1 => Value::from_bytes(&small_bytes(r)),
        _ => {
            let n = r.below(4);
            let v: Vec<Value> = (0..n).map(|_| rand_value(r, depth - 1)).collect();
            Value::Vector(v.into())
        }
    }
}

/// every opcode once, with representative arguments (used for coverage accounting too)
pub fn all_ops(r: &mut Rng) -> Vec<OpCode> {
    use OpCode::*;
    vec![
        Noop, Add, Sub, Mul, Div, Rem, Exp(r.next() as u8), And, Or, Xor, Not, Eql, Lt, Gt, Shl, Shr,
        Hash(r.next() as u16), SigEOk(r.next() as u16), Store, Load, StoreImm(r.below(4) as u16),
        LoadImm(r.below(4) as u16), VRef, VAppend, VEmpty, VLength, VSlice, VSet, VPush, VCons, BRef,
        BAppend, BEmpty, BLength, BSlice, BSet, BPush, BCons, Bez(r.below(4) as u16), Bnz(r.below(4) as u16),
        Jmp(r.below(4) as u16), Loop(r.below(4) as u16, r.below(5) as u16), ItoB, BtoI, TypeQ,
        PushB(small_bytes(r)), PushI(rand_u256(r)), PushIC(rand_u256(r)), Dup,
    ]
}

fn push_of(r: &mut Rng, t: Ty) -> Vec<OpCode> {
    use OpCode::*;
    match t {
        Ty::I => match r.below(4) {
            0 => vec![PushI(rand_u256(r))],
            1 => vec![PushIC(U256::from(r.below(6)))],
            2 => vec![PushIC(rand_u256(r))],
            _ => vec![PushI(U256::from(r.below(300)))],
        },
        Ty::B => match r.below(3) {
            0 => vec![BEmpty],
            _ => vec![PushB(small_bytes(r))],
        },
        Ty::V => vec![VEmpty],
    }
}

/// Type-aware random program: tracks an abstract stack so that most programs run to completion.
pub fn typed_program(r: &mut Rng, max_len: usize) -> Vec<OpCode> {
    use OpCode::*;
    use Ty::*;
    let mut ops: Vec<OpCode> = vec![];
    let mut st: Vec<Ty> = vec![];
    let target = 1 + r.below(max_len as u64) as usize;
    while ops.len() < target {
        // occasionally an arbitrary instruction (type errors, underflows)
        if r.chance(1, 25) {
            let all = all_ops(r);
            ops.push(r.pick(&all).clone());
            continue;
        }
        let choice = r.below(44);
        // (needed operand types top-first, result types pushed)
        let (need, op, res): (Vec<Ty>, OpCode, Vec<Ty>) = match choice {
            0 => (vec![I, I], Add, vec![I]),
            1 => (vec![I, I], Sub, vec![I]),
            2 => (vec![I, I], Mul, vec![I]),
            3 => (vec![I, I], Div, vec![I]),
            4 => (vec![I, I], Rem, vec![I]),
            5 => (vec![I, I], Exp(*r.pick(&[0u8, 1, 2, 7, 8, 31, 254, 255])), vec![I]),
            6 => (vec![I, I], And, vec![I]),
            7 => (vec![I, I], Or, vec![I]),
            8 => (vec![I, I], Xor, vec![I]),
            9 => (vec![I], Not, vec![I]),
            10 => (vec![I, I], Eql, vec![I]),
            11 => (vec![I, I], Lt, vec![I]),
            12 => (vec![I, I], Gt, vec![I]),
            13 => (vec![I, I], Shl, vec![I]),
            14 => (vec![I, I], Shr, vec![I]),
            15 => (vec![B], Hash(*r.pick(&[0u16, 1, 31, 32, 33, 64, 1000])), vec![B]),
            16 => (vec![B, B, B], SigEOk(*r.pick(&[0u16, 31, 32, 33, 100])), vec![I]),
            17 => (vec![I], ItoB, vec![B]),
            18 => (vec![B], BtoI, vec![I]),
            19 => (vec![], TypeQ, vec![I]),
            20 => (vec![], Dup, vec![]),
            21 => (vec![V, I], VRef, vec![I]),
            22 => (vec![V, V], VAppend, vec![V]),
            23 => (vec![V], VLength, vec![I]),
            24 => (vec![V, I, I], VSlice, vec![V]),
            25 => (vec![V, I], VSet, vec![V]),
            26 => (vec![V], VPush, vec![V]),
            27 => (vec![], VCons, vec![V]),
            28 => (vec![B, I], BRef, vec![I]),
            29 => (vec![B, B], BAppend, vec![B]),
            30 => (vec![B], BLength, vec![I]),
            31 => (vec![B, I, I], BSlice, vec![B]),
            32 => (vec![B, I, I], BSet, vec![B]),
            33 => (vec![B, I], BPush, vec![B]),
            34 => (vec![I, B], BCons, vec![B]),
            35 => (vec![I], Bez(r.below(4) as u16), vec![]),
            36 => (vec![I], Bnz(r.below(4) as u16), vec![]),
            37 => (vec![], Jmp(r.below(3) as u16), vec![]),
            38 => (vec![], Loop(r.below(5) as u16, r.below(7) as u16), vec![]),
            39 => (vec![], StoreImm(r.below(4) as u16), vec![]),
            40 => (vec![], LoadImm(r.below(4) as u16), vec![I]),
            41 => (vec![I], Store, vec![]),
            42 => (vec![I], Load, vec![I]),
            _ => (vec![], Noop, vec![]),
        };
        // make the operands available: push what is missing (bottom-most first)
        let mut prefix: Vec<OpCode> = vec![];
        let mut have = st.clone();
        let mut ok = true;
        for (i, t) in need.iter().enumerate() {
            // position from top
            let idx = have.len() as isize - 1 - i as isize;
            if idx >= 0 && have[idx as usize] == *t {
                continue;
            }
            ok = false;
            break;
        }
        if !ok {
            // rebuild operands from scratch on top of the stack
            for t in need.iter().rev() {
                // small index/ints for slices and refs
                let mut p = push_of(r, *t);
                if *t == I && matches!(op, VRef | VSet | BRef | BSet | VSlice | BSlice | Store | Load | Shl | Shr) {
                    p = match r.below(12) {
                        0 => vec![PushI(U256::from_words(1 + r.below(2) as u128, r.below(4) as u128))],
                        1 => vec![PushIC(U256::from(65535u32 + r.below(3) as u32))],
                        _ => vec![PushIC(U256::from(r.below(5)))],
                    };
                }
                prefix.extend(p);
                have.push(*t);
            }
        }
        match op {
            Dup | TypeQ | StoreImm(_) | VPush | VCons | VSet | Store if have.is_empty() => {
                let t0 = *r.pick(&[I, B, V]);
                prefix.extend(push_of(r, t0));
                have.push(I);
            }
            _ => {}
        }
        for _ in 0..need.len() {
            have.pop();
        }
        match op {
            Dup => {
                if let Some(t) = have.last().copied() {
                    have.push(t);
                }
            }
            TypeQ | StoreImm(_) => {
                have.pop();
            }
            VPush | VSet => {
                have.pop();
            }
            VCons => {
                have.pop();
                have.pop();
            }
            Store => {
                have.pop();
            }
            _ => {}
        }
        have.extend(res);
        ops.extend(prefix);
        ops.push(op);
        st = have;
    }
    ops
}

/// Loop-structured program: nested loops with bodies, jumps into/out of bodies.
pub fn loopy_program(r: &mut Rng) -> Vec<OpCode> {
    use OpCode::*;
    let mut ops = vec![PushIC(U256::from(0u8))];
    let n = 2 + r.below(8);
    for _ in 0..n {
        match r.below(11) {
            0..=3 => {
                let body = 1 + r.below(4) as u16;
                let over = if r.chance(1, 6) { r.below(3) as u16 } else { 0 };
                ops.push(Loop(r.below(5) as u16, body + over));
                for _ in 0..body {
                    match r.below(6) {
                        0 => ops.push(Loop(r.below(4) as u16, r.below(3) as u16)),
                        1 => ops.push(Jmp(r.below(3) as u16)),
                        2 => {
                            ops.push(Dup);
                        }
                        3 => ops.push(Noop),
                        _ => {
                            ops.push(PushIC(U256::from(1u8)));
                            ops.push(Add);
                        }
                    }
                }
            }
            4 => ops.push(Jmp(r.below(4) as u16)),
            9 => {
                // a jump over the header of a zero-iteration loop, landing inside its body
                let body = 1 + r.below(3) as u16;
                ops.push(Jmp(1));
                ops.push(Loop(0, body + 2));
                ops.push(Loop(2 + r.below(6) as u16, body));
                for _ in 0..body {
                    ops.push(Noop);
                }
                ops.push(Noop);
            }
            5 => {
                ops.push(Dup);
                ops.push(Bez(r.below(3) as u16));
            }
            6 => {
                ops.push(Dup);
                ops.push(Bnz(r.below(3) as u16));
            }
            7 => ops.push(Noop),
            _ => {
                ops.push(PushIC(U256::from(1u8)));
                ops.push(Add);
            }
        }
    }
    ops
}

/// Data-doubling followed by a consuming opcode (growth is capped by the caller).
pub fn doubling_program(r: &mut Rng) -> Vec<OpCode> {
    use OpCode::*;
    let doublings = r.range(1, 12) as u16;
    let bytes = r.chance(1, 2);
    let mut ops = vec![];
    if bytes {
        let nb = 1 + r.below(3) as usize;
        ops.push(PushB(r.bytes(nb)));
        ops.push(Loop(doublings, 2));
        ops.push(Dup);
        ops.push(BAppend);
        match r.below(7) {
            0 => ops.push(Hash(*r.pick(&[10u16, 100, 5000, 65535]))),
            1 => ops.push(BtoI),
            2 => ops.push(BLength),
            3 => {
                ops.push(PushIC(U256::from(3u8)));
                ops.push(PushIC(U256::from(1u8)));
                ops.push(Dup);
                // vec, b, e order: x=vec top? keep it simple: may fail with type error
                ops.push(BSlice);
            }
            4 => {
                ops.push(Dup);
                ops.push(Dup);
                ops.push(SigEOk(*r.pick(&[10u16, 5000])));
            }
            5 => {
                ops.push(PushIC(U256::from(0u8)));
                ops.push(BRef);
            }
            _ => {}
        }
    } else {
        ops.push(VEmpty);
        ops.push(PushIC(U256::from(7u8)));
        ops.push(VCons);
        ops.push(Loop(doublings, 2));
        ops.push(Dup);
        ops.push(VAppend);
        if r.chance(1, 2) {
            ops.push(VLength);
        }
    }
    ops
}

/// nested vectors (depth is what F17 is about); depth kept small here.
pub fn nesting_program(r: &mut Rng) -> Vec<OpCode> {
    use OpCode::*;
    let depth = r.range(1, 40) as u16;
    vec![VEmpty, Loop(depth, 2), VEmpty, VPush, VLength]
}

pub fn mixed_program(r: &mut Rng) -> Vec<OpCode> {
    match r.below(10) {
        0..=5 => typed_program(r, 14),
        6..=7 => loopy_program(r),
        8 => doubling_program(r),
        _ => nesting_program(r),
    }
}
