//! splitmix64: every random choice of a run derives from one seed.
#[derive(Clone)]
pub struct Rng(pub u64);

impl Rng {
    pub fn new(seed: u64) -> Self {
        Rng(seed.wrapping_mul(0x9E3779B97F4A7C15) ^ 0xD1B54A32D192ED03)
    }
    pub fn next(&mut self) -> u64 {
        self.0 = self.0.wrapping_add(0x9E3779B97F4A7C15);
        let mut z = self.0;
        z = (z ^ (z >> 30)).wrapping_mul(0xBF58476D1CE4E5B9);
        z = (z ^ (z >> 27)).wrapping_mul(0x94D049BB133111EB);
        z ^ (z >> 31)
    }
    /// uniform in 0..n (n > 0)
    pub fn below(&mut self, n: u64) -> u64 {
        self.next() % n
    }
    pub fn range(&mut self, lo: u64, hi_incl: u64) -> u64 {
        lo + self.below(hi_incl - lo + 1)
    }
    pub fn chance(&mut self, num: u64, den: u64) -> bool {
        self.below(den) < num
    }
    pub fn pick<'a, T>(&mut self, xs: &'a [T]) -> &'a T {
        &xs[self.below(xs.len() as u64) as usize]
    }
    pub fn bytes(&mut self, n: usize) -> Vec<u8> {
        (0..n).map(|_| self.next() as u8).collect()
    }
    pub fn u128(&mut self) -> u128 {
        ((self.next() as u128) << 64) | self.next() as u128
    }
    pub fn fork(&mut self) -> Rng {
        Rng::new(self.next())
    }
    pub fn shuffle<T>(&mut self, xs: &mut [T]) {
        for i in (1..xs.len()).rev() {
            let j = self.below(i as u64 + 1) as usize;
            xs.swap(i, j);
        }
    }
}
