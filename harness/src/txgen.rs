//! Wallet model and transaction generators (mostly-valid transactions plus mutations).
use crate::rng::Rng;
use crate::statefmt::Cas;
use bytes::Bytes;
use ethnum::U256;
use melstf::{CoinMapping, SmtMapping};
use melstructs::*;
use melvm::opcode::OpCode;
use melvm::Covenant;
use std::collections::HashMap;
use tmelcrypt::{Ed25519PK, Ed25519SK};

pub struct Key {
    pub sk: Ed25519SK,
    pub pk: Ed25519PK,
}

pub fn keyring() -> Vec<Key> {
    include_str!("../keyring.txt")
        .lines()
        .filter(|l| !l.trim().is_empty())
        .map(|l| {
            let sk = Ed25519SK::from_bytes(&hex::decode(l.trim()).unwrap()).unwrap();
            Key { sk, pk: sk.to_public() }
        })
        .collect()
}

#[derive(Clone, Debug, PartialEq)]
pub enum CovSpec {
    StdNew(usize),
    StdLegacy(usize),
    AlwaysTrue,
    ValueLt(u128),
    HashLock(Vec<u8>),
    TimeLock(u64),
    IndexIs(u8),
    Never,
    Undecodable,
    /// the standard signature covenant of key k cut off after `cut` bytes (mostly inside its PushB literal)
    Truncated(usize, usize),
    Heavy, // a covenant with a large weight (nested loops), true
    /// approves iff field `i` of the previous header (heap slot 10) is non-zero (or, with the flag, iff it is zero);
    /// 32-byte fields are read as integers
    HeaderField(u8, bool),
    /// approves iff the coin being spent was created at this height (heap slot 8)
    CreatedAt(u64),
    /// always approves, after writing 1 into heap slot `slot` (the environment slots 0..=10 included): what one
    /// input's covenant writes must not be what another input's covenant reads
    Stores(u16),
    /// approves iff heap slot `slot` holds a true value - on the fresh heap every input's covenant starts with it fails
    NeedsSlot(u16),
    /// approves iff the spending transaction has inputs - read from heap slot 0 through the stack-addressed `Load`
    /// (address computed at run time), not `LoadImm`
    DynLoadTx,
    /// bytes that are NOT a program: a compact integer with a leading zero byte (`f2 02 00 01`); the canonical spelling
    /// `f2 01 01` is a different address.  Never spendable, on any network at any height.
    NonCanonicalInt,
    /// approves, and ENDS INSIDE a loop body that is longer than the program (`Loop(1000, 200); PushI 1`): whatever
    /// runs next must start from a clean machine
    ClippedLoop,
    /// a straight-line program of more than 200 instructions that counts its own instructions and approves iff it ran
    /// exactly once from start to end
    LongStraight,
    /// the standard signature covenant of key k FOLLOWED BY more instructions: 0 = `PushI 0` (never approves, whoever
    /// signs), 1 = `PushI 0; Mul` (likewise), 2 = `LoadImm 9; PushI 0; Eql; Mul` (the key's signature AND first position
    /// among the inputs).  A program that merely begins like the standard covenant is a different program.
    StdPlus(usize, u8),
}

impl CovSpec {
    pub fn covenant_bytes(&self, keys: &[Key]) -> Bytes {
        use OpCode::*;
        match self {
            CovSpec::StdNew(k) => Covenant::std_ed25519_pk_new(keys[*k].pk).to_bytes(),
            CovSpec::StdLegacy(k) => Covenant::std_ed25519_pk_legacy(keys[*k].pk).to_bytes(),
            CovSpec::AlwaysTrue => Covenant::always_true().to_bytes(),
            CovSpec::ValueLt(n) => Covenant::from_ops(&[PushI(U256::from(*n)), LoadImm(5), Lt]).to_bytes(),
            CovSpec::HashLock(pre) => {
                let h = tmelcrypt::hash_single(pre);
                Covenant::from_ops(&[
                    PushI(U256::from_be_bytes(h.0)),
                    PushI(5u8.into()),
                    LoadImm(0),
                    VRef,
                    Hash(64),
                    BtoI,
                    Eql,
                ])
                .to_bytes()
            }
            CovSpec::TimeLock(h) => Covenant::from_ops(&[
                PushI(U256::from(h.saturating_sub(1))),
                PushI(2u8.into()),
                LoadImm(10),
                VRef,
                Gt,
            ])
            .to_bytes(),
            CovSpec::IndexIs(i) => Covenant::from_ops(&[LoadImm(9), PushI(U256::from(*i)), Eql]).to_bytes(),
            CovSpec::Never => Covenant::from_ops(&[PushI(0u8.into())]).to_bytes(),
            CovSpec::Undecodable => Bytes::from_static(&[0xee, 0x01]),
            CovSpec::Truncated(k, cut) => {
                let b = Covenant::std_ed25519_pk_new(keys[*k].pk).to_bytes();
                let n = (*cut).clamp(1, b.len() - 1);
                b.slice(0..n)
            }
            CovSpec::Heavy => Covenant::from_ops(&[PushI(1u8.into()), Loop(30, 2), Loop(20, 1), Noop]).to_bytes(),
            CovSpec::CreatedAt(h) => Covenant::from_ops(&[LoadImm(8), PushI(U256::from(*h)), Eql]).to_bytes(),
            CovSpec::Stores(slot) => Covenant::from_ops(&[PushI(1u8.into()), StoreImm(*slot), PushI(1u8.into())]).to_bytes(),
            CovSpec::NeedsSlot(slot) => Covenant::from_ops(&[LoadImm(*slot)]).to_bytes(),
            CovSpec::DynLoadTx => Covenant::from_ops(&[PushI(1u8.into()), PushI(0u8.into()), Load, VRef, VLength]).to_bytes(),
            CovSpec::NonCanonicalInt => Bytes::from_static(&[0xf2, 0x02, 0x00, 0x01]),
            CovSpec::ClippedLoop => Covenant::from_ops(&[Loop(1000, 200), PushI(1u8.into())]).to_bytes(),
            CovSpec::LongStraight => {
                let mut ops = vec![PushI(0u8.into())];
                for _ in 0..110 {
                    ops.push(PushI(1u8.into()));
                    ops.push(Add);
                }
                ops.push(PushI(110u8.into()));
                ops.push(Eql);
                Covenant::from_ops(&ops).to_bytes()
            }
            CovSpec::StdPlus(k, v) => {
                let mut ops = Covenant::std_ed25519_pk_new(keys[*k].pk).to_ops();
                match v {
                    0 => ops.push(PushI(0u8.into())),
                    1 => ops.extend([PushI(0u8.into()), Mul]),
                    _ => ops.extend([LoadImm(9), PushI(0u8.into()), Eql, Mul]),
                }
                Covenant::from_ops(&ops).to_bytes()
            }
            CovSpec::HeaderField(i, want_zero) => {
                let mut ops = vec![PushI(U256::from(*i)), LoadImm(10), VRef];
                if matches!(i, 1 | 3 | 4 | 5 | 9 | 10) {
                    ops.push(BtoI);
                }
                if *want_zero {
                    ops.push(PushI(0u8.into()));
                    ops.push(Eql);
                }
                Covenant::from_ops(&ops).to_bytes()
            }
        }
    }
    pub fn address(&self, keys: &[Key]) -> Address {
        Address(tmelcrypt::hash_single(&self.covenant_bytes(keys)))
    }
}

#[derive(Clone, Debug)]
pub struct WCoin {
    pub id: CoinID,
    pub cdh: CoinDataHeight,
    pub spec: CovSpec,
}

pub struct Wallet {
    pub keys: Vec<Key>,
    /// covenant hash -> how to satisfy it
    pub specs: HashMap<Address, CovSpec>,
}

impl Wallet {
    pub fn new() -> Self {
        Wallet { keys: keyring(), specs: HashMap::new() }
    }
    pub fn spec_addr(&mut self, s: CovSpec) -> Address {
        let a = s.address(&self.keys);
        self.specs.insert(a, s);
        a
    }
    pub fn rand_spec(&mut self, r: &mut Rng, height: u64) -> CovSpec {
        let nk = self.keys.len() as u64;
        // the covenant-centred stream: unusual covenants much more often
        if twins() >= 6 && r.chance(1, 3) {
            return match r.below(7) {
                6 => match r.below(12) {
                    9 | 10 | 11 => CovSpec::StdPlus(r.below(nk) as usize, r.below(3) as u8),
                    0 | 1 | 2 => CovSpec::Stores(*r.pick(&[100u16, 100, 1, 0, 5, 9, 3, 65535])),
                    3 => CovSpec::NeedsSlot(*r.pick(&[100u16, 100, 65535, 11])),
                    4 => CovSpec::DynLoadTx,
                    5 => CovSpec::NonCanonicalInt,
                    6 => CovSpec::ClippedLoop,
                    _ => CovSpec::LongStraight,
                },
                0 | 1 => CovSpec::Truncated(r.below(nk) as usize, 1 + r.below(60) as usize),
                2 => CovSpec::Undecodable,
                3 => CovSpec::IndexIs(r.below(3) as u8),
                4 => CovSpec::ValueLt(*r.pick(&[100u128, 1_000_000, 1 << 40])),
                _ => {
                    match r.below(3) {
                        0 => CovSpec::HeaderField(*r.pick(&[9u8, 6, 1, 4, 3, 7]), r.chance(1, 3)),
                        1 => CovSpec::CreatedAt(if r.chance(4, 5) { height } else { height.saturating_sub(1) }),
                        _ => CovSpec::TimeLock(height + r.below(3)),
                    }
                }
            };
        }
        match r.below(20) {
            0..=8 => CovSpec::StdNew(r.below(nk) as usize),
            9..=11 => CovSpec::StdLegacy(r.below(nk) as usize),
            12..=13 => CovSpec::AlwaysTrue,
            14 => CovSpec::ValueLt(*r.pick(&[100u128, 1_000_000, 1 << 40])),
            15 => CovSpec::HashLock(r.bytes(3)),
            16 => {
                if r.chance(1, 2) {
                    CovSpec::TimeLock(height + r.below(3))
                } else {
                    CovSpec::CreatedAt(if r.chance(4, 5) { height } else { height.saturating_sub(1) })
                }
            }
            17 => CovSpec::IndexIs(r.below(3) as u8),
            18 => {
                if r.chance(1, 2) {
                    CovSpec::Heavy
                } else {
                    CovSpec::HeaderField(*r.pick(&[9u8, 6, 1, 4, 3, 7]), r.chance(1, 3))
                }
            }
            _ => match r.below(5) {
                4 => match r.below(9) {
                    7 | 8 => CovSpec::StdPlus(r.below(nk) as usize, r.below(3) as u8),
                    0 | 1 => CovSpec::Stores(*r.pick(&[100u16, 1, 0, 5, 9])),
                    2 => CovSpec::NeedsSlot(100),
                    3 => CovSpec::DynLoadTx,
                    4 => CovSpec::NonCanonicalInt,
                    5 => CovSpec::ClippedLoop,
                    _ => CovSpec::LongStraight,
                },
                0 => CovSpec::Never,
                1 => CovSpec::Undecodable,
                _ => CovSpec::Truncated(r.below(nk) as usize, 1 + r.below(60) as usize),
            },
        }
        .clone()
    }
    pub fn rand_addr(&mut self, r: &mut Rng, height: u64) -> Address {
        if r.chance(1, 40) {
            return Address::coin_destroy();
        }
        let s = self.rand_spec(r, height);
        self.spec_addr(s)
    }
    /// all unspent coins of the state that the wallet knows how to (try to) spend
    pub fn coins(&self, coins: &CoinMapping<Cas>, names: &crate::statefmt::Names) -> Vec<WCoin> {
        let mut v: Vec<WCoin> = names
            .coins
            .values()
            .filter_map(|id| {
                let cdh = coins.get_coin(*id)?;
                let spec = self.specs.get(&cdh.coin_data.covhash)?.clone();
                Some(WCoin { id: *id, cdh, spec })
            })
            .collect();
        v.sort_by_key(|c| (c.id.txhash.0 .0, c.id.index));
        v
    }
}

pub fn out(addr: Address, value: u128, denom: Denom) -> CoinData {
    CoinData { covhash: addr, value: CoinValue(value), denom, additional_data: Bytes::new() }
}

/// assemble and sign a transaction spending `inputs`
pub fn assemble(w: &Wallet, kind: TxKind, inputs: &[WCoin], outputs: Vec<CoinData>, fee: u128, data: Vec<u8>) -> Transaction {
    let mut covs: Vec<Bytes> = vec![];
    for c in inputs {
        let b = c.spec.covenant_bytes(&w.keys);
        if !covs.contains(&b) {
            covs.push(b);
        }
    }
    let mut data = data;
    // hash-lock: the preimage must be the data
    for c in inputs {
        if let CovSpec::HashLock(pre) = &c.spec {
            if data.is_empty() {
                data = pre.clone();
            }
        }
    }
    let mut tx = Transaction {
        kind,
        inputs: inputs.iter().map(|c| c.id).collect(),
        outputs,
        fee: CoinValue(fee),
        covenants: covs,
        data: data.into(),
        sigs: vec![],
    };
    sign(w, &mut tx, inputs);
    tx
}

pub fn sign(w: &Wallet, tx: &mut Transaction, inputs: &[WCoin]) {
    let h = tx.hash_nosigs();
    let mut sigs: Vec<Bytes> = vec![];
    let need = inputs.len().min(64);
    for (i, c) in inputs.iter().enumerate().take(need) {
        let s: Bytes = match &c.spec {
            CovSpec::StdNew(k) | CovSpec::StdPlus(k, _) => w.keys[*k].sk.sign(&h.0 .0).into(),
            CovSpec::StdLegacy(k) if i == 0 => w.keys[*k].sk.sign(&h.0 .0).into(),
            _ => Bytes::new(),
        };
        sigs.push(s);
    }
    // a legacy covenant reads sigs[0] whatever its position
    if let Some((_, c)) = inputs.iter().enumerate().find(|(_, c)| matches!(c.spec, CovSpec::StdLegacy(_))) {
        if let CovSpec::StdLegacy(k) = &c.spec {
            if !matches!(inputs[0].spec, CovSpec::StdNew(_)) {
                if sigs.is_empty() {
                    sigs.push(Bytes::new());
                }
                sigs[0] = w.keys[*k].sk.sign(&h.0 .0).into();
            }
        }
    }
    while sigs.last().map(|s| s.is_empty()).unwrap_or(false) {
        sigs.pop();
    }
    tx.sigs = sigs;
}

pub fn min_fee(tx: &Transaction, mult: u128) -> u128 {
    tx.base_fee(mult, 0, |c| melvm::covenant_weight_from_bytes(c)).0
}

/// set the fee to (minimum + tip) and re-balance by shrinking the MEL change output `change_idx`
pub fn fix_fee(w: &Wallet, tx: &mut Transaction, inputs: &[WCoin], mult: u128, tip: u128, change_idx: Option<usize>) -> bool {
    for _ in 0..4 {
        sign(w, tx, inputs);
        let want = min_fee(tx, mult).saturating_add(tip).min(1 << 120);
        let old = tx.fee.0;
        if want == old {
            return true;
        }
        match change_idx {
            Some(i) => {
                let avail = tx.outputs[i].value.0 + old;
                if avail < want {
                    return false;
                }
                tx.outputs[i].value = CoinValue(avail - want);
                tx.fee = CoinValue(want);
            }
            None => return false,
        }
    }
    sign(w, tx, inputs);
    true
}

/// eighths: how often identical coins (twins) are created and spent together; set per stream
pub static TWINS: std::sync::atomic::AtomicU64 = std::sync::atomic::AtomicU64::new(2);
fn twins() -> u64 {
    TWINS.load(std::sync::atomic::Ordering::Relaxed)
}

pub struct Ctx<'a> {
    pub height: u64,
    pub network: NetID,
    pub mult: u128,
    pub coins: &'a [WCoin],
    pub pools: &'a SmtMapping<Cas, PoolKey, PoolState>,
    pub known_pools: &'a [PoolKey],
}

fn total(coins: &[WCoin], d: Denom) -> u128 {
    coins.iter().filter(|c| c.cdh.coin_data.denom == d).map(|c| c.cdh.coin_data.value.0).sum()
}

/// pick a MEL coin (for fees) and up to `extra` further coins
fn pick_inputs(r: &mut Rng, cx: &Ctx, extra: usize, want: Option<Denom>) -> Option<Vec<WCoin>> {
    let mels: Vec<&WCoin> = cx.coins.iter().filter(|c| c.cdh.coin_data.denom == Denom::Mel && c.cdh.coin_data.value.0 > 0).collect();
    if mels.is_empty() {
        return None;
    }
    let mut v = vec![(*r.pick(&mels)).clone()];
    if let Some(d) = want {
        let ds: Vec<&WCoin> = cx.coins.iter().filter(|c| c.cdh.coin_data.denom == d && c.id != v[0].id).collect();
        if d != Denom::Mel {
            if ds.is_empty() {
                return None;
            }
            v.push((*r.pick(&ds)).clone());
        }
    }
    for _ in 0..extra {
        let c = r.pick(cx.coins).clone();
        if !v.iter().any(|x| x.id == c.id) {
            v.push(c);
        }
    }
    // spend twins together when there are any
    if r.chance(twins() + 2, 8) {
        let twins: Vec<WCoin> = cx.coins.iter().filter(|c| v.iter().any(|x| x.cdh == c.cdh && x.id != c.id) && !v.iter().any(|x| x.id == c.id)).cloned().collect();
        for t in twins.into_iter().take(2) {
            if r.chance(1, 2) {
                v.push(t);
            } else {
                let at = r.below(v.len() as u64 + 1) as usize;
                v.insert(at, t);
            }
        }
    }
    Some(v)
}

/// split `value` into 1..=3 outputs of `denom`
fn split(r: &mut Rng, w: &mut Wallet, value: u128, denom: Denom, height: u64) -> Vec<CoinData> {
    let n = 1 + r.below(3) as u128;
    let mut v = vec![];
    let mut left = value;
    // twins: identical coin data (same covenant, value, denomination) at one height, so that the
    // only thing distinguishing the coins is their id and the position they are spent at
    if r.chance(twins(), 8) && value >= 2 {
        let a = w.rand_addr(r, height);
        let k = 2 + r.below(2) as u128;
        let part = value / k;
        for _ in 0..k {
            v.push(out(a, part, denom));
        }
        if value - part * k > 0 {
            v.push(out(w.rand_addr(r, height), value - part * k, denom));
        }
        return v;
    }
    for i in 0..n {
        let part = if i == n - 1 { left } else if left == 0 { 0 } else { r.u128() % (left + 1) };
        left -= part;
        v.push(out(w.rand_addr(r, height), part, denom));
    }
    v
}

/// outputs balancing `inputs` except that `skip` (denom, amount) has already been placed; returns
/// (outputs, index of a MEL change output)
fn balance(r: &mut Rng, w: &mut Wallet, inputs: &[WCoin], mut outs: Vec<CoinData>, height: u64) -> (Vec<CoinData>, Option<usize>) {
    let mut denoms: Vec<Denom> = vec![];
    for c in inputs {
        if !denoms.contains(&c.cdh.coin_data.denom) {
            denoms.push(c.cdh.coin_data.denom);
        }
    }
    if !denoms.contains(&Denom::Mel) {
        denoms.push(Denom::Mel);
    }
    let mut change = None;
    for d in denoms {
        let have = total(inputs, d);
        let placed: u128 = outs.iter().filter(|o| o.denom == d).map(|o| o.value.0).sum();
        if have < placed {
            continue;
        }
        let rest = have - placed;
        if d == Denom::Mel {
            // sometimes twin outputs first (identical coin data, see `split`)
            let mut rest = rest;
            if r.chance(twins(), 8) && rest > 1000 {
                let a = w.rand_addr(r, height);
                let part = rest / 8;
                for _ in 0..(2 + r.below(2)) {
                    outs.push(out(a, part, d));
                    rest -= part;
                }
            }
            // one dedicated change output so that the fee can be carved out of it
            let k = w.spec_addr(CovSpec::StdNew(r.below(w.keys.len() as u64) as usize));
            outs.push(out(k, rest, d));
            change = Some(outs.len() - 1);
        } else if rest > 0 || r.chance(1, 10) {
            outs.extend(split(r, w, rest, d, height));
        }
    }
    (outs, change)
}

pub fn gen_normal(r: &mut Rng, w: &mut Wallet, cx: &Ctx) -> Option<Transaction> {
    let extra = r.below(3) as usize;
    let inputs = pick_inputs(r, cx, extra, None)?;
    let mut outs = vec![];
    if r.chance(1, 5) {
        outs.push(out(w.rand_addr(r, cx.height), r.u128() % (1 << 60), Denom::NewCustom));
    }
    let (outs, change) = balance(r, w, &inputs, outs, cx.height);
    let mut tx = assemble(w, TxKind::Normal, &inputs, outs, 0, if r.chance(1, 6) { r.bytes(4) } else { vec![] });
    let tip = if r.chance(1, 2) { 0 } else { r.below(5000) as u128 };
    fix_fee(w, &mut tx, &inputs, cx.mult, tip, change).then_some(tx)
}

/// an ordinary transaction that spends the given coin (plus a MEL coin for the fee when needed)
pub fn gen_spend_of(r: &mut Rng, w: &mut Wallet, cx: &Ctx, forced: &WCoin) -> Option<Transaction> {
    let mut inputs = vec![forced.clone()];
    if forced.cdh.coin_data.denom != Denom::Mel || forced.cdh.coin_data.value.0 < 100_000 {
        let mels: Vec<&WCoin> = cx.coins.iter().filter(|c| c.cdh.coin_data.denom == Denom::Mel && c.cdh.coin_data.value.0 > 100_000 && c.id != forced.id).collect();
        if mels.is_empty() {
            return None;
        }
        inputs.push((*r.pick(&mels)).clone());
    }
    let (outs, change) = balance(r, w, &inputs, vec![], cx.height);
    let mut tx = assemble(w, TxKind::Normal, &inputs, outs, 0, vec![]);
    fix_fee(w, &mut tx, &inputs, cx.mult, 0, change).then_some(tx)
}

pub fn gen_swap(r: &mut Rng, w: &mut Wallet, cx: &Ctx) -> Option<Transaction> {
    let key = *r.pick(cx.known_pools);
    cx.pools.get(&key)?;
    let side = if r.chance(1, 2) { key.left() } else { key.right() };
    let inputs = pick_inputs(r, cx, 0, Some(side))?;
    let have = total(&inputs, side);
    let reserve_for_fee = if side == Denom::Mel { have / 2 } else { 0 };
    let amount = match r.below(6) {
        0 => 1,
        1 => have - reserve_for_fee,
        _ => 1 + r.u128() % (have - reserve_for_fee).max(1),
    }
    .min(have - reserve_for_fee);
    let outs = vec![out(w.rand_addr(r, cx.height), amount, side)];
    let (outs, change) = balance(r, w, &inputs, outs, cx.height);
    let mut tx = assemble(w, TxKind::Swap, &inputs, outs, 0, key.to_bytes().to_vec());
    fix_fee(w, &mut tx, &inputs, cx.mult, r.below(100) as u128, change).then_some(tx)
}

/// a deposit whose two outputs are in one and the same (non-MEL) denomination, naming the "pool" of that denomination
/// with itself in the long spelling: no such pool may ever exist
fn gen_equal_sided_deposit(r: &mut Rng, w: &mut Wallet, cx: &Ctx) -> Option<Transaction> {
    let cands: Vec<&WCoin> = cx.coins.iter().filter(|c| c.cdh.coin_data.denom != Denom::Mel && c.cdh.coin_data.value.0 >= 2).collect();
    if cands.is_empty() {
        return None;
    }
    let c = (*r.pick(&cands)).clone();
    let d = c.cdh.coin_data.denom;
    let mut inputs = pick_inputs(r, cx, 0, None)?;
    if !inputs.iter().any(|x| x.id == c.id) {
        inputs.push(c.clone());
    }
    let have = total(&inputs, d);
    let a = 1 + r.u128() % (have / 2).max(1);
    let b = match r.below(3) {
        0 => 1,
        1 => have - a,
        _ => 1 + r.u128() % (have - a).max(1),
    }
    .min(have - a)
    .max(1);
    let outs = vec![out(w.rand_addr(r, cx.height), a, d), out(w.rand_addr(r, cx.height), b, d)];
    let (outs, change) = balance(r, w, &inputs, outs, cx.height);
    let mut data = vec![0u8; 32];
    data.extend_from_slice(&stdcode::serialize(&(d, d)).unwrap());
    let mut tx = assemble(w, TxKind::LiqDeposit, &inputs, outs, 0, data);
    fix_fee(w, &mut tx, &inputs, cx.mult, 0, change).then_some(tx)
}

pub fn gen_deposit(r: &mut Rng, w: &mut Wallet, cx: &Ctx) -> Option<Transaction> {
    if r.chance(1, 12) {
        if let Some(t) = gen_equal_sided_deposit(r, w, cx) {
            return Some(t);
        }
    }
    // an existing pool, or a new pool between two denominations the wallet holds
    let mut denoms: Vec<Denom> = vec![];
    for c in cx.coins {
        if !denoms.contains(&c.cdh.coin_data.denom) && c.cdh.coin_data.value.0 > 0 {
            denoms.push(c.cdh.coin_data.denom);
        }
    }
    if denoms.len() < 2 {
        return None;
    }
    let a = *r.pick(&denoms);
    let b = *r.pick(&denoms);
    if a.to_bytes() == b.to_bytes() {
        return None;
    }
    let key = PoolKey::new(a, b);
    let mut inputs = pick_inputs(r, cx, 0, Some(key.left()))?;
    if key.right() != Denom::Mel {
        let ds: Vec<&WCoin> = cx.coins.iter().filter(|c| c.cdh.coin_data.denom == key.right() && !inputs.iter().any(|x| x.id == c.id)).collect();
        if ds.is_empty() {
            return None;
        }
        inputs.push((*r.pick(&ds)).clone());
    }
    let hl = total(&inputs, key.left());
    let hr = total(&inputs, key.right());
    let fl = if key.left() == Denom::Mel { hl / 2 } else { hl };
    let fr = if key.right() == Denom::Mel { hr / 2 } else { hr };
    let pickv = |r: &mut Rng, m: u128| match r.below(5) {
        0 => 1.min(m),
        1 => m,
        _ => 1 + r.u128() % m.max(1),
    }
    .min(m);
    let mut outs = vec![out(w.rand_addr(r, cx.height), pickv(r, fl), key.left()), out(w.rand_addr(r, cx.height), pickv(r, fr), key.right())];
    // the two sides listed backwards (right, left) under the canonical pool name: not a deposit into that pool
    if r.chance(1, 8) {
        outs.swap(0, 1);
    }
    let (outs, change) = balance(r, w, &inputs, outs, cx.height);
    let mut tx = assemble(w, TxKind::LiqDeposit, &inputs, outs, 0, key.to_bytes().to_vec());
    fix_fee(w, &mut tx, &inputs, cx.mult, r.below(100) as u128, change).then_some(tx)
}

pub fn gen_withdraw(r: &mut Rng, w: &mut Wallet, cx: &Ctx) -> Option<Transaction> {
    // a liq-token coin of a known pool
    let mut cands: Vec<(PoolKey, WCoin)> = vec![];
    for k in cx.known_pools {
        let d = k.liq_token_denom();
        for c in cx.coins {
            if c.cdh.coin_data.denom == d && c.cdh.coin_data.value.0 > 0 {
                cands.push((*k, c.clone()));
            }
        }
    }
    if cands.is_empty() {
        return None;
    }
    let (key, liq) = r.pick(&cands).clone();
    // the single output must be the liq coin, so the MEL input is spent entirely on the fee
    let mels: Vec<&WCoin> = cx.coins.iter().filter(|c| c.cdh.coin_data.denom == Denom::Mel).collect();
    if mels.is_empty() {
        return None;
    }
    let mel = mels.iter().min_by_key(|c| c.cdh.coin_data.value.0).unwrap();
    let inputs = vec![(*mel).clone(), liq.clone()];
    let amount = liq.cdh.coin_data.value.0;
    let mut outs = vec![out(w.rand_addr(r, cx.height), amount, liq.cdh.coin_data.denom)];
    let mut fee = mel.cdh.coin_data.value.0.min(1 << 120);
    if fee != mel.cdh.coin_data.value.0 {
        return None;
    }
    // a withdrawal request has exactly one output; sometimes there is a second one (MEL change to another address),
    // which makes it an ordinary transaction whose coins must be left alone at sealing
    if r.chance(1, 4) && fee > 2000 {
        let c = 1 + r.below(1000) as u128;
        outs.push(out(w.rand_addr(r, cx.height), c, Denom::Mel));
        fee -= c;
    }
    let tx = assemble(w, TxKind::LiqWithdraw, &inputs, outs, fee, key.to_bytes().to_vec());
    (min_fee(&tx, cx.mult) <= fee).then_some(tx)
}

/// two (or three) withdrawal requests for one pool, each within the pool's recorded liquidity but together beyond it
/// (possible when liquidity tokens came from a faucet or a fabricated state)
pub fn gen_joint_overdraw(r: &mut Rng, w: &mut Wallet, cx: &Ctx) -> Option<Vec<Transaction>> {
    let mut keys: Vec<PoolKey> = cx.known_pools.to_vec();
    r.shuffle(&mut keys);
    for key in keys {
        let Some(pool) = cx.pools.get(&key) else { continue };
        let d = key.liq_token_denom();
        let easy = |c: &&WCoin| matches!(c.spec, CovSpec::StdNew(_) | CovSpec::AlwaysTrue);
        let liqs: Vec<&WCoin> = cx.coins.iter().filter(easy).filter(|c| c.cdh.coin_data.denom == d && c.cdh.coin_data.value.0 > 0 && c.cdh.coin_data.value.0 <= pool.liqs).collect();
        let mut mels: Vec<&WCoin> = cx.coins.iter().filter(easy).filter(|c| c.cdh.coin_data.denom == Denom::Mel && c.cdh.coin_data.value.0 <= 1 << 120).collect();
        mels.sort_by_key(|c| c.cdh.coin_data.value.0);
        let mut chosen: Vec<&WCoin> = vec![];
        let mut sum = 0u128;
        for c in liqs {
            chosen.push(c);
            sum = sum.saturating_add(c.cdh.coin_data.value.0);
            if sum > pool.liqs {
                break;
            }
        }
        if sum <= pool.liqs || chosen.len() < 2 || chosen.len() > mels.len() {
            continue;
        }
        let mut txs = vec![];
        for (liq, mel) in chosen.iter().zip(mels.iter()) {
            let inputs = vec![(*mel).clone(), (*liq).clone()];
            let outs = vec![out(w.rand_addr(r, cx.height), liq.cdh.coin_data.value.0, d)];
            let fee = mel.cdh.coin_data.value.0;
            let tx = assemble(w, TxKind::LiqWithdraw, &inputs, outs, fee, key.to_bytes().to_vec());
            if min_fee(&tx, cx.mult) > fee {
                break;
            }
            txs.push(tx);
        }
        if txs.len() == chosen.len() {
            return Some(txs);
        }
    }
    None
}

pub fn gen_stake(r: &mut Rng, w: &mut Wallet, cx: &Ctx) -> Option<Transaction> {
    let inputs = pick_inputs(r, cx, 0, Some(Denom::Sym))?;
    let have = total(&inputs, Denom::Sym);
    let amount = 1 + r.u128() % have.max(1);
    let amount = if r.chance(1, 12) { 0 } else { amount.min(have) };
    let epoch = cx.height / STAKE_EPOCH;
    let k = r.below(w.keys.len() as u64) as usize;
    // all orderings of current / start / end
    let e_start = match r.below(8) {
        0 | 1 => epoch,
        2 => epoch.saturating_sub(1),
        _ => epoch + 1 + r.below(2),
    };
    let e_post_end = match r.below(10) {
        0 => e_start,
        1 => e_start.saturating_sub(1),
        // "staked for good": ends at the top of the u64 range, or around the point where a signed reading flips
        8 => *r.pick(&[u64::MAX, u64::MAX - 1, 1u64 << 63, (1u64 << 63) - 1, (1u64 << 63) + 1, 1u64 << 32]),
        _ => e_start + 1 + r.below(2),
    };
    let declared = if r.chance(1, 8) { amount + 1 } else { amount };
    let doc = StakeDoc { pubkey: w.keys[k].pk, e_start, e_post_end, syms_staked: CoinValue(declared) };
    let outs = vec![out(w.rand_addr(r, cx.height), amount, Denom::Sym)];
    let (mut outs, change) = balance(r, w, &inputs, outs, cx.height);
    // the staked SYM is not the first output (change first, or a zero-valued MEL output in front): not a stake
    if r.chance(1, 6) {
        if outs.len() >= 2 && outs[1].denom != Denom::Sym {
            outs.swap(0, 1);
        } else if outs.len() < 255 {
            outs.insert(0, out(w.rand_addr(r, cx.height), 0, Denom::Mel));
        }
    }
    let data = if r.chance(1, 12) { r.bytes(7) } else { stdcode::serialize(&doc).unwrap() };
    let mut tx = assemble(w, TxKind::Stake, &inputs, outs, 0, data);
    fix_fee(w, &mut tx, &inputs, cx.mult, 0, change).then_some(tx)
}

/// ERG mint: real MelPoW proof for the puzzle of (header at the coin's height, coin id)
pub fn gen_doscmint(r: &mut Rng, w: &mut Wallet, cx: &Ctx, hist: &SmtMapping<Cas, BlockHeight, Header>) -> Option<Transaction> {
    use tmelcrypt::Hashable;
    // first input: a MEL coin old enough to have a header in the history
    let cands: Vec<&WCoin> = cx
        .coins
        .iter()
        .filter(|c| c.cdh.coin_data.denom == Denom::Mel && c.cdh.coin_data.value.0 > 0 && c.cdh.height.0 < cx.height && hist.get(&c.cdh.height).is_some())
        .collect();
    // … or, now and then, a coin made earlier in the block that is still open: there is no header at its height yet, so
    // there is no puzzle and the mint must be refused — also when its proof answers the puzzle seeded with the tip's header
    let fresh: Vec<&WCoin> = cx
        .coins
        .iter()
        .filter(|c| c.cdh.coin_data.denom == Denom::Mel && c.cdh.coin_data.value.0 > 0 && c.cdh.height.0 == cx.height && cx.height > 0)
        .collect();
    let use_fresh = !fresh.is_empty() && r.chance(1, 5);
    if cands.is_empty() && !use_fresh {
        return None;
    }
    let first = if use_fresh { (*r.pick(&fresh)).clone() } else { (*r.pick(&cands)).clone() };
    let inputs = vec![first.clone()];
    let seed_hdr = if use_fresh { hist.get(&BlockHeight(cx.height - 1))? } else { hist.get(&first.cdh.height)? };
    let prev = hist.get(&BlockHeight(cx.height - 1))?;
    let difficulty = r.range(1, 9) as u32;
    let tip910 = r.chance(1, 2);
    // corruptions of the seed: other coin / other height
    let mut puzzle_coin = first.id;
    let mut puzzle_hdr = seed_hdr;
    let mut label_ok = true;
    match r.below(12) {
        0 => {
            puzzle_coin.index = puzzle_coin.index.wrapping_add(1);
            label_ok = false;
        }
        1 => {
            if let Some(h2) = hist.get(&BlockHeight(cx.height - 1)) {
                if h2 != seed_hdr {
                    puzzle_hdr = h2;
                    label_ok = false;
                }
            }
        }
        _ => {}
    }
    let _ = label_ok;
    let puzzle = tmelcrypt::hash_keyed(puzzle_hdr.hash(), stdcode::serialize(&puzzle_coin).unwrap());
    let proof = if tip910 {
        melpow::Proof::generate(&puzzle, difficulty as usize, melstf::Tip910MelPowHash)
    } else {
        melpow::Proof::generate(&puzzle, difficulty as usize, melstf::LegacyMelPowHash)
    };
    let mut proof_bytes = proof.to_bytes();
    let mut claimed = difficulty;
    match r.below(14) {
        0 => {
            let k = r.below(proof_bytes.len() as u64) as usize;
            proof_bytes[k] ^= 1;
        }
        1 => claimed += 1,
        2 => {
            proof_bytes.truncate(proof_bytes.len() / 2);
        }
        _ => {}
    }
    let data = if r.chance(1, 20) { r.bytes(9) } else { stdcode::serialize(&(claimed, proof_bytes)).unwrap() };
    // reward bound, to place the ERG amount around it
    let age = (cx.height - first.cdh.height.0).max(1);
    let speed = (if tip910 { 100u128 } else { 1 }) * 2u128.pow(difficulty) / age as u128;
    let reward = melstf::dosc_to_erg(BlockHeight(cx.height), melstf::calculate_reward(speed, prev.dosc_speed, difficulty, tip910));
    let erg = match r.below(6) {
        0 => reward + 1,
        1 => reward,
        2 => reward.saturating_sub(1),
        3 => 0,
        _ => reward / 2,
    }
    .min(1 << 120);
    let mut outs = vec![];
    if erg > 0 || r.chance(1, 3) {
        // the minted amount in one output, or split over two or three (the bound is on their sum, wherever they stand)
        match r.below(5) {
            0 if erg >= 2 => {
                let a = 1 + r.below((erg - 1).min(u64::MAX as u128) as u64) as u128;
                outs.push(out(w.rand_addr(r, cx.height), a, Denom::Erg));
                outs.push(out(w.rand_addr(r, cx.height), erg - a, Denom::Erg));
            }
            1 if erg >= 3 => {
                outs.push(out(w.rand_addr(r, cx.height), 1, Denom::Erg));
                outs.push(out(w.rand_addr(r, cx.height), erg - 2, Denom::Erg));
                outs.push(out(w.rand_addr(r, cx.height), 1, Denom::Erg));
            }
            _ => outs.push(out(w.rand_addr(r, cx.height), erg, Denom::Erg)),
        }
    }
    let (mut outs, mut change) = balance(r, w, &inputs, outs, cx.height);
    // sometimes the ERG does not come first among the outputs
    if outs.len() >= 2 && r.chance(1, 4) {
        outs.rotate_left(1);
        let n = outs.len();
        change = change.map(|c| (c + n - 1) % n);
    }
    let mut tx = assemble(w, TxKind::DoscMint, &inputs, outs, 0, data);
    fix_fee(w, &mut tx, &inputs, cx.mult, 0, change).then_some(tx)
}

/// the one historical faucet transaction that mainnet accepts (its hash is hard-wired in `handle_faucet_tx`)
pub fn grandfathered_faucet() -> Transaction {
    Transaction {
        kind: TxKind::Faucet,
        inputs: vec![],
        outputs: vec![CoinData { value: CoinValue::from_millions(1001u64), denom: Denom::Mel, covhash: "t3ew4xh2yts8j1a8vzdfpbkzzvb5gz3sn7s9jw7qc9djrph2wpg52g".parse().unwrap(), additional_data: vec![].into() }],
        data: hex::decode("202fb0573b6dfe780f249bec6069bb39dbccb7ed9536c0480e20e1e29050f430").unwrap().into(),
        fee: CoinValue::from_millions(1001u64),
        covenants: vec![],
        sigs: vec![],
    }
}

/// a faucet pays its fee out of nothing: usually a modest one, sometimes the largest value a fee may have (two of
/// those in a block push the tips, and with them the proposer reward, beyond the maximum coin value)
fn faucet_fee(r: &mut Rng) -> u128 {
    match r.below(12) {
        0 => 1 << 120,
        1 => (1 << 120) - 1 - r.below(1000) as u128,
        _ => r.below(1 << 30) as u128 + 1_000_000,
    }
}

pub fn gen_faucet(r: &mut Rng, w: &mut Wallet, cx: &Ctx) -> Transaction {
    // the grandfathered transaction itself, on any network
    if r.chance(1, 12) {
        return grandfathered_faucet();
    }
    // off mainnet a faucet may mint any denomination — occasionally two coins of a pool's liquidity token, each
    // redeemable alone but not together (K-faucet-liq territory; exercises the withdrawal guard)
    if r.chance(1, 8) && !cx.known_pools.is_empty() {
        let kp = *r.pick(cx.known_pools);
        if let Some(p) = cx.pools.get(&kp) {
            let each = (p.liqs / 2 + 1 + r.below(3) as u128).min(1 << 120);
            let k = w.spec_addr(CovSpec::StdNew(r.below(w.keys.len() as u64) as usize));
            return Transaction {
                kind: TxKind::Faucet,
                inputs: vec![],
                outputs: vec![out(k, each, kp.liq_token_denom()), out(k, each, kp.liq_token_denom()), out(k, 1_000_000, Denom::Mel), out(k, 1_000_000, Denom::Mel)],
                fee: CoinValue(faucet_fee(r)),
                covenants: vec![],
                data: r.bytes(8).into(),
                sigs: vec![],
            };
        }
    }
    let n = 1 + r.below(3);
    let denoms = [Denom::Mel, Denom::Mel, Denom::Sym, Denom::Erg, Denom::NewCustom];
    let outs: Vec<CoinData> = (0..n)
        .map(|_| {
            let v = match r.below(5) {
                0 => 1 << 100,
                1 => 1_000_000_000_000,
                _ => 1 + r.u128() % (1 << 70),
            };
            let k = w.spec_addr(CovSpec::StdNew(r.below(w.keys.len() as u64) as usize));
            let a = if r.chance(1, 4) { w.rand_addr(r, cx.height) } else { k };
            // off mainnet a faucet may mint any denomination — occasionally a pool's liquidity token (K-faucet-liq)
            if r.chance(1, 10) && !cx.known_pools.is_empty() {
                let kp = r.pick(cx.known_pools);
                let amount = match cx.pools.get(kp) {
                    Some(p) => match r.below(3) { 0 => p.liqs / 2 + 1, 1 => p.liqs / 3, _ => 1 + r.u128() % (p.liqs.max(1)) },
                    None => v,
                };
                return out(a, amount.min(1 << 120), kp.liq_token_denom());
            }
            out(a, v, *r.pick(&denoms))
        })
        .collect();
    Transaction {
        kind: TxKind::Faucet,
        inputs: vec![],
        outputs: outs,
        fee: CoinValue(if r.chance(1, 6) { faucet_fee(r) } else { r.below(1 << 40) as u128 + 1_000_000 }),
        covenants: vec![],
        data: r.bytes(8).into(),
        sigs: vec![],
    }
}

/// mutate a (probably valid) transaction; returns a label
pub fn mutate(r: &mut Rng, w: &Wallet, tx: &mut Transaction, inputs_known: &[WCoin], mult: u128, hostile: bool) -> &'static str {
    let resign = |tx: &mut Transaction| {
        let ins: Vec<WCoin> = tx.inputs.iter().filter_map(|i| inputs_known.iter().find(|c| c.id == *i).cloned()).collect();
        if ins.len() == tx.inputs.len() {
            sign(w, tx, &ins);
        }
    };
    let top = if hostile { 28 } else { 18 };
    match r.below(top) {
        26 | 27 => {
            // covenants (used by no input) that weigh an enormous amount without saturating: k nested `Loop 65535`
            // around a `Hash n` — one copy, the same one twice, or two different ones: together they pass, reach or
            // exceed a u128
            use melvm::opcode::OpCode::*;
            let heavy = |depth: usize, n: u16| {
                let mut ops: Vec<melvm::opcode::OpCode> = (0..depth).map(|i| Loop(65535, (depth - i) as u16)).collect();
                ops.push(Hash(n));
                Covenant::from_ops(&ops).to_bytes()
            };
            let a = heavy(7, *r.pick(&[46000u16, 30000, 65535, 1]));
            let b = heavy(*r.pick(&[7usize, 8, 6]), *r.pick(&[46000u16, 20000, 65535]));
            match r.below(4) {
                0 => tx.covenants.push(a),
                1 => {
                    tx.covenants.push(a.clone());
                    tx.covenants.push(a);
                }
                2 => {
                    tx.covenants.push(a);
                    tx.covenants.push(b);
                }
                _ => {
                    for _ in 0..3 {
                        tx.covenants.push(b.clone());
                    }
                }
            }
            resign(tx);
            "heavy-covenants"
        }
        18 => {
            // a covenant of arbitrary bytes that is actually used: send an output to its hash (spent by a later tx)
            let n = r.below(24) as usize;
            let cov: Bytes = r.bytes(n).into();
            if let Some(o) = tx.outputs.get_mut(0) {
                o.covhash = Address(tmelcrypt::hash_single(&cov));
            }
            tx.covenants.push(cov);
            resign(tx);
            "garbage-covenant"
        }
        19 => {
            for o in tx.outputs.iter_mut() {
                o.value = CoinValue(1 << 120);
            }
            tx.fee = CoinValue(1 << 120);
            resign(tx);
            "max-values"
        }
        20 => {
            let n = *r.pick(&[254usize, 255, 256]);
            let proto = tx.outputs.get(0).cloned().unwrap_or(out(Address::coin_destroy(), 0, Denom::Mel));
            tx.outputs = (0..n).map(|_| CoinData { value: CoinValue(0), ..proto.clone() }).collect();
            resign(tx);
            "many-outputs"
        }
        21 => {
            // a proof-of-work payload that decodes but is garbage (known finding F9 when it reaches melpow)
            tx.kind = TxKind::DoscMint;
            let n = r.below(90) as usize;
            let d = r.below(12) as u32;
            tx.data = stdcode::serialize(&(d, r.bytes(n))).unwrap().into();
            resign(tx);
            "garbage-pow"
        }
        22 => {
            tx.sigs = (0..r.below(4)).map(|_| { let n = r.below(70) as usize; Bytes::from(r.bytes(n)) }).collect();
            "garbage-sigs"
        }
        23 => {
            for o in tx.outputs.iter_mut() {
                let n = r.below(300) as usize;
                o.additional_data = r.bytes(n).into();
            }
            resign(tx);
            "big-additional-data"
        }
        24 => {
            for o in tx.outputs.iter_mut() {
                o.value = CoinValue(0);
            }
            resign(tx);
            "zero-values"
        }
        25 => {
            tx.kind = TxKind::Stake;
            let n = r.below(60) as usize;
            tx.data = r.bytes(n).into();
            resign(tx);
            "garbage-stakedoc"
        }
        16 | 17 if !tx.inputs.is_empty() => {
            // a faucet is exempt from balancing but its inputs still need their covenants' approval
            tx.kind = TxKind::Faucet;
            if r.chance(1, 2) {
                tx.covenants.clear();
            } else {
                resign(tx);
                if let Some(s) = tx.sigs.get_mut(0) {
                    let mut v = s.to_vec();
                    if !v.is_empty() {
                        v[1] ^= 4;
                    }
                    *s = v.into();
                }
            }
            "faucet-with-unauthorised-inputs"
        }
        0 if !tx.inputs.is_empty() => {
            let i = tx.inputs[0];
            tx.inputs.push(i);
            resign(tx);
            "repeat-input"
        }
        1 if !tx.outputs.is_empty() => {
            let k = r.below(tx.outputs.len() as u64) as usize;
            tx.outputs[k].value = CoinValue(tx.outputs[k].value.0.saturating_add(1));
            resign(tx);
            "unbalance+1"
        }
        2 if !tx.outputs.is_empty() => {
            let k = r.below(tx.outputs.len() as u64) as usize;
            if tx.outputs[k].value.0 > 0 {
                tx.outputs[k].value = CoinValue(tx.outputs[k].value.0 - 1);
            }
            resign(tx);
            "unbalance-1"
        }
        3 => {
            let m = min_fee(tx, mult);
            if m > 0 && tx.kind != TxKind::Faucet {
                // move the difference into nothing: fee = min - 1 (unbalanced too unless re-balanced)
                if let Some(o) = tx.outputs.iter_mut().find(|o| o.denom == Denom::Mel) {
                    if tx.fee.0 >= m - 1 {
                        let diff = tx.fee.0 - (m - 1);
                        o.value = CoinValue(o.value.0.saturating_add(diff));
                        tx.fee = CoinValue(m - 1);
                    }
                }
            }
            resign(tx);
            "fee=min-1"
        }
        4 => {
            if r.chance(1, 2) {
                tx.covenants.clear();
                "no-covenants"
            } else {
                // nothing goes in: no inputs, no fee, and only outputs no input has to match
                tx.inputs.clear();
                tx.fee = CoinValue(0);
                let keep_erg = tx.kind == TxKind::DoscMint && r.chance(1, 2);
                tx.outputs.retain(|o| keep_erg && o.denom == Denom::Erg);
                tx.sigs.clear();
                "inputless"
            }
        }
        5 => {
            // any position: a later input's signature matters as much as the first one's
            let at = if tx.sigs.len() > 1 && r.chance(2, 3) { 1 + r.below(tx.sigs.len() as u64 - 1) as usize } else { 0 };
            if let Some(s) = tx.sigs.get_mut(at) {
                let mut v = s.to_vec();
                if !v.is_empty() {
                    v[0] ^= 1;
                }
                *s = v.into();
            }
            if at == 0 { "flip-sig" } else { "flip-later-sig" }
        }
        6 => {
            tx.sigs.reverse();
            "swap-sigs"
        }
        7 if !tx.inputs.is_empty() => {
            tx.inputs[0] = CoinID::new(TxHash(tmelcrypt::hash_single(&r.bytes(4))), 0);
            "missing-coin"
        }
        8 if !tx.outputs.is_empty() => {
            if r.chance(1, 2) {
                tx.outputs[0].value = CoinValue((1 << 120) + 1);
                "value>max"
            } else {
                // every single value is allowed, but the MEL outputs and the fee together do not fit a u128
                let a = tx.outputs[0].covhash;
                tx.outputs = (0..255).map(|_| out(a, 1 << 120, Denom::Mel)).collect();
                tx.fee = CoinValue(1 << 120);
                "mel-total-overflows"
            }
        }
        9 => {
            let n = r.below(40) as usize;
            tx.data = r.bytes(n).into();
            resign(tx);
            "random-data"
        }
        10 => {
            let n = r.below(12) as usize;
            tx.covenants.push(r.bytes(n).into());
            "extra-covenant"
        }
        11 if !tx.inputs.is_empty() => {
            tx.inputs.rotate_left(1);
            resign(tx);
            "rotate-inputs"
        }
        12 => {
            tx.kind = *r.pick(&[TxKind::Normal, TxKind::Swap, TxKind::LiqDeposit, TxKind::LiqWithdraw, TxKind::Stake, TxKind::DoscMint, TxKind::Faucet, TxKind::Faucet]);
            resign(tx);
            "change-kind"
        }
        13 if !tx.outputs.is_empty() => {
            tx.outputs[0].covhash = Address::coin_destroy();
            resign(tx);
            "destroy-output"
        }
        14 if !tx.outputs.is_empty() => {
            tx.outputs[0].additional_data = r.bytes(5).into();
            "tamper-additional-data"
        }
        _ => {
            tx.fee = CoinValue(tx.fee.0.saturating_add(1));
            "fee+1-unbalanced"
        }
    }
}

/// alternative spellings of a pool name
pub fn pool_spellings(r: &mut Rng, key: PoolKey) -> Vec<u8> {
    let l = key.left();
    let rt = key.right();
    let long = |a: Denom, b: Denom| {
        let mut v = vec![0u8; 32];
        v.extend_from_slice(&stdcode::serialize(&(a, b)).unwrap());
        v
    };
    match r.below(8) {
        0 => long(l, rt),
        1 => long(rt, l),
        2 => long(l, l),
        3 => {
            let mut v = key.to_bytes().to_vec();
            v.push(0);
            v
        }
        4 => {
            let mut v = long(l, rt);
            v[0] = 1;
            v
        }
        5 => vec![],
        6 => {
            // non-minimal varint length prefix
            let mut v = vec![0u8; 32];
            let lb = l.to_bytes();
            v.push(251);
            v.extend_from_slice(&(lb.len() as u16).to_le_bytes());
            v.extend_from_slice(&lb);
            let rb = rt.to_bytes();
            v.push(rb.len() as u8);
            v.extend_from_slice(&rb);
            v
        }
        _ => key.to_bytes().to_vec(),
    }
}
