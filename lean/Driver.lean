/-
  Line-protocol driver for the model: one operation per input line, one canonical result line
  per operation.  Imports only model files (no Mathlib), so it links as a `lean_exe`.
-/
import MelModel.Proto
open Mel Mel.VM Mel.Proto

def handleDec (h : String) : String :=
  match bytesOfHex h with
  | none => "bad-op"
  | some bs =>
    match decodeAll bs with
    | none => "err"
    | some ops =>
      match encodeAll ops with
      | some re => s!"ok {opsText ops} {hexOrDash re}"
      | none => "panic"

def handleEnc (t : String) : String :=
  match parseOps t with
  | none => "bad-op"
  | some ops =>
    match encodeAll ops with
    | none => "panic"
    | some bs =>
      let back := match decodeAll bs with
        | some ops' => decide (ops' = ops)
        | none => false
      s!"ok {hexOrDash bs} back={if back then 1 else 0}"

def handleW (h : String) : String :=
  match bytesOfHex h with
  | none => "bad-op"
  | some bs =>
    match decodeAll bs with
    | none => "w=0 work=0"
    | some ops => s!"w={weight ops} work={weighWork ops}"

def handleRun (prog heap orc : String) : String :=
  match bytesOfHex prog, parseHeap heap, parseOracles orc with
  | some bs, some hp, some tbl =>
    match decodeAll bs with
    | none => "undecodable"
    | some ops =>
      let w := weight ops
      let (res, steps) := runFuel tbl.toOracles ops (weightU ops + 1) (initExec hp.reverse) 0
      let le := if steps ≤ w then 1 else 0
      match res with
      | none => s!"fail steps={steps} w={w} le={le} dbg=1"
      | some v => s!"ok {valueText v} steps={steps} w={w} le={le} dbg=1"
  | _, _, _ => "bad-op"

def handleLine (line : String) : String :=
  match line.trimAscii.toString.splitOn " " with
  | ["dec", h] => handleDec h
  | ["enc", t] => handleEnc t
  | ["w", h] => handleW h
  | ["run", p, h, o] => handleRun p h o
  | _ => "bad-op"

partial def loop (hIn : IO.FS.Stream) (hOut : IO.FS.Stream) : IO Unit := do
  let line ← hIn.getLine
  if line.isEmpty then return ()
  hOut.putStrLn (handleLine line)
  loop hIn hOut

def main : IO Unit := do
  let hIn ← IO.getStdin
  let hOut ← IO.getStdout
  loop hIn hOut
