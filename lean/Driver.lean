/-
  Line-protocol driver for the model: one operation per input line, one canonical result line
  per operation.  Imports only model files (no Mathlib), so it links as a `lean_exe`.
-/
import MelModel.Proto
import MelModel.ProtoState
import MelModel.Merkle
import MelModel.Genesis
import MelModel.VM.Std
import MelModel.VM.Cost
import MelModel.Stdcode
open Mel Mel.VM Mel.Proto

/-- the facts the harness supplies next to a transaction (serialised length, decoded stake document, decoded difficulty)
    must be the ones the model computes from the transaction's content -/
def suppliedMismatch (txs : List Tx) : Option String :=
  (txs.find? fun tx => !Stdcode.suppliedAgrees tx).map fun tx => s!"stdcode-mismatch {hexOfBytes tx.hash}"

/-! ### VM-level operations -/

def handleDec (h : String) : String :=
  match bytesOfHex h with
  | none => "bad-op"
  | some bs =>
    match decodeAll bs with
    | none => "err"
    | some ops =>
      match encodeAll ops with
      | some re => s!"ok {opsText ops} {hexOrDash re}"
      | none => "panic"

def handleEnc (t : String) : String :=
  match parseOps t with
  | none => "bad-op"
  | some ops =>
    match encodeAll ops with
    | none => "panic"
    | some bs =>
      let back := match decodeAll bs with
        | some ops' => decide (ops' = ops)
        | none => false
      s!"ok {hexOrDash bs} back={if back then 1 else 0}"

/-- the standard covenants, encoded: compared with `Covenant::std_ed25519_pk_new/legacy/always_true(..).to_bytes()` -/
def handleStd (which pk : String) : String :=
  match bytesOfHex pk with
  | none => "bad-op"
  | some k =>
    let ops? : Option (List Op) := match which with
      | "new" => some (stdEd25519New k)
      | "legacy" => some (stdEd25519Legacy k)
      | "true" => some alwaysTrue
      | _ => none
    match ops? with
    | none => "bad-op"
    | some ops =>
      match encodeAll ops with
      | some bs => s!"ok {hexOrDash bs}"
      | none => "panic"

def handleW (h : String) : String :=
  match bytesOfHex h with
  | none => "bad-op"
  | some bs =>
    match decodeAll bs with
    | none => "w=0 work=0"
    | some ops => s!"w={weightDP ops} work={weighWorkDP ops}"

def handleRun (prog heap orc : String) : String :=
  match bytesOfHex prog, parseHeap heap, parseOracles orc with
  | some bs, some hp, some tbl =>
    match decodeAll bs with
    | none => "undecodable"
    | some ops =>
      let w := weight ops
      let (res, steps) := runFuel tbl.toOracles ops (weightU ops + 1) (initExec hp.reverse) 0
      let le := if steps ≤ w then 1 else 0
      -- executed table weight and bytes flattened out of ropes (VM/Cost.lean; theorems in Props/C11Cost.lean)
      let cost := runCostLine tbl.toOracles ops hp.reverse
      match res with
      | none => s!"fail steps={steps} w={w} le={le} dbg=1{cost}"
      | some v => s!"ok {valueText v} steps={steps} w={w} le={le} dbg=1{cost}"
  | _, _, _ => "bad-op"

/-- the heap `Executor::new_from_env` builds for one input of a transaction (value.rs conversions, slot layout):
    the model's `heapOfEnv`, entries in ascending slot order -/
def handleEnv (tx cid cdh idx hdr : String) : String :=
  let cdh? : Option CoinDataHeight := match cdh.splitOn "@" with
    | [cd, h] => do let cd ← parseCoinData cd; let h ← h.toNat?; some { coinData := cd, height := h }
    | _ => none
  match parseTx tx, parseCoinID cid, cdh?, idx.toNat?, parseHeader hdr with
  | some tx, some cid, some cdh, some idx, some hdr =>
    let heap := heapOfEnv tx (some { parentCoinID := cid, parentCdh := cdh, spenderIndex := idx, lastHeader := hdr })
    -- a later binding of a slot shadows an earlier one; print each slot once, ascending
    let keys := (heap.map (·.1)).eraseDups.mergeSort (fun a b => a ≤ b)
    let items := keys.filterMap fun k => (Heap.get heap k).map fun v => s!"{k}={valueText v}"
    "ok " ++ (if items.isEmpty then "-" else ";".intercalate items)
  | _, _, _, _, _ => "bad-op"

def handleFm (m d t : String) : String :=
  match m.toNat?, d.toInt?, t with
  | some m, some d, t => s!"ok {moveFeeMultiplier m d (t == "1")}"
  | _, _, _ => "bad-op"

/-! ### state-level operations -/

structure DWorld where
  unsealed : List (String × State) := []
  sealed : List (String × Sealed) := []
  hdrHashes : List (Header × Hash) := []
  trees : List (String × Merkle.Tree) := []
  dense : List (String × List Bytes) := []
  roots : List Hash := []          -- distinct roots seen, in order of first appearance
  deriving Inhabited

def lookup {α} (l : List (String × α)) (k : String) : Option α := (l.find? (·.1 == k)).map (·.2)

/-- the environment of one operation: oracle tables plus the Merkle roots supplied for the
    parent-side (`pr`, content `ps`) and result-side (`cr`) states -/
def mkEnv (w : DWorld) (o : StateOracles) (ps : Option State) (pr cr : Roots) : Env where
  vm := o.vm.toOracles
  liqHash := fun k => match o.liq.find? (·.1 == k) with
    | some e => e.2
    | none => ORACLE_MISS
  fdp := fun h => match o.fdp.find? (·.1 == h) with
    | some e => e.2
    | none => ORACLE_MISS ++ h
  rewardId := fun n => match o.reward.find? (·.1 == n) with
    | some e => e.2
    | none => ORACLE_MISS
  hdrHash := fun h => match w.hdrHashes.find? (fun e => decide (e.1 = h)) with
    | some e => e.2
    | none => ORACLE_MISS
  powOk := fun seed coin d txh =>
    match o.pow.find? (fun e => e.1 == seed && decide (e.2.1 = coin) && e.2.2.1 == d && e.2.2.2.1 == txh) with
    | some e => e.2.2.2.2
    | none => .invalid
  isGrandfathered := fun h => o.grandfathered.contains h
  historyRoot := fun h => match ps with
    | some p => if h.length = p.history.length then pr.hist else cr.hist
    | none => cr.hist
  coinsRoot := fun m => match ps with
    | some p => if decide (m.coins = p.coins.coins ∧ m.counts = p.coins.counts) then pr.coins else cr.coins
    | none => cr.coins
  txsRoot := fun _ txs => match ps with
    | some p => if decide (txs = p.txs) then pr.txs else cr.txs
    | none => cr.txs
  poolsRoot := fun m => match ps with
    | some p => if decide (m = p.pools) then pr.pools else cr.pools
    | none => cr.pools
  stakesRoot := fun m => match ps with
    | some p => if decide (m = p.stakes) then pr.stakes else cr.stakes
    | none => cr.stakes

def outcomeText {α} (f : α → String) : Outcome α → String
  | .ok a => s!"ok {f a}"
  | .reject e => s!"err {e.text}"
  | .crash _ => "panic"

def parseEntries {α} (f : String → Option α) (s : String) : Option (List α) := parseList ";" f s

def parseCoinEntry (s : String) : Option (CoinID × CoinDataHeight) :=
  match s.splitOn "=" with
  | [id, rest] =>
    match rest.splitOn "@" with
    | [cd, h] => do
      let id ← parseCoinID id; let cd ← parseCoinData cd; let h ← h.toNat?
      some (id, { coinData := cd, height := h })
    | _ => none
  | _ => none

def parsePoolEntry (s : String) : Option (PoolKey × PoolState) :=
  match s.splitOn "=" with
  | [k, v] =>
    match v.splitOn ":" with
    | [l, r, pa, lq] => do
      let kb ← hexE k
      -- keys of fabricated pools are always canonical
      let key ← canonicalPoolKey kb
      let l ← l.toNat?; let r ← r.toNat?; let pa ← pa.toNat?; let lq ← lq.toNat?
      some (key, { lefts := l, rights := r, priceAccum := pa, liqs := lq })
    | _ => none
  | _ => none

def parseStakeEntry (s : String) : Option (Hash × StakeDoc) :=
  match s.splitOn "=" with
  | [k, v] => do let k ← hexE k; let d ← parseStakeDoc v; some (k, d)
  | _ => none

def parseHistEntry (s : String) : Option (Header × Hash) :=
  match s.splitOn "@" with
  | [h, hh] => do let h ← parseHeader h; let hh ← hexE hh; some (h, hh)
  | _ => none

def handleFab (w : DWorld) (args : List String) : DWorld × String :=
  match args with
  | [name, net, height, fp, fm, ds, coins, pools, stakes, hist] =>
    let r : Option (DWorld × String) := do
      let net ← net.toNat? >>= NetID.ofNat?
      let height ← height.toNat?; let fp ← fp.toNat?; let fm ← fm.toNat?; let ds ← ds.toNat?
      let coins ← parseEntries parseCoinEntry coins
      let pools ← parseEntries parsePoolEntry pools
      let stakes ← parseEntries parseStakeEntry stakes
      let hist ← parseEntries parseHistEntry hist
      let proto : State := { network := net, height := height, history := [], coins := {}, txs := [], feePool := fp,
                             feeMultiplier := fm, tips := 0, doscSpeed := ds, pools := [], stakes := [] }
      let cm := coins.foldl (fun (m : CoinMap) e => m.insertCoin e.1 e.2 proto.tip906) {}
      let st : State := { proto with
        history := hist.foldl (fun m e => m.set e.1.height e.1) [],
        coins := cm,
        pools := pools.foldl (fun m e => m.set e.1 e.2) [],
        stakes := stakes.foldl (fun m e => StakeSet.addStake m e.1 e.2) [] }
      let ss : Sealed := { st := st, action := none }
      some ({ w with sealed := (name, ss) :: w.sealed, hdrHashes := hist ++ w.hdrHashes }, s!"ok {dumpState st}")
    r.getD (w, "bad-op")
  | _ => (w, "bad-op")

def handleGenesis (w : DWorld) (args : List String) : DWorld × String :=
  match args with
  | [name, net, coin, fp, fm, stakes] =>
    let r : Option (DWorld × String) := do
      let net ← net.toNat? >>= NetID.ofNat?
      let coin ← parseCoinData coin
      let fp ← fp.toNat?; let fm ← fm.toNat?
      let stakes ← parseEntries parseStakeEntry stakes
      let st := genesisState { network := net, initCoindata := coin, stakes := stakes, initFeePool := fp, initFeeMultiplier := fm }
      some ({ w with unsealed := (name, st) :: w.unsealed }, s!"ok {dumpState st}")
    r.getD (w, "bad-op")
  | _ => (w, "bad-op")

def handleNext (w : DWorld) (src dst roots hh : String) : DWorld × String :=
  match lookup w.sealed src, parseRoots roots, hexE hh with
  | some ss, some rt, some hh =>
    let env := mkEnv w {} none rt rt
    match headerOf env ss with
    | .ok hdr =>
      let w1 := { w with hdrHashes := (hdr, hh) :: w.hdrHashes }
      match nextUnsealed (mkEnv w1 {} none rt rt) ss with
      | .ok st => ({ w1 with unsealed := (dst, st) :: w1.unsealed }, s!"ok {headerText hdr} {dumpState st}")
      | _ => (w, "panic")
    | _ => (w, "panic")
  | _, _, _ => (w, "bad-op")

def handleBatch (w : DWorld) (src dst lasthdr orc : String) (txs : List String) : DWorld × String :=
  match lookup w.unsealed src, parseStateOracles orc with
  | some st, some o =>
    let txs? : Option (List Tx) := if txs = ["-"] then some [] else txs.mapM parseTx
    let fallback : Option (Header × DWorld) :=
      if lasthdr = "-" then some (default, w)
      else (parseHistEntry lasthdr).map fun e => (e.1, { w with hdrHashes := e :: w.hdrHashes })
    match txs?, fallback with
    | some txs, some (fb, w1) =>
      let env := mkEnv w1 o none {} {}
      if let some m := suppliedMismatch txs then (w1, m) else
      match applyBatch env st txs fb with
      | .ok st' => ({ w1 with unsealed := (dst, st') :: w1.unsealed }, s!"ok {dumpState st'}")
      | .reject e => (w1, s!"err {e.text}")
      | .crash _ => (w1, "panic")
    | _, _ => (w, "bad-op")
  | _, _ => (w, "bad-op")

def handleSeal (w : DWorld) (src dst action orc : String) : DWorld × String :=
  match lookup w.unsealed src, parseAction action, parseStateOracles orc with
  | some st, some a, some o =>
    match sealState (mkEnv w o none {} {}) st a with
    | .ok ss => ({ w with sealed := (dst, ss) :: w.sealed }, s!"ok {actionText ss.action} {dumpState ss.st}")
    | .reject e => (w, s!"err {e.text}")
    | .crash _ => (w, "panic")
  | _, _, _ => (w, "bad-op")

def handleRestore (w : DWorld) (src dst : String) : DWorld × String :=
  match lookup w.sealed src with
  | some ss =>
    match toBlock (mkEnv w {} none {} {}) ss with
    | .ok blk =>
      let rs := fromBlock blk ss.st.stakes ss.st.coins ss.st.history ss.st.pools
      ({ w with sealed := (dst, rs) :: w.sealed }, s!"ok {actionText rs.action} {dumpState rs.st}")
    | _ => (w, "panic")
  | none => (w, "bad-op")

def handleBlock (w : DWorld) (src dst proots phash roots hh hdr action orc : String) (txs : List String) :
    DWorld × String :=
  match lookup w.sealed src, parseRoots proots, parseRoots roots, parseHeader hdr, parseAction action,
        parseStateOracles orc with
  | some ss, some pr, some cr, some bh, some a, some o =>
    let txs? : Option (List Tx) := if txs = ["-"] then some [] else txs.mapM parseTx
    match txs? with
    | some txs =>
      -- register the parent's header hash so that `previous` can be computed
      let w1 : DWorld := match hexE phash, headerOf (mkEnv w {} none pr pr) ss with
        | some ph, .ok ph' => { w with hdrHashes := (ph', ph) :: w.hdrHashes }
        | _, _ => w
      let env := mkEnv w1 o (some ss.st) pr cr
      let blk : Block := { header := bh, transactions := txs, action := a }
      let _ := hh
      if let some m := suppliedMismatch txs then (w1, m) else
      match applyBlock env ss blk with
      | .ok ns => ({ w1 with sealed := (dst, ns) :: w1.sealed }, s!"ok {dumpState ns.st}")
      | .reject e => (w1, s!"err {e.text}")
      | .crash _ => (w1, "panic")
    | none => (w, "bad-op")
  | _, _, _, _, _, _ => (w, "bad-op")

def handleConfirm (w : DWorld) (src roots hh entries : String) : String :=
  match lookup w.sealed src, parseRoots roots, hexE hh with
  | some ss, some rt, some hh =>
    let es : Option (List (Bytes × Bytes × Bool)) := parseList "," (fun e =>
      match e.splitOn ":" with
      | [pk, sg, ok] => do let pk ← hexE pk; let sg ← hexE sg; some (pk, sg, ok == "1")
      | _ => none) entries
    match es with
    | some es =>
      let env0 := mkEnv w {} none rt rt
      match headerOf env0 ss with
      | .ok hdr =>
        let w1 := { w with hdrHashes := (hdr, hh) :: w.hdrHashes }
        let o : StateOracles := { vm := { sigs := es.map fun e => (e.1, hh, e.2.1, e.2.2) } }
        match confirm (mkEnv w1 o none rt rt) ss (es.map fun e => (e.1, e.2.1)) with
        | .ok true => "some"
        | .ok false => "none"
        | _ => "panic"
      | _ => "panic"
    | none => "bad-op"
  | _, _, _ => "bad-op"

/-! ### Merkle operations (reference hashers; only verdicts and root *equalities* are compared) -/

open Mel.Merkle in
def rootClass (w : DWorld) (r : Hash) : DWorld × Nat :=
  match w.roots.findIdx? (· == r) with
  | some i => (w, i)
  | none => ({ w with roots := w.roots ++ [r] }, w.roots.length)

open Mel.Merkle in
def handleMt (w : DWorld) (name entries : String) : DWorld × String :=
  let es : Option (List (Bytes × Bytes)) := parseList ";" (fun e =>
    match e.splitOn "=" with
    | [k, v] => do let k ← hexE k; let v ← hexE v; some (k, v)
    | _ => none) entries
  match es with
  | none => (w, "bad-op")
  | some es =>
    let base := (lookup w.trees name).getD .empty
    let t := es.foldl (fun t e => t.insert (bitsOf e.1) e.2) base
    let (w1, c) := rootClass w (t.hash refHashers)
    ({ w1 with trees := (name, t) :: w1.trees }, s!"ok r{c}")

open Mel.Merkle in
def handleMp (w : DWorld) (name key mode : String) : String :=
  match lookup w.trees name, hexE key with
  | some t, some k =>
    let bits := bitsOf k
    let proof := t.prove refHashers bits
    let root := t.hash refHashers
    let val := t.get bits
    let tamper : Hash := hashData refHashers [116, 97, 109, 112, 101, 114]
    match mode.splitOn ":" with
    | ["honest"] => s!"{verify refHashers root bits val proof} {hexOrDash val}"
    | ["wrongval"] => s!"{verify refHashers root bits (val ++ [1]) proof}"
    | ["emptyval"] => s!"{verify refHashers root bits [] proof}"
    | ["sibling", i] =>
      match i.toNat? with
      | some i => s!"{verify refHashers root bits val (proof.set i tamper)}"
      | none => "bad-op"
    | ["otherkey", k2] =>
      match hexE k2 with
      | some k2 => s!"{verify refHashers root (bitsOf k2) val proof}"
      | none => "bad-op"
    | _ => "bad-op"
  | _, _ => "bad-op"

open Mel.Merkle in
def handleDt (w : DWorld) (name blocks : String) : DWorld × String :=
  match parseList "," hexE blocks with
  | some bs =>
    let (w1, c) := rootClass w (denseRoot refHashers bs)
    ({ w1 with dense := (name, bs) :: w1.dense }, s!"ok r{c}")
  | none => (w, "bad-op")

open Mel.Merkle in
def handleDp (w : DWorld) (name idx mode : String) : String :=
  match lookup w.dense name, idx.toNat? with
  | some bs, some i =>
    let proof := denseProof refHashers bs i
    let root := denseRoot refHashers bs
    let leaf := hashData refHashers (bs.getD i [])
    match mode.splitOn ":" with
    | ["honest"] => s!"{verifyDense refHashers proof root i leaf}"
    | ["wrongleaf"] => s!"{verifyDense refHashers proof root i (hashData refHashers (bs.getD i [] ++ [7]))}"
    | ["wrongidx", j] =>
      match j.toNat? with
      | some j => s!"{verifyDense refHashers proof root j leaf}"
      | none => "bad-op"
    | _ => "bad-op"
  | _, _ => "bad-op"

/-! ### serialisation glue (MelModel/Stdcode.lean) -/

def handleSdoc (h : String) : String :=
  match bytesOfHex h with
  | none => "bad-op"
  | some bs =>
    match Stdcode.decodeStakeDoc bs with
    | some d => s!"ok {stakeDocText d}"
    | none => "err"

def handlePowd (h : String) : String :=
  match bytesOfHex h with
  | none => "bad-op"
  | some bs =>
    match Stdcode.decodePow bs with
    | some (d, proof) => s!"ok {d} {hexOrDash proof}"
    | none => "err"

def handleTxenc (t : String) : String :=
  match parseTx t with
  | none => "bad-op"
  | some tx => s!"bytes {hexOrDash (Stdcode.encodeTx tx)}"

def handleHdrenc (t : String) : String :=
  match parseHeader t with
  | none => "bad-op"
  | some h => s!"bytes {hexOrDash (Stdcode.encodeHeader h)}"

def handleTxlen (t : String) : String :=
  match parseTx t with
  | none => "bad-op"
  | some tx => s!"len {Stdcode.txLen tx}"

def handleLine (w : DWorld) (line : String) : DWorld × String :=
  match line.trimAscii.toString.splitOn " " with
  | ["dec", h] => (w, handleDec h)
  | ["enc", t] => (w, handleEnc t)
  | ["w", h] => (w, handleW h)
  | ["std", which, pk] => (w, handleStd which pk)
  | ["run", p, h, o] => (w, handleRun p h o)
  | ["fm", m, d, t] => (w, handleFm m d t)
  | ["sdoc", h] => (w, handleSdoc h)
  | ["powd", h] => (w, handlePowd h)
  | ["txlen", t] => (w, handleTxlen t)
  | ["txenc", t] => (w, handleTxenc t)
  | ["hdrenc", t] => (w, handleHdrenc t)
  | ["env", tx, cid, cdh, idx, hdr] => (w, handleEnv tx cid cdh idx hdr)
  | ["reset"] => ({}, "ok")
  | ["mt", name, entries] => handleMt w name entries
  | ["mp", name, key, mode] => (w, handleMp w name key mode)
  | ["dt", name, blocks] => handleDt w name blocks
  | ["dp", name, idx, mode] => (w, handleDp w name idx mode)
  | "fab" :: args => handleFab w args
  | "genesis" :: args => handleGenesis w args
  | ["next", src, dst, roots, hh] => handleNext w src dst roots hh
  | "batch" :: src :: dst :: lasthdr :: orc :: txs => handleBatch w src dst lasthdr orc txs
  | ["seal", src, dst, action, orc] => handleSeal w src dst action orc
  | ["restore", src, dst] => handleRestore w src dst
  | "block" :: src :: dst :: proots :: phash :: roots :: hh :: hdr :: action :: orc :: txs =>
    handleBlock w src dst proots phash roots hh hdr action orc txs
  | ["confirm", src, roots, hh, entries] => (w, handleConfirm w src roots hh entries)
  | _ => (w, "bad-op")

partial def loop (hIn : IO.FS.Stream) (hOut : IO.FS.Stream) (w : DWorld) : IO Unit := do
  let line ← hIn.getLine
  if line.isEmpty then return ()
  let (w', out) := handleLine w line
  hOut.putStrLn out
  loop hIn hOut w'

def main : IO Unit := do
  let hIn ← IO.getStdin
  let hOut ← IO.getStdout
  loop hIn hOut {}
