import MelModel.Prim.Bytes
import MelModel.Generated.Tables
import MelModel.Types
import MelModel.VM.Op
import MelModel.VM.Codec
import MelModel.VM.Weight
import MelModel.VM.Value
import MelModel.VM.Exec
