/-
  Symbolic sparse Merkle tree and dense Merkle tree (mirrors novasmt's hash rules, `FullProof::verify`,
  `DenseMerkleTree`, `verify_dense`).  novasmt's hexary node compression and store are not modelled: this is
  the binary tree they implement, generic in the two hash functions.
-/
import MelModel.Types
namespace Mel.Merkle
open Mel

structure Hashers where
  /-- keyed blake3 of a non-empty data block -/
  hData : Bytes → Hash
  /-- keyed blake3 of the concatenation of two child hashes (not both zero) -/
  hNode : Hash → Hash → Hash

def Z : Hash := zeroHash

/-- `hash_data`: the empty value hashes to zero -/
def hashData (H : Hashers) (v : Bytes) : Hash := if v = [] then Z else H.hData v

/-- `hash_node`: two zero children hash to zero -/
def hashNode (H : Hashers) (l r : Hash) : Hash := if l = Z ∧ r = Z then Z else H.hNode l r

/-- a binary trie; keys are bit paths from the root, leaves sit at the fixed depth -/
inductive Tree where
  | empty
  | leaf (v : Bytes)
  | node (l r : Tree)
  deriving Repr, Inhabited

namespace Tree

def get : Tree → List Bool → Bytes
  | .empty, _ => []
  | .leaf v, [] => v
  | .leaf _, _ :: _ => []
  | .node _ _, [] => []
  | .node l _, false :: k => l.get k
  | .node _ r, true :: k => r.get k

/-- insert; inserting the empty value deletes -/
def insert : Tree → List Bool → Bytes → Tree
  | _, [], v => if v = [] then .empty else .leaf v
  | .node l r, false :: k, v => .node (l.insert k v) r
  | .node l r, true :: k, v => .node l (r.insert k v)
  | .empty, false :: k, v => .node (Tree.empty.insert k v) .empty
  | .empty, true :: k, v => .node .empty (Tree.empty.insert k v)
  | .leaf _, false :: k, v => .node (Tree.empty.insert k v) .empty
  | .leaf _, true :: k, v => .node .empty (Tree.empty.insert k v)

def hash (H : Hashers) : Tree → Hash
  | .empty => Z
  | .leaf v => hashData H v
  | .node l r => hashNode H (l.hash H) (r.hash H)

/-- well-formed at depth `n`: leaves exactly at depth `n` -/
def WF : Nat → Tree → Prop
  | _, .empty => True
  | 0, .leaf _ => True
  | _ + 1, .leaf _ => False
  | 0, .node _ _ => False
  | n + 1, .node l r => WF n l ∧ WF n r

/-- sibling hashes from the root down (the layout of novasmt's `FullProof`) -/
def prove (H : Hashers) : Tree → List Bool → List Hash
  | _, [] => []
  | .node l r, false :: k => r.hash H :: l.prove H k
  | .node l r, true :: k => l.hash H :: r.prove H k
  | .empty, _ :: k => Z :: Tree.empty.prove H k
  | .leaf _, _ :: k => Z :: Tree.empty.prove H k

end Tree

/-- the root as a function of the content alone (depth `n`, content = key ↦ value, `[]` = absent) -/
def rootOf (H : Hashers) : Nat → (List Bool → Bytes) → Hash
  | 0, c => hashData H (c [])
  | n + 1, c => hashNode H (rootOf H n fun k => c (false :: k)) (rootOf H n fun k => c (true :: k))

/-- `FullProof::verify_pure` -/
def verify (H : Hashers) (root : Hash) (key : List Bool) (v : Bytes) (proof : List Hash) : Bool :=
  root == (List.zip proof key).foldr (fun e acc => if e.2 then hashNode H e.1 acc else hashNode H acc e.1) (hashData H v)

/-! ### dense Merkle tree -/

def pairUp (H : Hashers) : List Hash → List Hash
  | a :: b :: rest => hashNode H a b :: pairUp H rest
  | _ => []

/-- smallest power of two ≥ n (`next_power_of_two`; 1 for 0) -/
def nextPow2 (n : Nat) : Nat := if n ≤ 1 then 1 else 2 ^ (Nat.log2 (n - 1) + 1)

/-- repeatedly pair up a level of `2^d` hashes until one is left -/
def reduce (H : Hashers) : Nat → List Hash → List Hash
  | 0, lvl => lvl
  | d + 1, lvl => reduce H d (pairUp H lvl)

def denseLeaves (H : Hashers) (blocks : List Bytes) : List Hash :=
  let hs := blocks.map (hashData H)
  hs ++ List.replicate (nextPow2 hs.length - hs.length) Z

/-- `DenseMerkleTree::new(..).root_hash()` -/
def denseRoot (H : Hashers) (blocks : List Bytes) : Hash :=
  let lv := denseLeaves H blocks
  (reduce H (Nat.log2 lv.length) lv).headD Z

/-- `DenseMerkleTree::proof(idx)`: siblings bottom-up -/
def denseProofLevels (H : Hashers) : Nat → List Hash → Nat → List Hash
  | 0, _, _ => []
  | d + 1, lvl, idx => (lvl.getD (idx ^^^ 1) Z) :: denseProofLevels H d (pairUp H lvl) (idx / 2)

def denseProof (H : Hashers) (blocks : List Bytes) (idx : Nat) : List Hash :=
  let lv := denseLeaves H blocks
  denseProofLevels H (Nat.log2 lv.length) lv idx

/-- `verify_dense` -/
def verifyDense (H : Hashers) (proof : List Hash) (root : Hash) (idx : Nat) (leaf : Hash) : Bool :=
  let r := proof.foldl (fun (acc : Hash × Nat) elem =>
    (if acc.2 % 2 = 1 then hashNode H elem acc.1 else hashNode H acc.1 elem, acc.2 / 2)) (leaf, idx)
  r.1 == root

/-! ### reference hashers for the correspondence driver (a 128-bit mixing hash; not cryptographic, not used by any theorem) -/

def mix64 (seed : UInt64) (bs : Bytes) : UInt64 :=
  bs.foldl (fun h b => (h ^^^ b.toUInt64) * 1099511628211 + 0x9E3779B97F4A7C15) seed

def digest (bs : Bytes) : Bytes :=
  let a := mix64 14695981039346656037 bs
  let b := mix64 0x2545F4914F6CDD1D (0x5a :: bs)
  toBE 8 a.toNat ++ toBE 8 b.toNat

def refHashers : Hashers := { hData := fun v => digest (1 :: v), hNode := fun l r => digest (2 :: (l ++ r)) }

/-- bits of a byte string, most significant bit first (`key_to_path`) -/
def bitsOf (bs : Bytes) : List Bool :=
  bs.flatMap fun b => (List.range 8).map fun i => (b.toNat / 2 ^ (7 - i)) % 2 = 1

end Mel.Merkle
