/-
  Headers, advancing to the next block, applying blocks, restoring from blocks, confirmation
  (mirrors the `SealedState` half of src/state.rs).
-/
import MelModel.ApplyTx
namespace Mel
open Mel.Gen

structure Block where
  header : Header
  /-- `HashSet<Transaction>`: the list order is the (arbitrary) iteration order -/
  transactions : List Tx
  action : Option ProposerAction
  deriving Repr, Inhabited

/-- `SealedState::header` -/
def headerOf (env : Env) (ss : Sealed) : Outcome Header :=
  let s := ss.st
  let prev : Outcome Hash :=
    if s.height = 0 then .ok zeroHash
    else match s.history.get (s.height - 1) with
      | some h => .ok (env.hdrHash h)
      | none => .crash "state.rs: history.get(height-1).unwrap()"
  prev.bind fun p => .ok
    { network := s.network, previous := p, height := s.height,
      historyHash := env.historyRoot s.history, coinsHash := env.coinsRoot s.coins,
      transactionsHash := env.txsRoot s.tip908 s.txs,
      feePool := s.feePool, feeMultiplier := s.feeMultiplier, doscSpeed := s.doscSpeed,
      poolsHash := env.poolsRoot s.pools, stakesHash := env.stakesRoot s.stakes }

/-- `apply_tip_906_for_next_state`: initialise the per-covenant counts from the coin set -/
def applyTip906Transition (m : CoinMap) : CoinMap :=
  m.coins.foldl (fun acc e => acc.insertCoinCount e.2.coinData.covhash (acc.coinCount e.2.coinData.covhash + 1)) m

/-- `next_unsealed` -/
def nextUnsealed (env : Env) (ss : Sealed) : Outcome State :=
  (headerOf env ss).bind fun hdr =>
  let s := ss.st
  let new : State := { s with history := s.history.set s.height hdr, height := s.height + 1,
                              stakes := s.stakes.unlockOld ((s.height + 1) / STAKE_EPOCH), txs := [] }
  if new.tip906 && !s.tip906 then .ok { new with coins := applyTip906Transition new.coins }
  else .ok new

/-- `to_block` -/
def toBlock (env : Env) (ss : Sealed) : Outcome Block :=
  (headerOf env ss).bind fun h => .ok { header := h, transactions := ss.st.txs, action := ss.action }

/-- `from_block`: the trees are looked up in the store by the roots in the header; the model is
    given the contents (`coins`, `history`, `pools`) those roots denote. -/
def fromBlock (blk : Block) (stakes : StakeSet) (coins : CoinMap) (history : AList Nat Header)
    (pools : AList PoolKey PoolState) : Sealed :=
  { st := { network := blk.header.network, height := blk.header.height, history := history, coins := coins,
            txs := blk.transactions.foldl State.insertTx [], feePool := blk.header.feePool,
            feeMultiplier := blk.header.feeMultiplier, tips := 0, doscSpeed := blk.header.doscSpeed,
            pools := pools, stakes := stakes },
    action := blk.action }

/-- `apply_block`. The genesis fallback header is never needed (height ≥ 1 after `next_unsealed`). -/
def applyBlock (env : Env) (ss : Sealed) (blk : Block) : Outcome Sealed :=
  (nextUnsealed env ss).bind fun basis =>
  if basis.pools.length < 2 then .crash "assert!(pools.count() >= 2)" else
  (applyBatch env basis blk.transactions default).bind fun applied =>
  (sealState env applied blk.action).bind fun sealed =>
  (headerOf env sealed).bind fun h =>
  if h = blk.header then .ok sealed else .reject .wrongHeader

/-- `confirm`: `proof` is the list of (public key, signature) pairs (a `BTreeMap`, so keys are unique) -/
def confirm (env : Env) (ss : Sealed) (proof : List (Bytes × Bytes)) : Outcome Bool :=
  (headerOf env ss).bind fun hdr =>
  let msg := env.hdrHash hdr
  if !(proof.all fun e => e.2.length = 64 && env.vm.sigOk e.1 msg e.2) then .ok false
  else
    let ep := ss.st.epoch
    -- the tallies saturate at u128::MAX (`fix:` for the vote-sum overflow); a saturated total confirms nothing
    let total := satU128 (ss.st.stakes.totalVotes ep)
    if total = U128_MAX then .ok false else
    let present := satSum (proof.map fun e => satU128 (ss.st.stakes.votes ep e.1))
    .ok (decide (present * 3 > total * 2))

end Mel
