/-
  Schedules of rayon's parallel iterators, and `apply_tx_batch_impl` evaluated along arbitrary schedules
  (definitions only; the theorems are in Props/C03Sched.lean).
-/
import MelModel.ApplyTx
namespace Mel

/-- one way of cutting a parallel iterator up: consecutive segments, combined pairwise in some tree shape -/
inductive Sched (α : Type) where
  | seg (xs : List α)
  | join (l r : Sched α)

namespace Sched

/-- the items in iteration order -/
def items {α} : Sched α → List α
  | seg xs => xs
  | join l r => l.items ++ r.items

/-- `try_for_each`: every segment checks its members; both halves must succeed -/
def forEach {α} (f : α → Outcome Unit) : Sched α → Outcome Unit
  | seg xs => Outcome.forM' f xs
  | join l r => (forEach f l).bind fun _ => forEach f r

/-- `try_fold(|| unit, step)` per segment, `try_reduce(|| unit, op)` across segments -/
def foldReduce {α β} (unit : β) (step : β → α → Outcome β) (op : β → β → β) : Sched α → Outcome β
  | seg xs => Outcome.foldlM' step unit xs
  | join l r => (foldReduce unit step op l).bind fun a => (foldReduce unit step op r).bind fun b => .ok (op a b)

end Sched

/-- the speed step of `apply_tx_batch_impl` (the `filter` is folded into the step) -/
def speedStep (env : Env) (s : State) (rel : Relevant) (speed : Nat) (tx : Tx) : Outcome Nat :=
  if tx.kind = .doscMint then (validateDoscmint env s rel tx).bind fun sp => .ok (max speed sp) else .ok speed

/-- `apply_tx_batch_impl` with the two parallel passes evaluated along arbitrary schedules -/
def applyBatchSched (env : Env) (s : State) (txs : List Tx) (genesisFallback : Header)
    (schedValid schedSpeed : Sched Tx) : Outcome State :=
  (loadRelevantCoins s txs).bind fun rel =>
  (loadStakeInfo s txs).bind fun newStakes =>
  let lastHeader := lastHeaderOf s genesisFallback
  (schedValid.forEach (fun tx => checkTxValidity env s lastHeader tx rel newStakes)).bind fun _ =>
  (schedSpeed.foldReduce s.doscSpeed (speedStep env s rel) max).bind fun newSpeed =>
  (createNextState env s txs rel s.tip906).bind fun next =>
  .ok { next with doscSpeed := newSpeed,
                  stakes := newStakes.reverse.foldl (fun st e => StakeSet.addStake st e.1 e.2) next.stakes }

end Mel
