/-
  The (unsealed / sealed) world state and the TIP activation predicates (mirrors src/state.rs).
-/
import MelModel.Coins
import MelModel.Stake
import MelModel.Generated.Tables
import MelModel.VM.Exec
namespace Mel
open Mel.Gen

/-- verdict of the two MelPoW verifications in `proof_is_tip910` -/
inductive PowVerdict where
  | invalid | legacy | tip910 | panics
  deriving DecidableEq, Repr, Inhabited

/-- External primitives of the state-transition function (DESIGN §2.2). In theorems these are
    arbitrary functions constrained by explicit hypotheses; in the driver they are lookup tables
    filled with the values the implementation computed. -/
structure Env where
  vm : VM.Oracles
  /-- `hash_keyed(b"liq", pool_key.to_bytes())` -/
  liqHash : Bytes → Hash
  /-- `faucet_dedup_pseudocoin(txhash).txhash` -/
  fdp : Hash → Hash
  /-- `CoinID::proposer_reward(height).txhash` -/
  rewardId : Nat → Hash
  /-- `Header::hash` -/
  hdrHash : Header → Hash
  /-- MelPoW verification for the puzzle seeded by (header hash, coin id), at a difficulty, of the proof
      carried in the data of the transaction with the given hash -/
  powOk : (seedHeaderHash : Hash) → (coin : CoinID) → (difficulty : Nat) → (txHash : Hash) → PowVerdict
  /-- `hash_nosigs().to_string() == INFLATION_BUG_TX_HASH` (hex of the hash equals the constant) -/
  isGrandfathered : Hash → Bool
  /-- Merkle roots as functions of content -/
  historyRoot : AList Nat Header → Hash
  coinsRoot : CoinMap → Hash
  txsRoot : (tip908 : Bool) → List Tx → Hash
  poolsRoot : AList PoolKey PoolState → Hash
  stakesRoot : StakeSet → Hash

structure State where
  network : NetID
  height : Nat
  history : AList Nat Header
  coins : CoinMap
  /-- transactions of the current block, kept sorted by hash, unique hashes -/
  txs : List Tx
  feePool : Nat
  feeMultiplier : Nat
  tips : Nat
  doscSpeed : Nat
  pools : AList PoolKey PoolState
  stakes : StakeSet
  deriving Repr, Inhabited

/-- `SealedState(UnsealedState, Option<ProposerAction>)` -/
structure Sealed where
  st : State
  action : Option ProposerAction
  deriving Repr, Inhabited

def U64_MAX_HEIGHT : Nat := 2 ^ 64 - 1

namespace State

/-- `tip_condition` -/
def tipCondition (s : State) (activation : Nat) : Bool :=
  if activation = U64_MAX_HEIGHT then false
  else if s.network = .mainnet then s.height ≥ activation
  else if s.network = .testnet then s.height ≥ TESTNET_TIP_HEIGHT
  else true

def tip901 (s : State) : Bool := s.tipCondition TIP_901_HEIGHT
def tip902 (s : State) : Bool := s.tipCondition TIP_902_HEIGHT
def tip906 (s : State) : Bool := s.tipCondition TIP_906_HEIGHT
def tip908 (s : State) : Bool := s.tipCondition TIP_908_HEIGHT || s.network = .custom08
def tip909 (s : State) : Bool := s.tipCondition TIP_909_HEIGHT
def tip909a (s : State) : Bool := s.tipCondition TIP_909A_HEIGHT

def epoch (s : State) : Nat := s.height / STAKE_EPOCH

/-- `TransactionSet::insert` (ordered map keyed by hash) -/
def insertTx (txs : List Tx) (tx : Tx) : List Tx :=
  match txs with
  | [] => [tx]
  | t :: rest =>
    if t.hash = tx.hash then tx :: rest
    else if bytesLt tx.hash t.hash then tx :: t :: rest
    else t :: insertTx rest tx

end State
end Mel
