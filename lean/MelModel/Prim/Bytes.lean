/-
  Byte strings and fixed-width big-endian encodings.
  Model file: no Mathlib, no proofs beyond termination.
-/
namespace Mel

abbrev Bytes := List UInt8

/-- `n`-byte big-endian representation of `v mod 256^n` (Rust `to_be_bytes`). -/
def toBE : Nat → Nat → Bytes
  | 0, _ => []
  | n + 1, v => toBE n (v / 256) ++ [UInt8.ofNat (v % 256)]

/-- value of a big-endian byte string (Rust `from_be_bytes`). -/
def fromBE (bs : Bytes) : Nat := bs.foldl (fun acc b => acc * 256 + b.toNat) 0

/-- number of significant bytes of `v` (Rust: `32 - leading_zeros/8` for a U256). -/
def sigLen (v : Nat) : Nat := if h : v = 0 then 0 else sigLen (v / 256) + 1
decreasing_by omega

/-- `2^256`, the modulus of MelVM integers. -/
def U256_MOD : Nat := 2 ^ 256
def U128_MAX : Nat := 2 ^ 128 - 1
def U64_MAX : Nat := 2 ^ 64 - 1

/-- saturating u128 operations -/
def satAdd128 (a b : Nat) : Nat := min (a + b) U128_MAX
def satMul128 (a b : Nat) : Nat := min (a * b) U128_MAX
def satSub (a b : Nat) : Nat := a - b

def hexDigit (n : Nat) : Char :=
  if n < 10 then Char.ofNat (48 + n) else Char.ofNat (87 + n)

def hexOfBytes (bs : Bytes) : String :=
  String.ofList (bs.flatMap fun b => [hexDigit (b.toNat / 16), hexDigit (b.toNat % 16)])

def hexVal (c : Char) : Option Nat :=
  if '0' ≤ c ∧ c ≤ '9' then some (c.toNat - 48)
  else if 'a' ≤ c ∧ c ≤ 'f' then some (c.toNat - 87)
  else if 'A' ≤ c ∧ c ≤ 'F' then some (c.toNat - 55)
  else none

def bytesOfHexChars : List Char → Option Bytes
  | [] => some []
  | [_] => none
  | a :: b :: rest => do
    let x ← hexVal a
    let y ← hexVal b
    let r ← bytesOfHexChars rest
    pure (UInt8.ofNat (x * 16 + y) :: r)

/-- parse a hex string; `-` denotes the empty string in the line protocol. -/
def bytesOfHex (s : String) : Option Bytes :=
  if s = "-" then some [] else bytesOfHexChars s.toList

def hexOrDash (bs : Bytes) : String := if bs.isEmpty then "-" else hexOfBytes bs

end Mel
