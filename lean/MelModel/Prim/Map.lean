/-
  Finite maps as association lists with unique keys (by construction of `set`/`del`).
-/
namespace Mel

abbrev AList (κ ν : Type) := List (κ × ν)

namespace AList
variable {κ ν : Type} [DecidableEq κ]

def get (m : AList κ ν) (k : κ) : Option ν :=
  match m with
  | [] => none
  | (k', v) :: rest => if k' = k then some v else get rest k

def del (m : AList κ ν) (k : κ) : AList κ ν := m.filter (fun e => e.1 ≠ k)

/-- insert or overwrite -/
def set (m : AList κ ν) (k : κ) (v : ν) : AList κ ν := (k, v) :: del m k

def contains (m : AList κ ν) (k : κ) : Bool := (get m k).isSome

def keys (m : AList κ ν) : List κ := m.map (·.1)
def vals (m : AList κ ν) : List ν := m.map (·.2)

/-- `HashMap::extend`: later entries overwrite -/
def extend (m : AList κ ν) (es : List (κ × ν)) : AList κ ν :=
  es.foldl (fun acc e => set acc e.1 e.2) m

def sumBy (m : AList κ ν) (f : κ → ν → Nat) : Nat := (m.map fun e => f e.1 e.2).sum

end AList

/-- lexicographic order on byte strings (Rust `Ord` for `[u8]`, `Vec<u8>`, `Bytes`, `HashVal`) -/
def bytesLt : List UInt8 → List UInt8 → Bool
  | [], [] => false
  | [], _ :: _ => true
  | _ :: _, [] => false
  | a :: as, b :: bs => if a < b then true else if b < a then false else bytesLt as bs

/-- insertion sort with duplicate removal (`sort(); dedup()`), parametrised by a strict order -/
def insertSorted {α} [DecidableEq α] (lt : α → α → Bool) (x : α) : List α → List α
  | [] => [x]
  | y :: ys => if x = y then y :: ys else if lt x y then x :: y :: ys else y :: insertSorted lt x ys

def sortDedup {α} [DecidableEq α] (lt : α → α → Bool) (l : List α) : List α :=
  l.foldl (fun acc x => insertSorted lt x acc) []

end Mel
