/-
  C17 over HISTORIES — the fee multiplier changes only when a block is sealed with a proposer action, by exactly
  `moveFeeMultiplier`; along every run of the chain it stays a u128 (never wraps), every block moves it by at most
  `max (m / 128) 2` in either direction, and a run whose blocks are all sealed without an action never changes it.
  (`Props/C17.lean` has the one-step statements `C17_closed_form`, `C17_no_wrap`, `C17_no_action`, `C17_action`.)
  Property theorems only; helper lemmas and the run relations `RunTrace` / `BatchRun` (runs with their events exposed,
  runs inside one block) live in MelModel/Lemmas/MiscHistL.lean.
-/
import MelModel.Chain
import MelModel.Props.C17
import MelModel.Props.C13Life
import MelModel.Props.Reach
import MelModel.Lemmas.MiscHistL
namespace Mel
open Mel.Gen Mel.MiscHistL

/-- 1. an accepted batch leaves the fee multiplier alone … -/
theorem C17_batch_keeps_multiplier (env : Env) (s s' : State) (txs : List Tx) (fb : Header)
    (h : applyBatch env s txs fb = .ok s') : s'.feeMultiplier = s.feeMultiplier :=
  batch_fm h

/-- … and so does opening the next block -/
theorem C17_next_keeps_multiplier (env : Env) (ss : Sealed) (s' : State) (h : nextUnsealed env ss = .ok s') :
    s'.feeMultiplier = ss.st.feeMultiplier :=
  next_fm h

/-- … hence any number of batches inside a block -/
theorem C17_batches_keep_multiplier (env : Env) (s u : State) (h : BatchRun env s u) :
    u.feeMultiplier = s.feeMultiplier :=
  (batchRun_keeps h).1

/-- 2. **one block**: a block opened in state `s`, filled by any number of accepted batches, sealed with the action
    `a` and followed by the opening of the next block: the next block's multiplier is `moveFeeMultiplier` of this
    block's (with this block's TIP-901 flag) when there is an action, and this block's when there is none -/
theorem C17_block_step (env : Env) (s u s' : State) (ss : Sealed) (a : Option ProposerAction)
    (hb : BatchRun env s u) (hs : sealState env u a = .ok ss) (hn : nextUnsealed env ss = .ok s') :
    s'.feeMultiplier =
      match a with
      | none => s.feeMultiplier
      | some act => moveFeeMultiplier s.feeMultiplier act.feeMultiplierDelta s.tip901 := by
  obtain ⟨e1, e2, e3, -⟩ := batchRun_keeps hb
  rw [C17_next_keeps_multiplier env ss s' hn]
  cases a with
  | none => exact (C17_no_action env u ss hs).trans e1
  | some act => rw [C17_action env u act ss hs, e1, tip901_congr e2 e3]

/-- the two cases of `C17_block_step` separately -/
theorem C17_block_step_action (env : Env) (s u s' : State) (ss : Sealed) (act : ProposerAction)
    (hb : BatchRun env s u) (hs : sealState env u (some act) = .ok ss) (hn : nextUnsealed env ss = .ok s') :
    s'.feeMultiplier = moveFeeMultiplier s.feeMultiplier act.feeMultiplierDelta s.tip901 :=
  C17_block_step env s u s' ss (some act) hb hs hn

theorem C17_block_step_no_action (env : Env) (s u s' : State) (ss : Sealed)
    (hb : BatchRun env s u) (hs : sealState env u none = .ok ss) (hn : nextUnsealed env ss = .ok s') :
    s'.feeMultiplier = s.feeMultiplier :=
  C17_block_step env s u s' ss none hb hs hn

/-- one step of the chain keeps the multiplier a u128 (whatever the delta of the action) -/
theorem C17_step_u128 (env : Env) (s s' : State) (h : ChainStep env s s') (hm : s.feeMultiplier ≤ U128_MAX) :
    s'.feeMultiplier ≤ U128_MAX := by
  cases h with
  | batch hb => rw [batch_fm hb]; exact hm
  | block h1 h2 =>
    rw [next_fm h2, seal_fm h1]
    split
    · exact hm
    · exact move_le_u128 _ _ _ hm

/-- **the per-block bound**: a block step moves the multiplier by at most `max (m / 128) 2`, up or down
    (the delta being an `i8`, `DeltaIsI8`: it is one by typing in the implementation) -/
theorem C17_block_bound (env : Env) (s s' : State) (ss : Sealed) (a : Option ProposerAction)
    (hs : sealState env s a = .ok ss) (hn : nextUnsealed env ss = .ok s') (hm : s.feeMultiplier ≤ U128_MAX)
    /- ADDED (false without it, see `C17_block_bound_needs_i8`): the model's delta is an unbounded integer -/
    (hδ : DeltaIsI8 a) :
    s'.feeMultiplier ≤ s.feeMultiplier + max (s.feeMultiplier / 128) 2 ∧
    s.feeMultiplier ≤ s'.feeMultiplier + max (s.feeMultiplier / 128) 2 := by
  rw [next_fm hn, seal_fm hs]
  cases a with
  | none => exact ⟨Nat.le_add_right _ _, Nat.le_add_right _ _⟩
  | some act =>
    obtain ⟨-, h2, h3⟩ := C17_no_wrap s.feeMultiplier act.feeMultiplierDelta s.tip901 hm (hδ act rfl)
    have hmm : maxMove s.feeMultiplier s.tip901 ≤ max (s.feeMultiplier / 128) 2 := by
      unfold maxMove; split <;> omega
    exact ⟨by simp only at h2 ⊢; omega, by simp only at h3 ⊢; omega⟩

/-- why `DeltaIsI8` is needed: with a delta outside the range of an `i8` the movement exceeds the bound -/
theorem C17_block_bound_needs_i8 :
    ¬ (moveFeeMultiplier 1000 1000 true ≤ 1000 + max (1000 / 128) 2) := by decide

/-- a batch step does not move it at all -/
theorem C17_batch_bound (env : Env) (s s' : State) (txs : List Tx) (fb : Header)
    (h : applyBatch env s txs fb = .ok s') :
    s'.feeMultiplier ≤ s.feeMultiplier + max (s.feeMultiplier / 128) 2 ∧
    s.feeMultiplier ≤ s'.feeMultiplier + max (s.feeMultiplier / 128) 2 := by
  rw [batch_fm h]
  exact ⟨Nat.le_add_right _ _, Nat.le_add_right _ _⟩

/-- 3. **never wraps, over the whole history**: along any run that starts with a multiplier that is a u128, the
    multiplier is a u128 in the state reached, and every block step taken from the state reached (hence: every
    block step of every run, a prefix of a run being a run) moves it by at most `max (m / 128) 2`, up or down -/
theorem C17_run_u128 (env : Env) (s s' : State) (hrun : ChainRun env s s') (hm : s.feeMultiplier ≤ U128_MAX) :
    s'.feeMultiplier ≤ U128_MAX ∧
    ∀ (a : Option ProposerAction) (ss : Sealed) (s'' : State),
      sealState env s' a = .ok ss → nextUnsealed env ss = .ok s'' → DeltaIsI8 a →
        s''.feeMultiplier ≤ s'.feeMultiplier + max (s'.feeMultiplier / 128) 2 ∧
        s'.feeMultiplier ≤ s''.feeMultiplier + max (s'.feeMultiplier / 128) 2 := by
  have h1 : s'.feeMultiplier ≤ U128_MAX := by
    induction hrun with
    | refl => exact hm
    | step _ hstep ih => exact C17_step_u128 env _ _ hstep ih
  exact ⟨h1, fun a ss s'' hs hn hδ => C17_block_bound env s' s'' ss a hs hn h1 hδ⟩

/-- … in particular in every state reachable from a genesis configuration whose initial multiplier is a u128 -/
theorem C17_reachable_u128 (env : Env) (cfg : GenesisConfig) (s : State)
    (hrun : ChainRun env (genesisState cfg) s) (hm : cfg.initFeeMultiplier ≤ U128_MAX) :
    s.feeMultiplier ≤ U128_MAX :=
  (C17_run_u128 env _ s hrun hm).1

/-- the same over a trace: every block event of the trace, whatever its position, moved the multiplier within the
    bound, and the multiplier was a u128 before and after it -/
theorem C17_trace_bound (env : Env) (s s' : State) (tr : List Event) (hrun : RunTrace env s tr s')
    (hm : s.feeMultiplier ≤ U128_MAX) (a : Option ProposerAction) (ha : Event.block a ∈ tr) (hδ : DeltaIsI8 a) :
    ∃ m m', ChainRun env s m ∧ EvStep env m (.block a) m' ∧ ChainRun env m' s' ∧
      m.feeMultiplier ≤ U128_MAX ∧ m'.feeMultiplier ≤ U128_MAX ∧
      m'.feeMultiplier ≤ m.feeMultiplier + max (m.feeMultiplier / 128) 2 ∧
      m.feeMultiplier ≤ m'.feeMultiplier + max (m.feeMultiplier / 128) 2 := by
  obtain ⟨m, m', h1, h2, h3⟩ := RunTrace.mem_split hrun ha
  obtain ⟨hmU, hb⟩ := C17_run_u128 env s m h1 hm
  refine ⟨m, m', h1, h2, h3, hmU, C17_step_u128 env m m' (EvStep.toStep h2) hmU, ?_⟩
  cases h2 with
  | block hs hn => exact hb a _ m' hs hn hδ

/-- 4. **frozen without actions**: along a run whose blocks are all sealed without a proposer action the multiplier
    never changes -/
theorem C17_run_frozen_without_actions (env : Env) (s s' : State) (tr : List Event) (hrun : RunTrace env s tr s')
    (hnone : ∀ a, Event.block a ∈ tr → a = none) : s'.feeMultiplier = s.feeMultiplier := by
  induction hrun with
  | refl => rfl
  | @step m s' tr e _ hs ih =>
    have ih' := ih (fun a ha => hnone a (List.mem_append_left _ ha))
    cases hs with
    | batch hb => exact (batch_fm hb).trans ih'
    | block h1 h2 =>
      have := hnone _ (List.mem_append_right _ (List.mem_singleton.mpr rfl))
      subst this
      rw [next_fm h2, C17_no_action env _ _ h1]
      exact ih'

/-- … put the other way round: if the multiplier at the end of a run differs from the one at the start, some block
    of the run was sealed with a proposer action (batches and action-free blocks contribute nothing) -/
theorem C17_run_changes_only_by_actions (env : Env) (s s' : State) (tr : List Event) (hrun : RunTrace env s tr s')
    (hne : s'.feeMultiplier ≠ s.feeMultiplier) : ∃ act, Event.block (some act) ∈ tr := by
  apply Classical.byContradiction
  intro hno
  apply hne
  apply C17_run_frozen_without_actions env s s' tr hrun
  intro a ha
  cases a with
  | none => rfl
  | some act => exact absurd ⟨act, ha⟩ hno

/-! ### non-vacuity on literals -/

namespace C17HistWitness
open ReachWitness (env getOk eq_getOk)

/-- a genesis configuration with fee multiplier 1000 on a custom network (TIP-901 active from the start) -/
def cfg : GenesisConfig :=
  { network := .custom02, initCoindata := ⟨[7], 5, .mel, []⟩, stakes := [], initFeePool := 0,
    initFeeMultiplier := 1000 }

/-- the proposer asks for the largest increase -/
def up : ProposerAction := { feeMultiplierDelta := 127, rewardDest := [6] }

def g : State := genesisState cfg
def ssA : Sealed := getOk (sealState env g (some up))
def sA : State := getOk (nextUnsealed env ssA)
def ssN : Sealed := getOk (sealState env g none)
def sN : State := getOk (nextUnsealed env ssN)

theorem sealA_ok : sealState env g (some up) = .ok ssA := eq_getOk (by decide +kernel)
theorem nextA_ok : nextUnsealed env ssA = .ok sA := eq_getOk (by decide +kernel)
theorem sealN_ok : sealState env g none = .ok ssN := eq_getOk (by decide +kernel)
theorem nextN_ok : nextUnsealed env ssN = .ok sN := eq_getOk (by decide +kernel)
theorem batch_ok : applyBatch env g [] default = .ok g := rfl

theorem up_i8 : DeltaIsI8 (some up) := by
  intro act h; cases h; decide

end C17HistWitness

/-- non-vacuity of `C17_block_step` / `C17_block_bound` / `C17_run_u128`: a block (one empty batch) sealed with the
    action `+127` on a multiplier of 1000 opens the next block with 1000 + ⌊7 · 127 / 128⌋ = 1006; sealed without an
    action it opens it with 1000 -/
theorem C17_hist_nonvacuous :
    ∃ (env : Env) (s sA sN : State) (ssA ssN : Sealed) (act : ProposerAction),
      BatchRun env s s ∧ s.feeMultiplier ≤ U128_MAX ∧ DeltaIsI8 (some act) ∧
      sealState env s (some act) = .ok ssA ∧ nextUnsealed env ssA = .ok sA ∧
      sealState env s none = .ok ssN ∧ nextUnsealed env ssN = .ok sN ∧
      s.feeMultiplier = 1000 ∧ sA.feeMultiplier = 1006 ∧ sN.feeMultiplier = 1000 ∧
      RunTrace env s [.batch [] default, .block (some act)] sA ∧
      RunTrace env s [.batch [] default, .block none] sN := by
  open C17HistWitness in
  have hA := C17_block_step_action ReachWitness.env g g sA ssA up (.step (.refl _) batch_ok) sealA_ok nextA_ok
  have hN := C17_block_step_no_action ReachWitness.env g g sN ssN (.step (.refl _) batch_ok) sealN_ok nextN_ok
  refine ⟨ReachWitness.env, g, sA, sN, ssA, ssN, up, .step (.refl _) batch_ok,
    (by show 1000 ≤ U128_MAX; decide), up_i8, sealA_ok, nextA_ok, sealN_ok,
    nextN_ok, rfl, ?_, hN, ?_, ?_⟩
  · rw [hA]; decide
  · exact .step (.step (.refl _) (.batch batch_ok)) (.block sealA_ok nextA_ok)
  · exact .step (.step (.refl _) (.batch batch_ok)) (.block sealN_ok nextN_ok)

end Mel

#print axioms Mel.C17_batch_keeps_multiplier
#print axioms Mel.C17_next_keeps_multiplier
#print axioms Mel.C17_batches_keep_multiplier
#print axioms Mel.C17_block_step
#print axioms Mel.C17_block_step_action
#print axioms Mel.C17_block_step_no_action
#print axioms Mel.C17_step_u128
#print axioms Mel.C17_block_bound
#print axioms Mel.C17_block_bound_needs_i8
#print axioms Mel.C17_batch_bound
#print axioms Mel.C17_run_u128
#print axioms Mel.C17_reachable_u128
#print axioms Mel.C17_trace_bound
#print axioms Mel.C17_run_frozen_without_actions
#print axioms Mel.C17_run_changes_only_by_actions
#print axioms Mel.C17_hist_nonvacuous
