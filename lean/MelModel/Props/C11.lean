/-
  C11 — Covenant cost is bounded by what is paid for.
  Property theorems only; helper lemmas live in MelModel/Lemmas/Cost.lean.
-/
import MelModel.VM.Exec
import MelModel.Lemmas.Cost
namespace Mel.VM
open Mel

/-- every table weight is at least 1 (generated table) -/
theorem C11_opWeight_pos (op : Op) : 1 ≤ opWeight op := opWeight_pos op

/-- the value the code computes is the mathematical weight saturated at `u128::MAX` -/
theorem C11_weight_saturates (ops : List Op) : weight ops = min (weightU ops) U128_MAX := by
  unfold weight weightU
  exact weightSF_eq _ _

/-- (i) the number of executed instructions never exceeds the (un-saturated) weight,
    whatever the fuel, the oracles and the initial heap. -/
theorem C11_steps_le_weight (o : Oracles) (ops : List Op) (heap : Heap) (fuel : Nat) :
    (runFuel o ops fuel (initExec heap) 0).2 ≤ weightU ops := by
  have h := runFuel_steps_le o ops fuel (initExec heap) 0
  rw [phi_init] at h
  omega

/-- … hence execution terminates: the fuel `weightU ops + 1` used by `run` is never
    exhausted — any larger fuel gives the same result and step count. -/
theorem C11_fuel_sufficient (o : Oracles) (ops : List Op) (heap : Heap) (fuel : Nat)
    (h : weightU ops + 1 ≤ fuel) :
    runFuel o ops fuel (initExec heap) 0 = runFuel o ops (weightU ops + 1) (initExec heap) 0 := by
  apply runFuel_fuel_indep <;> rw [phi_init] <;> omega

/-- with a weight below the u128 cap, steps ≤ the weight the spender is charged for -/
theorem C11_steps_le_charged (o : Oracles) (ops : List Op) (heap : Heap)
    (h : weight ops < U128_MAX) : runSteps o ops heap ≤ weight ops := by
  have h1 := C11_steps_le_weight o ops heap (weightU ops + 1)
  have h2 := C11_weight_saturates ops
  unfold runSteps
  omega

/-- (ii, negation) weighing is exponential in the number of stacked `Loop`s (finding F2):
    `n` consecutive `Loop 1 1000` instructions cost at least `2^n` calls.
    The hypothesis `n ≤ 1000` is necessary: the body slice of each `Loop 1 1000` covers at most
    1000 instructions, so from `n = 1002` on the count grows more slowly than `2^n`
    (see `weigh_exponential_fails`). -/
theorem C11_weigh_exponential (n : Nat) (hn : n ≤ 1000) :
    2 ^ n ≤ weighWork (List.replicate n (Op.loop 1 1000)) + 1 := by
  unfold weighWork
  rw [weighWorkF_replicate 1 _ n (by simp) (by omega)]
  exact Nat.le_refl _

/-- the un-restricted statement is false: at `n = 1002` the count is `3 * 2^1000 - 1 < 2^1002 - 1`
    (stated with `k = 1000` symbolic to keep the numerals out of the kernel's way) -/
theorem weigh_exponential_fails (k : Nat) (hk : k = 1000) :
    ¬ 2 ^ (k + 2) ≤ weighWork (List.replicate (k + 2) (Op.loop 1 1000)) + 1 := by
  unfold weighWork
  rw [weighWorkF_replicate_clipped 1 _ k hk (by simp), Nat.pow_succ, Nat.pow_succ]
  have pos : 0 < 2 ^ k := Nat.pow_pos (by omega)
  omega

end Mel.VM

#print axioms Mel.VM.C11_opWeight_pos
#print axioms Mel.VM.C11_weight_saturates
#print axioms Mel.VM.C11_steps_le_weight
#print axioms Mel.VM.C11_fuel_sufficient
#print axioms Mel.VM.C11_steps_le_charged
#print axioms Mel.VM.C11_weigh_exponential
#print axioms Mel.VM.weigh_exponential_fails
