/-
  C11 — Covenant cost is bounded by what is paid for.
  Property theorems only; helper lemmas live in MelModel/Lemmas/Cost.lean.
-/
import MelModel.VM.Exec
import MelModel.Lemmas.Cost
namespace Mel.VM
open Mel

/-- every table weight is at least 1 (generated table) -/
theorem C11_opWeight_pos (op : Op) : 1 ≤ opWeight op := by
  sorry

/-- the value the code computes is the mathematical weight saturated at `u128::MAX` -/
theorem C11_weight_saturates (ops : List Op) : weight ops = min (weightU ops) U128_MAX := by
  sorry

/-- (i) the number of executed instructions never exceeds the (un-saturated) weight,
    whatever the fuel, the oracles and the initial heap. -/
theorem C11_steps_le_weight (o : Oracles) (ops : List Op) (heap : Heap) (fuel : Nat) :
    (runFuel o ops fuel (initExec heap) 0).2 ≤ weightU ops := by
  sorry

/-- … hence execution terminates: the fuel `weightU ops + 1` used by `run` is never
    exhausted — any larger fuel gives the same result and step count. -/
theorem C11_fuel_sufficient (o : Oracles) (ops : List Op) (heap : Heap) (fuel : Nat)
    (h : weightU ops + 1 ≤ fuel) :
    runFuel o ops fuel (initExec heap) 0 = runFuel o ops (weightU ops + 1) (initExec heap) 0 := by
  sorry

/-- with a weight below the u128 cap, steps ≤ the weight the spender is charged for -/
theorem C11_steps_le_charged (o : Oracles) (ops : List Op) (heap : Heap)
    (h : weight ops < U128_MAX) : runSteps o ops heap ≤ weight ops := by
  sorry

/-- (ii, negation) weighing is exponential in the number of stacked `Loop`s (finding F2):
    `n` consecutive `Loop 1 1000` instructions cost at least `2^n` calls. -/
theorem C11_weigh_exponential (n : Nat) :
    2 ^ n ≤ weighWork (List.replicate n (Op.loop 1 1000)) + 1 := by
  sorry

end Mel.VM
