/-
  C11 — Covenant cost is bounded by what is paid for.
  Property theorems only; helper lemmas live in MelModel/Lemmas/Cost.lean.
-/
import MelModel.VM.Exec
import MelModel.Lemmas.Cost
import MelModel.Lemmas.WeighDP
namespace Mel.VM
open Mel

/-- every table weight is at least 1 (generated table) -/
theorem C11_opWeight_pos (op : Op) : 1 ≤ opWeight op := opWeight_pos op

/-- the value the code computes is the mathematical weight saturated at `u128::MAX` -/
theorem C11_weight_saturates (ops : List Op) : weight ops = min (weightU ops) U128_MAX := by
  unfold weight weightU
  exact weightSF_eq _ _

/-- (i) the number of executed instructions never exceeds the (un-saturated) weight,
    whatever the fuel, the oracles and the initial heap. -/
theorem C11_steps_le_weight (o : Oracles) (ops : List Op) (heap : Heap) (fuel : Nat) :
    (runFuel o ops fuel (initExec heap) 0).2 ≤ weightU ops := by
  have h := runFuel_steps_le o ops fuel (initExec heap) 0
  rw [phi_init] at h
  omega

/-- … hence execution terminates: the fuel `weightU ops + 1` used by `run` is never
    exhausted — any larger fuel gives the same result and step count. -/
theorem C11_fuel_sufficient (o : Oracles) (ops : List Op) (heap : Heap) (fuel : Nat)
    (h : weightU ops + 1 ≤ fuel) :
    runFuel o ops fuel (initExec heap) 0 = runFuel o ops (weightU ops + 1) (initExec heap) 0 := by
  apply runFuel_fuel_indep <;> rw [phi_init] <;> omega

/-- with a weight below the u128 cap, steps ≤ the weight the spender is charged for -/
theorem C11_steps_le_charged (o : Oracles) (ops : List Op) (heap : Heap)
    (h : weight ops < U128_MAX) : runSteps o ops heap ≤ weight ops := by
  have h1 := C11_steps_le_weight o ops heap (weightU ops + 1)
  have h2 := C11_weight_saturates ops
  unfold runSteps
  omega

/-- (ii, negation — the OLD algorithm) the recursion `weighWork`, which was literally the old implementation
    of `opcodes_weight`, is exponential in the number of stacked `Loop`s (finding F2, now fixed):
    `n` consecutive `Loop 1 1000` instructions cost at least `2^n` calls.
    `weighWork` is retained in the model as the recursion scheme of the specification `weight` and as the
    record of finding F2; the implementation is now `weightDP` / `weighWorkDP` (see below).
    The hypothesis `n ≤ 1000` is necessary: the body slice of each `Loop 1 1000` covers at most
    1000 instructions, so from `n = 1002` on the count grows more slowly than `2^n`
    (see `weigh_exponential_fails`). -/
theorem C11_weigh_exponential (n : Nat) (hn : n ≤ 1000) :
    2 ^ n ≤ weighWork (List.replicate n (Op.loop 1 1000)) + 1 := by
  unfold weighWork
  rw [weighWorkF_replicate 1 _ n (by simp) (by omega)]
  exact Nat.le_refl _

/-- (the OLD algorithm, `weighWork`, as above) the un-restricted statement is false: at `n = 1002` the count
    is `3 * 2^1000 - 1 < 2^1002 - 1`
    (stated with `k = 1000` symbolic to keep the numerals out of the kernel's way) -/
theorem weigh_exponential_fails (k : Nat) (hk : k = 1000) :
    ¬ 2 ^ (k + 2) ≤ weighWork (List.replicate (k + 2) (Op.loop 1 1000)) + 1 := by
  unfold weighWork
  rw [weighWorkF_replicate_clipped 1 _ k hk (by simp), Nat.pow_succ, Nat.pow_succ]
  have pos : 0 < 2 ^ k := Nat.pow_pos (by omega)
  omega

/-! ### the weigher as implemented since the fix for F2 (`weightDP`, `weighWorkDP`) -/

/-- THE refinement theorem: for every program (no bound on size or nesting) the dynamic-programming weigher
    returns exactly the specification's saturating weight. -/
theorem C11_weightDP_eq_weight (ops : List Op) : weightDP ops = weight ops :=
  weightDP_eq_weight ops

/-- hence the charged weight is what the implementation computes: with a weight below the u128 cap,
    steps ≤ the value `opcodes_weight` returns -/
theorem C11_steps_le_charged_impl (o : Oracles) (ops : List Op) (heap : Heap)
    (h : weightDP ops < U128_MAX) : runSteps o ops heap ≤ weightDP ops := by
  rw [C11_weightDP_eq_weight] at h ⊢
  exact C11_steps_le_charged o ops heap h

/-- (ii) the work of the new weigher is quadratic in the program length — sharp form: the ends are distinct
    numbers `≤ ops.length`, so the pass steps sum to at most `0 + 1 + … + ops.length` -/
theorem C11_weigh_quadratic_sharp (ops : List Op) :
    2 * weighWorkDP ops ≤ ops.length * (ops.length + 1) :=
  two_weighWorkDP_le ops

theorem C11_weigh_quadratic (ops : List Op) : weighWorkDP ops ≤ ops.length * (ops.length + 1) := by
  have := C11_weigh_quadratic_sharp ops
  omega

/-- one pass of at most `ops.length` steps per distinct end … -/
theorem C11_weigh_linear_in_ends (ops : List Op) :
    weighWorkDP ops ≤ ops.length * (weighEnds ops).length :=
  weighWorkDP_le_mul_ends ops

/-- … and there is at most one end per `Loop` instruction, plus the end of the program -/
theorem C11_ends_le (ops : List Op) : (weighEnds ops).length ≤ (ops.filter Op.isLoop).length + 1 :=
  length_weighEnds_le ops

/-- the program that took the old weigher `≥ 2^n` calls (`C11_weigh_exponential`) now takes `≤ n (n + 1)` steps -/
theorem C11_weigh_stacked_loops (n : Nat) :
    weighWorkDP (List.replicate n (Op.loop 1 1000)) ≤ n * (n + 1) := by
  have := C11_weigh_quadratic (List.replicate n (Op.loop 1 1000))
  rwa [List.length_replicate] at this

/-! sanity (non-vacuity): the two weighers on concrete programs, including nested clipped loops -/
example : weightDP [Op.loop 3 1, Op.add] = weight [Op.loop 3 1, Op.add] := by decide
example : weightDP [Op.loop 3 1, Op.add] = 17 := by decide
example : weightDP [Op.loop 2 5, Op.loop 3 1, Op.add, Op.loop 4 7, Op.mul, Op.add]
    = weight [Op.loop 2 5, Op.loop 3 1, Op.add, Op.loop 4 7, Op.mul, Op.add] := by decide
/-- the inner loop's body (natural end 5) is clipped to `[2, 3)` inside the outer loop's body `[1, 3)` -/
example : weightDP [Op.loop 2 2, Op.loop 3 5, Op.add, Op.mul, Op.add]
    = weight [Op.loop 2 2, Op.loop 3 5, Op.add, Op.mul, Op.add] := by decide
example : weighEnds [Op.loop 2 5, Op.loop 3 1, Op.add, Op.loop 4 7, Op.mul, Op.add] = [3, 6] := by decide
example : weighWorkDP [Op.loop 2 5, Op.loop 3 1, Op.add, Op.loop 4 7, Op.mul, Op.add] = 9 := by decide

end Mel.VM

#print axioms Mel.VM.C11_opWeight_pos
#print axioms Mel.VM.C11_weight_saturates
#print axioms Mel.VM.C11_steps_le_weight
#print axioms Mel.VM.C11_fuel_sufficient
#print axioms Mel.VM.C11_steps_le_charged
#print axioms Mel.VM.C11_weigh_exponential
#print axioms Mel.VM.weigh_exponential_fails
#print axioms Mel.VM.C11_weightDP_eq_weight
#print axioms Mel.VM.C11_steps_le_charged_impl
#print axioms Mel.VM.C11_weigh_quadratic_sharp
#print axioms Mel.VM.C11_weigh_quadratic
#print axioms Mel.VM.C11_weigh_linear_in_ends
#print axioms Mel.VM.C11_ends_le
#print axioms Mel.VM.C11_weigh_stacked_loops
