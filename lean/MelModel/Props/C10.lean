/-
  C10 — The executor (`MelModel/VM/Exec.lean`) satisfies the documented MelVM semantics.
  Property theorems only; helper lemmas (and the definitions `Op.isStraight`, `stepN`, `straight`,
  `iter` used by the loop law) live in MelModel/Lemmas/Exec.lean.

  Conventions: `st.stack` has its top at the head. `st.next s` is the successor state of a
  non-jumping instruction: stack `s`, `pc + 1`, *same heap, same loop stack*.
  Theorems whose name ends in `_actual` record behaviour of the model (= of the code it mirrors)
  that deviates from the documented law; each is preceded by an explanation.
-/
import MelModel.VM.Exec
import MelModel.Lemmas.Exec
import MelModel.Lemmas.Cost
namespace Mel.VM
open Mel

/-- successor state of a non-jumping instruction: new stack `s`, `pc + 1`, same heap, same loops -/
abbrev Exec.next (st : Exec) (s : List Value) : Exec := { st with stack := s, pc := st.pc + 1 }

/-! ## 1. Arithmetic (mod 2^256) -/

theorem C10_add (o : Oracles) (st : Exec) (a b : U256) (rest : List Value)
    (hs : st.stack = .int a :: .int b :: rest) :
    execOp o .add st = some (st.next (.int (a + b) :: rest)) := by
  simp [execOp, binop, intBin, hs]

theorem C10_add_toNat (o : Oracles) (st : Exec) (a b : U256) (rest : List Value)
    (hs : st.stack = .int a :: .int b :: rest) :
    ∃ r : U256, execOp o .add st = some (st.next (.int r :: rest)) ∧
      r.toNat = (a.toNat + b.toNat) % 2 ^ 256 :=
  ⟨a + b, C10_add o st a b rest hs, BitVec.toNat_add a b⟩

/-- top minus second, wrapping -/
theorem C10_sub (o : Oracles) (st : Exec) (a b : U256) (rest : List Value)
    (hs : st.stack = .int a :: .int b :: rest) :
    execOp o .sub st = some (st.next (.int (a - b) :: rest)) := by
  simp [execOp, binop, intBin, hs]

theorem C10_sub_toNat (o : Oracles) (st : Exec) (a b : U256) (rest : List Value)
    (hs : st.stack = .int a :: .int b :: rest) :
    ∃ r : U256, execOp o .sub st = some (st.next (.int r :: rest)) ∧
      r.toNat = (a.toNat + (2 ^ 256 - b.toNat)) % 2 ^ 256 ∧
      (b.toNat ≤ a.toNat → r.toNat = a.toNat - b.toNat) := by
  refine ⟨a - b, C10_sub o st a b rest hs, ?_, ?_⟩
  · rw [BitVec.toNat_sub, Nat.add_comm]
  · intro h
    exact BitVec.toNat_sub_of_le (BitVec.le_def.mpr h)

theorem C10_mul (o : Oracles) (st : Exec) (a b : U256) (rest : List Value)
    (hs : st.stack = .int a :: .int b :: rest) :
    execOp o .mul st = some (st.next (.int (a * b) :: rest)) := by
  simp [execOp, binop, intBin, hs]

theorem C10_mul_toNat (o : Oracles) (st : Exec) (a b : U256) (rest : List Value)
    (hs : st.stack = .int a :: .int b :: rest) :
    ∃ r : U256, execOp o .mul st = some (st.next (.int r :: rest)) ∧
      r.toNat = (a.toNat * b.toNat) % 2 ^ 256 :=
  ⟨a * b, C10_mul o st a b rest hs, BitVec.toNat_mul a b⟩

/-- top divided by second; division by zero fails -/
theorem C10_div (o : Oracles) (st : Exec) (a b : U256) (rest : List Value)
    (hs : st.stack = .int a :: .int b :: rest) :
    execOp o .div st = if b = 0 then none else some (st.next (.int (a / b) :: rest)) := by
  simp only [execOp, binop, intBin, hs]
  split <;> simp_all

theorem C10_div_none_iff (o : Oracles) (st : Exec) (a b : U256) (rest : List Value)
    (hs : st.stack = .int a :: .int b :: rest) :
    execOp o .div st = none ↔ b = 0 := by
  rw [C10_div o st a b rest hs]; split <;> simp_all

theorem C10_div_toNat (o : Oracles) (st : Exec) (a b : U256) (rest : List Value)
    (hs : st.stack = .int a :: .int b :: rest) (hb : b ≠ 0) :
    ∃ r : U256, execOp o .div st = some (st.next (.int r :: rest)) ∧
      r.toNat = a.toNat / b.toNat := by
  refine ⟨a / b, ?_, BitVec.toNat_udiv⟩
  rw [C10_div o st a b rest hs, if_neg hb]

theorem C10_rem (o : Oracles) (st : Exec) (a b : U256) (rest : List Value)
    (hs : st.stack = .int a :: .int b :: rest) :
    execOp o .rem st = if b = 0 then none else some (st.next (.int (a % b) :: rest)) := by
  simp only [execOp, binop, intBin, hs]
  split <;> simp_all

theorem C10_rem_none_iff (o : Oracles) (st : Exec) (a b : U256) (rest : List Value)
    (hs : st.stack = .int a :: .int b :: rest) :
    execOp o .rem st = none ↔ b = 0 := by
  rw [C10_rem o st a b rest hs]; split <;> simp_all

theorem C10_rem_toNat (o : Oracles) (st : Exec) (a b : U256) (rest : List Value)
    (hs : st.stack = .int a :: .int b :: rest) (hb : b ≠ 0) :
    ∃ r : U256, execOp o .rem st = some (st.next (.int r :: rest)) ∧
      r.toNat = a.toNat % b.toNat := by
  refine ⟨a % b, ?_, BitVec.toNat_umod⟩
  rw [C10_rem o st a b rest hs, if_neg hb]

/-! ## 2. Exponentiation with a bit budget -/

/-- `exp k` (base `b` on top, exponent `e` second) succeeds iff the exponent fits in `k + 1` bits,
    and then pushes `b ^ e mod 2^256` -/
theorem C10_exp (o : Oracles) (st : Exec) (k : UInt8) (b e : U256) (rest : List Value)
    (hs : st.stack = .int b :: .int e :: rest) :
    execOp o (.exp k) st =
      if e.toNat < 2 ^ (k.toNat + 1)
      then some (st.next (.int (BitVec.ofNat 256 (b.toNat ^ e.toNat)) :: rest))
      else none := by
  have h := expLoop_eq 256 e.toNat b.toNat 1 (k.toNat + 1) e.isLt
    (by unfold U256_MOD; exact Nat.one_lt_two_pow (by omega))
  simp only [execOp, binop, intBin, hs, h]
  split
  · simp [ofNat_mod_U256]
  · simp

theorem C10_exp_some_iff (o : Oracles) (st : Exec) (k : UInt8) (b e : U256) (rest : List Value)
    (hs : st.stack = .int b :: .int e :: rest) :
    (execOp o (.exp k) st).isSome ↔ e.toNat < 2 ^ (k.toNat + 1) := by
  rw [C10_exp o st k b e rest hs]; split <;> simp_all

theorem C10_exp_toNat (o : Oracles) (st : Exec) (k : UInt8) (b e : U256) (rest : List Value)
    (hs : st.stack = .int b :: .int e :: rest) (he : e.toNat < 2 ^ (k.toNat + 1)) :
    ∃ r : U256, execOp o (.exp k) st = some (st.next (.int r :: rest)) ∧
      r.toNat = b.toNat ^ e.toNat % 2 ^ 256 := by
  refine ⟨_, ?_, BitVec.toNat_ofNat _ _⟩
  rw [C10_exp o st k b e rest hs, if_pos he]

/-! ## 3. Logic, comparison, shifts -/

theorem C10_and (o : Oracles) (st : Exec) (a b : U256) (rest : List Value)
    (hs : st.stack = .int a :: .int b :: rest) :
    execOp o .and st = some (st.next (.int (a &&& b) :: rest)) := by
  simp [execOp, binop, intBin, hs]

theorem C10_or (o : Oracles) (st : Exec) (a b : U256) (rest : List Value)
    (hs : st.stack = .int a :: .int b :: rest) :
    execOp o .or st = some (st.next (.int (a ||| b) :: rest)) := by
  simp [execOp, binop, intBin, hs]

theorem C10_xor (o : Oracles) (st : Exec) (a b : U256) (rest : List Value)
    (hs : st.stack = .int a :: .int b :: rest) :
    execOp o .xor st = some (st.next (.int (a ^^^ b) :: rest)) := by
  simp [execOp, binop, intBin, hs]

theorem C10_not (o : Oracles) (st : Exec) (a : U256) (rest : List Value)
    (hs : st.stack = .int a :: rest) :
    execOp o .not st = some (st.next (.int (~~~ a) :: rest)) := by
  simp [execOp, monop, Value.intoInt, hs]

theorem C10_eql (o : Oracles) (st : Exec) (a b : U256) (rest : List Value)
    (hs : st.stack = .int a :: .int b :: rest) :
    execOp o .eql st = some (st.next (.int (if a = b then 1 else 0) :: rest)) := by
  simp [execOp, binop, intBin, hs]

/-- unsigned comparison, top against second: pushes 1 iff `top < second` -/
theorem C10_lt (o : Oracles) (st : Exec) (a b : U256) (rest : List Value)
    (hs : st.stack = .int a :: .int b :: rest) :
    execOp o .lt st = some (st.next (.int (if a.toNat < b.toNat then 1 else 0) :: rest)) := by
  simp [execOp, binop, intBin, hs, BitVec.lt_def]

/-- pushes 1 iff `top > second` (unsigned) -/
theorem C10_gt (o : Oracles) (st : Exec) (a b : U256) (rest : List Value)
    (hs : st.stack = .int a :: .int b :: rest) :
    execOp o .gt st = some (st.next (.int (if a.toNat > b.toNat then 1 else 0) :: rest)) := by
  simp [execOp, binop, intBin, hs, BitVec.lt_def, GT.gt]

/-- shifts the top by (second mod 256) -/
theorem C10_shl (o : Oracles) (st : Exec) (a off : U256) (rest : List Value)
    (hs : st.stack = .int a :: .int off :: rest) :
    execOp o .shl st = some (st.next (.int (a <<< (off.toNat % 256)) :: rest)) := by
  simp [execOp, binop, intBin, hs]

theorem C10_shl_toNat (a off : U256) :
    (a <<< (off.toNat % 256)).toNat = a.toNat * 2 ^ (off.toNat % 256) % 2 ^ 256 := by
  rw [BitVec.toNat_shiftLeft, Nat.shiftLeft_eq]

theorem C10_shr (o : Oracles) (st : Exec) (a off : U256) (rest : List Value)
    (hs : st.stack = .int a :: .int off :: rest) :
    execOp o .shr st = some (st.next (.int (a >>> (off.toNat % 256)) :: rest)) := by
  simp [execOp, binop, intBin, hs]

theorem C10_shr_toNat (a off : U256) :
    (a >>> (off.toNat % 256)).toNat = a.toNat / 2 ^ (off.toNat % 256) := by
  rw [BitVec.toNat_ushiftRight, Nat.shiftRight_eq_div_pow]

/-! ## 4. Hash and signature check -/

theorem C10_hash (o : Oracles) (st : Exec) (n : UInt16) (b : Bytes) (rest : List Value)
    (hs : st.stack = .bytes b :: rest) :
    execOp o (.hash n) st =
      if b.length > n.toNat then none else some (st.next (.bytes (o.hash b) :: rest)) := by
  simp only [execOp, monop, hs]
  split <;> simp_all

theorem C10_hash_none_iff (o : Oracles) (st : Exec) (n : UInt16) (b : Bytes) (rest : List Value)
    (hs : st.stack = .bytes b :: rest) :
    execOp o (.hash n) st = none ↔ b.length > n.toNat := by
  rw [C10_hash o st n b rest hs]; split <;> simp_all

/-- a public key longer than 32 bytes gives 0 — whatever the message and the signature are
    (see `C10_sigeok_type_error_masked_actual`) -/
theorem C10_sigeok_pk_long (o : Oracles) (st : Exec) (n : UInt16) (msg sig : Value) (pk : Bytes)
    (rest : List Value) (hs : st.stack = msg :: .bytes pk :: sig :: rest) (hpk : pk.length > 32) :
    execOp o (.sigeok n) st = some (st.next (.int 0 :: rest)) := by
  simp [execOp, triop, hs, hpk, Value.ofBool]

theorem C10_sigeok_pk_short (o : Oracles) (st : Exec) (n : UInt16) (msg sig : Value) (pk : Bytes)
    (rest : List Value) (hs : st.stack = msg :: .bytes pk :: sig :: rest) (hpk : pk.length < 32) :
    execOp o (.sigeok n) st = none := by
  have h1 : ¬ pk.length > 32 := by omega
  have h2 : pk.length ≠ 32 := by omega
  simp [execOp, triop, hs, h1, h2]

theorem C10_sigeok_msg_long (o : Oracles) (st : Exec) (n : UInt16) (sig : Value) (msg pk : Bytes)
    (rest : List Value) (hs : st.stack = .bytes msg :: .bytes pk :: sig :: rest)
    (hpk : pk.length = 32) (hmsg : msg.length > n.toNat) :
    execOp o (.sigeok n) st = none := by
  simp [execOp, triop, hs, hpk, hmsg]

theorem C10_sigeok_sig_badlen (o : Oracles) (st : Exec) (n : UInt16) (msg pk sig : Bytes)
    (rest : List Value) (hs : st.stack = .bytes msg :: .bytes pk :: .bytes sig :: rest)
    (hpk : pk.length = 32) (hmsg : msg.length ≤ n.toNat) (hsig : sig.length ≠ 64) :
    execOp o (.sigeok n) st = some (st.next (.int 0 :: rest)) := by
  have h1 : ¬ msg.length > n.toNat := by omega
  by_cases h2 : sig.length > 64 <;> simp [execOp, triop, hs, hpk, h1, h2, hsig, Value.ofBool]

theorem C10_sigeok_ok (o : Oracles) (st : Exec) (n : UInt16) (msg pk sig : Bytes)
    (rest : List Value) (hs : st.stack = .bytes msg :: .bytes pk :: .bytes sig :: rest)
    (hpk : pk.length = 32) (hmsg : msg.length ≤ n.toNat) (hsig : sig.length = 64) :
    execOp o (.sigeok n) st =
      some (st.next (.int (if o.sigOk pk msg sig then 1 else 0) :: rest)) := by
  have h1 : ¬ msg.length > n.toNat := by omega
  simp [execOp, triop, hs, hpk, h1, hsig, Value.ofBool]

/-- type errors of `sigeok` that do fail: a public key that is not a byte string; with a 32-byte
    key, a message that is not a byte string; with a message within bounds, a signature that is
    not a byte string -/
theorem C10_sigeok_type_error (o : Oracles) (st : Exec) (n : UInt16) (msg pk sig : Value)
    (rest : List Value) (hs : st.stack = msg :: pk :: sig :: rest)
    (h : (∀ p, pk ≠ .bytes p) ∨
         (∃ p, pk = .bytes p ∧ p.length = 32 ∧
            ((∀ m, msg ≠ .bytes m) ∨
             (∃ m, msg = .bytes m ∧ m.length ≤ n.toNat ∧ ∀ s, sig ≠ .bytes s)))) :
    execOp o (.sigeok n) st = none := by
  rcases h with h | ⟨p, rfl, hp, h | ⟨m, rfl, hm, h⟩⟩
  · cases pk <;> simp_all [execOp, triop]
  · cases msg <;> simp_all [execOp, triop]
  · have h1 : ¬ m.length > n.toNat := by omega
    cases sig <;> simp_all [execOp, triop]

/-- DEVIATION (from law 7, "an operand of the wrong type gives `none`"): the length of the public
    key is examined before the types of the message and of the signature, so with an over-long key
    `sigeok` succeeds with 0 even when the message and the signature are not byte strings -/
theorem C10_sigeok_type_error_masked_actual (o : Oracles) (st : Exec) (n : UInt16) (x : U256)
    (l : List Value) (pk : Bytes) (rest : List Value)
    (hs : st.stack = .int x :: .bytes pk :: .vec l :: rest) (hpk : pk.length > 32) :
    execOp o (.sigeok n) st = some (st.next (.int 0 :: rest)) :=
  C10_sigeok_pk_long o st n _ _ pk rest hs hpk

/-! ## 5. Heap -/

theorem C10_heap_get_set (h : Heap) (i j : Nat) (v : Value) :
    Heap.get (Heap.set h i v) j = if i = j then some v else Heap.get h j := by
  simp [Heap.get, Heap.set]

theorem C10_heap_get_set_same (h : Heap) (i : Nat) (v : Value) :
    Heap.get (Heap.set h i v) i = some v := by
  simp [Heap.get, Heap.set]

/-- a store to address `i` does not change what a load from `j ≠ i` returns -/
theorem C10_heap_get_set_other (h : Heap) (i j : Nat) (v : Value) (hij : j ≠ i) :
    Heap.get (Heap.set h i v) j = Heap.get h j := by
  have : ¬ i = j := fun e => hij e.symm
  simp [Heap.get, Heap.set, this]

theorem C10_storeimm (o : Oracles) (st : Exec) (i : UInt16) (v : Value) (rest : List Value)
    (hs : st.stack = v :: rest) :
    execOp o (.storeimm i) st =
      some { st with stack := rest, heap := st.heap.set i.toNat v, pc := st.pc + 1 } := by
  simp [execOp, hs]

theorem C10_loadimm (o : Oracles) (st : Exec) (i : UInt16) :
    execOp o (.loadimm i) st = (st.heap.get i.toNat).map fun v => st.next (v :: st.stack) := by
  simp only [execOp]
  cases st.heap.get i.toNat <;> rfl

/-- `loadimm` of an unset address fails -/
theorem C10_loadimm_unset (o : Oracles) (st : Exec) (i : UInt16)
    (h : st.heap.get i.toNat = none) : execOp o (.loadimm i) st = none := by
  rw [C10_loadimm, h]; rfl

/-- `storeimm i` then `loadimm i` returns the stored value -/
theorem C10_storeimm_loadimm (o : Oracles) (st : Exec) (i : UInt16) (v : Value)
    (rest : List Value) (hs : st.stack = v :: rest) :
    (execOp o (.storeimm i) st).bind (execOp o (.loadimm i)) =
      some { st with stack := v :: rest, heap := st.heap.set i.toNat v, pc := st.pc + 2 } := by
  rw [C10_storeimm o st i v rest hs]
  simp [C10_loadimm, C10_heap_get_set_same]

/-- `store`: address on top, value second; fails iff the address exceeds 65535 -/
theorem C10_store (o : Oracles) (st : Exec) (a : U256) (v : Value) (rest : List Value)
    (hs : st.stack = .int a :: v :: rest) :
    execOp o .store st =
      if a.toNat > 65535 then none
      else some { st with stack := rest, heap := st.heap.set a.toNat v, pc := st.pc + 1 } := by
  simp only [execOp, hs, Value.intoU16]
  split <;> simp

/-- `load`: address on top; fails iff the address exceeds 65535 or is unset -/
theorem C10_load (o : Oracles) (st : Exec) (a : U256) (rest : List Value)
    (hs : st.stack = .int a :: rest) :
    execOp o .load st =
      if a.toNat > 65535 then none
      else (st.heap.get a.toNat).map fun v => st.next (v :: rest) := by
  simp only [execOp, hs, Value.intoU16]
  split
  · simp
  · simp only [Option.bind_some]
    cases st.heap.get a.toNat <;> rfl

/-- `store` then `load` of the same address returns the stored value -/
theorem C10_store_load (o : Oracles) (st : Exec) (a : U256) (v : Value) (rest : List Value)
    (hs : st.stack = .int a :: v :: rest) (ha : a.toNat ≤ 65535) :
    ∃ st1, execOp o .store st = some st1 ∧ st1.stack = rest ∧
      ∀ st2, st2.heap = st1.heap → st2.stack = .int a :: rest →
        execOp o .load st2 = some (st2.next (v :: rest)) := by
  have h1 : ¬ a.toNat > 65535 := by omega
  refine ⟨_, by rw [C10_store o st a v rest hs, if_neg h1], rfl, ?_⟩
  intro st2 hh hs2
  rw [C10_load o st2 a rest hs2, if_neg h1, hh]
  simp [C10_heap_get_set_same]

/-! ## 6. Vectors and byte strings

  Indices are read with `into_u16`: an index above 65535 makes the instruction fail *before*
  the length is looked at.  For `vref`/`bref`/`vset`/`bset` this only matters for a vector longer
  than 65536 (reachable by repeated `vappend`); for slices it changes the documented result. -/

/-- DEVIATION: `vref` (vector on top, index second) fails iff `i ≥ length` **or `i > 65535`** -/
theorem C10_vref_actual (o : Oracles) (st : Exec) (l : List Value) (i : U256) (rest : List Value)
    (hs : st.stack = .vec l :: .int i :: rest) :
    execOp o .vref st =
      if i.toNat > 65535 then none else (l[i.toNat]?).map fun v => st.next (v :: rest) := by
  simp only [execOp, binop, hs, Value.intoU16, Value.intoVec]
  split
  · simp
  · cases h : l[i.toNat]? <;> simp [h]

/-- the documented law holds for vectors of at most 65536 elements -/
theorem C10_vref (o : Oracles) (st : Exec) (l : List Value) (i : U256) (rest : List Value)
    (hs : st.stack = .vec l :: .int i :: rest) (hl : l.length ≤ 65536) :
    execOp o .vref st = (l[i.toNat]?).map (fun v => st.next (v :: rest)) ∧
    (execOp o .vref st = none ↔ i.toNat ≥ l.length) := by
  rw [C10_vref_actual o st l i rest hs]
  by_cases h : i.toNat > 65535
  · have : l[i.toNat]? = none := List.getElem?_eq_none (by omega)
    simp [h, this]; omega
  · simp [h]

/-- witness of the deviation: index 65536 of a 65537-element vector is in range, yet `vref` fails -/
theorem C10_vref_long_vector_actual (o : Oracles) (st : Exec) (rest : List Value)
    (hs : st.stack = .vec (List.replicate 65537 (.int 0)) :: .int 65536 :: rest) :
    execOp o .vref st = none ∧
      (65536 : U256).toNat < (List.replicate 65537 (Value.int 0)).length := by
  have hn : (65536 : U256).toNat = 65536 := by decide
  rw [C10_vref_actual o st _ _ rest hs, hn, List.length_replicate, if_pos (by omega)]
  exact ⟨rfl, by omega⟩

/-- DEVIATION: as `vref` -/
theorem C10_bref_actual (o : Oracles) (st : Exec) (l : Bytes) (i : U256) (rest : List Value)
    (hs : st.stack = .bytes l :: .int i :: rest) :
    execOp o .bref st =
      if i.toNat > 65535 then none
      else (l[i.toNat]?).map fun b => st.next (.int (BitVec.ofNat 256 b.toNat) :: rest) := by
  simp only [execOp, binop, hs, Value.intoU16, Value.intoBytes, Value.ofNat]
  split
  · simp
  · cases h : l[i.toNat]? <;> simp [h]

theorem C10_bref (o : Oracles) (st : Exec) (l : Bytes) (i : U256) (rest : List Value)
    (hs : st.stack = .bytes l :: .int i :: rest) (hl : l.length ≤ 65536) :
    execOp o .bref st =
      (l[i.toNat]?).map (fun b => st.next (.int (BitVec.ofNat 256 b.toNat) :: rest)) ∧
    (execOp o .bref st = none ↔ i.toNat ≥ l.length) := by
  rw [C10_bref_actual o st l i rest hs]
  by_cases h : i.toNat > 65535
  · have : l[i.toNat]? = none := List.getElem?_eq_none (by omega)
    simp [h, this]; omega
  · simp [h]

/-- DEVIATION: `vset` (vector on top, index second, value third) replaces exactly the `i`-th
    element; fails iff `i ≥ length` **or `i > 65535`** -/
theorem C10_vset_actual (o : Oracles) (st : Exec) (l : List Value) (i : U256) (v : Value)
    (rest : List Value) (hs : st.stack = .vec l :: .int i :: v :: rest) :
    execOp o .vset st =
      if i.toNat > 65535 then none
      else if i.toNat < l.length then some (st.next (.vec (l.set i.toNat v) :: rest))
      else none := by
  simp only [execOp, triop, hs, Value.intoU16, Value.intoVec, listSet_eq]
  split
  · simp
  · split <;> simp [*]

theorem C10_vset (o : Oracles) (st : Exec) (l : List Value) (i : U256) (v : Value)
    (rest : List Value) (hs : st.stack = .vec l :: .int i :: v :: rest) (hl : l.length ≤ 65536) :
    execOp o .vset st =
      if i.toNat < l.length then some (st.next (.vec (l.set i.toNat v) :: rest)) else none := by
  rw [C10_vset_actual o st l i v rest hs]
  by_cases h : i.toNat > 65535
  · have : ¬ i.toNat < l.length := by omega
    simp [h, this]
  · simp [h]

/-- DEVIATION: as `vset`; the stored byte is the low byte of the integer -/
theorem C10_bset_actual (o : Oracles) (st : Exec) (l : Bytes) (i v : U256)
    (rest : List Value) (hs : st.stack = .bytes l :: .int i :: .int v :: rest) :
    execOp o .bset st =
      if i.toNat > 65535 then none
      else if i.toNat < l.length
        then some (st.next (.bytes (l.set i.toNat (UInt8.ofNat (v.toNat % 256))) :: rest))
      else none := by
  simp only [execOp, triop, hs, Value.intoU16, Value.intoBytes, Value.intoTruncU8, listSet_eq]
  split
  · simp
  · split <;> simp_all

theorem C10_bset (o : Oracles) (st : Exec) (l : Bytes) (i v : U256)
    (rest : List Value) (hs : st.stack = .bytes l :: .int i :: .int v :: rest)
    (hl : l.length ≤ 65536) :
    execOp o .bset st =
      if i.toNat < l.length
        then some (st.next (.bytes (l.set i.toNat (UInt8.ofNat (v.toNat % 256))) :: rest))
      else none := by
  rw [C10_bset_actual o st l i v rest hs]
  by_cases h : i.toNat > 65535
  · have : ¬ i.toNat < l.length := by omega
    simp [h, this]
  · simp [h]

/-! The six instructions that grow a byte string or a vector fail when the result's length would not fit a
    `usize` (`USIZE_MAX`; fix for F13: the ropes' length counter used to overflow there).  Each law therefore
    carries the hypothesis that the result's length fits — every list a machine can hold satisfies it — and has
    a companion `…_too_long` for the failing case. -/

/-- first popped ++ second popped -/
theorem C10_vappend (o : Oracles) (st : Exec) (l1 l2 : List Value) (rest : List Value)
    (hs : st.stack = .vec l1 :: .vec l2 :: rest) (hfit : l1.length + l2.length ≤ USIZE_MAX) :
    execOp o .vappend st = some (st.next (.vec (l1 ++ l2) :: rest)) := by
  have hn : ¬ l1.length + l2.length > USIZE_MAX := by omega
  simp [execOp, binop, hs, Value.intoVec, hn]

/-- … and the step fails when the appended vector would be longer than `USIZE_MAX` -/
theorem C10_vappend_too_long (o : Oracles) (st : Exec) (l1 l2 : List Value) (rest : List Value)
    (hs : st.stack = .vec l1 :: .vec l2 :: rest) (hbig : l1.length + l2.length > USIZE_MAX) :
    execOp o .vappend st = none := by
  simp [execOp, binop, hs, Value.intoVec, hbig]

theorem C10_bappend (o : Oracles) (st : Exec) (l1 l2 : Bytes) (rest : List Value)
    (hs : st.stack = .bytes l1 :: .bytes l2 :: rest) (hfit : l1.length + l2.length ≤ USIZE_MAX) :
    execOp o .bappend st = some (st.next (.bytes (l1 ++ l2) :: rest)) := by
  have hn : ¬ l1.length + l2.length > USIZE_MAX := by omega
  simp [execOp, binop, hs, Value.intoBytes, hn]

theorem C10_bappend_too_long (o : Oracles) (st : Exec) (l1 l2 : Bytes) (rest : List Value)
    (hs : st.stack = .bytes l1 :: .bytes l2 :: rest) (hbig : l1.length + l2.length > USIZE_MAX) :
    execOp o .bappend st = none := by
  simp [execOp, binop, hs, Value.intoBytes, hbig]

/-- vector on top, item second: appended at the end -/
theorem C10_vpush (o : Oracles) (st : Exec) (l : List Value) (x : Value) (rest : List Value)
    (hs : st.stack = .vec l :: x :: rest) (hfit : l.length + 1 ≤ USIZE_MAX) :
    execOp o .vpush st = some (st.next (.vec (l ++ [x]) :: rest)) := by
  have hn : ¬ l.length + 1 > USIZE_MAX := by omega
  simp [execOp, binop, hs, Value.intoVec, hn]

theorem C10_vpush_too_long (o : Oracles) (st : Exec) (l : List Value) (x : Value) (rest : List Value)
    (hs : st.stack = .vec l :: x :: rest) (hbig : l.length + 1 > USIZE_MAX) :
    execOp o .vpush st = none := by
  simp [execOp, binop, hs, Value.intoVec, hbig]

/-- item on top, vector second: added at the front -/
theorem C10_vcons (o : Oracles) (st : Exec) (l : List Value) (x : Value) (rest : List Value)
    (hs : st.stack = x :: .vec l :: rest) (hfit : l.length + 1 ≤ USIZE_MAX) :
    execOp o .vcons st = some (st.next (.vec (x :: l) :: rest)) := by
  have hn : ¬ l.length + 1 > USIZE_MAX := by omega
  simp [execOp, binop, hs, Value.intoVec, hn]

theorem C10_vcons_too_long (o : Oracles) (st : Exec) (l : List Value) (x : Value) (rest : List Value)
    (hs : st.stack = x :: .vec l :: rest) (hbig : l.length + 1 > USIZE_MAX) :
    execOp o .vcons st = none := by
  simp [execOp, binop, hs, Value.intoVec, hbig]

/-- the integer is truncated to its low byte -/
theorem C10_bpush (o : Oracles) (st : Exec) (l : Bytes) (v : U256) (rest : List Value)
    (hs : st.stack = .bytes l :: .int v :: rest) (hfit : l.length + 1 ≤ USIZE_MAX) :
    execOp o .bpush st =
      some (st.next (.bytes (l ++ [UInt8.ofNat (v.toNat % 256)]) :: rest)) := by
  have hn : ¬ l.length + 1 > USIZE_MAX := by omega
  simp [execOp, binop, hs, Value.intoBytes, Value.intoTruncU8, hn]

theorem C10_bpush_too_long (o : Oracles) (st : Exec) (l : Bytes) (v : U256) (rest : List Value)
    (hs : st.stack = .bytes l :: .int v :: rest) (hbig : l.length + 1 > USIZE_MAX) :
    execOp o .bpush st = none := by
  simp [execOp, binop, hs, Value.intoBytes, Value.intoTruncU8, hbig]

theorem C10_bcons (o : Oracles) (st : Exec) (l : Bytes) (v : U256) (rest : List Value)
    (hs : st.stack = .int v :: .bytes l :: rest) (hfit : l.length + 1 ≤ USIZE_MAX) :
    execOp o .bcons st =
      some (st.next (.bytes (UInt8.ofNat (v.toNat % 256) :: l) :: rest)) := by
  have hn : ¬ l.length + 1 > USIZE_MAX := by omega
  simp [execOp, binop, hs, Value.intoBytes, Value.intoTruncU8, hn]

theorem C10_bcons_too_long (o : Oracles) (st : Exec) (l : Bytes) (v : U256) (rest : List Value)
    (hs : st.stack = .int v :: .bytes l :: rest) (hbig : l.length + 1 > USIZE_MAX) :
    execOp o .bcons st = none := by
  simp [execOp, binop, hs, Value.intoBytes, Value.intoTruncU8, hbig]

theorem C10_vempty (o : Oracles) (st : Exec) :
    execOp o .vempty st = some (st.next (.vec [] :: st.stack)) := by
  simp [execOp]

theorem C10_bempty (o : Oracles) (st : Exec) :
    execOp o .bempty st = some (st.next (.bytes [] :: st.stack)) := by
  simp [execOp]

theorem C10_vlength (o : Oracles) (st : Exec) (l : List Value) (rest : List Value)
    (hs : st.stack = .vec l :: rest) :
    execOp o .vlength st = some (st.next (.int (BitVec.ofNat 256 l.length) :: rest)) := by
  simp [execOp, monop, hs, Value.ofNat]

theorem C10_blength (o : Oracles) (st : Exec) (l : Bytes) (rest : List Value)
    (hs : st.stack = .bytes l :: rest) :
    execOp o .blength st = some (st.next (.int (BitVec.ofNat 256 l.length) :: rest)) := by
  simp [execOp, monop, hs, Value.ofNat]

/-- DEVIATION: `vslice` (vector on top, begin `b` second, end `e` third) **fails** when `b` or `e`
    exceeds 65535 (the documented result for `e > len` is the empty vector); otherwise it is
    the documented law: empty when `e > len ∨ e < b`, else the elements `[b, e)` -/
theorem C10_vslice_actual (o : Oracles) (st : Exec) (l : List Value) (b e : U256)
    (rest : List Value) (hs : st.stack = .vec l :: .int b :: .int e :: rest) :
    execOp o .vslice st =
      if b.toNat > 65535 ∨ e.toNat > 65535 then none
      else if e.toNat > l.length ∨ e.toNat < b.toNat then some (st.next (.vec [] :: rest))
      else some (st.next (.vec ((l.drop b.toNat).take (e.toNat - b.toNat)) :: rest)) := by
  by_cases h1 : b.toNat > 65535
  · simp [execOp, triop, hs, Value.intoU16, h1]
  · by_cases h2 : e.toNat > 65535
    · simp [execOp, triop, hs, Value.intoU16, h1, h2]
    · by_cases h3 : e.toNat > l.length ∨ e.toNat < b.toNat
      · simp [execOp, triop, hs, Value.intoU16, slice, h1, h2, h3]
      · simp [execOp, triop, hs, Value.intoU16, slice, h1, h2, h3]

/-- the documented law, for in-range indices -/
theorem C10_vslice (o : Oracles) (st : Exec) (l : List Value) (b e : U256)
    (rest : List Value) (hs : st.stack = .vec l :: .int b :: .int e :: rest)
    (hb : b.toNat ≤ 65535) (he : e.toNat ≤ 65535) :
    execOp o .vslice st =
      if e.toNat > l.length ∨ e.toNat < b.toNat then some (st.next (.vec [] :: rest))
      else some (st.next (.vec ((l.drop b.toNat).take (e.toNat - b.toNat)) :: rest)) := by
  rw [C10_vslice_actual o st l b e rest hs]
  have : ¬ (b.toNat > 65535 ∨ e.toNat > 65535) := by omega
  simp [this]

/-- DEVIATION: as `vslice` -/
theorem C10_bslice_actual (o : Oracles) (st : Exec) (l : Bytes) (b e : U256)
    (rest : List Value) (hs : st.stack = .bytes l :: .int b :: .int e :: rest) :
    execOp o .bslice st =
      if b.toNat > 65535 ∨ e.toNat > 65535 then none
      else if e.toNat > l.length ∨ e.toNat < b.toNat then some (st.next (.bytes [] :: rest))
      else some (st.next (.bytes ((l.drop b.toNat).take (e.toNat - b.toNat)) :: rest)) := by
  by_cases h1 : b.toNat > 65535
  · simp [execOp, triop, hs, Value.intoU16, h1]
  · by_cases h2 : e.toNat > 65535
    · simp [execOp, triop, hs, Value.intoU16, h1, h2]
    · by_cases h3 : e.toNat > l.length ∨ e.toNat < b.toNat
      · simp [execOp, triop, hs, Value.intoU16, slice, h1, h2, h3]
      · simp [execOp, triop, hs, Value.intoU16, slice, h1, h2, h3]

theorem C10_bslice (o : Oracles) (st : Exec) (l : Bytes) (b e : U256)
    (rest : List Value) (hs : st.stack = .bytes l :: .int b :: .int e :: rest)
    (hb : b.toNat ≤ 65535) (he : e.toNat ≤ 65535) :
    execOp o .bslice st =
      if e.toNat > l.length ∨ e.toNat < b.toNat then some (st.next (.bytes [] :: rest))
      else some (st.next (.bytes ((l.drop b.toNat).take (e.toNat - b.toNat)) :: rest)) := by
  rw [C10_bslice_actual o st l b e rest hs]
  have : ¬ (b.toNat > 65535 ∨ e.toNat > 65535) := by omega
  simp [this]

/-- "the elements `[b, e)`": for `b ≤ e ≤ length` the slice has `e - b` elements, the `k`-th
    being element `b + k` of the original -/
theorem C10_slice_elements {α} (l : List α) (b e : Nat) (_hbe : b ≤ e) (he : e ≤ l.length) :
    ((l.drop b).take (e - b)).length = e - b ∧
    ∀ k, k < e - b → ((l.drop b).take (e - b))[k]? = l[b + k]? := by
  refine ⟨slice_length l b e he, ?_⟩
  intro k hk
  have := slice_getElem? l b e k
  rw [if_pos hk] at this
  exact this

/-! ## 7. Stack underflow and type errors -/

/-- number of operands an instruction pops (or, for `dup`, inspects) -/
def Op.arity : Op → Nat
  | .noop | .vempty | .bempty | .jmp _ | .loop _ _ | .pushb _ | .pushi _ | .pushic _
  | .loadimm _ => 0
  | .not | .hash _ | .load | .storeimm _ | .vlength | .blength | .bez _ | .bnz _
  | .itob | .btoi | .typeq | .dup => 1
  | .add | .sub | .mul | .div | .rem | .exp _ | .and | .or | .xor | .eql | .lt | .gt | .shl | .shr
  | .store | .vref | .vappend | .vpush | .vcons | .bref | .bappend | .bpush | .bcons => 2
  | .sigeok _ | .vslice | .vset | .bslice | .bset => 3

/-- every instruction fails on a stack shorter than its arity -/
theorem C10_underflow (o : Oracles) (op : Op) (st : Exec) (h : st.stack.length < op.arity) :
    execOp o op st = none := by
  rcases hs : st.stack with _ | ⟨x, _ | ⟨y, _ | ⟨z, r⟩⟩⟩ <;> rw [hs] at h <;>
    cases op <;> simp only [Op.arity, List.length_cons, List.length_nil] at h <;>
    first
      | (exfalso; omega)
      | simp [execOp, binop, monop, triop, hs]

/-- the two-integer instructions -/
def Op.isIntBinop : Op → Bool
  | .add | .sub | .mul | .div | .rem | .exp _ | .and | .or | .xor | .eql | .lt | .gt | .shl
  | .shr => true
  | _ => false

/-- arithmetic / logic / comparison / shift: an operand that is not an integer gives `none` -/
theorem C10_type_error_int_binop (o : Oracles) (op : Op) (st : Exec) (x y : Value)
    (rest : List Value) (hop : op.isIntBinop) (hs : st.stack = x :: y :: rest)
    (h : (∀ a, x ≠ .int a) ∨ (∀ b, y ≠ .int b)) :
    execOp o op st = none := by
  cases op <;> simp [Op.isIntBinop] at hop <;>
    cases x <;> cases y <;> simp_all [execOp, binop, intBin]

theorem C10_type_error_not (o : Oracles) (st : Exec) (x : Value) (rest : List Value)
    (hs : st.stack = x :: rest) (h : ∀ a, x ≠ .int a) : execOp o .not st = none := by
  cases x <;> simp_all [execOp, monop, Value.intoInt]

theorem C10_type_error_hash (o : Oracles) (st : Exec) (n : UInt16) (x : Value) (rest : List Value)
    (hs : st.stack = x :: rest) (h : ∀ b, x ≠ .bytes b) : execOp o (.hash n) st = none := by
  cases x <;> simp_all [execOp, monop]

theorem C10_type_error_vref (o : Oracles) (st : Exec) (x y : Value) (rest : List Value)
    (hs : st.stack = x :: y :: rest) (h : (∀ l, x ≠ .vec l) ∨ (∀ i, y ≠ .int i)) :
    execOp o .vref st = none := by
  cases x <;> cases y <;> simp_all [execOp, binop, Value.intoU16, Value.intoVec]

theorem C10_type_error_bref (o : Oracles) (st : Exec) (x y : Value) (rest : List Value)
    (hs : st.stack = x :: y :: rest) (h : (∀ l, x ≠ .bytes l) ∨ (∀ i, y ≠ .int i)) :
    execOp o .bref st = none := by
  cases x <;> cases y <;> simp_all [execOp, binop, Value.intoU16, Value.intoBytes]

theorem C10_type_error_vappend (o : Oracles) (st : Exec) (x y : Value) (rest : List Value)
    (hs : st.stack = x :: y :: rest) (h : (∀ l, x ≠ .vec l) ∨ (∀ l, y ≠ .vec l)) :
    execOp o .vappend st = none := by
  cases x <;> cases y <;> simp_all [execOp, binop, Value.intoVec]

theorem C10_type_error_bappend (o : Oracles) (st : Exec) (x y : Value) (rest : List Value)
    (hs : st.stack = x :: y :: rest) (h : (∀ l, x ≠ .bytes l) ∨ (∀ l, y ≠ .bytes l)) :
    execOp o .bappend st = none := by
  cases x <;> cases y <;> simp_all [execOp, binop, Value.intoBytes]

theorem C10_type_error_btoi (o : Oracles) (st : Exec) (x : Value) (rest : List Value)
    (hs : st.stack = x :: rest) (h : ∀ b, x ≠ .bytes b) : execOp o .btoi st = none := by
  cases x <;> simp_all [execOp, monop]

theorem C10_type_error_itob (o : Oracles) (st : Exec) (x : Value) (rest : List Value)
    (hs : st.stack = x :: rest) (h : ∀ a, x ≠ .int a) : execOp o .itob st = none := by
  cases x <;> simp_all [execOp, monop, Value.intoInt]

theorem C10_type_error_store_load (o : Oracles) (st : Exec) (x : Value) (rest : List Value)
    (hs : st.stack = x :: rest) (h : ∀ a, x ≠ .int a) :
    execOp o .store st = none ∧ execOp o .load st = none := by
  cases x <;> cases rest <;> simp_all [execOp, Value.intoU16]

theorem C10_type_error_vset (o : Oracles) (st : Exec) (x y v : Value) (rest : List Value)
    (hs : st.stack = x :: y :: v :: rest) (h : (∀ l, x ≠ .vec l) ∨ (∀ i, y ≠ .int i)) :
    execOp o .vset st = none := by
  cases x <;> cases y <;> simp_all [execOp, triop, Value.intoU16, Value.intoVec]

theorem C10_type_error_bset (o : Oracles) (st : Exec) (x y v : Value) (rest : List Value)
    (hs : st.stack = x :: y :: v :: rest)
    (h : (∀ l, x ≠ .bytes l) ∨ (∀ i, y ≠ .int i) ∨ (∀ a, v ≠ .int a)) :
    execOp o .bset st = none := by
  cases x <;> cases y <;> cases v <;>
    simp_all [execOp, triop, Value.intoU16, Value.intoBytes, Value.intoTruncU8] <;>
    (intros; split <;> simp)

theorem C10_type_error_vslice (o : Oracles) (st : Exec) (x y z : Value) (rest : List Value)
    (hs : st.stack = x :: y :: z :: rest)
    (h : (∀ l, x ≠ .vec l) ∨ (∀ i, y ≠ .int i) ∨ (∀ i, z ≠ .int i)) :
    execOp o .vslice st = none := by
  cases x <;> cases y <;> cases z <;> simp_all [execOp, triop, Value.intoU16] <;>
    (repeat' split) <;> simp_all

theorem C10_type_error_bslice (o : Oracles) (st : Exec) (x y z : Value) (rest : List Value)
    (hs : st.stack = x :: y :: z :: rest)
    (h : (∀ l, x ≠ .bytes l) ∨ (∀ i, y ≠ .int i) ∨ (∀ i, z ≠ .int i)) :
    execOp o .bslice st = none := by
  cases x <;> cases y <;> cases z <;> simp_all [execOp, triop, Value.intoU16] <;>
    (repeat' split) <;> simp_all

theorem C10_type_error_vlength_blength (o : Oracles) (st : Exec) (x : Value) (rest : List Value)
    (hs : st.stack = x :: rest) :
    ((∀ l, x ≠ .vec l) → execOp o .vlength st = none) ∧
    ((∀ l, x ≠ .bytes l) → execOp o .blength st = none) := by
  cases x <;> simp_all [execOp, monop]

theorem C10_type_error_push_cons (o : Oracles) (st : Exec) (x y : Value) (rest : List Value)
    (hs : st.stack = x :: y :: rest) :
    ((∀ l, x ≠ .vec l) → execOp o .vpush st = none) ∧
    ((∀ l, y ≠ .vec l) → execOp o .vcons st = none) ∧
    ((∀ l, x ≠ .bytes l) ∨ (∀ a, y ≠ .int a) → execOp o .bpush st = none) ∧
    ((∀ a, x ≠ .int a) ∨ (∀ l, y ≠ .bytes l) → execOp o .bcons st = none) := by
  cases x <;> cases y <;>
    simp_all [execOp, binop, Value.intoVec, Value.intoBytes, Value.intoTruncU8]

/-! ## 8. Conversions -/

/-- `itob` gives the 32-byte big-endian form … -/
theorem C10_itob (o : Oracles) (st : Exec) (v : U256) (rest : List Value)
    (hs : st.stack = .int v :: rest) :
    execOp o .itob st = some (st.next (.bytes (toBE 32 v.toNat) :: rest)) := by
  simp [execOp, monop, hs, Value.intoInt]

/-- … i.e. 32 bytes, byte `i` being digit `31 - i` of `v` in base 256 -/
theorem C10_itob_bytes (v : U256) :
    (toBE 32 v.toNat).length = 32 ∧
    ∀ i, i < 32 → (toBE 32 v.toNat)[i]? = some (UInt8.ofNat (v.toNat / 256 ^ (31 - i) % 256)) :=
  ⟨toBE_length _ _, fun i hi => toBE_getElem? 32 v.toNat i hi⟩

/-- `btoi` fails iff the length is not 32, and otherwise gives the big-endian value -/
theorem C10_btoi (o : Oracles) (st : Exec) (b : Bytes) (rest : List Value)
    (hs : st.stack = .bytes b :: rest) :
    execOp o .btoi st =
      if b.length = 32 then some (st.next (.int (BitVec.ofNat 256 (fromBE b)) :: rest))
      else none := by
  simp only [execOp, monop, hs, Value.ofNat]
  split <;> simp_all

theorem C10_btoi_none_iff (o : Oracles) (st : Exec) (b : Bytes) (rest : List Value)
    (hs : st.stack = .bytes b :: rest) :
    execOp o .btoi st = none ↔ b.length ≠ 32 := by
  rw [C10_btoi o st b rest hs]; split <;> simp_all

/-- `btoi` inverts `itob` -/
theorem C10_btoi_itob (o : Oracles) (st : Exec) (v : U256) (rest : List Value)
    (hs : st.stack = .int v :: rest) :
    (execOp o .itob st).bind (execOp o .btoi) =
      some { st with stack := .int v :: rest, pc := st.pc + 2 } := by
  rw [C10_itob o st v rest hs]
  simp only [Option.bind_some]
  rw [C10_btoi o _ (toBE 32 v.toNat) rest rfl]
  simp [fromBE_toBE_32]

/-- … and `itob` inverts `btoi` on 32-byte strings -/
theorem C10_itob_btoi (o : Oracles) (st : Exec) (b : Bytes) (rest : List Value)
    (hs : st.stack = .bytes b :: rest) (hb : b.length = 32) :
    (execOp o .btoi st).bind (execOp o .itob) =
      some { st with stack := .bytes b :: rest, pc := st.pc + 2 } := by
  rw [C10_btoi o st b rest hs, if_pos hb]
  simp only [Option.bind_some]
  rw [C10_itob o _ _ rest rfl]
  have hlt : fromBE b < 2 ^ 256 := by
    have := fromBE_lt b
    rw [hb, pow_256_32] at this
    exact this
  have : toBE 32 (BitVec.ofNat 256 (fromBE b)).toNat = b := by
    rw [BitVec.toNat_ofNat, Nat.mod_eq_of_lt hlt, ← hb, toBE_fromBE]
  simp only [this]

theorem C10_typeq (o : Oracles) (st : Exec) (x : Value) (rest : List Value)
    (hs : st.stack = x :: rest) :
    execOp o .typeq st =
      some (st.next (.int (match x with | .int _ => 0 | .bytes _ => 1 | .vec _ => 2) :: rest)) := by
  cases x <;> simp [execOp, monop, hs, Value.ofNat]

/-! ## 9. Control flow -/

/-- the instruction body never moves the pc backward -/
theorem C10_forward_only (o : Oracles) (op : Op) (st st' : Exec)
    (h : execOp o op st = some st') : st'.pc ≥ st.pc + 1 := by
  rcases execOp_cases h with ⟨_, h⟩ | ⟨_, _, _, _, h, _⟩ <;> omega

/-- `bez j` pops the top and jumps (`pc + 1 + j`) iff it is the integer 0 -/
theorem C10_bez (o : Oracles) (st : Exec) (j : UInt16) (x : Value) (rest : List Value)
    (hs : st.stack = x :: rest) :
    (x = .int 0 → execOp o (.bez j) st = some { st with stack := rest, pc := st.pc + 1 + j.toNat }) ∧
    (x ≠ .int 0 → execOp o (.bez j) st = some { st with stack := rest, pc := st.pc + 1 }) := by
  cases x <;> simp [execOp, hs, Value.isZeroInt]
  constructor <;> intro h <;> simp [h]

/-- `bnz j` pops the top and jumps iff it is anything but the integer 0 -/
theorem C10_bnz (o : Oracles) (st : Exec) (j : UInt16) (x : Value) (rest : List Value)
    (hs : st.stack = x :: rest) :
    (x = .int 0 → execOp o (.bnz j) st = some { st with stack := rest, pc := st.pc + 1 }) ∧
    (x ≠ .int 0 → execOp o (.bnz j) st = some { st with stack := rest, pc := st.pc + 1 + j.toNat }) := by
  cases x <;> simp [execOp, hs, Value.isZeroInt]
  constructor <;> intro h <;> simp [h]

theorem C10_jmp (o : Oracles) (st : Exec) (j : UInt16) :
    execOp o (.jmp j) st = some { st with pc := st.pc + 1 + j.toNat } := by
  simp [execOp]

/-- `loop 0 n` skips the `n` body instructions -/
theorem C10_loop_zero (o : Oracles) (st : Exec) (it n : UInt16) (hit : it.toNat = 0) :
    execOp o (.loop it n) st = some { st with pc := st.pc + 1 + n.toNat } := by
  simp [execOp, hit]

/-- `loop it n`, `it > 0`, outside any loop: enters the body, recording the loop
    (`left` = iterations remaining after the current one) -/
theorem C10_loop_enter (o : Oracles) (st : Exec) (it n : UInt16) (hit : it.toNat > 0)
    (hl : st.loops = []) :
    execOp o (.loop it n) st =
      some { st with pc := st.pc + 1,
                     loops := [{ begin_ := st.pc + 1, end_ := st.pc + 1 + n.toNat - 1,
                                 left := it.toNat - 1 }] } := by
  simp [execOp, hit, hl]

/-- `loop it n`, `it > 0`, inside an active loop: fails iff its body (last instruction at
    `pc + n`) would end after the end of the enclosing loop -/
theorem C10_loop_nested (o : Oracles) (st : Exec) (it n : UInt16) (hit : it.toNat > 0)
    (last : LoopState) (ls : List LoopState) (hl : st.loops = last :: ls) :
    execOp o (.loop it n) st =
      if st.pc + n.toNat > last.end_ then none
      else some { st with pc := st.pc + 1,
                          loops := { begin_ := st.pc + 1, end_ := st.pc + 1 + n.toNat - 1,
                                     left := it.toNat - 1 } :: st.loops } := by
  have e : st.pc + 1 + n.toNat - 1 = st.pc + n.toNat := by omega
  simp only [execOp, hit, hl, e]
  simp

theorem C10_loop_overrun_fails (o : Oracles) (st : Exec) (it n : UInt16) (hit : it.toNat > 0)
    (last : LoopState) (ls : List LoopState) (hl : st.loops = last :: ls)
    (h : st.pc + n.toNat > last.end_) : execOp o (.loop it n) st = none := by
  rw [C10_loop_nested o st it n hit last ls hl, if_pos h]

/-! ## 10. Result of a run -/

/-- when the pc runs off the end, the result is the top of the stack (`none` if empty) -/
theorem C10_result_top (o : Oracles) (ops : List Op) (fuel : Nat) (st : Exec) (n : Nat)
    (h : st.pc ≥ ops.length) :
    runFuel o ops (fuel + 1) st n = (st.stack.head?, n) := by
  have : ¬ st.pc < ops.length := by omega
  simp [runFuel, this]

/-! ## stack instructions (for completeness) -/

theorem C10_noop (o : Oracles) (st : Exec) : execOp o .noop st = some (st.next st.stack) := by
  simp [execOp]

theorem C10_push (o : Oracles) (st : Exec) (v : U256) (bs : Bytes) :
    execOp o (.pushi v) st = some (st.next (.int v :: st.stack)) ∧
    execOp o (.pushic v) st = some (st.next (.int v :: st.stack)) ∧
    execOp o (.pushb bs) st = some (st.next (.bytes bs :: st.stack)) := by
  simp [execOp]

theorem C10_dup (o : Oracles) (st : Exec) (v : Value) (rest : List Value)
    (hs : st.stack = v :: rest) : execOp o .dup st = some (st.next (v :: v :: rest)) := by
  simp [execOp, hs]

/-! ## 11. Counted loops run their body exactly the stated number of times

  `Op.isStraight op` : `op` is none of `loop`/`jmp`/`bez`/`bnz`;
  `straight o B (s, h)` : left fold of `execOp` over `B` on (stack, heap), ignoring the pc;
  `iter f k a` : `k`-fold iteration of the partial function `f`;
  `stepN o ops k st` : `k` machine steps (`step`), `none` as soon as one fails
  (all defined in MelModel/Lemmas/Exec.lean).

  Program `pre ++ [loop it n] ++ B ++ post` with `B` straight-line, `n = B.length ≥ 1`
  (`n < 65536` is implied by `n : UInt16`), started at the `loop` instruction outside any loop. -/

/-- the law as a single equation: after exactly `1 + it * n` steps the machine is just after the
    body with the (stack, heap) obtained by iterating the body `it` times — or has failed if an
    iteration fails -/
theorem C10_loop_exact_eq (o : Oracles) (pre B post : List Op) (it n : UInt16) (st : Exec)
    (hn : n.toNat = B.length) (hB : 1 ≤ B.length) (hS : ∀ op ∈ B, op.isStraight = true)
    (hpc : st.pc = pre.length) (hl : st.loops = []) :
    stepN o (pre ++ [Op.loop it n] ++ B ++ post) (1 + it.toNat * B.length) st =
      (iter (straight o B) it.toNat (st.stack, st.heap)).map fun sh =>
        { stack := sh.1, heap := sh.2, pc := pre.length + 1 + B.length, loops := [] } :=
  loop_exact_eq o pre B post it n st hn (List.length_pos_iff.mp hB) hS hpc hl

theorem C10_loop_exact (o : Oracles) (pre B post : List Op) (it n : UInt16) (st : Exec)
    (hn : n.toNat = B.length) (hB : 1 ≤ B.length) (hS : ∀ op ∈ B, op.isStraight = true)
    (hpc : st.pc = pre.length) (hl : st.loops = []) :
    (∀ s' h', iter (straight o B) it.toNat (st.stack, st.heap) = some (s', h') →
      stepN o (pre ++ [Op.loop it n] ++ B ++ post) (1 + it.toNat * B.length) st =
        some { stack := s', heap := h', pc := pre.length + 1 + B.length, loops := [] }) ∧
    (iter (straight o B) it.toNat (st.stack, st.heap) = none →
      stepN o (pre ++ [Op.loop it n] ++ B ++ post) (1 + it.toNat * B.length) st = none ∧
      ∀ f k, (runFuel o (pre ++ [Op.loop it n] ++ B ++ post)
                (1 + it.toNat * B.length + f) st k).1 = none) := by
  have hB' : B ≠ [] := List.length_pos_iff.mp hB
  have heq := C10_loop_exact_eq o pre B post it n st hn hB hS hpc hl
  constructor
  · intro s' h' hsome
    rw [heq, hsome]; rfl
  · intro hnone
    refine ⟨by rw [heq, hnone]; rfl, fun f k => ?_⟩
    exact loop_fail_run o pre B post it n st hn hB' hS hpc hl f k hnone

/-- `it = 0`: one step, stack and heap unchanged -/
theorem C10_loop_exact_zero (o : Oracles) (pre B post : List Op) (it n : UInt16) (st : Exec)
    (hn : n.toNat = B.length) (hB : 1 ≤ B.length) (hS : ∀ op ∈ B, op.isStraight = true)
    (hpc : st.pc = pre.length) (hl : st.loops = []) (hit : it.toNat = 0) :
    stepN o (pre ++ [Op.loop it n] ++ B ++ post) 1 st =
      some { stack := st.stack, heap := st.heap, pc := pre.length + 1 + B.length, loops := [] } := by
  have h := (C10_loop_exact o pre B post it n st hn hB hS hpc hl).1 st.stack st.heap
    (by rw [hit]; rfl)
  rw [hit] at h
  simpa using h

/-- in terms of `runFuel`: the loop consumes exactly `1 + it * n` steps, then the run continues
    from the state after the loop -/
theorem C10_loop_exact_run (o : Oracles) (pre B post : List Op) (it n : UInt16) (st : Exec)
    (hn : n.toNat = B.length) (hB : 1 ≤ B.length) (hS : ∀ op ∈ B, op.isStraight = true)
    (hpc : st.pc = pre.length) (hl : st.loops = []) (s' : List Value) (h' : Heap)
    (hsome : iter (straight o B) it.toNat (st.stack, st.heap) = some (s', h')) (f k : Nat) :
    runFuel o (pre ++ [Op.loop it n] ++ B ++ post) (1 + it.toNat * B.length + f) st k =
      runFuel o (pre ++ [Op.loop it n] ++ B ++ post) f
        { stack := s', heap := h', pc := pre.length + 1 + B.length, loops := [] }
        (k + (1 + it.toNat * B.length)) :=
  runFuel_of_stepN o _ _ f st _ k
    ((C10_loop_exact o pre B post it n st hn hB hS hpc hl).1 s' h' hsome)

/-- whole program = one loop: `run` returns the top of the stack after `it` iterations … -/
theorem C10_loop_run (o : Oracles) (B : List Op) (it n : UInt16) (heap : Heap)
    (hn : n.toNat = B.length) (hB : 1 ≤ B.length) (hS : ∀ op ∈ B, op.isStraight = true)
    (s' : List Value) (h' : Heap)
    (hsome : iter (straight o B) it.toNat ([], heap) = some (s', h')) :
    run o ([Op.loop it n] ++ B) heap = s'.head? := by
  have h := C10_loop_exact_run o [] B [] it n (initExec heap) hn hB hS rfl rfl s' h' hsome
    (weightU ([Op.loop it n] ++ B) + 1) 0
  simp only [List.nil_append, List.append_nil, List.length_nil] at h
  unfold run
  rw [runFuel_fuel_indep o _ (weightU ([Op.loop it n] ++ B) + 1)
    (1 + it.toNat * B.length + (weightU ([Op.loop it n] ++ B) + 1)) (initExec heap) 0
    (by rw [phi_init]; omega) (by rw [phi_init]; omega), h,
    C10_result_top o _ _ _ _
      (by simp only [List.length_append, List.length_cons, List.length_nil]; omega)]

/-- … and fails if some iteration fails -/
theorem C10_loop_run_fails (o : Oracles) (B post : List Op) (it n : UInt16) (heap : Heap)
    (hn : n.toNat = B.length) (hB : 1 ≤ B.length) (hS : ∀ op ∈ B, op.isStraight = true)
    (hnone : iter (straight o B) it.toNat ([], heap) = none) :
    run o ([Op.loop it n] ++ B ++ post) heap = none := by
  have h := ((C10_loop_exact o [] B post it n (initExec heap) hn hB hS rfl rfl).2 hnone).2
    (weightU ([Op.loop it n] ++ B ++ post)) 0
  simp only [List.nil_append] at h
  unfold run
  rw [runFuel_fuel_indep o _ (weightU ([Op.loop it n] ++ B ++ post) + 1)
    (1 + it.toNat * B.length + weightU ([Op.loop it n] ++ B ++ post)) (initExec heap) 0
    (by rw [phi_init]; omega) (by rw [phi_init]; omega)]
  exact h

/-! ## 12. Three oddities of the loop bookkeeping, stated

  The loop frame `{begin_, end_, left}` is pushed by `loop it n` with `end_ = pc + n - 1` (`pc` already
  incremented) and is only looked at by `updatePc` *after* an instruction, when the new pc is past
  `end_`: exactly one past with iterations left → jump back to `begin_`; otherwise the frame is dropped. -/

/-- **an empty-bodied loop leaves a stale frame for one step.** `loop it 0` (`it > 0`) pushes a frame
    with `end_ = begin_ - 1`. The pc is then one past `end_`: with iterations left (`it ≥ 2`) `updatePc`
    "jumps back" to `begin_` (= the next instruction) and *keeps* the frame, so the next instruction runs
    inside a loop whose body is over — a `loop` there is judged to overrun its parent and the covenant
    fails. With `it = 1` nothing is left, the frame is dropped at once and the same continuation runs.
    (Both results are those observed on the real executor.) -/
theorem C10_empty_loop_stale_frame_actual (o : Oracles) :
    run o [.loop 2 0, .loop 2 1, .pushi 1] [] = none ∧
    run o [.loop 1 0, .loop 2 1, .pushi 1] [] = some (.int 1) :=
  ⟨rfl, rfl⟩

/-- the stale frame itself: after the single step of `loop it 0`, `it ≥ 2`, outside any loop, the machine
    is at the next instruction with the frame `{begin_ := pc + 1, end_ := pc, left := it - 2}` still on the
    loop stack; with `it = 1` the loop stack is empty again -/
theorem C10_empty_loop_stale_frame_step_actual (o : Oracles) (pre rest : List Op) (it : UInt16)
    (st : Exec) (hpc : st.pc = pre.length) (hl : st.loops = []) :
    (it.toNat ≥ 2 → step o (pre ++ [Op.loop it 0] ++ rest) st =
      some { st with pc := pre.length + 1,
                     loops := [{ begin_ := pre.length + 1, end_ := pre.length,
                                 left := it.toNat - 2 }] }) ∧
    (it.toNat = 1 → step o (pre ++ [Op.loop it 0] ++ rest) st =
      some { st with pc := pre.length + 1, loops := [] }) := by
  have hop : (pre ++ [Op.loop it 0] ++ rest)[st.pc]? = some (Op.loop it 0) := by
    rw [hpc]; simp
  have h1 : pre.length + 1 > pre.length := by omega
  have h2 : pre.length + 1 - pre.length = 1 := by omega
  constructor
  · intro hit
    have hit' : it.toNat > 0 := by omega
    have hit2 : it.toNat - 1 > 0 := by omega
    have e : it.toNat - 1 - 1 = it.toNat - 2 := by omega
    unfold step
    rw [hop]
    simp [execOp, hit', hl, hpc, updatePc, h1, h2, hit2, e]
  · intro hit
    unfold step
    rw [hop]
    simp [execOp, hit, hl, hpc, updatePc, h1]

/-- **a loop whose body runs past the end of the program runs once.** `loop 5 3` with only two
    instructions left: `end_` lies beyond the program, the pc never gets past it, the run ends at the end of
    the program after a single pass (0 + 1). With the right length, `loop 5 2`, the body runs 5 times.
    (Both results are those observed on the real executor.) -/
theorem C10_loop_body_overrun_runs_once_actual (o : Oracles) :
    run o [.pushi 0, .loop 5 3, .pushi 1, .add] [] = some (.int 1) ∧
    run o [.pushi 0, .loop 5 2, .pushi 1, .add] [] = some (.int 5) :=
  ⟨rfl, rfl⟩

/-- general form, in the setting of `C10_loop_exact`: program `pre ++ [loop it n] ++ B` ending with the
    straight-line block `B`, `it > 0`, stated length `n > B.length`. After `1 + B.length` steps the machine
    is at the end of the program, `B` having been applied exactly once (whatever `it`), the loop frame
    still open … -/
theorem C10_loop_body_overrun_stepN_actual (o : Oracles) (pre B : List Op) (it n : UInt16) (st : Exec)
    (hit : it.toNat > 0) (hn : B.length < n.toNat) (hS : ∀ op ∈ B, op.isStraight = true)
    (hpc : st.pc = pre.length) (hl : st.loops = []) :
    stepN o (pre ++ [Op.loop it n] ++ B) (1 + B.length) st =
      (straight o B (st.stack, st.heap)).map fun sh =>
        { stack := sh.1, heap := sh.2, pc := (pre ++ [Op.loop it n] ++ B).length,
          loops := [{ begin_ := pre.length + 1, end_ := pre.length + n.toNat,
                      left := it.toNat - 1 }] } := by
  rw [stepN_add, stepN_one, step_loop_head_any o pre B it n st hit (by omega) hpc hl]
  simp only [Option.bind_some]
  rw [inside_stepN o _ _ B _ [] hS (drop_loop_rest pre B _) rfl (by simp only; omega)]
  simp only [List.length_append, List.length_cons, List.length_nil]

/-- … and when the whole program is that loop, `run` returns the top of the stack after one pass of `B`
    (and fails iff that pass fails) -/
theorem C10_loop_body_overrun_run_actual (o : Oracles) (B : List Op) (it n : UInt16) (heap : Heap)
    (hit : it.toNat > 0) (hn : B.length < n.toNat) (hS : ∀ op ∈ B, op.isStraight = true) :
    run o ([Op.loop it n] ++ B) heap = (straight o B ([], heap)).bind fun sh => sh.1.head? := by
  have hstep := stepN_one o ([] ++ [Op.loop it n] ++ B) (initExec heap)
  rw [step_loop_head_any o [] B it n (initExec heap) hit (by omega) rfl rfl] at hstep
  simp only [List.nil_append, List.length_nil] at hstep
  unfold run
  rw [runFuel_fuel_indep o _ (weightU ([Op.loop it n] ++ B) + 1)
    (1 + (B.length + (weightU ([Op.loop it n] ++ B) + 1))) (initExec heap) 0
    (by rw [phi_init]; omega) (by rw [phi_init]; omega),
    runFuel_of_stepN o _ 1 _ _ _ 0 hstep,
    inside_run o _ _ B _ [] _ _ hS (drop_loop_rest [] B _) rfl (by simp only; omega)]
  show (straight o B ([], heap)).bind _ = _
  cases straight o B ([], heap) with
  | none => rfl
  | some sh =>
    simp only [Option.bind_some]
    rw [C10_result_top o _ _ _ _
      (by simp only [List.length_append, List.length_cons, List.length_nil]; omega)]

/-! ## Non-vacuity: concrete programs -/

section Examples
variable (o : Oracles)

/-- 2 + 3 = 5 -/
example : run o [.pushic 2, .pushic 3, .add] [] = some (.int 5) := rfl
/-- top minus second: 3 - 2 = 1, and 2 - 3 wraps to 2^256 - 1 -/
example : run o [.pushic 2, .pushic 3, .sub] [] = some (.int 1) := rfl
example : run o [.pushic 3, .pushic 2, .sub] [] = some (.int (BitVec.ofNat 256 (2 ^ 256 - 1))) := rfl
/-- division by zero fails -/
example : run o [.pushic 0, .pushic 3, .div] [] = none := rfl
example : run o [.pushic 2, .pushic 7, .div] [] = some (.int 3) := rfl
example : run o [.pushic 2, .pushic 7, .rem] [] = some (.int 1) := rfl
/-- `loop 3 2` accumulating a sum: 0 + 5 + 5 + 5 -/
example : run o [.pushic 0, .loop 3 2, .pushic 5, .add] [] = some (.int 15) := rfl
example : runSteps o [.pushic 0, .loop 3 2, .pushic 5, .add] [] = 1 + (1 + 3 * 2) := rfl
/-- `loop 0 n` skips the body -/
example : run o [.pushic 7, .loop 0 2, .pushic 5, .add] [] = some (.int 7) := rfl
/-- `exp 1` allows a 2-bit exponent: 2^3 = 8 is fine, exponent 4 is over the budget -/
example : run o [.pushic 3, .pushic 2, .exp 1] [] = some (.int 8) := rfl
example : run o [.pushic 4, .pushic 2, .exp 1] [] = none := rfl
/-- `exp 255`: 2^255 * 2 wraps to 0 -/
example : run o [.pushic 256, .pushic 2, .exp 255] [] = some (.int 0) := rfl
/-- comparison is top against second -/
example : run o [.pushic 3, .pushic 2, .lt] [] = some (.int 1) := rfl
example : run o [.pushic 3, .pushic 2, .gt] [] = some (.int 0) := rfl
/-- shift amounts are taken mod 256 -/
example : run o [.pushic 257, .pushic 1, .shl] [] = some (.int 2) := rfl
/-- heap -/
example : run o [.pushic 9, .storeimm 4, .loadimm 4] [] = some (.int 9) := rfl
example : run o [.loadimm 4] [] = none := rfl
/-- vectors -/
example : run o [.pushic 1, .pushic 8, .vempty, .vpush, .vref] [] = none := rfl
example : run o [.pushic 0, .pushic 8, .vempty, .vpush, .vref] [] = some (.int 8) := rfl
/-- bytes: `bpush` truncates to the low byte; `btoi ∘ itob = id` -/
example : run o [.pushic 0, .pushic 258, .bempty, .bpush, .bref] [] = some (.int 2) := rfl
example : run o [.pushic 77, .itob, .btoi] [] = some (.int 77) := rfl
/-- hash goes through the oracle -/
example : run o [.pushb [1, 2], .hash 2] [] = some (.bytes (o.hash [1, 2])) := rfl
example : run o [.pushb [1, 2], .hash 1] [] = none := rfl
/-- forward jumps -/
example : run o [.pushic 0, .bez 1, .pushic 5, .pushic 6] [] = some (.int 6) := rfl
example : run o [.pushic 1, .pushic 0, .bnz 1, .pushic 5] [] = some (.int 5) := rfl
/-- type error and underflow -/
example : run o [.pushb [], .pushic 1, .add] [] = none := rfl
example : run o [.pushic 1, .add] [] = none := rfl
/-- out-of-u16 slice bound: fails (the documented result is the empty vector) -/
example : run o [.pushic 65536, .pushic 0, .vempty, .vslice] [] = none := rfl
example : run o [.pushic 5, .pushic 0, .vempty, .vslice] [] = some (.vec []) := rfl
/-- a nested loop overrunning its parent fails -/
example : run o [.loop 2 2, .loop 2 2, .noop, .noop] [] = none := rfl

end Examples


/-! ## Axioms -/

#print axioms C10_add
#print axioms C10_add_toNat
#print axioms C10_sub
#print axioms C10_sub_toNat
#print axioms C10_mul
#print axioms C10_mul_toNat
#print axioms C10_div
#print axioms C10_div_none_iff
#print axioms C10_div_toNat
#print axioms C10_rem
#print axioms C10_rem_none_iff
#print axioms C10_rem_toNat
#print axioms C10_exp
#print axioms C10_exp_some_iff
#print axioms C10_exp_toNat
#print axioms C10_and
#print axioms C10_or
#print axioms C10_xor
#print axioms C10_not
#print axioms C10_eql
#print axioms C10_lt
#print axioms C10_gt
#print axioms C10_shl
#print axioms C10_shl_toNat
#print axioms C10_shr
#print axioms C10_shr_toNat
#print axioms C10_hash
#print axioms C10_hash_none_iff
#print axioms C10_sigeok_pk_long
#print axioms C10_sigeok_pk_short
#print axioms C10_sigeok_msg_long
#print axioms C10_sigeok_sig_badlen
#print axioms C10_sigeok_ok
#print axioms C10_sigeok_type_error
#print axioms C10_sigeok_type_error_masked_actual
#print axioms C10_heap_get_set
#print axioms C10_heap_get_set_same
#print axioms C10_heap_get_set_other
#print axioms C10_storeimm
#print axioms C10_loadimm
#print axioms C10_loadimm_unset
#print axioms C10_storeimm_loadimm
#print axioms C10_store
#print axioms C10_load
#print axioms C10_store_load
#print axioms C10_vref_actual
#print axioms C10_vref
#print axioms C10_vref_long_vector_actual
#print axioms C10_bref_actual
#print axioms C10_bref
#print axioms C10_vset_actual
#print axioms C10_vset
#print axioms C10_bset_actual
#print axioms C10_bset
#print axioms C10_vappend
#print axioms C10_vappend_too_long
#print axioms C10_bappend
#print axioms C10_bappend_too_long
#print axioms C10_vpush
#print axioms C10_vpush_too_long
#print axioms C10_vcons
#print axioms C10_vcons_too_long
#print axioms C10_bpush
#print axioms C10_bpush_too_long
#print axioms C10_bcons
#print axioms C10_bcons_too_long
#print axioms C10_vempty
#print axioms C10_bempty
#print axioms C10_vlength
#print axioms C10_blength
#print axioms C10_vslice_actual
#print axioms C10_vslice
#print axioms C10_bslice_actual
#print axioms C10_bslice
#print axioms C10_slice_elements
#print axioms C10_underflow
#print axioms C10_type_error_int_binop
#print axioms C10_type_error_not
#print axioms C10_type_error_hash
#print axioms C10_type_error_vref
#print axioms C10_type_error_bref
#print axioms C10_type_error_vappend
#print axioms C10_type_error_bappend
#print axioms C10_type_error_btoi
#print axioms C10_type_error_itob
#print axioms C10_type_error_store_load
#print axioms C10_type_error_vset
#print axioms C10_type_error_bset
#print axioms C10_type_error_vslice
#print axioms C10_type_error_bslice
#print axioms C10_type_error_vlength_blength
#print axioms C10_type_error_push_cons
#print axioms C10_itob
#print axioms C10_itob_bytes
#print axioms C10_btoi
#print axioms C10_btoi_none_iff
#print axioms C10_btoi_itob
#print axioms C10_itob_btoi
#print axioms C10_typeq
#print axioms C10_forward_only
#print axioms C10_bez
#print axioms C10_bnz
#print axioms C10_jmp
#print axioms C10_loop_zero
#print axioms C10_loop_enter
#print axioms C10_loop_nested
#print axioms C10_loop_overrun_fails
#print axioms C10_result_top
#print axioms C10_noop
#print axioms C10_push
#print axioms C10_dup
#print axioms C10_loop_exact_eq
#print axioms C10_loop_exact
#print axioms C10_loop_exact_zero
#print axioms C10_loop_exact_run
#print axioms C10_loop_run
#print axioms C10_loop_run_fails
#print axioms C10_empty_loop_stale_frame_actual
#print axioms C10_empty_loop_stale_frame_step_actual
#print axioms C10_loop_body_overrun_runs_once_actual
#print axioms C10_loop_body_overrun_stepN_actual
#print axioms C10_loop_body_overrun_run_actual

end Mel.VM
