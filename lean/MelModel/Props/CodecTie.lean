/-
  The theorems of C05 / C13 / C18 restated over the *content* of a transaction.
  `Tx` carries three facts next to the content (`rawLen`, `stakeDoc`, `powDifficulty`) that used to be supplied by the
  implementation; `Stdcode.suppliedAgrees` says they are the ones the content determines.  The driver refuses
  (`stdcode-mismatch`) every batch and block with a transaction for which this fails, so every transaction the
  correspondence check runs is `SelfDescribed`, and for such transactions the property theorems speak about
  `tx.data` and the serialised size directly.
-/
import MelModel.Props.C05
import MelModel.Props.C13
import MelModel.Props.C18
import MelModel.Props.Codec
namespace Mel
open Mel.Stdcode Mel.Gen

/-- the facts carried next to the content are the ones the content determines -/
def Tx.SelfDescribed (tx : Tx) : Prop := suppliedAgrees tx = true

theorem Tx.selfDescribed_iff (tx : Tx) :
    tx.SelfDescribed ↔ tx.rawLen = txLen tx ∧ tx.stakeDoc = decodeStakeDoc tx.data ∧
      tx.powDifficulty = (decodePow tx.data).map (·.1) := by
  simp [Tx.SelfDescribed, suppliedAgrees, Bool.and_eq_true, and_assoc]

/-- every transaction can be completed to a self-described one without touching its content -/
theorem Tx.selfDescribed_complete (tx : Tx) :
    ({ tx with rawLen := txLen tx, stakeDoc := decodeStakeDoc tx.data,
               powDifficulty := (decodePow tx.data).map (·.1) } : Tx).SelfDescribed := by
  rw [Tx.selfDescribed_iff]
  exact ⟨by simp [txLen], rfl, rfl⟩

/-- C05: the weight is a function of the transaction's content: its serialised size (computed, not supplied) plus
    the covenant weights plus 1000 per output minus 1000 per input -/
theorem C05_weight_of_content (tx : Tx) (hsd : tx.SelfDescribed) (w : Nat) (h : tx.weight = .ok w) :
    w = min (min (txLen tx + (tx.covenants.map covenantWeightFromBytes).sum) U128_MAX + tx.outputs.length * 1000) U128_MAX
          - tx.inputs.length * 1000 := by
  have := C05_weight tx w h
  rwa [((Tx.selfDescribed_iff tx).mp hsd).1] at this

/-- C05: two self-described transactions with the same content weigh the same, whatever else they carry -/
theorem C05_weight_content_only (tx tx' : Tx) (h : tx.SelfDescribed) (h' : tx'.SelfDescribed)
    (hi : tx.inputs.length = tx'.inputs.length) (ho : tx.outputs = tx'.outputs) (hf : tx.fee = tx'.fee)
    (hc : tx.covenants = tx'.covenants) (hd : tx.data = tx'.data) (hs : tx.sigs = tx'.sigs)
    (w w' : Nat) (hw : tx.weight = .ok w) (hw' : tx'.weight = .ok w') : w = w' := by
  rw [C05_weight_of_content tx h w hw, C05_weight_of_content tx' h' w' hw',
    C05_size_of_content tx tx' hi ho hf hc hd hs, hc, ho, hi]

/-- C13: the stake that gets registered is the one the transaction's data spells: the data is a complete stdcode
    encoding (35 to 67 bytes, nothing after it) of a document whose fields fit their types -/
theorem C13_registered_is_declared (s : State) (tx : Tx) (d : StakeDoc) (hsd : tx.SelfDescribed)
    (h : Registers s tx d) :
    decodeStakeDoc tx.data = some d ∧ StakeDoc.Fits d ∧ 35 ≤ tx.data.length ∧ tx.data.length ≤ 67 := by
  have hd : decodeStakeDoc tx.data = some d := by
    rw [← ((Tx.selfDescribed_iff tx).mp hsd).2.1]; exact h.2.2.1
  exact ⟨hd, C13_stakedoc_decoded_fits _ _ hd, C13_stakedoc_length _ _ hd⟩

/-- C13: data that is not a stake document registers nothing -/
theorem C13_undecodable_registers_nothing (s : State) (tx : Tx) (hsd : tx.SelfDescribed)
    (hnone : decodeStakeDoc tx.data = none) (d : StakeDoc) : ¬ Registers s tx d := by
  intro h
  have := (C13_registered_is_declared s tx d hsd h).1
  rw [hnone] at this; cases this

/-- C18: an accepted mint states its difficulty in its data: the data is a complete stdcode encoding of
    (difficulty : u32, proof bytes) -/
theorem C18_difficulty_is_stated (env : Env) (s : State) (rel : Relevant) (tx : Tx) (sp : Nat) (hsd : tx.SelfDescribed)
    (h : validateDoscmint env s rel tx = .ok sp) :
    ∃ difficulty proof, decodePow tx.data = some (difficulty, proof) ∧ tx.powDifficulty = some difficulty ∧
      difficulty < 2 ^ 32 ∧ proof.length + 2 ≤ tx.data.length := by
  obtain ⟨_, _, _, _, difficulty, _, _, _, _, _, _, _, hpd, _⟩ := C18_sound env s rel tx sp h
  have hm := ((Tx.selfDescribed_iff tx).mp hsd).2.2
  rw [hpd] at hm
  cases hdp : decodePow tx.data with
  | none => rw [hdp] at hm; cases hm
  | some p =>
    obtain ⟨d', proof⟩ := p
    rw [hdp] at hm
    have hdd : d' = difficulty := by simpa using hm.symm
    subst hdd
    exact ⟨d', proof, rfl, hpd, C18_pow_decoded_bounds _ _ _ hdp⟩

/-- C18: data that does not decode mints nothing -/
theorem C18_undecodable_mints_nothing (env : Env) (s : State) (rel : Relevant) (tx : Tx) (hsd : tx.SelfDescribed)
    (hnone : decodePow tx.data = none) : ∀ sp, validateDoscmint env s rel tx ≠ .ok sp := by
  intro sp h
  obtain ⟨d, p, hd, _⟩ := C18_difficulty_is_stated env s rel tx sp hsd h
  rw [hnone] at hd; cases hd

end Mel

#print axioms Mel.Tx.selfDescribed_iff
#print axioms Mel.Tx.selfDescribed_complete
#print axioms Mel.C05_weight_of_content
#print axioms Mel.C05_weight_content_only
#print axioms Mel.C13_registered_is_declared
#print axioms Mel.C13_undecodable_registers_nothing
#print axioms Mel.C18_difficulty_is_stated
#print axioms Mel.C18_undecodable_mints_nothing
