/-
  C19 — Faucets: never on mainnet, and at most once anywhere.
  Property theorems only; helper lemmas live in MelModel/Lemmas/Faucet.lean.
-/
import MelModel.Chain
import MelModel.Lemmas.Faucet
namespace Mel

/-- the de-duplication marker of a faucet transaction -/
def markerOf (env : Env) (tx : Tx) : CoinID := { txhash := env.fdp tx.hash, index := 0 }

/-- on mainnet an accepted batch contains no faucet transaction other than the grandfathered one -/
theorem C19_mainnet (env : Env) (s s' : State) (txs : List Tx) (fb : Header) (hnet : s.network = .mainnet)
    (h : applyBatch env s txs fb = .ok s') (tx : Tx) (htx : tx ∈ txs) (hk : tx.kind = .faucet) :
    env.isGrandfathered tx.hash = true := by
  sorry

/-- a faucet transaction whose marker is already in the coin set makes the batch fail -/
theorem C19_duplicate_rejected (env : Env) (s : State) (txs : List Tx) (fb : Header) (tx : Tx) (htx : tx ∈ txs)
    (hk : tx.kind = .faucet) (hm : (s.coins.getCoin (markerOf env tx)).isSome)
    (hsep : ∀ t ∈ txs, markerOf env tx ∉ t.inputs) :
    ∀ s', applyBatch env s txs fb ≠ .ok s' := by
  sorry

/-- … and when that is the batch's only defect (the single-transaction case) the error is `DuplicateTx` -/
theorem C19_duplicate_error (env : Env) (s : State) (tx : Tx) (fb : Header)
    (hk : tx.kind = .faucet) (hm : (s.coins.getCoin (markerOf env tx)).isSome)
    (hnet : s.network ≠ .mainnet ∨ env.isGrandfathered tx.hash = true)
    (hwf : tx.isWellFormed = true ∧ tx.melTotalFits = true) (hin : tx.inputs = []) :
    applyBatch env s [tx] fb = .reject .duplicateTx := by
  sorry

/-- the same faucet transaction twice in one batch is rejected -/
theorem C19_same_batch (env : Env) (s : State) (txs : List Tx) (fb : Header) (tx : Tx)
    (hk : tx.kind = .faucet) (hng : env.isGrandfathered tx.hash = false) (htwice : (txs.filter (· = tx)).length ≥ 2)
    (hsep : ∀ t ∈ txs, markerOf env tx ∉ t.inputs) :
    ∀ s', applyBatch env s txs fb ≠ .ok s' := by
  sorry

/-- an accepted (non-grandfathered) faucet transaction leaves its marker in the coin set -/
theorem C19_marker_inserted (env : Env) (s s' : State) (txs : List Tx) (fb : Header)
    (h : applyBatch env s txs fb = .ok s') (tx : Tx) (htx : tx ∈ txs) (hk : tx.kind = .faucet)
    (hng : env.isGrandfathered tx.hash = false) (hsep : ∀ t ∈ txs, markerOf env tx ∉ t.inputs) :
    (s'.coins.getCoin (markerOf env tx)).isSome := by
  sorry

/-- a marker can never be spent: spending it would need a covenant hashing to the zero address -/
theorem C19_marker_unspendable (env : Env) (s s' : State) (txs : List Tx) (fb : Header)
    (h : applyBatch env s txs fb = .ok s') (m : CoinID) (c : CoinDataHeight)
    (hm : s.coins.getCoin m = some c) (hz : c.coinData.covhash = zeroHash)
    (hnz : ∀ t ∈ txs, zeroHash ∉ t.covHashes) (hnew : ∀ t ∈ txs, m.txhash ≠ t.hash) :
    s'.coins.getCoin m = some c := by
  sorry

/-- known finding (K3/F11): the grandfathered transaction gets no marker, so nothing stops a replay:
    the faucet step leaves the state untouched for it -/
theorem C19_grandfathered_no_marker (env : Env) (s : State) (tx : Tx)
    (hg : env.isGrandfathered tx.hash = true) (hm : s.coins.getCoin (markerOf env tx) = none) :
    handleFaucetTx env s tx = .ok s := by
  sorry

end Mel
