/-
  C19 — Faucets: never on mainnet, and at most once anywhere.
  Property theorems only; helper lemmas live in MelModel/Lemmas/Faucet.lean.
-/
import MelModel.Chain
import MelModel.Lemmas.Faucet
namespace Mel
open Mel.FaucetL

/-- the de-duplication marker of a faucet transaction -/
def markerOf (env : Env) (tx : Tx) : CoinID := { txhash := env.fdp tx.hash, index := 0 }

/-- on mainnet an accepted batch contains no faucet transaction other than the grandfathered one -/
theorem C19_mainnet (env : Env) (s s' : State) (txs : List Tx) (fb : Header) (hnet : s.network = .mainnet)
    (h : applyBatch env s txs fb = .ok s') (tx : Tx) (htx : tx ∈ txs) (hk : tx.kind = .faucet) :
    env.isGrandfathered tx.hash = true := by
  obtain ⟨rel, ns, next, _, _, _, hc, _⟩ := applyBatch_ok h
  rw [createNextState_eq] at hc
  obtain ⟨l₁, l₂, rfl⟩ := List.append_of_mem htx
  obtain ⟨mid, mid', h1, h2, _⟩ := cnsFold_split hc
  exact (cnsStep_faucet h2 hk).1 ((cnsFold_network h1).trans hnet)

/-- a faucet transaction whose marker is already in the coin set makes the batch fail -/
theorem C19_duplicate_rejected (env : Env) (s : State) (txs : List Tx) (fb : Header) (tx : Tx) (htx : tx ∈ txs)
    (hk : tx.kind = .faucet) (hm : (s.coins.getCoin (markerOf env tx)).isSome)
    (hsep : ∀ t ∈ txs, markerOf env tx ∉ t.inputs) :
    ∀ s', applyBatch env s txs fb ≠ .ok s' := by
  intro s' h
  obtain ⟨rel, ns, next, _, _, _, hc, _⟩ := applyBatch_ok h
  rw [createNextState_eq] at hc
  exact cnsFold_dup htx hk hsep (cnsCoins1_present hm) hc

/-- … and when that is the batch's only defect (the single-transaction case) the error is `DuplicateTx` -/
theorem C19_duplicate_error (env : Env) (s : State) (tx : Tx) (fb : Header)
    (hk : tx.kind = .faucet) (hm : (s.coins.getCoin (markerOf env tx)).isSome)
    (hnet : s.network ≠ .mainnet ∨ env.isGrandfathered tx.hash = true)
    (hwf : tx.isWellFormed = true ∧ tx.melTotalFits = true) (hcw : tx.covWeightsFit = true) (hin : tx.inputs = []) :
    applyBatch env s [tx] fb = .reject .duplicateTx := by
  have hst : ∀ rel, createNextState env s [tx] rel s.tip906 = .reject .duplicateTx := by
    intro rel
    have hf : handleFaucetTx env { s with coins := cnsCoins1 s [tx] rel s.tip906 } tx
        = .reject .duplicateTx := by
      have hp : ((cnsCoins1 s [tx] rel s.tip906).getCoin
          { txhash := env.fdp tx.hash, index := 0 }).isSome := cnsCoins1_present hm
      unfold handleFaucetTx
      simp only
      rw [if_neg, if_pos hp]
      rcases hnet with hn | hg
      · simp [hn]
      · simp [hg]
    rw [createNextState_eq]
    by_cases hdup : (s.txs.any fun t => decide (t.hash = tx.hash)) = true
    · simp only [Outcome.foldlM', cnsStep, if_pos hdup]
    · simp only [Outcome.foldlM', cnsStep, if_neg hdup, if_pos hk, hf, Outcome.bind]
  have h1 : ∃ rel, loadRelevantCoins s [tx] = .ok rel := by
    simp [loadRelevantCoins, hwf.1, hwf.2, hcw, hin, Outcome.foldlM', Outcome.bind]
  obtain ⟨rel, h1⟩ := h1
  have h2 : loadStakeInfo s [tx] = .ok [] := by
    simp [loadStakeInfo, Outcome.foldlM', hk]
  have h3 : ∀ ns, checkTxValidity env s (lastHeaderOf s fb) tx rel ns = .ok () := by
    intro ns
    simp [checkTxValidity, hin, Outcome.foldlM', Outcome.bind, checkBalanced, hk]
  unfold applyBatch
  simp [h1, h2, h3, hst, Outcome.bind, Outcome.forM', Outcome.foldlM', hk]

/-- the same faucet transaction twice in one batch is rejected (by the marker mechanism).  Since the
    `DuplicateTx` guard was added to `create_next_state` the hypotheses `hk`, `hng`, `hsep` are no longer needed
    for this conclusion (`C03_no_same_hash_twice`, `C19_once_per_block`); the statement is kept as it was. -/
theorem C19_same_batch (env : Env) (s : State) (txs : List Tx) (fb : Header) (tx : Tx)
    (hk : tx.kind = .faucet) (hng : env.isGrandfathered tx.hash = false) (htwice : (txs.filter (· = tx)).length ≥ 2)
    (hsep : ∀ t ∈ txs, markerOf env tx ∉ t.inputs) :
    ∀ s', applyBatch env s txs fb ≠ .ok s' := by
  intro s' h
  obtain ⟨rel, ns, next, _, _, _, hc, _⟩ := applyBatch_ok h
  rw [createNextState_eq] at hc
  obtain ⟨l₁, l₂, rfl, hm2⟩ := twice_split htwice
  obtain ⟨mid, mid', _, h2, h3⟩ := cnsFold_split hc
  have hp := (cnsStep_faucet h2 hk).2.2 hng (hsep tx (by simp))
  exact cnsFold_dup hm2 hk (fun t ht => hsep t (by simp [ht])) hp h3

/-- an accepted (non-grandfathered) faucet transaction leaves its marker in the coin set -/
theorem C19_marker_inserted (env : Env) (s s' : State) (txs : List Tx) (fb : Header)
    (h : applyBatch env s txs fb = .ok s') (tx : Tx) (htx : tx ∈ txs) (hk : tx.kind = .faucet)
    (hng : env.isGrandfathered tx.hash = false) (hsep : ∀ t ∈ txs, markerOf env tx ∉ t.inputs) :
    (s'.coins.getCoin (markerOf env tx)).isSome := by
  obtain ⟨rel, ns, next, _, _, _, hc, hco⟩ := applyBatch_ok h
  rw [createNextState_eq] at hc
  rw [hco]
  exact cnsFold_marker hc htx hk hng hsep

/-- a marker can never be spent: spending it would need a covenant hashing to the zero address -/
theorem C19_marker_unspendable (env : Env) (s s' : State) (txs : List Tx) (fb : Header)
    (h : applyBatch env s txs fb = .ok s') (m : CoinID) (c : CoinDataHeight)
    (hm : s.coins.getCoin m = some c) (hz : c.coinData.covhash = zeroHash)
    (hnz : ∀ t ∈ txs, zeroHash ∉ t.covHashes) (hnew : ∀ t ∈ txs, m.txhash ≠ t.hash) :
    s'.coins.getCoin m = some c := by
  obtain ⟨rel, ns, next, hrel, _, hv, hc, hco⟩ := applyBatch_ok h
  rw [createNextState_eq] at hc
  have hnotin : ∀ t ∈ txs, m ∉ t.inputs := by
    intro t ht hmi
    obtain ⟨coin, hcoin, hcov⟩ := checkTxValidity_input (Outcome.forM'_ok hv t ht) hmi
    rcases loadRelevantCoins_get hrel hcoin with ⟨t', ht', heq⟩ | hs
    · exact hnew t' ht' heq
    · rw [hm] at hs
      cases hs
      exact hcov (by rw [hz]; exact findCovenant_none (hnz t ht))
  have h0 : (cnsCoins1 s txs rel s.tip906).getCoin m = some c := by
    rw [cnsCoins1_other hnew]; exact hm
  have hp : ((cnsCoins1 s txs rel s.tip906).getCoin m).isSome := by rw [h0]; rfl
  rw [hco, cnsFold_keep hc hnotin hp]
  exact h0

/-- known finding (K3/F11): the grandfathered transaction gets no marker: the faucet step leaves the state
    untouched for it.  So the marker mechanism does not stop a replay of it.  Within one block the replay is now
    stopped by the `DuplicateTx` guard of `create_next_state` (`C19_grandfathered_once_per_block` below, added
    with the fix); in a later block — whose transaction list starts empty — nothing but the mainnet/grandfathered
    test and the marker lookup stands in its way, as before. -/
theorem C19_grandfathered_no_marker (env : Env) (s : State) (tx : Tx)
    (hg : env.isGrandfathered tx.hash = true) (hm : s.coins.getCoin (markerOf env tx) = none) :
    handleFaucetTx env s tx = .ok s := by
  unfold handleFaucetTx
  have hm' : s.coins.getCoin { txhash := env.fdp tx.hash, index := 0 } = none := hm
  simp [hg, hm']

/-- **at most once per block**, for ANY transaction (faucet or not, grandfathered or not): if the block's
    transaction list already holds a transaction with the hash of `tx`, every batch containing `tx` fails -/
theorem C19_once_per_block (env : Env) (s : State) (txs : List Tx) (fb : Header) (tx : Tx) (htx : tx ∈ txs)
    (hdup : ∃ t ∈ s.txs, t.hash = tx.hash) :
    ∀ s', applyBatch env s txs fb ≠ .ok s' := by
  intro s' h
  obtain ⟨rel, ns, next, _, _, _, hc, _⟩ := applyBatch_ok h
  rw [createNextState_eq] at hc
  exact cnsFold_dupHash (st := { s with coins := cnsCoins1 s txs rel s.tip906 }) htx hdup hc

/-- … in particular for the grandfathered faucet transaction, which leaves no marker
    (`C19_grandfathered_no_marker`) and could be applied to the same block twice before the fix -/
theorem C19_grandfathered_once_per_block (env : Env) (s : State) (txs : List Tx) (fb : Header) (tx : Tx)
    (_hg : env.isGrandfathered tx.hash = true) (htx : tx ∈ txs) (hdup : ∃ t ∈ s.txs, t.hash = tx.hash) :
    ∀ s', applyBatch env s txs fb ≠ .ok s' :=
  C19_once_per_block env s txs fb tx htx hdup

/-- … and when that is the batch's only defect (a well-formed, input-less faucet transaction on its own) the
    error is `DuplicateTx`.  Unlike `C19_duplicate_error` this needs no hypothesis about the network or about
    grandfathering: the guard comes before the faucet step. -/
theorem C19_grandfathered_once_per_block_error (env : Env) (s : State) (tx : Tx) (fb : Header)
    (hk : tx.kind = .faucet) (hdup : ∃ t ∈ s.txs, t.hash = tx.hash)
    (hwf : tx.isWellFormed = true ∧ tx.melTotalFits = true) (hcw : tx.covWeightsFit = true) (hin : tx.inputs = []) :
    applyBatch env s [tx] fb = .reject .duplicateTx := by
  have hany : (s.txs.any fun t => decide (t.hash = tx.hash)) = true := by
    obtain ⟨t, ht, e⟩ := hdup
    exact List.any_eq_true.mpr ⟨t, ht, by simpa using e⟩
  have hst : ∀ rel, createNextState env s [tx] rel s.tip906 = .reject .duplicateTx := by
    intro rel
    rw [createNextState_eq]
    simp only [Outcome.foldlM', cnsStep, if_pos hany]
  have h1 : ∃ rel, loadRelevantCoins s [tx] = .ok rel := by
    simp [loadRelevantCoins, hwf.1, hwf.2, hcw, hin, Outcome.foldlM', Outcome.bind]
  obtain ⟨rel, h1⟩ := h1
  have h2 : loadStakeInfo s [tx] = .ok [] := by
    simp [loadStakeInfo, Outcome.foldlM', hk]
  have h3 : ∀ ns, checkTxValidity env s (lastHeaderOf s fb) tx rel ns = .ok () := by
    intro ns
    simp [checkTxValidity, hin, Outcome.foldlM', Outcome.bind, checkBalanced, hk]
  unfold applyBatch
  simp [h1, h2, h3, hst, Outcome.bind, Outcome.forM', Outcome.foldlM', hk]

/-! ### the fix at work -/
namespace C19Witness

/-- every faucet transaction is grandfathered -/
def env : Env := {
  vm := { hash := id, sigOk := fun _ _ _ => true },
  liqHash := id, fdp := fun h => 9 :: h, rewardId := fun _ => [], hdrHash := fun _ => [],
  powOk := fun _ _ _ _ => .invalid, isGrandfathered := fun _ => true,
  historyRoot := fun _ => [], coinsRoot := fun _ => [], txsRoot := fun _ _ => [],
  poolsRoot := fun _ => [], stakesRoot := fun _ => [] }

def s : State := {
  network := .mainnet, height := 10, history := [], coins := { coins := [], counts := [] },
  txs := [], feePool := 0, feeMultiplier := 0, tips := 0, doscSpeed := 0, pools := [], stakes := [] }

/-- a (grandfathered) faucet transaction minting 5 MEL -/
def g : Tx := {
  kind := .faucet, inputs := [], outputs := [(⟨[8], 5, .mel, []⟩ : CoinData)], fee := 0,
  covenants := [], data := [], sigs := [], hash := [3], rawLen := 0, covHashes := [] }

def isDup : Outcome State → Bool
  | .reject .duplicateTx => true
  | _ => false

theorem eq_of_isDup {o : Outcome State} (h : isDup o = true) : o = .reject .duplicateTx := by
  cases o with
  | ok a => cases h
  | crash c => cases h
  | reject e => cases e <;> first | rfl | cases h

end C19Witness

open C19Witness in
/-- non-vacuity and the fix at work, on mainnet: the grandfathered faucet transaction is accepted once, leaves no
    marker, lands in the block's transaction list (the hypotheses of `C19_grandfathered_once_per_block` and of
    `C19_grandfathered_once_per_block_error` hold of the resulting state), and its second application to the
    same block — alone or twice in one batch — is rejected with `DuplicateTx` -/
theorem C19_grandfathered_once_per_block_nonvacuous :
    env.isGrandfathered g.hash = true ∧ g.kind = .faucet ∧ g.inputs = [] ∧
    (g.isWellFormed = true ∧ g.melTotalFits = true) ∧ g.covWeightsFit = true ∧
    applyBatch env s [g, g] default = .reject .duplicateTx ∧
    ∃ s₁, applyBatch env s [g] default = .ok s₁ ∧ s₁.coins.getCoin (markerOf env g) = none ∧
      (∃ t ∈ s₁.txs, t.hash = g.hash) ∧ applyBatch env s₁ [g] default = .reject .duplicateTx := by
  refine ⟨rfl, rfl, rfl, ⟨by decide, by decide⟩, by decide, eq_of_isDup (by decide +kernel), ?_⟩
  have h : (match applyBatch env s [g] default with
    | .ok s₁ => decide (s₁.coins.getCoin (markerOf env g) = none) && s₁.txs.any (fun t => t.hash = g.hash)
    | _ => false) = true := by decide +kernel
  cases hs : applyBatch env s [g] default with
  | ok s₁ =>
    rw [hs] at h
    simp only [Bool.and_eq_true, decide_eq_true_eq, List.any_eq_true] at h
    obtain ⟨h1, t, ht, e⟩ := h
    have hdup : ∃ t ∈ s₁.txs, t.hash = g.hash := ⟨t, ht, e⟩
    exact ⟨s₁, rfl, h1, hdup,
      C19_grandfathered_once_per_block_error env s₁ g default rfl hdup ⟨by decide, by decide⟩ (by decide) rfl⟩
  | reject e => rw [hs] at h; cases h
  | crash c => rw [hs] at h; cases h

end Mel

#print axioms Mel.C19_mainnet
#print axioms Mel.C19_duplicate_rejected
#print axioms Mel.C19_duplicate_error
#print axioms Mel.C19_same_batch
#print axioms Mel.C19_marker_inserted
#print axioms Mel.C19_marker_unspendable
#print axioms Mel.C19_grandfathered_no_marker
#print axioms Mel.C19_once_per_block
#print axioms Mel.C19_grandfathered_once_per_block
#print axioms Mel.C19_grandfathered_once_per_block_error
#print axioms Mel.C19_grandfathered_once_per_block_nonvacuous
