/-
  C19 — Faucets: never on mainnet, and at most once anywhere.
  Property theorems only; helper lemmas live in MelModel/Lemmas/Faucet.lean.
-/
import MelModel.Chain
import MelModel.Lemmas.Faucet
namespace Mel
open Mel.FaucetL

/-- the de-duplication marker of a faucet transaction -/
def markerOf (env : Env) (tx : Tx) : CoinID := { txhash := env.fdp tx.hash, index := 0 }

/-- on mainnet an accepted batch contains no faucet transaction other than the grandfathered one -/
theorem C19_mainnet (env : Env) (s s' : State) (txs : List Tx) (fb : Header) (hnet : s.network = .mainnet)
    (h : applyBatch env s txs fb = .ok s') (tx : Tx) (htx : tx ∈ txs) (hk : tx.kind = .faucet) :
    env.isGrandfathered tx.hash = true := by
  obtain ⟨rel, ns, next, _, _, _, hc, _⟩ := applyBatch_ok h
  rw [createNextState_eq] at hc
  obtain ⟨l₁, l₂, rfl⟩ := List.append_of_mem htx
  obtain ⟨mid, mid', h1, h2, _⟩ := cnsFold_split hc
  exact (cnsStep_faucet h2 hk).1 ((cnsFold_network h1).trans hnet)

/-- a faucet transaction whose marker is already in the coin set makes the batch fail -/
theorem C19_duplicate_rejected (env : Env) (s : State) (txs : List Tx) (fb : Header) (tx : Tx) (htx : tx ∈ txs)
    (hk : tx.kind = .faucet) (hm : (s.coins.getCoin (markerOf env tx)).isSome)
    (hsep : ∀ t ∈ txs, markerOf env tx ∉ t.inputs) :
    ∀ s', applyBatch env s txs fb ≠ .ok s' := by
  intro s' h
  obtain ⟨rel, ns, next, _, _, _, hc, _⟩ := applyBatch_ok h
  rw [createNextState_eq] at hc
  exact cnsFold_dup htx hk hsep (cnsCoins1_present hm) hc

/-- … and when that is the batch's only defect (the single-transaction case) the error is `DuplicateTx` -/
theorem C19_duplicate_error (env : Env) (s : State) (tx : Tx) (fb : Header)
    (hk : tx.kind = .faucet) (hm : (s.coins.getCoin (markerOf env tx)).isSome)
    (hnet : s.network ≠ .mainnet ∨ env.isGrandfathered tx.hash = true)
    (hwf : tx.isWellFormed = true ∧ tx.melTotalFits = true) (hin : tx.inputs = []) :
    applyBatch env s [tx] fb = .reject .duplicateTx := by
  have hst : ∀ rel, createNextState env s [tx] rel s.tip906 = .reject .duplicateTx := by
    intro rel
    have hf : handleFaucetTx env { s with coins := cnsCoins1 s [tx] rel s.tip906 } tx
        = .reject .duplicateTx := by
      have hp : ((cnsCoins1 s [tx] rel s.tip906).getCoin
          { txhash := env.fdp tx.hash, index := 0 }).isSome := cnsCoins1_present hm
      unfold handleFaucetTx
      simp only
      rw [if_neg, if_pos hp]
      rcases hnet with hn | hg
      · simp [hn]
      · simp [hg]
    rw [createNextState_eq]
    simp only [Outcome.foldlM', cnsStep, if_pos hk, hf, Outcome.bind]
  have h1 : ∃ rel, loadRelevantCoins s [tx] = .ok rel := by
    simp [loadRelevantCoins, hwf.1, hwf.2, hin, Outcome.foldlM', Outcome.bind]
  obtain ⟨rel, h1⟩ := h1
  have h2 : loadStakeInfo s [tx] = .ok [] := by
    simp [loadStakeInfo, Outcome.foldlM', hk]
  have h3 : ∀ ns, checkTxValidity env s (lastHeaderOf s fb) tx rel ns = .ok () := by
    intro ns
    simp [checkTxValidity, hin, Outcome.foldlM', Outcome.bind, checkBalanced, hk]
  unfold applyBatch
  simp [h1, h2, h3, hst, Outcome.bind, Outcome.forM', Outcome.foldlM', hk]

/-- the same faucet transaction twice in one batch is rejected -/
theorem C19_same_batch (env : Env) (s : State) (txs : List Tx) (fb : Header) (tx : Tx)
    (hk : tx.kind = .faucet) (hng : env.isGrandfathered tx.hash = false) (htwice : (txs.filter (· = tx)).length ≥ 2)
    (hsep : ∀ t ∈ txs, markerOf env tx ∉ t.inputs) :
    ∀ s', applyBatch env s txs fb ≠ .ok s' := by
  intro s' h
  obtain ⟨rel, ns, next, _, _, _, hc, _⟩ := applyBatch_ok h
  rw [createNextState_eq] at hc
  obtain ⟨l₁, l₂, rfl, hm2⟩ := twice_split htwice
  obtain ⟨mid, mid', _, h2, h3⟩ := cnsFold_split hc
  have hp := (cnsStep_faucet h2 hk).2.2 hng (hsep tx (by simp))
  exact cnsFold_dup hm2 hk (fun t ht => hsep t (by simp [ht])) hp h3

/-- an accepted (non-grandfathered) faucet transaction leaves its marker in the coin set -/
theorem C19_marker_inserted (env : Env) (s s' : State) (txs : List Tx) (fb : Header)
    (h : applyBatch env s txs fb = .ok s') (tx : Tx) (htx : tx ∈ txs) (hk : tx.kind = .faucet)
    (hng : env.isGrandfathered tx.hash = false) (hsep : ∀ t ∈ txs, markerOf env tx ∉ t.inputs) :
    (s'.coins.getCoin (markerOf env tx)).isSome := by
  obtain ⟨rel, ns, next, _, _, _, hc, hco⟩ := applyBatch_ok h
  rw [createNextState_eq] at hc
  rw [hco]
  exact cnsFold_marker hc htx hk hng hsep

/-- a marker can never be spent: spending it would need a covenant hashing to the zero address -/
theorem C19_marker_unspendable (env : Env) (s s' : State) (txs : List Tx) (fb : Header)
    (h : applyBatch env s txs fb = .ok s') (m : CoinID) (c : CoinDataHeight)
    (hm : s.coins.getCoin m = some c) (hz : c.coinData.covhash = zeroHash)
    (hnz : ∀ t ∈ txs, zeroHash ∉ t.covHashes) (hnew : ∀ t ∈ txs, m.txhash ≠ t.hash) :
    s'.coins.getCoin m = some c := by
  obtain ⟨rel, ns, next, hrel, _, hv, hc, hco⟩ := applyBatch_ok h
  rw [createNextState_eq] at hc
  have hnotin : ∀ t ∈ txs, m ∉ t.inputs := by
    intro t ht hmi
    obtain ⟨coin, hcoin, hcov⟩ := checkTxValidity_input (Outcome.forM'_ok hv t ht) hmi
    rcases loadRelevantCoins_get hrel hcoin with ⟨t', ht', heq⟩ | hs
    · exact hnew t' ht' heq
    · rw [hm] at hs
      cases hs
      exact hcov (by rw [hz]; exact findCovenant_none (hnz t ht))
  have h0 : (cnsCoins1 s txs rel s.tip906).getCoin m = some c := by
    rw [cnsCoins1_other hnew]; exact hm
  have hp : ((cnsCoins1 s txs rel s.tip906).getCoin m).isSome := by rw [h0]; rfl
  rw [hco, cnsFold_keep hc hnotin hp]
  exact h0

/-- known finding (K3/F11): the grandfathered transaction gets no marker, so nothing stops a replay:
    the faucet step leaves the state untouched for it -/
theorem C19_grandfathered_no_marker (env : Env) (s : State) (tx : Tx)
    (hg : env.isGrandfathered tx.hash = true) (hm : s.coins.getCoin (markerOf env tx) = none) :
    handleFaucetTx env s tx = .ok s := by
  unfold handleFaucetTx
  have hm' : s.coins.getCoin { txhash := env.fdp tx.hash, index := 0 } = none := hm
  simp [hg, hm']

end Mel

#print axioms Mel.C19_mainnet
#print axioms Mel.C19_duplicate_rejected
#print axioms Mel.C19_duplicate_error
#print axioms Mel.C19_same_batch
#print axioms Mel.C19_marker_inserted
#print axioms Mel.C19_marker_unspendable
#print axioms Mel.C19_grandfathered_no_marker
