/-
  C06 — A block is accepted exactly when it is the correct successor.
  Property theorems only; helper lemmas live in MelModel/Lemmas/Blocks.lean.
-/
import MelModel.Chain
import MelModel.Lemmas.Blocks
namespace Mel
open Mel.Gen

/-- **accepted iff correct successor**: all transactions valid against the state being extended, and the
    block's header equal to the header obtained by applying them and the action and sealing -/
theorem C06_iff (env : Env) (ss ss' : Sealed) (blk : Block) :
    applyBlock env ss blk = .ok ss' ↔
      ∃ basis applied, nextUnsealed env ss = .ok basis ∧ 2 ≤ basis.pools.length ∧
        applyBatch env basis blk.transactions default = .ok applied ∧
        sealState env applied blk.action = .ok ss' ∧ headerOf env ss' = .ok blk.header := by
  exact applyBlock_eq_ok_iff env ss ss' blk

/-- the returned state has precisely the block's header and action -/
theorem C06_result_header (env : Env) (ss ss' : Sealed) (blk : Block) (h : applyBlock env ss blk = .ok ss') :
    headerOf env ss' = .ok blk.header ∧ ss'.action = blk.action := by
  obtain ⟨basis, applied, _, _, _, h3, h4⟩ := (C06_iff env ss ss' blk).1 h
  exact ⟨h4, sealState_action env applied blk.action ss' h3⟩

/-- the fallback header of `applyBatch` is irrelevant after `next_unsealed` (the previous header is in the history).
    Since the `fix:` for finding F25 the fallback is irrelevant in every state (`C03_applyBatch_fallback_unused`); the
    statement is kept as it was. -/
theorem C06_fallback_irrelevant (env : Env) (ss : Sealed) (basis : State) (h : nextUnsealed env ss = .ok basis)
    (txs : List Tx) (fb₁ fb₂ : Header) : applyBatch env basis txs fb₁ = applyBatch env basis txs fb₂ := by
  exact applyBatch_congr_lastHeader env basis txs fb₁ fb₂ (lastHeaderOf_nextUnsealed env ss basis h fb₁ fb₂)

/-- **honest blocks are accepted**: a block built by applying a batch to the successor state, sealing, and taking
    the header is accepted by its parent, and applying it yields exactly the sealed state -/
theorem C06_honest (env : Env) (ss sealed : Sealed) (basis u : State) (txs : List Tx) (a : Option ProposerAction)
    (hdr fb : Header)
    (h1 : nextUnsealed env ss = .ok basis) (hp : 2 ≤ basis.pools.length)
    (h2 : applyBatch env basis txs fb = .ok u) (h3 : sealState env u a = .ok sealed)
    (h4 : headerOf env sealed = .ok hdr) :
    applyBlock env ss { header := hdr, transactions := txs, action := a } = .ok sealed := by
  refine (C06_iff env ss sealed _).2 ⟨basis, u, h1, hp, ?_, h3, h4⟩
  rw [C06_fallback_irrelevant env ss basis h1 txs default fb]
  exact h2

/-- altering any header field makes an otherwise acceptable block rejected with `WrongHeader` -/
theorem C06_header_mutation (env : Env) (ss ss' : Sealed) (blk : Block) (h' : Header)
    (h : applyBlock env ss blk = .ok ss') (hne : h' ≠ blk.header) :
    applyBlock env ss { blk with header := h' } = .reject .wrongHeader := by
  obtain ⟨basis, applied, h1, hp, h2, h3, h4⟩ := (C06_iff env ss ss' blk).1 h
  have hp' : ¬ basis.pools.length < 2 := by omega
  have hne' : ¬ blk.header = h' := fun e => hne e.symm
  unfold applyBlock
  simp [h1, Outcome.bind, hp', h2, h3, h4, hne']

/-- a block is determined by its parent, its transactions and its action: two accepted blocks with the same
    transactions and action carry the same header and yield the same state -/
theorem C06_deterministic (env : Env) (ss s₁ s₂ : Sealed) (b₁ b₂ : Block)
    (ht : b₁.transactions = b₂.transactions) (ha : b₁.action = b₂.action)
    (h₁ : applyBlock env ss b₁ = .ok s₁) (h₂ : applyBlock env ss b₂ = .ok s₂) :
    b₁.header = b₂.header ∧ s₁ = s₂ := by
  obtain ⟨basis₁, applied₁, a1, _, a2, a3, a4⟩ := (C06_iff env ss s₁ b₁).1 h₁
  obtain ⟨basis₂, applied₂, c1, _, c2, c3, c4⟩ := (C06_iff env ss s₂ b₂).1 h₂
  rw [a1] at c1; cases c1
  rw [ht, c2] at a2; cases a2
  rw [ha, c3] at a3; cases a3
  rw [a4] at c4
  exact ⟨Outcome.ok.inj c4, rfl⟩

/-- changing the transactions or the action of an accepted block leaves it acceptable only if the changed block
    seals to the very same header -/
theorem C06_content_mutation (env : Env) (ss s₁ s₂ : Sealed) (b₁ b₂ : Block) (hh : b₁.header = b₂.header)
    (h₁ : applyBlock env ss b₁ = .ok s₁) (h₂ : applyBlock env ss b₂ = .ok s₂) :
    headerOf env s₁ = headerOf env s₂ := by
  obtain ⟨_, _, _, _, _, _, a4⟩ := (C06_iff env ss s₁ b₁).1 h₁
  obtain ⟨_, _, _, _, _, _, c4⟩ := (C06_iff env ss s₂ b₂).1 h₂
  rw [a4, c4, hh]

/-- known finding (K1/F12): two actions whose deltas give the same scaled movement seal to the same state, hence
    the same header — the edited block is accepted. -/
theorem C06_delta_equivalent (env : Env) (s : State) (a₁ a₂ : ProposerAction) (ss₁ : Sealed)
    (hd : a₁.rewardDest = a₂.rewardDest)
    (hm : moveFeeMultiplier s.feeMultiplier a₁.feeMultiplierDelta s.tip901 = moveFeeMultiplier s.feeMultiplier a₂.feeMultiplierDelta s.tip901)
    (h : sealState env s (some a₁) = .ok ss₁) :
    ∃ ss₂, sealState env s (some a₂) = .ok ss₂ ∧ ss₂.st = ss₁.st := by
  unfold sealState at h ⊢
  obtain ⟨s1, e1, h⟩ := Outcome.bind_eq_ok h
  have hs1 := presealMelmint_same env s s1 e1
  simp only [e1, Outcome.bind] at h ⊢
  split at h
  · cases h
  · next hp =>
    rw [if_neg hp]
    obtain ⟨s2, e2, h⟩ := Outcome.bind_eq_ok h
    have hs2 : SameFM s s2 := by
      refine hs1.trans ?_
      split at e2
      · exact applyTip909_same _ _ e2
      · cases e2; exact SameFM.refl _
    obtain ⟨s3, e3, h⟩ := Outcome.bind_eq_ok h
    cases h
    have e3' : applyProposerAction env s2 a₂ = .ok s3 := by
      rw [← e3]
      unfold applyProposerAction
      rw [hs2.1, hs2.tip901, hm]
      exact (collectProposerFee_congr env _ a₁ a₂ hd).symm
    refine ⟨{ st := s3, action := some a₂ }, ?_, rfl⟩
    simp [e2, e3']

/-- the witness: deltas 0 and 1 at multiplier 100 move the multiplier identically -/
theorem C06_delta_witness : moveFeeMultiplier 100 0 true = moveFeeMultiplier 100 1 true := by
  decide

end Mel

#print axioms Mel.C06_iff
#print axioms Mel.C06_result_header
#print axioms Mel.C06_fallback_irrelevant
#print axioms Mel.C06_honest
#print axioms Mel.C06_header_mutation
#print axioms Mel.C06_deterministic
#print axioms Mel.C06_content_mutation
#print axioms Mel.C06_delta_equivalent
#print axioms Mel.C06_delta_witness
