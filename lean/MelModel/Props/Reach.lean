/-
  Reachable states: the structural invariants that the per-property theorems take as hypotheses hold of every
  state reachable from a genesis state by applying batches and sealing blocks.  This is the state-level lift
  of C20 (the per-covenant counts are right in *every* reachable state), and it discharges the structural
  hypotheses of C02/C03/C09.

  What remains a hypothesis of the steps, and why:
  * `BatchFresh`: distinct transactions have distinct hashes and the coins a batch creates do not exist yet —
    collision-freeness of the transaction hash (blake3), not a property of the state machine;
  * `RewardFresh`: the proposer-reward pseudo-coin of a height does not exist before that block is sealed —
    domain separation of `CoinID::proposer_reward` from transaction hashes;
  * `MarkerFresh` (ADDED while proving; it is not part of `Reachable`, whose definition is unchanged, but of the
    refined `ReachableSep`): the de-duplication pseudo-coin id of a faucet transaction is not the hash of a
    transaction of the block — domain separation of `faucet_dedup_pseudocoin` from transaction hashes.
    Without it `reachable_inv` is FALSE (`reachable_inv_counterexample`): the statements about reachable
    states below therefore take `ReachableSep env s` as an additional hypothesis.
  The invariant `Inv` alone is not inductive: sealing needs the slot discipline `Slots` of the current block
  (`reach_seal_inv_counterexample`), which batches keep under `MarkerFresh` (`reach_batch_slots`).
  Property theorems only; helper lemmas live in MelModel/Lemmas/ReachL.lean.
-/
import MelModel.Genesis
import MelModel.Chain
import MelModel.Props.C03
import MelModel.Props.C09
import MelModel.Props.C20
import MelModel.Lemmas.ReachL
namespace Mel
open Mel.Gen

/-- the structural invariant of unsealed states -/
structure Inv (s : State) : Prop where
  /-- coin ids are unique keys -/
  coinKeys : (s.coins.coins.map (·.1)).Nodup
  /-- C20: once TIP-906 is active the per-covenant counts are exactly the numbers of unspent coins … -/
  counts : s.tip906 = true → CountsOk s.coins
  /-- … and before that no count entry exists at all -/
  noCounts : s.tip906 = false → s.coins.counts = []
  /-- no coin is from the future -/
  heights : ∀ id c, s.coins.getCoin id = some c → c.height ≤ s.height
  /-- the history holds exactly the headers of the earlier blocks -/
  historyBelow : ∀ h hdr, s.history.get h = some hdr → h < s.height
  historyFull : ∀ h, h < s.height → ∃ hdr, s.history.get h = some hdr
  historyHeights : ∀ h hdr, s.history.get h = some hdr → hdr.height = h
  /-- DOSC speeds are positive -/
  speedPos : 0 < s.doscSpeed
  speeds : ∀ h hdr, s.history.get h = some hdr → 0 < hdr.doscSpeed
  /-- the block's transactions are kept sorted by hash (hence with distinct hashes) -/
  sorted : SortedTxs s.txs
  /-- pool keys are unique -/
  poolKeys : (s.pools.map (·.1)).Nodup

/-- what a batch step assumes of the transaction hash -/
structure BatchFresh (s : State) (txs : List Tx) : Prop where
  hashes : (txs.map (·.hash)).Nodup
  fresh : ∀ t ∈ txs, ∀ i, s.coins.getCoin ⟨t.hash, i⟩ = none

/-- what a seal step assumes of the reward pseudo-coin id -/
def RewardFresh (env : Env) (s : State) : Prop :=
  s.coins.getCoin { txhash := env.rewardId s.height, index := 0 } = none

/-- states reachable from a genesis configuration: apply any accepted batch; seal (with or without a proposer
    action) and open the next block -/
inductive Reachable (env : Env) : State → Prop
  | genesis (cfg : GenesisConfig) : Reachable env (genesisState cfg)
  | batch {s s' : State} {txs : List Tx} {fb : Header} :
      Reachable env s → BatchFresh s txs → applyBatch env s txs fb = .ok s' → Reachable env s'
  | block {s s' : State} {ss : Sealed} {a : Option ProposerAction} :
      Reachable env s → RewardFresh env s → sealState env s a = .ok ss → nextUnsealed env ss = .ok s' →
      Reachable env s'

/-- the slot discipline of the current block: a coin sitting at an output slot of a transaction of the block is
    locked by the covenant of that output (slot 1 of a single-output transaction counts as slot 0 — a
    liquidity withdrawal puts its second coin there).  Settlement (`sealState`) REWRITES such coins in place
    without touching the counts, so the count invariant survives sealing only if this holds. -/
abbrev Slots (s : State) : Prop := ReachL.Slots s.txs s.coins

/-- `Slots`, spelled out -/
theorem slots_iff (s : State) : Slots s ↔
    ∀ tx ∈ s.txs, ∀ i c, s.coins.getCoin ⟨tx.hash, i⟩ = some c →
      ∃ o, (tx.outputs[i]? = some o ∨ (i = 1 ∧ tx.outputs = [o])) ∧ c.coinData.covhash = o.covhash := Iff.rfl

/-- what a batch step has to assume of the faucet de-duplication pseudo-coin id, in addition to `BatchFresh`:
    the marker `faucet_dedup_pseudocoin(txhash)` of a (non-grandfathered) faucet transaction of the batch is not
    the hash of a transaction of the block — domain separation of `faucet_dedup_pseudocoin` from transaction
    hashes.  Without it the marker (covenant hash 0) can land on output slot 0 of a swap transaction whose
    coin has been spent; settlement then rewrites the marker into a coin locked by the swap's covenant and
    the counts are off (`reachable_inv_counterexample`). -/
def MarkerFresh (env : Env) (s : State) (txs : List Tx) : Prop :=
  ∀ f ∈ txs, f.kind = .faucet → env.isGrandfathered f.hash = false →
    ∀ u, u ∈ txs ∨ u ∈ s.txs → env.fdp f.hash ≠ u.hash

/-- `Reachable` with the additional step assumption `MarkerFresh` -/
inductive ReachableSep (env : Env) : State → Prop
  | genesis (cfg : GenesisConfig) : ReachableSep env (genesisState cfg)
  | batch {s s' : State} {txs : List Tx} {fb : Header} :
      ReachableSep env s → BatchFresh s txs → MarkerFresh env s txs → applyBatch env s txs fb = .ok s' →
      ReachableSep env s'
  | block {s s' : State} {ss : Sealed} {a : Option ProposerAction} :
      ReachableSep env s → RewardFresh env s → sealState env s a = .ok ss → nextUnsealed env ss = .ok s' →
      ReachableSep env s'

theorem ReachableSep.reachable {env : Env} {s : State} (h : ReachableSep env s) : Reachable env s := by
  induction h with
  | genesis cfg => exact .genesis cfg
  | batch _ hf _ hb ih => exact .batch ih hf hb
  | block _ hr hs hn ih => exact .block ih hr hs hn

/-- the genesis state satisfies the invariant -/
theorem reach_genesis_inv (cfg : GenesisConfig) : Inv (genesisState cfg) := by
  have hcm := ReachL.genesis_cm cfg
  exact {
    coinKeys := hcm.keys
    counts := hcm.counts
    noCounts := hcm.noCounts
    heights := hcm.heights
    historyBelow := fun h hdr hg => by simp [genesisState, AList.get] at hg
    historyFull := fun h hlt => by simp [genesisState] at hlt
    historyHeights := fun h hdr hg => by simp [genesisState, AList.get] at hg
    speedPos := by simp [genesisState]; decide
    speeds := fun h hdr hg => by simp [genesisState, AList.get] at hg
    sorted := trivial
    poolKeys := List.nodup_nil }

/-- an accepted batch preserves the invariant -/
theorem reach_batch_inv (env : Env) (s s' : State) (txs : List Tx) (fb : Header) (hi : Inv s)
    (hf : BatchFresh s txs) (h : applyBatch env s txs fb = .ok s') : Inv s' := by
  obtain ⟨e1, e2, e3, e4, e5, e6, hcm⟩ :=
    ReachL.applyBatch_facts h ⟨hi.coinKeys, hi.counts, hi.noCounts, hi.heights⟩ hf.fresh
  have ht : s'.tip906 = s.tip906 := C3.tip906_eq e1 e2
  exact {
    coinKeys := hcm.keys
    counts := fun h906 => hcm.counts (ht ▸ h906)
    noCounts := fun h906 => hcm.noCounts (ht ▸ h906)
    heights := fun id c hc => e2 ▸ hcm.heights id c hc
    historyBelow := fun h hdr hg => by rw [e3] at hg; rw [e2]; exact hi.historyBelow h hdr hg
    historyFull := fun h hlt => by rw [e3]; rw [e2] at hlt; exact hi.historyFull h hlt
    historyHeights := fun h hdr hg => by rw [e3] at hg; exact hi.historyHeights h hdr hg
    speedPos := Nat.lt_of_lt_of_le hi.speedPos e5
    speeds := fun h hdr hg => by rw [e3] at hg; exact hi.speeds h hdr hg
    sorted := by
      rw [e6]
      exact ReachL.sortedTxs_of_pairwise
        (C3.foldl_insertTx_spec txs s.txs (sortedTxs_pairwise hi.sorted) hf.hashes).1
    poolKeys := by rw [e4]; exact hi.poolKeys }

/-- sealing preserves the invariant of the sealed (inner) state, except that the transaction list stays -/
theorem reach_seal_inv (env : Env) (s : State) (a : Option ProposerAction) (ss : Sealed) (hi : Inv s)
    /- ADDED (the statement is false without it, see `reach_seal_inv_counterexample`): settlement overwrites
        the coins at the output slots of the block's swap / deposit / withdrawal transactions with coins locked
        by the covenant of the transaction's first output and leaves the counts alone -/
    (hslots : Slots s)
    (hr : RewardFresh env s) (h : sealState env s a = .ok ss) : Inv ss.st := by
  obtain ⟨e1, e2, e3, e4, e5, e6, hcm⟩ :=
    ReachL.sealState_facts ⟨hi.coinKeys, hi.counts, hi.noCounts, hi.heights⟩ hslots
      (ReachL.nodup_hashes_of_pairwise (sortedTxs_pairwise hi.sorted)) hi.poolKeys hr h
  have ht : ss.st.tip906 = s.tip906 := C3.tip906_eq e3 e2
  exact {
    coinKeys := hcm.keys
    counts := fun h906 => hcm.counts (ht ▸ h906)
    noCounts := fun h906 => hcm.noCounts (ht ▸ h906)
    heights := fun id c hc => e2 ▸ hcm.heights id c hc
    historyBelow := fun h hdr hg => by rw [e1] at hg; rw [e2]; exact hi.historyBelow h hdr hg
    historyFull := fun h hlt => by rw [e1]; rw [e2] at hlt; exact hi.historyFull h hlt
    historyHeights := fun h hdr hg => by rw [e1] at hg; exact hi.historyHeights h hdr hg
    speedPos := by rw [e4]; exact hi.speedPos
    speeds := fun h hdr hg => by rw [e1] at hg; exact hi.speeds h hdr hg
    sorted := by rw [e5]; exact hi.sorted
    poolKeys := e6 }

/-- an accepted batch keeps the slot discipline of the block, when its faucet markers keep clear of the
    transaction hashes -/
theorem reach_batch_slots (env : Env) (s s' : State) (txs : List Tx) (fb : Header) (hi : Inv s) (hs : Slots s)
    (hf : BatchFresh s txs) (hm : MarkerFresh env s txs) (h : applyBatch env s txs fb = .ok s') : Slots s' :=
  ReachL.applyBatch_slots h (sortedTxs_pairwise hi.sorted) hf.hashes hf.fresh hs hm

/-- opening the next block preserves the invariant (this is where TIP-906 may activate and the counts are
    initialised from the coin set) -/
theorem reach_next_inv (env : Env) (ss : Sealed) (s' : State) (hi : Inv ss.st)
    (h : nextUnsealed env ss = .ok s') : Inv s' := by
  unfold nextUnsealed at h
  obtain ⟨hdr, hh, h⟩ := Outcome.bind_eq_ok h
  obtain ⟨p, -, hhdr⟩ := headerOf_ok env ss hdr hh
  have hdrh : hdr.height = ss.st.height := by rw [hhdr]
  have hdrs : 0 < hdr.doscSpeed := by rw [hhdr]; exact hi.speedPos
  obtain ⟨g1, g2, g3, g4⟩ := ReachL.history_next hi.historyBelow hi.historyFull hi.historyHeights hi.speeds hdrh hdrs
  have hmono : ∀ x : State, x.network = ss.st.network → x.height = ss.st.height + 1 →
      ss.st.tip906 = true → x.tip906 = true := fun x hn hx ht =>
    ReachL.tipCondition_mono (s := ss.st) (s' := x) hn (by omega) _ ht
  simp only at h
  split at h
  · next hc =>
    cases h
    simp only [Bool.and_eq_true, Bool.not_eq_true', ] at hc
    have hempty := hi.noCounts hc.2
    have hco := ReachL.transition_coins ss.st.coins hempty
    exact {
      coinKeys := by simp only [hco]; exact hi.coinKeys
      counts := fun _ => C20_activation _ hi.coinKeys hempty
      noCounts := fun hf => Bool.noConfusion (hf.symm.trans hc.1)
      heights := fun id c hg => by
        simp only [CoinMap.getCoin, hco] at hg
        exact Nat.le_succ_of_le (hi.heights id c hg)
      historyBelow := g1
      historyFull := g2
      historyHeights := g3
      speedPos := hi.speedPos
      speeds := g4
      sorted := trivial
      poolKeys := hi.poolKeys }
  · next hc =>
    cases h
    exact {
      coinKeys := hi.coinKeys
      counts := fun ht => by
        apply hi.counts
        cases h0 : ss.st.tip906 with
        | true => rfl
        | false => exact absurd (by simp [ht, h0]) hc
      noCounts := fun hf => by
        apply hi.noCounts
        cases h0 : ss.st.tip906 with
        | false => rfl
        | true => exact Bool.noConfusion (hf.symm.trans (hmono _ rfl rfl h0))
      heights := fun id c hg => Nat.le_succ_of_le (hi.heights id c hg)
      historyBelow := g1
      historyFull := g2
      historyHeights := g3
      speedPos := hi.speedPos
      speeds := g4
      sorted := trivial
      poolKeys := hi.poolKeys }

/-- the inductive strengthening: every state reachable under `MarkerFresh` satisfies the invariant and the slot
    discipline of its block -/
theorem reachable_inv_slots (env : Env) (s : State) (hsep : ReachableSep env s) : Inv s ∧ Slots s := by
  induction hsep with
  | genesis cfg => exact ⟨reach_genesis_inv cfg, fun tx htx => nomatch htx⟩
  | batch _ hf hm hb ih =>
    exact ⟨reach_batch_inv env _ _ _ _ ih.1 hf hb, reach_batch_slots env _ _ _ _ ih.1 ih.2 hf hm hb⟩
  | block _ hr hs hn ih =>
    refine ⟨reach_next_inv env _ _ (reach_seal_inv env _ _ _ ih.1 ih.2 hr hs) hn, ?_⟩
    intro tx htx
    rw [ReachL.nextUnsealed_txs hn] at htx
    cases htx

set_option linter.unusedVariables false in
/-- **every reachable state satisfies the invariant** -/
theorem reachable_inv (env : Env) (s : State) (h : Reachable env s)
    /- ADDED (the statement is false without it, see `reachable_inv_counterexample`): the derivation only uses
        batches whose faucet markers keep clear of the transaction hashes of the block (`MarkerFresh`) -/
    (hsep : ReachableSep env s) : Inv s :=
  (reachable_inv_slots env s hsep).1

/-- **C20 at the state level**: in every reachable state in which TIP-906 is active, the recorded count of
    every covenant hash is exactly the number of unspent coins locked by it, and no zero entry is stored -/
theorem C20_reachable (env : Env) (s : State) (h : Reachable env s)
    /- ADDED, as in `reachable_inv` -/
    (hsep : ReachableSep env s) (h906 : s.tip906 = true) :
    (∀ a, s.coins.coinCount a = coinsWith s.coins a) ∧ (∀ e ∈ s.coins.counts, e.2 ≠ 0) :=
  let hc := (reachable_inv env s h hsep).counts h906
  ⟨hc.2.2.1, hc.2.2.2⟩

set_option linter.unusedVariables false in
/-- a sealed reachable state always has a header (the `unwrap` of the previous header cannot fail), and
    opening the next block cannot fail either -/
theorem reachable_header_ok (env : Env) (s : State) (a : Option ProposerAction) (ss : Sealed)
    (h : Reachable env s) (hr : RewardFresh env s) (hs : sealState env s a = .ok ss) :
    (∃ hdr, headerOf env ss = .ok hdr) ∧ ∃ s', nextUnsealed env ss = .ok s' := by
  have hfull : ∀ s, Reachable env s → ∀ h, h < s.height → ∃ hdr, s.history.get h = some hdr := by
    intro s h
    have : (∀ h x, s.history.get h = some x → h < s.height) ∧
        (∀ h, h < s.height → ∃ x, s.history.get h = some x) ∧
        (∀ h x, s.history.get h = some x → x.height = h) := by
      induction h with
      | genesis cfg =>
        exact ⟨fun h x hg => by simp [genesisState, AList.get] at hg, fun h hlt => by simp [genesisState] at hlt,
          fun h x hg => by simp [genesisState, AList.get] at hg⟩
      | batch _ _ hb ih =>
        obtain ⟨e1, e2, -⟩ := applyBatch_hhn _ _ _ _ _ hb
        rw [e1, e2]; exact ih
      | @block s0 s1 ss0 a0 _ _ hs hn ih =>
        obtain ⟨e1, e2, -⟩ := sealState_hhn _ _ _ _ hs
        obtain ⟨hdr, hh, f1, f2, -⟩ := nextUnsealed_ok _ _ _ hn
        obtain ⟨p, -, hhdr⟩ := headerOf_ok _ _ hdr hh
        have hdrh : hdr.height = ss0.st.height := by rw [hhdr]
        rw [f1, f2, e1, e2]
        obtain ⟨g1, g2, g3, -⟩ := ReachL.history_next (P := fun _ => True) ih.1 ih.2.1 ih.2.2
          (fun _ _ _ => trivial) (hdrh.trans e2) trivial
        exact ⟨g1, g2, g3⟩
    exact this.2.1
  obtain ⟨e1, e2, -⟩ := sealState_hhn _ _ _ _ hs
  obtain ⟨hdr, hh⟩ := ReachL.headerOf_total env ss (by rw [e1, e2]; exact hfull s h)
  exact ⟨⟨hdr, hh⟩, ReachL.nextUnsealed_total env ss hdr hh⟩

/-- **C09 for reachable states**: the structural part of `ApplyPre` is discharged; what remains are the
    hash-freshness assumption, the supply bound, the bound on the difficulties the MelPoW oracle accepts and the
    one explicitly excluded finding (DOSC reward overflow).  The former hypothesis `weights` (F19, covenant weight
    sum) is gone: since the fix `loadRelevantCoins` rejects a batch with such a transaction
    (`C09_heavy_covenants_rejected`).  The former hypothesis `powTotal` (F9, `melpow::Proof::verify` panics) is gone
    too: since the fix such a proof is rejected with `InvalidMelPoW` (`C18_panicking_proof_rejected`,
    `C09_doscmint_never_crashes_on_proof`), whatever the oracle answers. -/
theorem C09_apply_total_reachable (env : Env) (s : State) (txs : List Tx) (fb : Header)
    (h : Reachable env s)
    /- ADDED, as in `reachable_inv` -/
    (hsep : ReachableSep env s)
    (h906 : s.tip906 = true) (hf : BatchFresh s txs)
    (bounded : (s.coins.coins.map (·.2.coinData.value)).sum + ((txs.flatMap (·.outputs)).map (·.value)).sum ≤ U128_MAX)
    (powDifficulty : ∀ a b c d, env.powOk a b c d ≠ .invalid → c ≤ 100)
    (rewardFits : ∀ hdr, s.history.get (s.height - 1) = some hdr → ∀ a b d t, env.powOk a b d t ≠ .invalid →
      microergsIter s.height * maxDoscReward d hdr.doscSpeed / MICRO_CONVERTER ≤ U128_MAX) :
    ∀ c, applyBatch env s txs fb ≠ .crash c :=
  let hi := reachable_inv env s h hsep
  C09_apply_total env s txs fb
    { counts := (CountsSound_iff _).mpr (hi.counts h906), fresh := hf.fresh, heights := hi.heights,
      bounded := bounded, speeds := hi.speeds, historyBelow := hi.historyBelow,
      powDifficulty := powDifficulty, rewardFits := rewardFits }

set_option linter.unusedVariables false in
/-- **C03 for reachable states**: order independence needs, beyond reachability, only the hash assumptions -/
theorem C03_perm_reachable (env : Env) (s s₁ : State) (txs txs' : List Tx) (fb : Header)
    (hr : Reachable env s)
    /- ADDED, as in `reachable_inv` -/
    (hsep : ReachableSep env s)
    (h906 : s.tip906 = true) (hp : txs.Perm txs') (hf : BatchFresh s txs)
    (markers : ∀ t ∈ txs, t.kind = .faucet → env.isGrandfathered t.hash = false →
              (∀ u ∈ txs, (⟨env.fdp t.hash, 0⟩ : CoinID) ∉ u.inputs ∧ env.fdp t.hash ≠ u.hash) ∧
              (∀ u ∈ txs, u.kind = .faucet → env.fdp u.hash = env.fdp t.hash → u = t))
    (gfMarkers : ∀ t ∈ txs, t.kind = .faucet → env.isGrandfathered t.hash = true →
              ∀ u ∈ txs, (⟨env.fdp t.hash, 0⟩ : CoinID) ∉ u.inputs)
    (hfee : s.feePool ≤ U128_MAX) (htips : s.tips ≤ U128_MAX)
    (h : applyBatch env s txs fb = .ok s₁) :
    ∃ s₂, applyBatch env s txs' fb = .ok s₂ ∧ BatchEquiv s₁ s₂ :=
  let hi := reachable_inv env s hr hsep
  C03_perm env s s₁ txs txs' fb hp
    { hashes := hf.hashes, markers := markers, gfMarkers := gfMarkers, fresh := hf.fresh,
      counts := (countsFine_iff _).mpr (hi.counts h906), sorted := hi.sorted, feePool := hfee, tips := htips } h

/-- non-vacuity, also of the strengthened reachability notion: a two-block history is reachable (genesis, an
    empty batch, a seal without action, the next block), so `Reachable` / `ReachableSep` are inhabited beyond
    the genesis state.

    ADDED hypotheses (needed by this path):
    * `hfee`: the initial fee pool leaves room for the TIP-909 subsidy and the pegging inflow — otherwise
      `fee_pool += mel` overflows when the genesis block is sealed;
    * `hrew`: the proposer-reward pseudo-coin id of height 0 is not `CoinID::zero_zero()`, the id of the initial
      coin — otherwise `RewardFresh` fails for the genesis state (`reachable_nonvacuous_reward_needed`). -/
theorem reachableSep_nonvacuous (env : Env) (cfg : GenesisConfig)
    (hfee : cfg.initFeePool + 2 ^ 21 ≤ 2 ^ 127) (hrew : env.rewardId 0 ≠ zeroHash) :
    ∃ s, ReachableSep env s ∧ s.height = 1 := by
  have hg := reach_genesis_inv cfg
  have hb : applyBatch env (genesisState cfg) [] default = .ok (genesisState cfg) := rfl
  have h1 : ReachableSep env (genesisState cfg) :=
    .batch (txs := []) (.genesis cfg) ⟨List.nodup_nil, fun t ht => nomatch ht⟩ (fun f hf => nomatch hf) hb
  have hrf : RewardFresh env (genesisState cfg) := by
    show (CoinMap.insertCoin {} ⟨zeroHash, 0⟩ _ _).getCoin ⟨env.rewardId 0, 0⟩ = none
    rw [CoinMap.getCoin_insertCoin, if_neg]
    · rfl
    · intro e; injection e with e1; exact hrew e1
  have hpools : ∀ k, (genesisState cfg).pools.get k = none := fun k => rfl
  obtain ⟨ss, hs⟩ := sealState_ok env (genesisState cfg) none hg.counts (fun tx htx => nomatch htx) List.nodup_nil
    (fun k p h => by rw [hpools] at h; cases h)
    (fun p h => by rw [hpools] at h; cases h)
    (by show melInflow [] ≤ 2 ^ 124; decide) (by show cfg.initFeePool + 0 + 2 ^ 21 ≤ 2 ^ 127; omega)
    (by show 0 < TIP_909_HEIGHT + 128 * SUBSIDY_HALVING; decide)
  obtain ⟨-, s', hn⟩ := reachable_header_ok env _ none ss h1.reachable hrf hs
  refine ⟨s', .block h1 hrf hs hn, ?_⟩
  obtain ⟨-, -, -, e, -⟩ := nextUnsealed_ok _ _ _ hn
  rw [e, (sealState_hhn _ _ _ _ hs).2.1]
  rfl

set_option linter.unusedVariables false in
/-- non-vacuity of `Reachable` (see `reachableSep_nonvacuous` for the two added hypotheses) -/
theorem reachable_nonvacuous (env : Env) (cfg : GenesisConfig) (hnet : cfg.network = .custom02)
    (hfee : cfg.initFeePool + 2 ^ 21 ≤ 2 ^ 127) (hrew : env.rewardId 0 ≠ zeroHash) :
    ∃ s, Reachable env s ∧ s.height = 1 :=
  let ⟨s, h, e⟩ := reachableSep_nonvacuous env cfg hfee hrew
  ⟨s, h.reachable, e⟩

/-- why `hrew` is needed: when the reward pseudo-coin id of height 0 is the id of the initial coin, the genesis
    state cannot be sealed under `RewardFresh` -/
theorem reachable_nonvacuous_reward_needed (env : Env) (cfg : GenesisConfig) (h : env.rewardId 0 = zeroHash) :
    ¬ RewardFresh env (genesisState cfg) := by
  intro hr
  have : (CoinMap.insertCoin {} ⟨zeroHash, 0⟩ ⟨cfg.initCoindata, 0⟩ (genesisState cfg).tip906).getCoin
      ⟨env.rewardId 0, 0⟩ = none := hr
  rw [h, CoinMap.getCoin_insertCoin, if_pos rfl] at this
  cases this

/-! ### counterexamples to the statements as originally given -/

namespace ReachWitness
open Mel.Gen

def env : Env := {
  vm := { hash := id, sigOk := fun _ _ _ => true },
  liqHash := id, fdp := fun h => 9 :: h, rewardId := fun _ => [], hdrHash := fun _ => [],
  powOk := fun _ _ _ _ => .invalid, isGrandfathered := fun _ => false,
  historyRoot := fun _ => [], coinsRoot := fun _ => [], txsRoot := fun _ _ => [],
  poolsRoot := fun _ => [], stakesRoot := fun _ => [] }

def cfg : GenesisConfig :=
  { network := .custom02, initCoindata := ⟨[7], 5, .mel, []⟩, stakes := [], initFeePool := 0, initFeeMultiplier := 0 }

/-- a swap transaction spending the initial coin; its hash is the faucet marker id of `t` -/
def u : Tx := {
  kind := .swap, inputs := [⟨zeroHash, 0⟩], outputs := [(⟨[8], 5, .mel, []⟩ : CoinData)], fee := 0,
  covenants := [C03Witness.cov], data := [115], sigs := [], hash := [9, 2], rawLen := 0, covHashes := [[7]] }
/-- an ordinary transaction spending the output of `u` -/
def v : Tx := {
  kind := .normal, inputs := [⟨[9, 2], 0⟩], outputs := [(⟨[8], 5, .mel, []⟩ : CoinData)], fee := 0,
  covenants := [C03Witness.cov], data := [], sigs := [], hash := [1], rawLen := 0, covHashes := [[8]] }
/-- a faucet transaction whose de-duplication marker id is `(u.hash, 0)` -/
def t : Tx := {
  kind := .faucet, inputs := [], outputs := [], fee := 0,
  covenants := [], data := [], sigs := [], hash := [2], rawLen := 0, covHashes := [] }
/-- (next block) a transaction spending both coins locked by covenant hash `[8]` -/
def w : Tx := {
  kind := .normal, inputs := [⟨[1], 0⟩, ⟨[9, 2], 0⟩],
  outputs := [(⟨[6], 5, .mel, []⟩ : CoinData), (⟨[6], 4, .sym, []⟩ : CoinData)], fee := 0,
  covenants := [C03Witness.cov], data := [], sigs := [], hash := [3], rawLen := 0, covHashes := [[8]] }

def getOk {α} [Inhabited α] : Outcome α → α
  | .ok a => a
  | _ => default

theorem eq_getOk {α} [Inhabited α] {o : Outcome α} (h : o.isOk = true) : o = .ok (getOk o) := by
  cases o <;> first | rfl | cases h

def s1 : State := getOk (applyBatch env (genesisState cfg) [u, v, t] default)
def ss : Sealed := getOk (sealState env s1 none)
def s2 : State := getOk (nextUnsealed env ss)

theorem batch_ok : applyBatch env (genesisState cfg) [u, v, t] default = .ok s1 := eq_getOk (by decide +kernel)
theorem seal_ok : sealState env s1 none = .ok ss := eq_getOk (by decide +kernel)
theorem next_ok : nextUnsealed env ss = .ok s2 := eq_getOk (by decide +kernel)

theorem batchFresh : BatchFresh (genesisState cfg) [u, v, t] := by
  refine ⟨by decide, ?_⟩
  intro x hx i
  have hk : ∀ h : Hash, h ≠ zeroHash → (genesisState cfg).coins.getCoin ⟨h, i⟩ = none := by
    intro h hne
    show (CoinMap.insertCoin {} ⟨zeroHash, 0⟩ _ _).getCoin ⟨h, i⟩ = none
    rw [CoinMap.getCoin_insertCoin, if_neg]
    · rfl
    · intro e; injection e with e1; exact hne e1
  simp only [List.mem_cons, List.not_mem_nil, or_false] at hx
  rcases hx with rfl | rfl | rfl <;> exact hk _ (by decide)

theorem rewardFresh : RewardFresh env s1 := by unfold RewardFresh; decide +kernel

theorem s1_reachable : Reachable env s1 := .batch (.genesis cfg) batchFresh batch_ok

theorem s2_reachable : Reachable env s2 := .block s1_reachable rewardFresh seal_ok next_ok

theorem ss_bad : ss.st.tip906 = true ∧ ss.st.coins.coinCount [8] ≠ coinsWith ss.st.coins [8] := by decide +kernel

theorem s2_bad : s2.tip906 = true ∧ s2.coins.coinCount [8] ≠ coinsWith s2.coins [8] := by decide +kernel


theorem s2_keys : AList.keys s2.coins.coins = [⟨[9, 2], 0⟩, ⟨[1], 0⟩] := by decide +kernel

theorem batchFresh2 : BatchFresh s2 [w] := by
  refine ⟨by decide, ?_⟩
  intro x hx i
  simp only [List.mem_cons, List.not_mem_nil, or_false] at hx
  subst hx
  show AList.get s2.coins.coins _ = none
  rw [AList.get_eq_none_iff_not_mem_keys, s2_keys]
  simp [w]

theorem crash : (applyBatch env s2 [w] default).isCrash = true := by decide +kernel

end ReachWitness

/-- `reach_seal_inv` is false without `hslots`: the state `s1` (reached from the genesis state by one batch)
    satisfies `Inv`, but the swap transaction `u` of its block has the faucet marker of `t` (covenant hash 0)
    sitting at its output slot 0.  Settlement rewrites the marker into a coin locked by `u`'s covenant `[8]`
    without touching the counts: afterwards there are two coins locked by `[8]` and the count says 1. -/
theorem reach_seal_inv_counterexample :
    ∃ (env : Env) (s : State) (a : Option ProposerAction) (ss : Sealed),
      Inv s ∧ RewardFresh env s ∧ sealState env s a = .ok ss ∧ ¬ Inv ss.st :=
  ⟨ReachWitness.env, ReachWitness.s1, none, ReachWitness.ss,
    reach_batch_inv _ _ _ _ _ (reach_genesis_inv _) ReachWitness.batchFresh ReachWitness.batch_ok,
    ReachWitness.rewardFresh, ReachWitness.seal_ok,
    fun hi => ReachWitness.ss_bad.2 ((hi.counts ReachWitness.ss_bad.1).2.2.1 [8])⟩

/-- `reachable_inv` is false without `hsep`: genesis, the batch `[u, v, t]` (`u` a swap spending the initial
    coin, `v` spending `u`'s output, `t` a faucet transaction whose de-duplication marker id
    `faucet_dedup_pseudocoin(t.hash)` is `(u.hash, 0)`), seal, next block.  `BatchFresh` and `RewardFresh`
    hold; what fails is the domain separation of the marker id from transaction hashes (`MarkerFresh`). -/
theorem reachable_inv_counterexample : ∃ (env : Env) (s : State), Reachable env s ∧ ¬ Inv s :=
  ⟨ReachWitness.env, ReachWitness.s2, ReachWitness.s2_reachable,
    fun hi => ReachWitness.s2_bad.2 ((hi.counts ReachWitness.s2_bad.1).2.2.1 [8])⟩

/-- … and so is `C20_reachable` -/
theorem C20_reachable_counterexample : ∃ (env : Env) (s : State), Reachable env s ∧ s.tip906 = true ∧
    ¬ ((∀ a, s.coins.coinCount a = coinsWith s.coins a) ∧ (∀ e ∈ s.coins.counts, e.2 ≠ 0)) :=
  ⟨ReachWitness.env, ReachWitness.s2, ReachWitness.s2_reachable, ReachWitness.s2_bad.1,
    fun h => ReachWitness.s2_bad.2 (h.1 [8])⟩

/-- … and `C09_apply_total_reachable`: in the state of the previous counterexample the count of covenant
    hash `[8]` is 1 while two coins are locked by it, so a transaction spending both makes
    `remove_coin` underflow (`count - 1` on a zero count) — a crash, with every other hypothesis in place -/
theorem C09_apply_total_reachable_counterexample : ∃ (env : Env) (s : State) (txs : List Tx) (fb : Header),
    Reachable env s ∧ s.tip906 = true ∧ BatchFresh s txs ∧
    ((s.coins.coins.map (·.2.coinData.value)).sum + ((txs.flatMap (·.outputs)).map (·.value)).sum ≤ U128_MAX) ∧
    (∀ a b c d, env.powOk a b c d ≠ .invalid → c ≤ 100) ∧
    (∀ t ∈ txs, (t.covenants.map covenantWeightFromBytes).sum ≤ U128_MAX) ∧
    (∀ hdr, s.history.get (s.height - 1) = some hdr → ∀ a b d t, env.powOk a b d t ≠ .invalid →
      microergsIter s.height * maxDoscReward d hdr.doscSpeed / MICRO_CONVERTER ≤ U128_MAX) ∧
    ∃ c, applyBatch env s txs fb = .crash c := by
  refine ⟨ReachWitness.env, ReachWitness.s2, [ReachWitness.w], default, ReachWitness.s2_reachable,
    ReachWitness.s2_bad.1, ReachWitness.batchFresh2, by decide +kernel,
    fun _ _ _ _ h => absurd rfl h, ?_, fun _ _ _ _ _ _ h => absurd rfl h, ?_⟩
  · intro t ht
    simp only [List.mem_cons, List.not_mem_nil, or_false] at ht
    subst ht
    decide +kernel
  · have := ReachWitness.crash
    cases h : applyBatch ReachWitness.env ReachWitness.s2 [ReachWitness.w] default with
    | crash c => exact ⟨c, rfl⟩
    | ok a => rw [h] at this; cases this
    | reject e => rw [h] at this; cases this

end Mel

#print axioms Mel.reach_genesis_inv
#print axioms Mel.reach_batch_inv
#print axioms Mel.reach_seal_inv
#print axioms Mel.reach_next_inv
#print axioms Mel.reachable_inv
#print axioms Mel.C20_reachable
#print axioms Mel.reachable_header_ok
#print axioms Mel.C09_apply_total_reachable
#print axioms Mel.C03_perm_reachable
#print axioms Mel.reachable_nonvacuous
#print axioms Mel.reachableSep_nonvacuous
#print axioms Mel.reachable_nonvacuous_reward_needed
#print axioms Mel.reach_batch_slots
#print axioms Mel.reachable_inv_slots
#print axioms Mel.reach_seal_inv_counterexample
#print axioms Mel.reachable_inv_counterexample
#print axioms Mel.C20_reachable_counterexample
#print axioms Mel.C09_apply_total_reachable_counterexample
