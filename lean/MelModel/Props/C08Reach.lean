/-
  C08 over REACHABLE states — restart equivalence "at every height at which a node might stop and restart" — and the
  sharp form of finding F6: what the pending tips (the one field a block does not carry) can and cannot influence.

  Part 1 discharges the two hypotheses of `C08_roundtrip` (`toBlock` succeeds, the transaction list is sorted) from
  reachability.  They need no freshness assumption at all: they hold along ANY run of the chain from a genesis state
  (`ChainRun`, Props/C13Life.lean), hence in every `Reachable` / `ReachableSep` / `ReachableB` state.
  Part 2: `EqUpToTips` — two states that differ in their tips only (a state and its restored copy) —
    (a) accept / reject / crash on exactly the same batches, with the same resulting state up to tips, the tips being
        the SAME increments added (saturating) to the two different starts;
    (b) seal without an action to states equal up to tips, with the SAME header;
    (c) seal with an action to states that are the same pre-payout state with the reward coin written with two
        values that differ by exactly the difference of the tips.
  Together: after a restart the only observable difference is the next proposer's reward, lower by exactly the tips
  that were pending (`C08_restart_only_reward_differs`).
  Property theorems only; helper lemmas live in MelModel/Lemmas/RestartL.lean.
-/
import MelModel.Props.C08
import MelModel.Props.Reach
import MelModel.Props.C09Reach
import MelModel.Props.C05Hist
import MelModel.Props.C13Life
import MelModel.Lemmas.RestartL
namespace Mel
open Mel.Gen Mel.RestartL

/-! ### 1. restart equivalence over reachable states -/

/-- a reachable state is the end of a run of the chain from a genesis state -/
theorem Reachable.toRun {env : Env} {s : State} (h : Reachable env s) :
    ∃ cfg, ChainRun env (genesisState cfg) s := by
  induction h with
  | genesis cfg => exact ⟨cfg, .refl _⟩
  | batch _ _ hb ih => obtain ⟨cfg, hr⟩ := ih; exact ⟨cfg, .step hr (.batch hb)⟩
  | block _ _ hs hn ih => obtain ⟨cfg, hr⟩ := ih; exact ⟨cfg, .step hr (.block hs hn)⟩

/-- the two sorted-ness predicates (`TxsSorted` of Props/C08.lean, `SortedTxs` of Props/C03.lean) are the same -/
theorem C08_txsSorted_iff_sortedTxs (l : List Tx) : TxsSorted l ↔ SortedTxs l := txsSorted_iff_sortedTxs l

/-- **restart along any run**: whatever state a run of the chain from a genesis state has reached, once it is sealed
    (with or without a proposer action) the sealed state can be written out as a block, and restoring from that block
    gives back every field except the pending tips.  No hash-freshness assumption is needed. -/
theorem C08_restart_run (env : Env) (cfg : GenesisConfig) (s : State) (a : Option ProposerAction) (ss : Sealed)
    (hrun : ChainRun env (genesisState cfg) s) (h : sealState env s a = .ok ss) :
    ∃ blk, toBlock env ss = .ok blk ∧
      fromBlock blk ss.st.stakes ss.st.coins ss.st.history ss.st.pools =
        { st := { ss.st with tips := 0 }, action := ss.action } := by
  obtain ⟨hs, blk, hb⟩ := toBlock_total (runInv_run hrun (runInv_genesis cfg)) h
  exact ⟨blk, hb, C08_roundtrip env ss blk hb hs⟩

/-- **restart equivalence at every reachable height**: the hypotheses of `C08_roundtrip` are discharged by
    reachability.  (`Reachable` suffices; `ReachableSep`, `ReachableB` and `RewardFresh` are not needed.) -/
theorem C08_restart_reachable (env : Env) (s : State) (a : Option ProposerAction) (ss : Sealed)
    (hr : Reachable env s) (h : sealState env s a = .ok ss) :
    ∃ blk, toBlock env ss = .ok blk ∧
      fromBlock blk ss.st.stakes ss.st.coins ss.st.history ss.st.pools =
        { st := { ss.st with tips := 0 }, action := ss.action } := by
  obtain ⟨cfg, hrun⟩ := hr.toRun
  exact C08_restart_run env cfg s a ss hrun h

/-- … in the form with the refined reachability notion and the freshness of the reward id among the hypotheses -/
theorem C08_restart_reachableSep (env : Env) (s : State) (a : Option ProposerAction) (ss : Sealed)
    (hr : ReachableSep env s) (_hrew : RewardFresh env s) (h : sealState env s a = .ok ss) :
    ∃ blk, toBlock env ss = .ok blk ∧
      fromBlock blk ss.st.stakes ss.st.coins ss.st.history ss.st.pools =
        { st := { ss.st with tips := 0 }, action := ss.action } :=
  C08_restart_reachable env s a ss hr.reachable h

/-- … and for `ReachableB` states under `SealBounds` sealing itself succeeds, so: a reachable state can always be
    sealed, written out and restored -/
theorem C08_restart_reachableB (env : Env) (s : State) (a : Option ProposerAction)
    (hr : ReachableB env s) (hb : SealBounds s) :
    ∃ ss blk, sealState env s a = .ok ss ∧ toBlock env ss = .ok blk ∧
      fromBlock blk ss.st.stakes ss.st.coins ss.st.history ss.st.pools =
        { st := { ss.st with tips := 0 }, action := ss.action } := by
  obtain ⟨ss, hs⟩ := C09_seal_ok_reachable hr hb a
  obtain ⟨blk, h1, h2⟩ := C08_restart_reachable env s a ss hr.reachable hs
  exact ⟨ss, blk, hs, h1, h2⟩

/-- a sealed state with its tips zeroed is the sealed state itself iff there were no tips -/
theorem C08_zeroed_eq_iff (ss : Sealed) :
    ({ st := { ss.st with tips := 0 }, action := ss.action } : Sealed) = ss ↔ ss.st.tips = 0 := by
  constructor
  · intro h
    exact (congrArg (fun x : Sealed => x.st.tips) h).symm
  · intro ht
    obtain ⟨st, act⟩ := ss
    cases st
    simp only at ht
    subst ht
    rfl

/-- **restored = original ↔ no pending tips**, for every sealed state of a run -/
theorem C08_restart_exact_iff_no_pending_tips (env : Env) (cfg : GenesisConfig) (s : State)
    (a : Option ProposerAction) (ss : Sealed)
    (hrun : ChainRun env (genesisState cfg) s) (h : sealState env s a = .ok ss) :
    ∃ blk, toBlock env ss = .ok blk ∧
      (fromBlock blk ss.st.stakes ss.st.coins ss.st.history ss.st.pools = ss ↔ ss.st.tips = 0) := by
  obtain ⟨blk, hb, hr⟩ := C08_restart_run env cfg s a ss hrun h
  exact ⟨blk, hb, by rw [hr]; exact C08_zeroed_eq_iff ss⟩

/-- **a block sealed with a proposer action is restored exactly** (the tips are 0 after the action) -/
theorem C08_restart_exact_with_action (env : Env) (s : State) (act : ProposerAction) (ss : Sealed)
    (hr : Reachable env s) (h : sealState env s (some act) = .ok ss) :
    ∃ blk, toBlock env ss = .ok blk ∧ fromBlock blk ss.st.stakes ss.st.coins ss.st.history ss.st.pools = ss := by
  obtain ⟨blk, hb, hrt⟩ := C08_restart_reachable env s (some act) ss hr h
  exact ⟨blk, hb, by rw [hrt]; exact (C08_zeroed_eq_iff ss).mpr (C08_tips_zero_after_action env s act ss h)⟩

/-- **along a chain every block of which carries a proposer action** (`ActionRun`, as every block of a real chain
    does) **every sealed state is restored exactly** -/
theorem C08_restart_exact_on_action_chains (env : Env) (cfg : GenesisConfig) (m : State) (act : ProposerAction)
    (ss : Sealed) (hrun : ActionRun env (genesisState cfg) m) (h : sealState env m (some act) = .ok ss) :
    ∃ blk, toBlock env ss = .ok blk ∧ fromBlock blk ss.st.stakes ss.st.coins ss.st.history ss.st.pools = ss := by
  obtain ⟨blk, hb, hrt⟩ := C08_restart_run env cfg m (some act) ss hrun.toRun h
  exact ⟨blk, hb, by rw [hrt]; exact (C08_zeroed_eq_iff ss).mpr (C08_tips_zero_after_action env m act ss h)⟩

/-- … and on such a chain even a block that has just been opened (no transaction yet) and is sealed WITHOUT an
    action is restored exactly: it carries no tips (`C05_tips_zero_from_genesis`) -/
theorem C08_restart_exact_fresh_block_on_action_chains (env : Env) (cfg : GenesisConfig) (m : State) (ss : Sealed)
    (hrun : ActionRun env (genesisState cfg) m) (hnil : m.txs = []) (h : sealState env m none = .ok ss) :
    ∃ blk, toBlock env ss = .ok blk ∧ fromBlock blk ss.st.stakes ss.st.coins ss.st.history ss.st.pools = ss := by
  obtain ⟨blk, hb, hrt⟩ := C08_restart_run env cfg m none ss hrun.toRun h
  refine ⟨blk, hb, ?_⟩
  rw [hrt]
  apply (C08_zeroed_eq_iff ss).mpr
  rw [C08_tips_kept_without_action env m ss h]
  exact C05_tips_zero_from_genesis env cfg m hrun hnil

/-! ### 2. the sharp form of finding F6: what pending tips can and cannot influence -/

/-- the restored state is equal to the original up to tips -/
theorem C08_restored_eqUpToTips (s : State) : EqUpToTips s { s with tips := 0 } := eqUpToTips_W s 0

/-- `EqUpToTips` is an equivalence relation (`EqUpToTips.refl`, `.symm`, `.trans` in Lemmas/RestartL.lean) -/
example (a b c : State) (e1 : EqUpToTips a b) (e2 : EqUpToTips b c) : EqUpToTips c a := (e1.trans e2).symm

/-- **(a) batches, as one equation**: on a state with other tips a batch has the same verdict — accepted, the same
    rejection, the same crash — and the same resulting state up to tips; the new tips are the same per-transaction
    increments (fee above the minimum fee at the state's fee multiplier) added, saturating, to the other start -/
theorem C08_batch_up_to_tips_eq (env : Env) (s₁ s₂ : State) (txs : List Tx) (fb : Header) (e : EqUpToTips s₁ s₂) :
    applyBatch env s₂ txs fb =
      (applyBatch env s₁ txs fb).bind fun s₁' =>
        .ok { s₁' with tips := tipsAfter s₂.tips s₁.feeMultiplier txs } := by
  rw [eqUpToTips_form e]
  exact applyBatch_W env s₁ txs fb s₂.tips

/-- **(a) accepted batches**: `applyBatch` respects `EqUpToTips`; both tips are `satAdd128`-folds of the SAME
    increments `ds` (the model adds with saturation at u128::MAX, so "the difference is kept" is only true while
    neither saturates: `C08_batch_tips_diff`) -/
theorem C08_batch_up_to_tips (env : Env) (s₁ s₂ s₁' : State) (txs : List Tx) (fb : Header)
    (e : EqUpToTips s₁ s₂) (h : applyBatch env s₁ txs fb = .ok s₁') :
    ∃ s₂', applyBatch env s₂ txs fb = .ok s₂' ∧ EqUpToTips s₁' s₂' ∧
      ∃ ds : List Nat, ds = txs.map (tipIncr s₁.feeMultiplier) ∧
        s₁'.tips = ds.foldl satAdd128 s₁.tips ∧ s₂'.tips = ds.foldl satAdd128 s₂.tips := by
  refine ⟨W s₁' (tipsAfter s₂.tips s₁.feeMultiplier txs), ?_, eqUpToTips_W _ _, _, rfl, applyBatch_tips h, rfl⟩
  rw [C08_batch_up_to_tips_eq env s₁ s₂ txs fb e, h]
  rfl

/-- … while neither accumulator saturates, the tips differ after the batch by exactly what they differed before -/
theorem C08_batch_tips_diff (env : Env) (s₁ s₂ s₁' s₂' : State) (txs : List Tx) (fb : Header)
    (e : EqUpToTips s₁ s₂) (h₁ : applyBatch env s₁ txs fb = .ok s₁') (h₂ : applyBatch env s₂ txs fb = .ok s₂')
    (hs₁ : s₁'.tips < U128_MAX) (hs₂ : s₂'.tips < U128_MAX) :
    s₁'.tips + s₂.tips = s₂'.tips + s₁.tips := by
  obtain ⟨x, hx, -, ds, rfl, t1, t2⟩ := C08_batch_up_to_tips env s₁ s₂ s₁' txs fb e h₁
  rw [h₂] at hx
  cases hx
  rw [t1] at hs₁ ⊢
  rw [t2] at hs₂ ⊢
  exact tipsAfter_diff s₁.tips s₂.tips s₁.feeMultiplier txs hs₁ hs₂

/-- … in the restart case (`s₂.tips = 0`): the original's tips are the restored state's tips plus what was pending;
    it suffices that the ORIGINAL's accumulator does not saturate -/
theorem C08_batch_tips_restart (env : Env) (s₁ s₂ s₁' s₂' : State) (txs : List Tx) (fb : Header)
    (e : EqUpToTips s₁ s₂) (h0 : s₂.tips = 0) (h₁ : applyBatch env s₁ txs fb = .ok s₁')
    (h₂ : applyBatch env s₂ txs fb = .ok s₂') (hs₁ : s₁'.tips < U128_MAX) :
    s₁'.tips = s₂'.tips + s₁.tips := by
  obtain ⟨x, hx, -, ds, hds, t1, t2⟩ := C08_batch_up_to_tips env s₁ s₂ s₁' txs fb e h₁
  rw [h₂] at hx
  cases hx
  have hle : s₂'.tips ≤ s₁'.tips := by
    rw [t1, t2]; exact foldl_satAdd_mono _ _ _ (by omega)
  have := C08_batch_tips_diff env s₁ s₂ s₁' s₂' txs fb e h₁ h₂ hs₁ (by omega)
  omega

/-- **(a) rejections coincide** (the error reported depends on nothing but the transactions and the tip-free part
    of the state) … -/
theorem C08_batch_reject_up_to_tips (env : Env) (s₁ s₂ : State) (txs : List Tx) (fb : Header) (err : StateError)
    (e : EqUpToTips s₁ s₂) (h : applyBatch env s₁ txs fb = .reject err) :
    applyBatch env s₂ txs fb = .reject err := by
  rw [C08_batch_up_to_tips_eq env s₁ s₂ txs fb e, h]; rfl

/-- … and so do crashes -/
theorem C08_batch_crash_up_to_tips (env : Env) (s₁ s₂ : State) (txs : List Tx) (fb : Header) (c : String)
    (e : EqUpToTips s₁ s₂) (h : applyBatch env s₁ txs fb = .crash c) :
    applyBatch env s₂ txs fb = .crash c := by
  rw [C08_batch_up_to_tips_eq env s₁ s₂ txs fb e, h]; rfl

/-- **(b) sealing WITHOUT an action** respects `EqUpToTips`, keeps both tips, and gives the SAME header -/
theorem C08_seal_none_up_to_tips (env : Env) (s₁ s₂ : State) (ss₁ : Sealed) (e : EqUpToTips s₁ s₂)
    (h : sealState env s₁ none = .ok ss₁) :
    ∃ ss₂, sealState env s₂ none = .ok ss₂ ∧ EqUpToTips ss₁.st ss₂.st ∧ ss₂.st.tips = s₂.tips ∧
      ss₁.action = ss₂.action ∧ headerOf env ss₁ = headerOf env ss₂ := by
  have ha : ss₁.action = none := by
    rw [sealState_eq] at h
    obtain ⟨p, -, h⟩ := Outcome.bind_eq_ok h
    cases h; rfl
  refine ⟨{ st := W ss₁.st s₂.tips, action := none }, ?_, eqUpToTips_W _ _, rfl, ha, ?_⟩
  · rw [eqUpToTips_form e, sealState_none_W, h]; rfl
  · exact (headerOf_W env ss₁.st s₂.tips none ss₁.action).symm

/-- … and so does opening the next block: the two next states are equal up to tips, the tips carried over -/
theorem C08_next_up_to_tips (env : Env) (ss₁ ss₂ : Sealed) (n₁ : State) (e : EqUpToTips ss₁.st ss₂.st)
    (h : nextUnsealed env ss₁ = .ok n₁) :
    ∃ n₂, nextUnsealed env ss₂ = .ok n₂ ∧ EqUpToTips n₁ n₂ ∧ n₂.tips = ss₂.st.tips := by
  obtain ⟨st₂, a₂⟩ := ss₂
  obtain ⟨st₁, a₁⟩ := ss₁
  simp only at e
  refine ⟨W n₁ st₂.tips, ?_, eqUpToTips_W _ _, rfl⟩
  rw [eqUpToTips_form e, nextUnsealed_W env st₁ st₂.tips a₂ a₁, h]
  rfl

/-- **(c) sealing WITH an action**: both sealed states are the SAME pre-payout state `p` (the state after Melmint
    and the subsidy, tips aside) with the reward coin written with value `base + tips`, `base` the 65536th of the
    post-subsidy fee pool.  The second seal succeeds when its reward fits a u128 (`hfit`). -/
theorem C08_seal_action_up_to_tips (env : Env) (s₁ s₂ : State) (a : ProposerAction) (ss₁ : Sealed)
    (e : EqUpToTips s₁ s₂) (h : sealState env s₁ (some a) = .ok ss₁) :
    ∃ (p : State) (base : Nat), p.height = s₁.height ∧ base + s₁.tips ≤ U128_MAX ∧
      ss₁ = { st := payout env p a (base + s₁.tips), action := some a } ∧
      (base + s₂.tips ≤ U128_MAX →
        sealState env s₂ (some a) = .ok { st := payout env p a (base + s₂.tips), action := some a }) := by
  obtain ⟨p, hh, hle, hss, hall⟩ := sealState_some_W h
  refine ⟨p, p.feePool / 2 ^ REWARD_SHIFT, hh, hle, hss, fun hfit => ?_⟩
  rw [eqUpToTips_form e]
  exact hall s₂.tips hfit

/-- the coin id of the proposer reward of a height -/
def rewardCoinId (env : Env) (height : Nat) : CoinID := { txhash := env.rewardId height, index := 0 }

/-- **(c), spelled out**: when the second state has no more tips than the first (in particular after a restart:
    `s₂.tips = 0`) the second seal succeeds as well, and the two sealed states agree on the action, on every field
    other than the coin map, on the per-covenant counts and on every coin except the proposer's reward
    `(env.rewardId s.height, 0)`; the two reward coins have the same covenant, denomination and height and their
    values differ by exactly the difference of the tips -/
theorem C08_seal_action_reward_diff (env : Env) (s₁ s₂ : State) (a : ProposerAction) (ss₁ : Sealed)
    (e : EqUpToTips s₁ s₂) (h : sealState env s₁ (some a) = .ok ss₁) (hle : s₂.tips ≤ s₁.tips) :
    ∃ (ss₂ : Sealed) (base : Nat), sealState env s₂ (some a) = .ok ss₂ ∧ ss₁.action = ss₂.action ∧
      ss₂.st = { ss₁.st with coins := ss₂.st.coins } ∧
      ss₁.st.coins.counts = ss₂.st.coins.counts ∧
      (∀ id, id ≠ rewardCoinId env s₁.height → ss₁.st.coins.getCoin id = ss₂.st.coins.getCoin id) ∧
      ss₁.st.coins.getCoin (rewardCoinId env s₁.height) =
        some { coinData := { covhash := a.rewardDest, value := base + s₁.tips, denom := .mel, additionalData := [] },
               height := s₁.height } ∧
      ss₂.st.coins.getCoin (rewardCoinId env s₁.height) =
        some { coinData := { covhash := a.rewardDest, value := base + s₂.tips, denom := .mel, additionalData := [] },
               height := s₁.height } := by
  obtain ⟨p, base, hh, hb, rfl, hfit⟩ := C08_seal_action_up_to_tips env s₁ s₂ a ss₁ e h
  refine ⟨_, base, hfit (by omega), rfl, rfl, payout_counts env p a _ _, fun id hid => ?_, ?_, ?_⟩
  · rw [← hh] at hid
    rw [payout_getCoin_ne env p a _ hid, payout_getCoin_ne env p a _ hid]
  · rw [← hh]; exact payout_getCoin_self env p a _
  · rw [← hh]; exact payout_getCoin_self env p a _

/-- **(c), the restart case**: `value₁ = value₂ + s₁.tips` -/
theorem C08_seal_action_restart (env : Env) (s₁ s₂ : State) (a : ProposerAction) (ss₁ : Sealed)
    (e : EqUpToTips s₁ s₂) (h0 : s₂.tips = 0) (h : sealState env s₁ (some a) = .ok ss₁) :
    ∃ ss₂ c₁ c₂, sealState env s₂ (some a) = .ok ss₂ ∧
      ss₁.st.coins.getCoin (rewardCoinId env s₁.height) = some c₁ ∧
      ss₂.st.coins.getCoin (rewardCoinId env s₁.height) = some c₂ ∧
      c₁.coinData.value = c₂.coinData.value + s₁.tips ∧
      c₁.coinData.covhash = c₂.coinData.covhash ∧ c₁.coinData.denom = c₂.coinData.denom ∧ c₁.height = c₂.height ∧
      (∀ id, id ≠ rewardCoinId env s₁.height → ss₁.st.coins.getCoin id = ss₂.st.coins.getCoin id) ∧
      ss₂.st = { ss₁.st with coins := ss₂.st.coins } := by
  obtain ⟨ss₂, base, hs, -, hst, -, hother, hc₁, hc₂⟩ :=
    C08_seal_action_reward_diff env s₁ s₂ a ss₁ e h (by omega)
  refine ⟨ss₂, _, _, hs, hc₁, hc₂, ?_, rfl, rfl, rfl, hother, hst⟩
  show base + s₁.tips = base + s₂.tips + s₁.tips
  omega

/-- **together — the only observable difference after a restart is the next proposer's reward**: let `n₁` be an
    open state with pending tips and `n₂` its restored copy (`EqUpToTips`, no tips).  Any batch accepted by one is
    accepted by the other; sealing the results with a proposer action succeeds for both; the two sealed states agree
    on everything except the value of the reward coin, and — unless the original's tips saturate — the restored
    chain's reward is lower by exactly the tips that were pending. -/
theorem C08_restart_only_reward_differs (env : Env) (n₁ n₂ u₁ : State) (txs : List Tx) (fb : Header)
    (a : ProposerAction) (ss₁ : Sealed) (e : EqUpToTips n₁ n₂) (h0 : n₂.tips = 0)
    (hb : applyBatch env n₁ txs fb = .ok u₁) (hs : sealState env u₁ (some a) = .ok ss₁) :
    ∃ u₂ ss₂ c₁ c₂, applyBatch env n₂ txs fb = .ok u₂ ∧ sealState env u₂ (some a) = .ok ss₂ ∧
      ss₂.st = { ss₁.st with coins := ss₂.st.coins } ∧
      (∀ id, id ≠ rewardCoinId env u₁.height → ss₁.st.coins.getCoin id = ss₂.st.coins.getCoin id) ∧
      ss₁.st.coins.getCoin (rewardCoinId env u₁.height) = some c₁ ∧
      ss₂.st.coins.getCoin (rewardCoinId env u₁.height) = some c₂ ∧
      c₂.coinData.value ≤ c₁.coinData.value ∧
      (u₁.tips < U128_MAX → c₁.coinData.value = c₂.coinData.value + n₁.tips) := by
  obtain ⟨u₂, hb₂, eu, ds, -, t1, t2⟩ := C08_batch_up_to_tips env n₁ n₂ u₁ txs fb e hb
  have hle : u₂.tips ≤ u₁.tips := by
    rw [t1, t2]; exact foldl_satAdd_mono _ _ _ (by omega)
  obtain ⟨ss₂, base, hs₂, -, hst, -, hother, hc₁, hc₂⟩ := C08_seal_action_reward_diff env u₁ u₂ a ss₁ eu hs hle
  refine ⟨u₂, ss₂, _, _, hb₂, hs₂, hst, hother, hc₁, hc₂, Nat.add_le_add_left hle base, fun hsat => ?_⟩
  have := C08_batch_tips_restart env n₁ n₂ u₁ u₂ txs fb e h0 hb hb₂ hsat
  show base + u₁.tips = base + u₂.tips + n₁.tips
  omega

/-- **the restart scenario, end to end**: seal a reachable state, write the block, restore, open the next block on
    both sides — the two open states are equal up to tips, the restored one having none (so parts (a)–(c) and
    `C08_restart_only_reward_differs` apply to them) -/
theorem C08_restart_then_next (env : Env) (s : State) (a : Option ProposerAction) (ss : Sealed) (n₁ : State)
    (hr : Reachable env s) (h : sealState env s a = .ok ss) (hn : nextUnsealed env ss = .ok n₁) :
    ∃ blk n₂, toBlock env ss = .ok blk ∧
      nextUnsealed env (fromBlock blk ss.st.stakes ss.st.coins ss.st.history ss.st.pools) = .ok n₂ ∧
      EqUpToTips n₁ n₂ ∧ n₂.tips = 0 ∧ n₁.tips = ss.st.tips := by
  obtain ⟨blk, hb, hrt⟩ := C08_restart_reachable env s a ss hr h
  obtain ⟨n₂, hn₂, e, ht⟩ := C08_next_up_to_tips env ss { st := { ss.st with tips := 0 }, action := ss.action } n₁
    (C08_restored_eqUpToTips ss.st) hn
  exact ⟨blk, n₂, hb, by rw [hrt]; exact hn₂, e, ht, (FeeHistL.nextUnsealed_fee hn).2.1⟩

/-! ### non-vacuity on literals -/

namespace C08ReachWitness
open ReachWitness (env cfg getOk eq_getOk)
open C05HistWitness (pz act q1 qs ns n2 batch_ok seal_ok sealNone_ok nextNone_ok)

/-- the block written out from `ns` (the batch `[pz]` — 2 MEL of tips — sealed WITHOUT an action) -/
def blk : Block := getOk (toBlock env ns)
/-- the sealed state restored from it -/
def r : Sealed := fromBlock blk ns.st.stakes ns.st.coins ns.st.history ns.st.pools
/-- the block opened on the restored state -/
def m2 : State := getOk (nextUnsealed env r)

/-- (next block) a transaction spending `pz`'s output (3 MEL): 2 MEL out, 1 MEL fee (all of it a tip) -/
def pz2 : Tx := {
  kind := .normal, inputs := [⟨[4], 0⟩], outputs := [(⟨[8], 2, .mel, []⟩ : CoinData)], fee := 1,
  covenants := [C03Witness.cov], data := [], sigs := [], hash := [5], rawLen := 0, covHashes := [[8]] }

/-- the original chain: batch `[pz2]` on `n2` (pending tips 2), sealed with the action -/
def u1 : State := getOk (applyBatch env n2 [pz2] default)
def us1 : Sealed := getOk (sealState env u1 (some act))
/-- the restored chain: the same on `m2` (no tips) -/
def u2 : State := getOk (applyBatch env m2 [pz2] default)
def us2 : Sealed := getOk (sealState env u2 (some act))

theorem blk_ok : toBlock env ns = .ok blk := eq_getOk (by decide +kernel)
theorem m2_ok : nextUnsealed env r = .ok m2 := eq_getOk (by decide +kernel)
theorem u1_ok : applyBatch env n2 [pz2] default = .ok u1 := eq_getOk (by decide +kernel)
theorem us1_ok : sealState env u1 (some act) = .ok us1 := eq_getOk (by decide +kernel)
theorem u2_ok : applyBatch env m2 [pz2] default = .ok u2 := eq_getOk (by decide +kernel)
theorem us2_ok : sealState env u2 (some act) = .ok us2 := eq_getOk (by decide +kernel)
/-- `n2` sealed without an action -/
def sn1 : Sealed := getOk (sealState env n2 none)
theorem sn1_ok : sealState env n2 none = .ok sn1 := eq_getOk (by decide +kernel)

theorem q1_run : ChainRun env (genesisState cfg) q1 := .step (.refl _) (.batch batch_ok)

theorem q1_reachable : Reachable env q1 := by
  refine .batch (.genesis cfg) ⟨by decide, ?_⟩ batch_ok
  intro x hx i
  simp only [List.mem_cons, List.not_mem_nil, or_false] at hx
  subst hx
  show (CoinMap.insertCoin {} ⟨zeroHash, 0⟩ _ _).getCoin ⟨pz.hash, i⟩ = none
  rw [CoinMap.getCoin_insertCoin, if_neg]
  · rfl
  · intro e; injection e with e1; exact absurd e1 (by decide)

end C08ReachWitness

/-- non-vacuity of part 1, both ways: the reachable state `q1` (genesis, then a batch paying 2 MEL of tips) sealed
    WITH an action is restored exactly; sealed WITHOUT one it is restored with the tips lost (2 ≠ 0), so the restored
    state is NOT the original — `C08_restart_exact_iff_no_pending_tips` has both of its sides inhabited -/
theorem C08_restart_nonvacuous :
    ∃ (env : Env) (cfg : GenesisConfig) (s : State) (act : ProposerAction) (ssA ssN : Sealed) (blkA blkN : Block),
      ChainRun env (genesisState cfg) s ∧ Reachable env s ∧ ActionRun env (genesisState cfg) s ∧
      sealState env s (some act) = .ok ssA ∧ toBlock env ssA = .ok blkA ∧
      fromBlock blkA ssA.st.stakes ssA.st.coins ssA.st.history ssA.st.pools = ssA ∧
      sealState env s none = .ok ssN ∧ toBlock env ssN = .ok blkN ∧ ssN.st.tips = 2 ∧
      fromBlock blkN ssN.st.stakes ssN.st.coins ssN.st.history ssN.st.pools ≠ ssN := by
  open C08ReachWitness C05HistWitness in
  obtain ⟨blkA, hA, eA⟩ := C08_restart_exact_with_action ReachWitness.env q1 act qs q1_reachable seal_ok
  obtain ⟨blkN, hN, eN⟩ :=
    C08_restart_exact_iff_no_pending_tips ReachWitness.env ReachWitness.cfg q1 none ns q1_run sealNone_ok
  have ht : ns.st.tips = 2 := by decide +kernel
  refine ⟨ReachWitness.env, ReachWitness.cfg, q1, act, qs, ns, blkA, blkN, q1_run, q1_reachable,
    .batch (.refl _) batch_ok, seal_ok, hA, eA, sealNone_ok, hN, ht, fun he => ?_⟩
  have := eN.mp he
  omega

/-- non-vacuity of part 2 (and the numbers of finding F6): after the restart of the block with 2 MEL of pending
    tips, the same batch `[pz2]` (1 MEL of tips) is accepted on both sides, the tips are 3 and 1, and sealing with
    the same action pays the proposer 34 MEL on the original chain and 32 MEL on the restored one: lower by exactly
    the 2 MEL that were pending; every other coin and every other field agree -/
theorem C08_up_to_tips_nonvacuous :
    ∃ (env : Env) (n₁ n₂ u₁ u₂ : State) (txs : List Tx) (fb : Header) (a : ProposerAction) (ss₁ ss₂ : Sealed),
      EqUpToTips n₁ n₂ ∧ n₁.tips = 2 ∧ n₂.tips = 0 ∧
      applyBatch env n₁ txs fb = .ok u₁ ∧ applyBatch env n₂ txs fb = .ok u₂ ∧ u₁.tips = 3 ∧ u₂.tips = 1 ∧
      sealState env u₁ (some a) = .ok ss₁ ∧ sealState env u₂ (some a) = .ok ss₂ ∧
      (ss₁.st.coins.getCoin (rewardCoinId env u₁.height)).map (·.coinData.value) = some 34 ∧
      (ss₂.st.coins.getCoin (rewardCoinId env u₁.height)).map (·.coinData.value) = some 32 ∧
      ss₂.st = { ss₁.st with coins := ss₂.st.coins } := by
  open C08ReachWitness C05HistWitness in
  obtain ⟨blk', n₂, hb', hn₂, e, ht0, ht⟩ :=
    C08_restart_then_next ReachWitness.env q1 none ns n2 q1_reachable sealNone_ok nextNone_ok
  have hblk : blk' = blk := by
    have := hb'.symm.trans blk_ok
    exact Outcome.ok.inj this
  subst hblk
  have hm : n₂ = m2 := Outcome.ok.inj (hn₂.symm.trans m2_ok)
  subst hm
  obtain ⟨u₂', ss₂', c₁, c₂, hb₂, hs₂, hst, -, -, -, -, -⟩ :=
    C08_restart_only_reward_differs ReachWitness.env n2 m2 u1 [pz2] default act us1 e ht0 u1_ok us1_ok
  have hu : u₂' = u2 := Outcome.ok.inj (hb₂.symm.trans u2_ok)
  subst hu
  have hss : ss₂' = us2 := Outcome.ok.inj (hs₂.symm.trans us2_ok)
  subst hss
  exact ⟨ReachWitness.env, n2, m2, u1, u2, [pz2], default, act, us1, us2, e, by decide +kernel, ht0, u1_ok, u2_ok,
    by decide +kernel, by decide +kernel, us1_ok, us2_ok, by decide +kernel, by decide +kernel, hst⟩

/-- non-vacuity of (b): the same two open states sealed WITHOUT an action give the same header -/
example : ∃ ss₁ ss₂, sealState ReachWitness.env C05HistWitness.n2 none = .ok ss₁ ∧
    sealState ReachWitness.env C08ReachWitness.m2 none = .ok ss₂ ∧ ss₁.st.tips = 2 ∧ ss₂.st.tips = 0 ∧
    headerOf ReachWitness.env ss₁ = headerOf ReachWitness.env ss₂ := by
  open C08ReachWitness C05HistWitness in
  obtain ⟨blk', n₂, hb', hn₂, e, ht0, -⟩ :=
    C08_restart_then_next ReachWitness.env q1 none ns n2 q1_reachable sealNone_ok nextNone_ok
  have hblk : blk' = blk := Outcome.ok.inj (hb'.symm.trans blk_ok)
  subst hblk
  have hm : n₂ = m2 := Outcome.ok.inj (hn₂.symm.trans m2_ok)
  subst hm
  obtain ⟨ss₂, hs₂, -, ht₂, -, hh⟩ := C08_seal_none_up_to_tips ReachWitness.env n2 m2 sn1 e sn1_ok
  refine ⟨sn1, ss₂, sn1_ok, hs₂, ?_, ht₂.trans ht0, hh⟩
  rw [C08_tips_kept_without_action _ _ _ sn1_ok]
  decide +kernel

end Mel

#print axioms Mel.Reachable.toRun
#print axioms Mel.C08_txsSorted_iff_sortedTxs
#print axioms Mel.C08_restart_run
#print axioms Mel.C08_restart_reachable
#print axioms Mel.C08_restart_reachableSep
#print axioms Mel.C08_restart_reachableB
#print axioms Mel.C08_zeroed_eq_iff
#print axioms Mel.C08_restart_exact_iff_no_pending_tips
#print axioms Mel.C08_restart_exact_with_action
#print axioms Mel.C08_restart_exact_on_action_chains
#print axioms Mel.C08_restart_exact_fresh_block_on_action_chains
#print axioms Mel.C08_restored_eqUpToTips
#print axioms Mel.C08_batch_up_to_tips_eq
#print axioms Mel.C08_batch_up_to_tips
#print axioms Mel.C08_batch_tips_diff
#print axioms Mel.C08_batch_tips_restart
#print axioms Mel.C08_batch_reject_up_to_tips
#print axioms Mel.C08_batch_crash_up_to_tips
#print axioms Mel.C08_seal_none_up_to_tips
#print axioms Mel.C08_next_up_to_tips
#print axioms Mel.C08_seal_action_up_to_tips
#print axioms Mel.C08_seal_action_reward_diff
#print axioms Mel.C08_seal_action_restart
#print axioms Mel.C08_restart_only_reward_differs
#print axioms Mel.C08_restart_then_next
#print axioms Mel.C08_restart_nonvacuous
#print axioms Mel.C08_up_to_tips_nonvacuous
