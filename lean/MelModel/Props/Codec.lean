/-
  The serialisation glue of the state transition function (MelModel/Stdcode.lean): the decoder of stake documents
  (C13: "registers a stake only if … the declared staked amount …" — the declaration is what this decoder reads out of
  `tx.data`), the decoder of the proof-of-work payload (C18: "… at the stated difficulty" — stated in `tx.data`), and the
  serialised size of a transaction (C05: "weight is its serialized size plus …").  C09 relies on all three being total.
  Before this file the decoded values and the size were inputs of the model, supplied by the implementation.
  Property theorems only; helper lemmas live in MelModel/Lemmas/CodecL.lean.
-/
import MelModel.Stdcode
import MelModel.Lemmas.CodecL
namespace Mel
open Mel.Stdcode

/-! ### integers -/

/-- the encoder writes what `varintLen` measures -/
theorem Codec_putVarint_length (n : Nat) : (putVarint n).length = varintLen n := by
  exact putVarint_length n

/-- a u64 written by the encoder is read back, and the rest of the input is untouched -/
theorem Codec_varint64_roundtrip (n : Nat) (h : n < 2 ^ 64) (rest : Bytes) :
    getVarint64 (putVarint n ++ rest) = some (n, rest) := by
  exact varint64_roundtrip n h rest

/-- a u128 written by the encoder is read back -/
theorem Codec_varint128_roundtrip (n : Nat) (h : n < 2 ^ 128) (rest : Bytes) :
    getVarint128 (putVarint n ++ rest) = some (n, rest) := by
  exact varint128_roundtrip n h rest

/-- whatever is read fits the type, and reading consumes between 1 and 9 (17) bytes of the input -/
theorem Codec_varint64_range (bs rest : Bytes) (n : Nat) (h : getVarint64 bs = some (n, rest)) :
    n < 2 ^ 64 ∧ ∃ used, bs = used ++ rest ∧ 1 ≤ used.length ∧ used.length ≤ 9 := by
  exact varint64_range bs rest n h

theorem Codec_varint128_range (bs rest : Bytes) (n : Nat) (h : getVarint128 bs = some (n, rest)) :
    n < 2 ^ 128 ∧ ∃ used, bs = used ++ rest ∧ 1 ≤ used.length ∧ used.length ≤ 17 := by
  exact varint128_range bs rest n h

/-- bincode's decoder does not insist on the shortest form: 5 can be spelled in one byte or in three -/
theorem Codec_varint_not_canonical_actual :
    getVarint64 [5] = some (5, []) ∧ getVarint64 [251, 5, 0] = some (5, []) := by
  decide

/-! ### stake documents (C13) -/

/-- what the encoder writes the decoder reads back -/
theorem C13_stakedoc_roundtrip (d : StakeDoc) (h : StakeDoc.Fits d) : decodeStakeDoc (encodeStakeDoc d) = some d := by
  exact stakedoc_roundtrip d h

/-- a decoded document has fields of the Rust type's widths (so nothing downstream can overflow on them) -/
theorem C13_stakedoc_decoded_fits (bs : Bytes) (d : StakeDoc) (h : decodeStakeDoc bs = some d) : StakeDoc.Fits d := by
  exact stakedoc_decoded_fits bs d h

/-- the whole input is consumed: a decodable string followed by anything is not decodable -/
theorem C13_stakedoc_no_trailing (bs t : Bytes) (d : StakeDoc) (h : decodeStakeDoc bs = some d) (ht : t ≠ []) :
    decodeStakeDoc (bs ++ t) = none := by
  exact stakedoc_no_trailing bs t d h ht

/-- … and no proper prefix of a decodable string is decodable -/
theorem C13_stakedoc_no_prefix (bs t : Bytes) (d : StakeDoc) (h : decodeStakeDoc (bs ++ t) = some d) (ht : t ≠ []) :
    decodeStakeDoc bs = none := by
  exact stakedoc_no_prefix bs t d h ht

/-- a stake document takes between 35 and 67 bytes -/
theorem C13_stakedoc_length (bs : Bytes) (d : StakeDoc) (h : decodeStakeDoc bs = some d) :
    35 ≤ bs.length ∧ bs.length ≤ 67 := by
  exact stakedoc_length bs d h

/-- different documents have different encodings -/
theorem C13_stakedoc_encode_injective (d d' : StakeDoc) (h : StakeDoc.Fits d) (h' : StakeDoc.Fits d')
    (he : encodeStakeDoc d = encodeStakeDoc d') : d = d' := by
  have := C13_stakedoc_roundtrip d h
  rw [he, C13_stakedoc_roundtrip d' h'] at this
  exact (Option.some.inj this).symm

/-- the converse fails (bincode reads non-minimal integers): two byte strings, one stake document -/
theorem C13_stakedoc_not_canonical_actual :
    decodeStakeDoc (List.replicate 32 7 ++ [1, 2, 3]) =
      some { pubkey := List.replicate 32 7, eStart := 1, ePostEnd := 2, symsStaked := 3 } ∧
    decodeStakeDoc (List.replicate 32 7 ++ [251, 1, 0, 2, 3]) =
      some { pubkey := List.replicate 32 7, eStart := 1, ePostEnd := 2, symsStaked := 3 } := by
  decide

/-- a u128 literal where a u64 epoch is expected is refused (so is the reserved marker 255) -/
theorem C13_stakedoc_wide_epoch_refused (pk : Bytes) (hpk : pk.length = 32) (rest : Bytes) :
    decodeStakeDoc (pk ++ 254 :: rest) = none ∧ decodeStakeDoc (pk ++ 255 :: rest) = none := by
  exact stakedoc_wide_epoch_refused pk hpk rest

/-! ### proof-of-work payloads (C18) -/

theorem C18_pow_roundtrip (difficulty : Nat) (proof : Bytes) (hd : difficulty < 2 ^ 32) (hp : proof.length < 2 ^ 64) :
    decodePow (encodePow difficulty proof) = some (difficulty, proof) := by
  exact pow_roundtrip difficulty proof hd hp

/-- the stated difficulty fits a u32, and the proof is part of the data (no allocation beyond the input) -/
theorem C18_pow_decoded_bounds (bs proof : Bytes) (d : Nat) (h : decodePow bs = some (d, proof)) :
    d < 2 ^ 32 ∧ proof.length + 2 ≤ bs.length := by
  exact pow_decoded_bounds bs proof d h

theorem C18_pow_no_trailing (bs t proof : Bytes) (d : Nat) (h : decodePow bs = some (d, proof)) (ht : t ≠ []) :
    decodePow (bs ++ t) = none := by
  exact pow_no_trailing bs t proof d h ht

/-- a difficulty that does not fit a u32 is refused although the integer itself decodes -/
theorem C18_pow_wide_difficulty_refused :
    decodePow ([253, 0, 0, 0, 0, 1, 0, 0, 0] ++ [0]) = none ∧ decodePow ([252, 255, 255, 255, 255] ++ [0]) = some (2 ^ 32 - 1, []) := by
  decide

/-- a length prefix that promises more than the data holds is refused -/
theorem C18_pow_short_proof_refused (d : Nat) (hd : d < 2 ^ 32) (proof : Bytes) (n : Nat) (hn : proof.length < n)
    (hn64 : n < 2 ^ 64) : decodePow (putVarint d ++ putVarint n ++ proof) = none := by
  exact pow_short_proof_refused d hd proof n hn hn64

/-! ### the size of a transaction (C05) -/

/-- at least seven bytes, and at least as long as everything it carries -/
theorem C05_size_lower (tx : Tx) :
    7 ≤ txLen tx ∧ tx.data.length < txLen tx ∧ 33 * tx.inputs.length < txLen tx ∧ 35 * tx.outputs.length < txLen tx ∧
    (tx.covenants.map List.length).sum < txLen tx ∧ (tx.sigs.map List.length).sum < txLen tx := by
  exact size_lower tx

/-- the size does not depend on the supplied facts (hash, covenant hashes, decoded payloads) -/
theorem C05_size_of_content (tx tx' : Tx) (hk : tx.inputs.length = tx'.inputs.length) (ho : tx.outputs = tx'.outputs)
    (hf : tx.fee = tx'.fee) (hc : tx.covenants = tx'.covenants) (hd : tx.data = tx'.data) (hs : tx.sigs = tx'.sigs) :
    txLen tx = txLen tx' := by
  exact size_of_content tx tx' hk ho hf hc hd hs

/-- one more output costs at least 35 bytes and at most 99 bytes plus its denomination's and additional data's bytes
    (32 of covenant hash, three integers of at most 17, at most 8 more when the output count crosses a width) -/
theorem C05_size_output (tx : Tx) (c : CoinData) :
    txLen tx + 35 ≤ txLen { tx with outputs := tx.outputs ++ [c] } ∧
    txLen { tx with outputs := tx.outputs ++ [c] } ≤ txLen tx + 99 + c.denom.toBytes.length + c.additionalData.length := by
  exact size_output tx c

/-- signatures are paid for: appending a signature of `n` bytes grows the size by more than `n` -/
theorem C05_size_sig (tx : Tx) (sig : Bytes) :
    txLen tx + sig.length < txLen { tx with sigs := tx.sigs ++ [sig] } := by
  exact size_sig tx sig

/-! ### non-vacuity -/

example : StakeDoc.Fits { pubkey := List.replicate 32 7, eStart := 1, ePostEnd := 2, symsStaked := 3 } := by
  refine ⟨by simp, by simp, by simp, by simp⟩

example : decodePow (encodePow 8 [1, 2, 3]) = some (8, [1, 2, 3]) := by decide

example : txLen { kind := .normal, inputs := [], outputs := [], fee := 0, covenants := [], data := [], sigs := [],
                  hash := [], rawLen := 0, covHashes := [] } = 7 := by decide

end Mel

#print axioms Mel.Codec_putVarint_length
#print axioms Mel.Codec_varint64_roundtrip
#print axioms Mel.Codec_varint128_roundtrip
#print axioms Mel.Codec_varint64_range
#print axioms Mel.Codec_varint128_range
#print axioms Mel.Codec_varint_not_canonical_actual
#print axioms Mel.C13_stakedoc_roundtrip
#print axioms Mel.C13_stakedoc_decoded_fits
#print axioms Mel.C13_stakedoc_no_trailing
#print axioms Mel.C13_stakedoc_no_prefix
#print axioms Mel.C13_stakedoc_length
#print axioms Mel.C13_stakedoc_encode_injective
#print axioms Mel.C13_stakedoc_not_canonical_actual
#print axioms Mel.C13_stakedoc_wide_epoch_refused
#print axioms Mel.C18_pow_roundtrip
#print axioms Mel.C18_pow_decoded_bounds
#print axioms Mel.C18_pow_no_trailing
#print axioms Mel.C18_pow_wide_difficulty_refused
#print axioms Mel.C18_pow_short_proof_refused
#print axioms Mel.C05_size_lower
#print axioms Mel.C05_size_of_content
#print axioms Mel.C05_size_output
#print axioms Mel.C05_size_sig
