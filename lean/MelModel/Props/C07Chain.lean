/-
  C07 (chain part) — headers chain together and commit to the whole state.
  Property theorems only; helper lemmas live in MelModel/Lemmas/ChainL.lean.
-/
import MelModel.Chain
import MelModel.Lemmas.ChainL
namespace Mel

/-! ### headers chain together and commit to the state -/

/-- the header of a child state (any batches, any action) has height parent + 1, the parent header's hash as
    `previous`, the same network; the history holds the parent header at the parent's height and everything
    it held before -/
theorem C07_chain (env : Env) (ss child : Sealed) (basis u : State) (txs : List Tx) (a : Option ProposerAction)
    (fb phdr chdr : Header)
    (hp : headerOf env ss = .ok phdr) (h1 : nextUnsealed env ss = .ok basis)
    (h2 : applyBatch env basis txs fb = .ok u) (h3 : sealState env u a = .ok child)
    (h4 : headerOf env child = .ok chdr) :
    chdr.height = phdr.height + 1 ∧ chdr.previous = env.hdrHash phdr ∧ chdr.network = phdr.network ∧
    child.st.history.get ss.st.height = some phdr ∧
    (∀ h, h ≠ ss.st.height → child.st.history.get h = ss.st.history.get h) := by
  obtain ⟨hdr, hh, bhist, bht, bnet⟩ := nextUnsealed_ok env ss basis h1
  rw [hp] at hh
  cases hh
  have hc : SameHHN basis child.st := (applyBatch_hhn _ _ _ _ _ h2).trans (sealState_hhn _ _ _ _ h3)
  obtain ⟨chist, cht, cnet⟩ := hc
  have chist' : child.st.history = ss.st.history.set ss.st.height phdr := chist.trans bhist
  have cht' : child.st.height = ss.st.height + 1 := cht.trans bht
  have cnet' : child.st.network = ss.st.network := cnet.trans bnet
  obtain ⟨pp, _, hpe⟩ := headerOf_ok env ss phdr hp
  obtain ⟨cp, hcp, hce⟩ := headerOf_ok env child chdr h4
  have hph : phdr.height = ss.st.height := by rw [hpe]
  have hpn : phdr.network = ss.st.network := by rw [hpe]
  have hget : child.st.history.get ss.st.height = some phdr := by
    rw [chist']; exact AList.get_set_self _ _ _
  refine ⟨?_, ?_, ?_, hget, ?_⟩
  · rw [hce, hph]; exact cht'
  · rcases hcp with ⟨h0, _⟩ | ⟨_, ph, hg, hcpe⟩
    · omega
    · have : child.st.height - 1 = ss.st.height := by omega
      rw [this, hget] at hg
      cases hg
      rw [hce]; exact hcpe
  · rw [hce, hpn]; exact cnet'
  · intro h hne
    rw [chist']; exact AList.get_set_ne _ _ hne

/-- the root functions of the environment are injective (collision-free hashing) -/
structure RootsInjective (env : Env) : Prop where
  history : ∀ a b, env.historyRoot a = env.historyRoot b → a = b
  coins : ∀ a b : CoinMap, env.coinsRoot a = env.coinsRoot b → a.coins = b.coins ∧ a.counts = b.counts
  txs : ∀ t a b, env.txsRoot t a = env.txsRoot t b → a = b
  pools : ∀ a b, env.poolsRoot a = env.poolsRoot b → a = b
  stakes : ∀ a b, env.stakesRoot a = env.stakesRoot b → a = b

/-- equal headers mean equal coins, pools, stakes, transactions, history, fee pool, fee multiplier and DOSC
    speed (pending tips are deliberately not implied: see C08) -/
theorem C07_sensitive (env : Env) (hi : RootsInjective env) (s₁ s₂ : Sealed) (h : Header)
    (h₁ : headerOf env s₁ = .ok h) (h₂ : headerOf env s₂ = .ok h) (ht : s₁.st.tip908 = s₂.st.tip908) :
    s₁.st.coins.coins = s₂.st.coins.coins ∧ s₁.st.coins.counts = s₂.st.coins.counts ∧
    s₁.st.pools = s₂.st.pools ∧ s₁.st.stakes = s₂.st.stakes ∧ s₁.st.txs = s₂.st.txs ∧
    s₁.st.history = s₂.st.history ∧ s₁.st.feePool = s₂.st.feePool ∧
    s₁.st.feeMultiplier = s₂.st.feeMultiplier ∧ s₁.st.doscSpeed = s₂.st.doscSpeed ∧
    s₁.st.height = s₂.st.height ∧ s₁.st.network = s₂.st.network := by
  obtain ⟨p₁, _, e₁⟩ := headerOf_ok env s₁ h h₁
  obtain ⟨p₂, _, e₂⟩ := headerOf_ok env s₂ h h₂
  rw [e₁] at e₂
  simp only [Header.mk.injEq] at e₂
  obtain ⟨hn, _, hh, hhist, hcoins, htxs, hfp, hfm, hds, hpools, hstakes⟩ := e₂
  rw [ht] at htxs
  have hc := hi.coins _ _ hcoins
  exact ⟨hc.1, hc.2, hi.pools _ _ hpools, hi.stakes _ _ hstakes, hi.txs _ _ _ htxs,
    hi.history _ _ hhist, hfp, hfm, hds, hh, hn⟩

/-- any difference in fee pool, fee multiplier or DOSC speed changes the header -/
theorem C07_scalar_change (env : Env) (s₁ s₂ : Sealed) (h₁ h₂ : Header)
    (e₁ : headerOf env s₁ = .ok h₁) (e₂ : headerOf env s₂ = .ok h₂)
    (hd : s₁.st.feePool ≠ s₂.st.feePool ∨ s₁.st.feeMultiplier ≠ s₂.st.feeMultiplier ∨ s₁.st.doscSpeed ≠ s₂.st.doscSpeed) :
    h₁ ≠ h₂ := by
  intro he
  subst he
  obtain ⟨p₁, _, x₁⟩ := headerOf_ok env s₁ h₁ e₁
  obtain ⟨p₂, _, x₂⟩ := headerOf_ok env s₂ h₁ e₂
  rw [x₁] at x₂
  simp only [Header.mk.injEq] at x₂
  obtain ⟨_, _, _, _, _, _, hfp, hfm, hds, _, _⟩ := x₂
  rcases hd with hd | hd | hd
  · exact hd hfp
  · exact hd hfm
  · exact hd hds

end Mel

#print axioms Mel.C07_chain
#print axioms Mel.C07_sensitive
#print axioms Mel.C07_scalar_change
