/-
  C04 for BLOCKS and over HISTORIES — when a block is accepted (`applyBlock`), every input of every transaction of the
  block was approved by its coin's covenant, evaluated in that input's own environment, in which the last header is
  the header of the state the block was applied to; and along any run of the chain every accepted batch satisfies
  the gate, the last header shown to covenants being the newest header on record (or the stand-in, in the first
  block).  (`Props/C04.lean` has the one-batch statement `C04_gate`.)
  Property theorems only; helper lemmas live in MelModel/Lemmas/MiscHistL.lean.
-/
import MelModel.Chain
import MelModel.Props.C04
import MelModel.Props.C13Life
import MelModel.Props.C07Hist
import MelModel.Props.C08Reach
import MelModel.Lemmas.MiscHistL
namespace Mel
open Mel.Gen Mel.MiscHistL

/-- the conclusion of `C04_gate`, for a whole batch: every input of every transaction is approved by the covenant of
    the coin it spends, against the one table `rel` of relevant coins the batch was validated with -/
def GateHolds (env : Env) (s : State) (txs : List Tx) (fb : Header) : Prop :=
  ∃ rel, loadRelevantCoins s txs = .ok rel ∧
    ∀ tx ∈ txs, ∀ (i : Nat) (hi : i < tx.inputs.length),
      ∃ coin, rel.get tx.inputs[i] = some coin ∧ Approves env s fb tx i tx.inputs[i] coin

/-- `C04_gate` in this form -/
theorem C04_batch_gate (env : Env) (s s' : State) (txs : List Tx) (fb : Header)
    (h : applyBatch env s txs fb = .ok s') : GateHolds env s txs fb := by
  obtain ⟨-, -, -, -, rel, hrel, -⟩ := SeqL.batch_keeps h
  refine ⟨rel, hrel, fun tx htx i hi => ?_⟩
  obtain ⟨rel', coin, hrel', hget, happ⟩ := C04_gate env s s' txs fb h tx htx i hi
  have : rel' = rel := Outcome.ok.inj (hrel'.symm.trans hrel)
  subst this
  exact ⟨coin, hget, happ⟩

/-- the block opened on a sealed state has that state's header as its previous header -/
theorem C04_next_last_header (env : Env) (ss : Sealed) (basis : State) (h : nextUnsealed env ss = .ok basis) :
    ∃ hdr, headerOf env ss = .ok hdr ∧ basis.history.get (basis.height - 1) = some hdr := by
  obtain ⟨hdr, hh, e1, e2, -⟩ := nextUnsealed_ok env ss basis h
  refine ⟨hdr, hh, ?_⟩
  rw [e1, e2, Nat.add_sub_cancel]
  exact AList.get_set_self _ _ _

/-- 6. **the covenant gate for blocks**: if `applyBlock env ss blk` succeeds, then the block's transactions were
    applied as one batch to the block `basis` opened on `ss`, the result sealed with the block's action is the new
    sealed state, and every input of every transaction of the block was approved by its coin's covenant in its own
    environment — whose last header is the header of `ss` -/
theorem C04_block_gate (env : Env) (ss ss' : Sealed) (blk : Block) (h : applyBlock env ss blk = .ok ss') :
    ∃ basis hdr applied, nextUnsealed env ss = .ok basis ∧ headerOf env ss = .ok hdr ∧
      applyBatch env basis blk.transactions default = .ok applied ∧
      sealState env applied blk.action = .ok ss' ∧
      GateHolds env basis blk.transactions default ∧
      ∀ (tx : Tx) (i : Nat) (id : CoinID) (coin : CoinDataHeight),
        (spendEnv basis default tx i id coin).lastHeader = hdr := by
  unfold applyBlock at h
  obtain ⟨basis, hn, h⟩ := Outcome.bind_eq_ok h
  split at h
  · cases h
  obtain ⟨applied, hb, h⟩ := Outcome.bind_eq_ok h
  obtain ⟨sealed, hs, h⟩ := Outcome.bind_eq_ok h
  obtain ⟨h', hh', h⟩ := Outcome.bind_eq_ok h
  split at h
  · cases h
    obtain ⟨hdr, hh, hlast⟩ := C04_next_last_header env ss basis hn
    exact ⟨basis, hdr, applied, hn, hh, hb, hs, C04_batch_gate env basis applied _ default hb,
      fun tx i id coin => C04_later_block_env basis default tx i id coin hdr hlast⟩
  · cases h

/-- … spelled out for one input -/
theorem C04_block_gate_input (env : Env) (ss ss' : Sealed) (blk : Block) (h : applyBlock env ss blk = .ok ss')
    (tx : Tx) (htx : tx ∈ blk.transactions) (i : Nat) (hi : i < tx.inputs.length) :
    ∃ basis hdr rel coin, nextUnsealed env ss = .ok basis ∧ headerOf env ss = .ok hdr ∧
      loadRelevantCoins basis blk.transactions = .ok rel ∧ rel.get tx.inputs[i] = some coin ∧
      Approves env basis default tx i tx.inputs[i] coin ∧
      (spendEnv basis default tx i tx.inputs[i] coin).lastHeader = hdr := by
  obtain ⟨basis, hdr, applied, hn, hh, -, -, ⟨rel, hrel, hg⟩, hl⟩ := C04_block_gate env ss ss' blk h
  obtain ⟨coin, hget, happ⟩ := hg tx htx i hi
  exact ⟨basis, hdr, rel, coin, hn, hh, hrel, hget, happ, hl tx i _ coin⟩

/-- **along a run, every accepted batch satisfies the gate** (decomposition form: whatever run led to `m`) -/
theorem C04_run_gate (env : Env) (s m m' : State) (txs : List Tx) (fb : Header)
    (_hrun : ChainRun env s m) (h : applyBatch env m txs fb = .ok m') : GateHolds env m txs fb :=
  C04_batch_gate env m m' txs fb h

/-- the same over a trace: every batch event of the run was applied in some state of the run in which the gate held -/
theorem C04_trace_gate (env : Env) (s s' : State) (tr : List Event) (hrun : RunTrace env s tr s')
    (txs : List Tx) (fb : Header) (hb : Event.batch txs fb ∈ tr) :
    ∃ m m', ChainRun env s m ∧ applyBatch env m txs fb = .ok m' ∧ ChainRun env m' s' ∧ GateHolds env m txs fb := by
  obtain ⟨m, m', h1, h2, h3⟩ := RunTrace.mem_split hrun hb
  cases h2 with
  | batch h => exact ⟨m, m', h1, h, h3, C04_batch_gate env m m' txs fb h⟩

/-- … and in a reachable state the header those covenants see is the newest one on record (the header of height
    `m.height - 1`, the one the current block builds on), whatever fallback is passed; in the first block it is the
    stand-in `genesisStandIn m` -/
theorem C04_reachable_last_header (env : Env) (m : State) (hr : Reachable env m) (fb : Header) (tx : Tx) (i : Nat)
    (id : CoinID) (coin : CoinDataHeight) :
    (0 < m.height → ∃ hdr, m.history.get (m.height - 1) = some hdr ∧ hdr.height = m.height - 1 ∧
        hdr.network = m.network ∧ (spendEnv m fb tx i id coin).lastHeader = hdr) ∧
    (m.height = 0 → (spendEnv m fb tx i id coin).lastHeader = genesisStandIn m) := by
  obtain ⟨c1, c2, -, -⟩ := C07_history_linked env m hr
  constructor
  · intro hpos
    obtain ⟨hdr, hx⟩ := c2 (m.height - 1) (by omega)
    obtain ⟨-, e1, e2⟩ := c1 _ hdr hx
    exact ⟨hdr, hx, e1, e2, C04_later_block_env m fb tx i id coin hdr hx⟩
  · intro h0
    apply C04_first_block_env
    cases hg : m.history.get (m.height - 1) with
    | none => rfl
    | some x => have := (c1 _ x hg).1; omega

/-! ### non-vacuity on literals -/

namespace C04HistWitness
open ReachWitness (env getOk eq_getOk)
open C05HistWitness (ns)
open C08ReachWitness (us1 pz2)

/-- the block written out from `us1` (the batch `[pz2]` on the block opened on `ns`, sealed with an action) -/
def blk : Block := getOk (toBlock env us1)
def ss' : Sealed := getOk (applyBlock env ns blk)

theorem blk_txs : blk.transactions = [pz2] := by decide +kernel
theorem apply_ok : applyBlock env ns blk = .ok ss' := eq_getOk (by decide +kernel)

end C04HistWitness

/-- non-vacuity of `C04_block_gate`: a block with a transaction that spends a coin is accepted on a sealed state of
    height 0, so the gate speaks about a real input: input 0 of `pz2` -/
theorem C04_block_gate_nonvacuous :
    ∃ (env : Env) (ss ss' : Sealed) (blk : Block) (tx : Tx),
      applyBlock env ss blk = .ok ss' ∧ tx ∈ blk.transactions ∧ 0 < tx.inputs.length := by
  open C04HistWitness in
  exact ⟨ReachWitness.env, C05HistWitness.ns, ss', blk, C08ReachWitness.pz2, apply_ok,
    by rw [blk_txs]; exact List.mem_singleton.mpr rfl, by decide⟩

end Mel

#print axioms Mel.C04_batch_gate
#print axioms Mel.C04_next_last_header
#print axioms Mel.C04_block_gate
#print axioms Mel.C04_block_gate_input
#print axioms Mel.C04_run_gate
#print axioms Mel.C04_trace_gate
#print axioms Mel.C04_reachable_last_header
#print axioms Mel.C04_block_gate_nonvacuous
