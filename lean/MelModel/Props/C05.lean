/-
  C05 — Fees: minimum fee enforced, fee pool / tips / proposer reward accounted exactly.
  Property theorems only; helper lemmas live in MelModel/Lemmas/Fees.lean.
-/
import MelModel.ApplyTx
import MelModel.Lemmas.Fees
import MelModel.Lemmas.WeighDP
namespace Mel
open Mel.Gen

/-- the weight formula: serialized size + covenant weights + 1000 per output − 1000 per input, never below 0 -/
theorem C05_weight (tx : Tx) (w : Nat) (h : tx.weight = .ok w) :
    w = min (min (tx.rawLen + (tx.covenants.map covenantWeightFromBytes).sum) U128_MAX + tx.outputs.length * 1000) U128_MAX
          - tx.inputs.length * 1000 := by
  unfold Tx.weight at h
  simp only at h
  split at h
  · cases h
  · cases h; simp only [satAdd128]

/-- the minimum fee is weight × multiplier / 65536 rounded down (the product saturating at u128) -/
theorem C05_min_fee (tx : Tx) (m f : Nat) (h : tx.baseFee m = .ok f) :
    ∃ w, tx.weight = .ok w ∧ f = min (w * m) U128_MAX / 65536 := by
  unfold Tx.baseFee at h
  obtain ⟨w, hw, h⟩ := Fees.bind_ok h
  cases h
  exact ⟨w, hw, by simp only [satMul128]⟩

/-- an undecodable covenant weighs nothing; a decodable one weighs its (saturated) instruction weight — the specified
    weight `VM.weight`, which the implemented weigher `VM.weightDP` computes (`C11_weightDP_eq_weight`) -/
theorem C05_covenant_weight (b : Bytes) :
    covenantWeightFromBytes b = match VM.decodeAll b with | some ops => VM.weight ops | none => 0 := by
  unfold covenantWeightFromBytes
  cases VM.decodeAll b with
  | none => rfl
  | some ops => exact VM.weightDP_eq_weight ops

/-- every transaction of an accepted batch pays at least the minimum fee -/
theorem C05_threshold (env : Env) (s s' : State) (txs : List Tx) (fb : Header)
    (h : applyBatch env s txs fb = .ok s') (tx : Tx) (htx : tx ∈ txs) :
    ∃ f, tx.baseFee s.feeMultiplier = .ok f ∧ f ≤ tx.fee := by
  obtain ⟨rel, next, hn, _, _, _⟩ := Fees.applyBatch_next h
  exact Fees.createNextState_threshold hn tx htx

/-- a batch containing a transaction that pays less is not accepted -/
theorem C05_underpaying_rejected (env : Env) (s : State) (txs : List Tx) (fb : Header) (tx : Tx) (htx : tx ∈ txs)
    (f : Nat) (hf : tx.baseFee s.feeMultiplier = .ok f) (hlt : tx.fee < f) :
    ∀ s', applyBatch env s txs fb ≠ .ok s' := by
  intro s' h
  obtain ⟨f', hf', hle⟩ := C05_threshold env s s' txs fb h tx htx
  rw [hf] at hf'
  cases hf'
  exact Nat.lt_irrefl _ (Nat.lt_of_lt_of_le hlt hle)

/-- minimum fee of a transaction at a multiplier (0 where the weight computation would crash — which, since the
    fix for F19, happens for no transaction of an accepted batch: `C09_accepted_weights_fit`) -/
def minFeeOf (m : Nat) (tx : Tx) : Nat := match tx.baseFee m with | .ok f => f | _ => 0

/-- exact split: the minimum-fee parts go to the fee pool, the remainders to the tips (both saturating) -/
theorem C05_split (env : Env) (s s' : State) (txs : List Tx) (fb : Header)
    (h : applyBatch env s txs fb = .ok s') (hp : s.feePool ≤ U128_MAX) (ht : s.tips ≤ U128_MAX) :
    s'.feePool = min (s.feePool + (txs.map (minFeeOf s.feeMultiplier)).sum) U128_MAX ∧
    s'.tips = min (s.tips + (txs.map fun tx => tx.fee - minFeeOf s.feeMultiplier tx).sum) U128_MAX ∧
    s'.feeMultiplier = s.feeMultiplier := by
  obtain ⟨rel, next, hn, e1, e2, e3⟩ := Fees.applyBatch_next h
  obtain ⟨i1, i2, i3⟩ := Fees.createNextState_fees hn hp ht
  have hfun : minFeeOf s.feeMultiplier = Fees.feeOf s.feeMultiplier := by
    funext tx; unfold minFeeOf Fees.feeOf; cases tx.baseFee s.feeMultiplier <;> rfl
  rw [hfun]
  exact ⟨e1.trans i2, e2.trans i3, e3.trans i1⟩

/-- … and without saturation the sum of both accumulators grows by exactly the fees paid -/
theorem C05_split_exact (env : Env) (s s' : State) (txs : List Tx) (fb : Header)
    (h : applyBatch env s txs fb = .ok s') (hp : s.feePool ≤ U128_MAX) (ht : s.tips ≤ U128_MAX)
    (hcap : s.feePool + s.tips + (txs.map (·.fee)).sum ≤ U128_MAX) :
    s'.feePool + s'.tips = s.feePool + s.tips + (txs.map (·.fee)).sum := by
  obtain ⟨h1, h2, _⟩ := C05_split env s s' txs fb h hp ht
  have hsum : (txs.map (minFeeOf s.feeMultiplier)).sum +
      (txs.map fun tx => tx.fee - minFeeOf s.feeMultiplier tx).sum = (txs.map (·.fee)).sum := by
    rw [Fees.sum_map_add]
    apply Fees.sum_map_congr
    intro tx htx
    obtain ⟨f, hf, hle⟩ := C05_threshold env s s' txs fb h tx htx
    have : minFeeOf s.feeMultiplier tx = f := by simp [minFeeOf, hf]
    simp only [this]; omega
  rw [h1, h2]
  simp only [Nat.min_def]
  split <;> split <;> omega

/-- the coin the proposer receives -/
def rewardCoin (s : State) (a : ProposerAction) : CoinDataHeight :=
  { coinData := { covhash := a.rewardDest, value := s.feePool / 65536 + s.tips, denom := .mel, additionalData := [] },
    height := s.height }

/-- the proposer reward: one new coin worth 1/65536 of the fee pool plus all tips, to the action's
    destination; fee pool and tips decrease by exactly that amount; nothing else changes -/
theorem C05_reward (env : Env) (s s' : State) (a : ProposerAction) (h : collectProposerFee env s a = .ok s') :
    s'.coins.getCoin { txhash := env.rewardId s.height, index := 0 } = some (rewardCoin s a) ∧
    s'.feePool + s.feePool / 65536 = s.feePool ∧ s'.tips = 0 ∧
    (∀ id, id ≠ ({ txhash := env.rewardId s.height, index := 0 } : CoinID) → s'.coins.getCoin id = s.coins.getCoin id) ∧
    s'.pools = s.pools ∧ s'.stakes = s.stakes ∧ s'.feeMultiplier = s.feeMultiplier := by
  unfold collectProposerFee at h
  simp only at h
  split at h
  · cases h
  · cases h
    refine ⟨?_, ?_, rfl, ?_, rfl, rfl, rfl⟩
    · simp only [Fees.getCoin_insertCoin_self, rewardCoin, REWARD_SHIFT]
    · simp only [REWARD_SHIFT]
      have : s.feePool / 2 ^ 16 ≤ s.feePool := Nat.div_le_self _ _
      simp only [Nat.reducePow] at this ⊢
      omega
    · intro id hne
      exact Fees.getCoin_insertCoin_ne _ _ _ hne

/-- structure of sealing: Melmint, then the TIP-909 subsidy, then (only with an action) the fee
    multiplier move and the reward — so without an action the reward step changes nothing -/
theorem C05_seal_structure (env : Env) (s : State) (action : Option ProposerAction) (ss : Sealed)
    (h : sealState env s action = .ok ss) :
    ∃ s1 s2, presealMelmint env s = .ok s1 ∧ (if s1.tip909 then applyTip909 s1 else .ok s1) = .ok s2 ∧
      ss.action = action ∧
      match action with
      | none => ss.st = s2
      | some a => collectProposerFee env
          { s2 with feeMultiplier := moveFeeMultiplier s2.feeMultiplier a.feeMultiplierDelta s2.tip901 } a = .ok ss.st := by
  unfold sealState at h
  obtain ⟨s1, h1, h⟩ := Fees.bind_ok h
  split at h
  · cases h
  · obtain ⟨s2, h2, h⟩ := Fees.bind_ok h
    refine ⟨s1, s2, h1, h2, ?_⟩
    cases action with
    | none => cases h; exact ⟨rfl, rfl⟩
    | some a =>
      simp only at h
      obtain ⟨s3, h3, h⟩ := Fees.bind_ok h
      cases h
      exact ⟨rfl, h3⟩

end Mel

#print axioms Mel.C05_weight
#print axioms Mel.C05_min_fee
#print axioms Mel.C05_covenant_weight
#print axioms Mel.C05_threshold
#print axioms Mel.C05_underpaying_rejected
#print axioms Mel.C05_split
#print axioms Mel.C05_split_exact
#print axioms Mel.C05_reward
#print axioms Mel.C05_seal_structure
