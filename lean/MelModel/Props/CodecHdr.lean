/-
  C07 — "any difference in a coin, pool, stake, transaction, fee pool, fee multiplier or DOSC speed changes the header":
  the header hash is the hash of `stdcode::serialize(header)`; `Stdcode.encodeHeader` writes those bytes (compared with the
  real ones on the stdcode stream, `hdrenc` lines) and is injective, so two different headers have different preimages and
  the premise "equal header hash ⇒ equal header" of the C06 / C07 theorems is collision-freeness of the hash function alone.
  Likewise for coin ids (keys of the coin tree, seeds of MelPoW puzzles).
  Property theorems only; helper lemmas live in MelModel/Lemmas/CodecHdrL.lean.
-/
import MelModel.Stdcode
import MelModel.Props.CodecTx
import MelModel.Lemmas.CodecHdrL
namespace Mel
open Mel.Stdcode

/-- different headers, different bytes: every one of the eleven fields is recoverable from the serialisation -/
theorem C07_header_encoding_injective (h h' : Header) (hk : HeaderOk h) (hk' : HeaderOk h')
    (he : encodeHeader h = encodeHeader h') : h = h' := by
  exact encodeHeader_injective h h' hk hk' he

/-- in particular a different fee pool, fee multiplier or DOSC speed gives a different preimage -/
theorem C07_header_bytes_sensitive (h h' : Header) (hk : HeaderOk h) (hk' : HeaderOk h')
    (hd : h.feePool ≠ h'.feePool ∨ h.feeMultiplier ≠ h'.feeMultiplier ∨ h.doscSpeed ≠ h'.doscSpeed ∨
      h.height ≠ h'.height ∨ h.previous ≠ h'.previous ∨ h.network ≠ h'.network) :
    encodeHeader h ≠ encodeHeader h' := by
  intro he
  have := C07_header_encoding_injective h h' hk hk' he
  subst this
  rcases hd with hd | hd | hd | hd | hd | hd <;> exact hd rfl

/-- a header takes between 197 and 253 bytes -/
theorem C07_header_encoding_length (h : Header) (hk : HeaderOk h) :
    197 ≤ (encodeHeader h).length ∧ (encodeHeader h).length ≤ 253 := by
  exact encodeHeader_length h hk

/-- different coin ids, different keys' preimages -/
theorem C07_coinid_encoding_injective (c c' : CoinID) (h : c.txhash.length = 32 ∧ c.index < 256)
    (h' : c'.txhash.length = 32 ∧ c'.index < 256) (he : encodeCoinIDKey c = encodeCoinIDKey c') : c = c' := by
  exact coinid_key_injective c c' h h' he

/-! ### non-vacuity -/

example : HeaderOk { network := .mainnet, previous := List.replicate 32 0, height := 7, historyHash := List.replicate 32 1,
                     coinsHash := List.replicate 32 2, transactionsHash := List.replicate 32 3, feePool := 1 <<< 100,
                     feeMultiplier := 300, doscSpeed := 5, poolsHash := List.replicate 32 4, stakesHash := List.replicate 32 5 } := by
  constructor <;> simp

end Mel

#print axioms Mel.C07_header_encoding_injective
#print axioms Mel.C07_header_bytes_sensitive
#print axioms Mel.C07_header_encoding_length
#print axioms Mel.C07_coinid_encoding_injective
