/-
  C16, over histories — along ANY run of the chain (accepted batches and sealed blocks, in any order) that starts in
  a reachable state, the liquidity tokens of every pool in circulation never exceed the liquidity the pool records.
  Property theorems only; helper lemmas live in MelModel/Lemmas/BackRunL.lean.  This file assembles the one-step
  theorems of Props/C16Hist.lean (`C16_backed_batch`, `C16_backed_seal_pool` / `C16_backed_seal`) in the style of
  Props/C01Hist.lean.

  What the one-step theorems assume, and where it comes from here:
  * `C16_backed_batch`: unique coin ids — `Inv.coinKeys` of a reachable state; and
    `batchIssuance txs (liqTokenDenom env k) = 0`: the batch mints none of the pool's token — a STEP PREMISE
    (`NoLiqMint`; findings K-faucet-liq and the new-token collision).  `noLiqMint_of_outputs` reduces it to: no
    output of a faucet transaction, and no newly created token, is in the token denomination of a canonical pool.
  * `C16_backed_seal`: `SealPre` — derived from reachability but for its u128 bound on the coin totals
    (`C01_sealPre_reachable`), a STEP PREMISE exactly as in `IssRun`; `legacyDeposit m = false` — STEP PREMISE
    (finding K-legacy-deposit); `LiqDenomsApartC env` — a hypothesis on the environment (collision-freeness of the
    keyed hash); `hsym`, `hfresh`, `hnone` — not needed (`C16_backed_seal_pool` does without them; `hfresh` is
    `RewardFresh`, which the block step carries anyway because reachability needs it).
  * Pools are quantified over canonical keys, as in Props/C16Hist.lean: `∀ k, Backed env s k` is NOT preserved
    (`C16_backed_all_keys_counterexample`: it holds at genesis and fails for the spelling `(SYM, MEL)` after the first
    deposit into the MEL/SYM pool).  That every key actually present in the pool map IS canonical is an invariant of
    reachable states: `C16_pool_keys_canonical`.

  Contents: `NoLiqMint`, `noLiqMint_of_outputs`, `BackRun`, `BackRun.issRun`, `BackRun.reachable`,
  `C16_pool_keys_canonical`, `C16_backed_next`, `C16_backed_history` (main), `C16_genesis_backed`,
  `C16_backed_from_genesis`, `C16_redeemable`, `C16_redeemable_coins`, `C16_redeemable_from_genesis`,
  counterexamples `C16_backed_all_keys_counterexample`, `C16_genesis_token_counterexample`, non-vacuity
  `C16_backed_history_nonvacuous`.
-/
import MelModel.Props.C16Hist
import MelModel.Props.C01Hist
import MelModel.Lemmas.BackRunL
namespace Mel
open Mel.Gen

/-- the batch mints no liquidity token of a canonical pool: the declared issuance of the batch (faucet outputs,
    newly created tokens) is zero in every such denomination — the precise premise of `C16_backed_batch` -/
def NoLiqMint (env : Env) (txs : List Tx) : Prop :=
  ∀ k, CanonKey k → batchIssuance txs (liqTokenDenom env k) = 0

/-- what `NoLiqMint` comes to, output by output: no output of a faucet transaction is denominated in (K-faucet-liq),
    and no token newly created by a transaction of the batch coincides with, the token of a canonical pool.
    (Ordinary transactions moving existing liquidity tokens around are unaffected.) -/
theorem noLiqMint_of_outputs (env : Env) (txs : List Tx)
    (h : ∀ tx ∈ txs, ∀ o ∈ tx.outputs, tx.kind = .faucet ∨ o.denom = .newCustom →
      ∀ k, CanonKey k → createdDenom tx o ≠ liqTokenDenom env k) : NoLiqMint env txs := by
  intro k hk
  unfold batchIssuance
  apply BackRunL.sum_map_zero
  intro tx htx
  unfold txIssuance
  have hmel : ¬ liqTokenDenom env k = .mel := by intro e; cases e
  have herg : ¬ liqTokenDenom env k = .erg := by intro e; cases e
  split
  · next hf =>
    have hnil : (tx.outputs.filter fun o => createdDenom tx o = liqTokenDenom env k) = [] := by
      rw [List.filter_eq_nil_iff]
      intro o ho
      simpa using h tx htx o ho (Or.inl hf) k hk
    rw [hnil]
    first | rfl | (rw [if_neg hmel]; rfl)
  · have hnil : (tx.outputs.filter fun o => o.denom = .newCustom ∧ liqTokenDenom env k = .custom tx.hash) = [] := by
      rw [List.filter_eq_nil_iff]
      intro o ho
      have := h tx htx o ho
      simp only [decide_eq_true_eq, not_and]
      intro hn e
      have h2 := this (Or.inr hn) k hk
      unfold createdDenom at h2
      rw [if_pos hn] at h2
      exact h2 e.symm
    rw [hnil]
    first | rfl | (rw [if_neg (fun hh => herg hh.2)]; rfl)

/-- a run of the chain from `s` to `s'` none of whose batches mints a liquidity token.  The step assumptions are
    those of `ReachableSep` (hash freshness / domain separation) and, beyond them, exactly the non-structural
    premises of the one-step theorems: `NoLiqMint` for a batch (`C16_backed_batch`); `legacyDeposit m = false`
    (K-legacy-deposit) and the u128 bound on the coin totals (`SealPre.bounded`, not implied by reachability, see
    `C01_seal_unbounded_counterexample`) for a block (`C16_backed_seal`). -/
inductive BackRun (env : Env) : State → State → Prop
  | refl (s : State) : BackRun env s s
  | batch {s m s' : State} {txs : List Tx} {fb : Header} :
      BackRun env s m → BatchFresh m txs → MarkerFresh env m txs → NoLiqMint env txs →
      applyBatch env m txs fb = .ok s' → BackRun env s s'
  | block {s m s' : State} {ss : Sealed} {a : Option ProposerAction} :
      BackRun env s m → RewardFresh env m → legacyDeposit m = false →
      (∀ d, coinsTotal m.coins d ≤ U128_MAX) →
      sealState env m a = .ok ss → nextUnsealed env ss = .ok s' → BackRun env s s'

/-- a `BackRun` is an `IssRun` (with some recorded issuance) -/
theorem BackRun.issRun {env : Env} {s s' : State} (hrun : BackRun env s s') : ∃ iss, IssRun env s iss s' := by
  induction hrun with
  | refl => exact ⟨_, .refl _⟩
  | batch _ hf hm _ hb ih => obtain ⟨iss, h⟩ := ih; exact ⟨_, .batch h hf hm hb⟩
  | block _ hr hl hbd hs hn ih => obtain ⟨iss, h⟩ := ih; exact ⟨_, .block h hr hl hbd hs hn⟩

/-- reachability is closed under runs -/
theorem BackRun.reachable {env : Env} {s s' : State} (hrun : BackRun env s s') (h : ReachableSep env s) :
    ReachableSep env s' := by
  obtain ⟨iss, hi⟩ := hrun.issRun
  exact hi.reachable h

/-- runs compose -/
theorem BackRun.trans {env : Env} {a b c : State} (h1 : BackRun env a b) (h2 : BackRun env b c) :
    BackRun env a c := by
  induction h2 with
  | refl => exact h1
  | batch _ hf hm hmint hb ih => exact .batch ih hf hm hmint hb
  | block _ hr hl hbd hs hn ih => exact .block ih hr hl hbd hs hn

/-- **every pool of a reachable state is filed under a canonical key**: pools are only created by `create_builtins`
    (the three builtin names) and by the settlement of a swap / deposit / withdrawal whose data `canonical_pool_key`
    accepted; pegging and the TIP-909 subsidy rewrite builtin pools; batches and `next_unsealed` keep the pool map -/
theorem C16_pool_keys_canonical (env : Env) (s : State) (h : Reachable env s) :
    ∀ k p, s.pools.get k = some p → CanonKey k := by
  have key : BackRunL.PoolsCanon s.pools := by
    induction h with
    | genesis cfg => exact BackRunL.poolsCanon_nil
    | batch _ _ hb ih => exact BackRunL.batch_canon hb ih
    | block _ _ hs hn ih => exact BackRunL.block_canon hs hn ih
  exact key

/-- opening the next block keeps every pool's tokens backed (neither the supply nor the pools change) -/
theorem C16_backed_next (env : Env) (ss : Sealed) (s' : State) (h : nextUnsealed env ss = .ok s') (k : PoolKey)
    (hb : Backed env ss.st k) : Backed env s' k := by
  unfold Backed recordedLiqs at *
  rw [WholeL.nextUnsealed_supply env ss s' h, ReachSealL.nextUnsealed_pools h]
  exact hb

/-- the one-pool version of `C16_backed_history`: only the pool's own token denomination has to be apart from
    those of the other canonical pools -/
theorem C16_backed_history_pool (env : Env) (s s' : State) (hreach : ReachableSep env s) (hrun : BackRun env s s')
    (k : PoolKey) (hk : CanonKey k)
    (hinj : ∀ k', CanonKey k' → liqTokenDenom env k' = liqTokenDenom env k → k' = k)
    (hb : Backed env s k) : Backed env s' k := by
  induction hrun with
  | refl => exact hb
  | @batch m s' txs fb hr hf hm hmint hbat ih =>
    have hi := (reachable_inv_slots env m (hr.reachable hreach)).1
    exact C16_backed_batch env m s' txs fb k hbat hi.coinKeys (hmint k hk) ih
  | @block m s' ss a hr hrf hl hbd hs hn ih =>
    have hp := C01_sealPre_reachable env m (hr.reachable hreach) hbd
    exact C16_backed_next env ss s' hn k (C16_backed_seal_pool env m a ss hs hp hl k hinj ih)

/-- **C16 over histories**: along any run of the chain from a reachable state — any number of accepted batches
    that mint no liquidity token, and of sealed blocks outside the legacy deposit window, in any order — every
    (canonical) pool's tokens stay backed: if no more of them existed than the pool recorded at the start, the same
    is true of every state at the end of the run -/
theorem C16_backed_history (env : Env) (s s' : State) (hreach : ReachableSep env s) (hrun : BackRun env s s')
    (ha : LiqDenomsApartC env) (hb : ∀ k, CanonKey k → Backed env s k) : ∀ k, CanonKey k → Backed env s' k := by
  intro k hk
  exact C16_backed_history_pool env s s' hreach hrun k hk (fun k' hk' e => ha.inj k' k hk' hk e) (hb k hk)

/-! ### from the genesis state -/

/-- at genesis every pool key (canonical or not) is backed, provided the initial coin is not denominated in that
    pool's token: there is no pool, no fee pool in a custom denomination, and one coin -/
theorem C16_genesis_backed (env : Env) (cfg : GenesisConfig) (k : PoolKey)
    (hg : cfg.initCoindata.denom ≠ liqTokenDenom env k) : Backed env (genesisState cfg) k := by
  unfold Backed
  rw [C01_genesis_supply, if_neg hg, if_neg (by intro e; cases e)]
  exact Nat.zero_le _

/-- **C16 from genesis**: at any point of any history (of batches minting no liquidity token and blocks outside the
    legacy deposit window) every canonical pool's tokens are backed.
    `hgen` — the initial coin of the genesis configuration is not denominated in a pool's token — is needed:
    `C16_genesis_token_counterexample`. -/
theorem C16_backed_from_genesis (env : Env) (cfg : GenesisConfig) (s' : State)
    (hrun : BackRun env (genesisState cfg) s') (ha : LiqDenomsApartC env)
    (hgen : ∀ k, CanonKey k → cfg.initCoindata.denom ≠ liqTokenDenom env k) :
    ∀ k, CanonKey k → Backed env s' k :=
  C16_backed_history env (genesisState cfg) s' (.genesis cfg) hrun ha
    (fun k hk => C16_genesis_backed env cfg k (hgen k hk))

/-! ### redeemability -/

/-- **every pool can redeem all of its tokens**: in a reachable state whose canonical pools are backed, every pool
    `k ↦ p` of the pool map is filed under a canonical key, and the pool's tokens — those in unspent coins TOGETHER
    WITH those other pools hold in their reserves (a liquidity token can itself be deposited into a pool) — add up
    to at most `p.liqs`, the liquidity `PoolState::withdraw` accepts (`assert!(self.liqs >= liqs)`) -/
theorem C16_redeemable (env : Env) (s : State) (hreach : ReachableSep env s)
    (hb : ∀ k, CanonKey k → Backed env s k) (k : PoolKey) (p : PoolState) (hp : s.pools.get k = some p) :
    CanonKey k ∧
    coinsTotal s.coins (liqTokenDenom env k) + poolsTotal s.pools (liqTokenDenom env k) ≤ p.liqs := by
  have hk := C16_pool_keys_canonical env s hreach.reachable k p hp
  refine ⟨hk, ?_⟩
  have h := hb k hk
  unfold Backed at h
  rw [recordedLiqs_eq, BackL.liqsAt_some hp] at h
  have e : supply s (liqTokenDenom env k) =
      coinsTotal s.coins (liqTokenDenom env k) + poolsTotal s.pools (liqTokenDenom env k) :=
    BackL.supply_custom s _
  rw [e] at h
  exact h

/-- in particular the tokens in coins alone are at most the recorded liquidity -/
theorem C16_redeemable_coins (env : Env) (s : State) (hreach : ReachableSep env s)
    (hb : ∀ k, CanonKey k → Backed env s k) (k : PoolKey) (p : PoolState) (hp : s.pools.get k = some p) :
    coinsTotal s.coins (liqTokenDenom env k) ≤ p.liqs :=
  Nat.le_trans (Nat.le_add_right _ _) (C16_redeemable env s hreach hb k p hp).2

/-- … at any point of any history from genesis -/
theorem C16_redeemable_from_genesis (env : Env) (cfg : GenesisConfig) (s' : State)
    (hrun : BackRun env (genesisState cfg) s') (ha : LiqDenomsApartC env)
    (hgen : ∀ k, CanonKey k → cfg.initCoindata.denom ≠ liqTokenDenom env k)
    (k : PoolKey) (p : PoolState) (hp : s'.pools.get k = some p) :
    CanonKey k ∧
    coinsTotal s'.coins (liqTokenDenom env k) + poolsTotal s'.pools (liqTokenDenom env k) ≤ p.liqs :=
  C16_redeemable env s' (hrun.reachable (.genesis cfg)) (C16_backed_from_genesis env cfg s' hrun ha hgen) k p hp

/-! ### non-vacuity: a concrete four-step run from a genesis state — deposit, block, withdrawal, block -/

namespace C16RunWitness
open ReachWitness

/-- a faucet transaction creating 500 MEL and 5 SYM (its marker id `[9, 3]` is no transaction's hash) -/
def fz : Tx := {
  kind := .faucet, inputs := [], outputs := [(⟨[7], 500, .mel, []⟩ : CoinData), ⟨[7], 5, .sym, []⟩], fee := 0,
  covenants := [], data := [], sigs := [], hash := [3], rawLen := 0, covHashes := [] }

/-- a deposit of the faucet's 500 MEL and 5 SYM into the MEL/SYM pool (`[115]` spells the pool's name) -/
def dz : Tx := {
  kind := .liqDeposit, inputs := [⟨[3], 0⟩, ⟨[3], 1⟩],
  outputs := [(⟨[8], 500, .mel, []⟩ : CoinData), ⟨[8], 5, .sym, []⟩], fee := 0,
  covenants := [C03Witness.cov], data := [115], sigs := [], hash := [4], rawLen := 0, covHashes := [[7]] }

/-- (next block) the withdrawal of the 50 tokens the deposit was issued; it pays its fee with the initial coin -/
def wz : Tx := {
  kind := .liqWithdraw, inputs := [⟨[4], 0⟩, ⟨zeroHash, 0⟩],
  outputs := [(⟨[6], 50, .custom [115], []⟩ : CoinData)], fee := 5,
  covenants := [C03Witness.cov, C03Witness.cov], data := [115], sigs := [], hash := [5], rawLen := 0,
  covHashes := [[8], [7]] }

/-- genesis (`ReachWitness.cfg`: one coin of 5 MEL, no pool), the batch `[fz, dz]`, a block, the batch `[wz]`,
    a block -/
def t1 : State := getOk (applyBatch env (genesisState cfg) [fz, dz] default)
def ts1 : Sealed := getOk (sealState env t1 none)
def t2 : State := getOk (nextUnsealed env ts1)
def t3 : State := getOk (applyBatch env t2 [wz] default)
def ts3 : Sealed := getOk (sealState env t3 none)
def t4 : State := getOk (nextUnsealed env ts3)

theorem batch1_ok : applyBatch env (genesisState cfg) [fz, dz] default = .ok t1 := eq_getOk (by decide +kernel)
theorem seal1_ok : sealState env t1 none = .ok ts1 := eq_getOk (by decide +kernel)
theorem next1_ok : nextUnsealed env ts1 = .ok t2 := eq_getOk (by decide +kernel)
theorem batch2_ok : applyBatch env t2 [wz] default = .ok t3 := eq_getOk (by decide +kernel)
theorem seal2_ok : sealState env t3 none = .ok ts3 := eq_getOk (by decide +kernel)
theorem next2_ok : nextUnsealed env ts3 = .ok t4 := eq_getOk (by decide +kernel)

theorem env_apart : LiqDenomsApartC env := by
  refine ⟨fun k k' hk hk' e => ?_⟩
  have e' : k.toBytes = k'.toBytes := Denom.custom.inj e
  unfold CanonKey at hk hk'
  rw [e', hk'] at hk
  exact (Option.some.inj hk).symm

theorem genesis_apart : ∀ k, CanonKey k → cfg.initCoindata.denom ≠ liqTokenDenom env k := by
  intro k _ e; cases e

theorem batchFresh1 : BatchFresh (genesisState cfg) [fz, dz] := by
  refine ⟨by decide, ?_⟩
  intro x hx i
  have hk : ∀ h : Hash, h ≠ zeroHash → (genesisState cfg).coins.getCoin ⟨h, i⟩ = none := by
    intro h hne
    show (CoinMap.insertCoin {} ⟨zeroHash, 0⟩ _ _).getCoin ⟨h, i⟩ = none
    rw [CoinMap.getCoin_insertCoin, if_neg]
    · rfl
    · intro e; injection e with e1; exact hne e1
  simp only [List.mem_cons, List.not_mem_nil, or_false] at hx
  rcases hx with rfl | rfl <;> exact hk _ (by decide)

theorem markerFresh1 : MarkerFresh env (genesisState cfg) [fz, dz] := by
  intro x hx hk _ w hw
  simp only [List.mem_cons, List.not_mem_nil, or_false] at hx
  rcases hx with rfl | rfl
  · have hw' : w = fz ∨ w = dz := by
      rcases hw with hw | hw
      · simpa using hw
      · exact nomatch hw
    rcases hw' with rfl | rfl <;> decide
  · cases hk

theorem noMint1 : NoLiqMint env [fz, dz] := by
  apply noLiqMint_of_outputs
  intro tx htx o ho _ k _
  simp only [List.mem_cons, List.not_mem_nil, or_false] at htx
  rcases htx with rfl | rfl
  · simp only [fz, List.mem_cons, List.not_mem_nil, or_false] at ho
    rcases ho with rfl | rfl <;> (intro e; cases e)
  · simp only [dz, List.mem_cons, List.not_mem_nil, or_false] at ho
    rcases ho with rfl | rfl <;> (intro e; cases e)

theorem t2_keys : AList.keys t2.coins.coins = [⟨[4], 0⟩, ⟨[9, 3], 0⟩, ⟨zeroHash, 0⟩] := by decide +kernel

theorem batchFresh2 : BatchFresh t2 [wz] := by
  refine ⟨by decide, ?_⟩
  intro x hx i
  simp only [List.mem_cons, List.not_mem_nil, or_false] at hx
  subst hx
  show AList.get t2.coins.coins _ = none
  rw [AList.get_eq_none_iff_not_mem_keys, t2_keys]
  simp [wz, zeroHash]

theorem markerFresh2 : MarkerFresh env t2 [wz] := by
  intro x hx hk
  simp only [List.mem_cons, List.not_mem_nil, or_false] at hx
  subst hx
  cases hk

theorem noMint2 : NoLiqMint env [wz] := by
  apply noLiqMint_of_outputs
  intro tx htx o ho hor k _
  simp only [List.mem_cons, List.not_mem_nil, or_false] at htx
  subst htx
  simp only [wz, List.mem_cons, List.not_mem_nil, or_false] at ho
  subst ho
  rcases hor with h | h <;> cases h

theorem rewardFresh1 : RewardFresh env t1 := by unfold RewardFresh; decide +kernel
theorem rewardFresh3 : RewardFresh env t3 := by unfold RewardFresh; decide +kernel

theorem bounded1 : ∀ d, coinsTotal t1.coins d ≤ U128_MAX := by
  intro d
  refine Nat.le_trans (WholeL.Witness.coinsTotal_le_sum _ d) ?_
  decide +kernel

theorem bounded3 : ∀ d, coinsTotal t3.coins d ≤ U128_MAX := by
  intro d
  refine Nat.le_trans (WholeL.Witness.coinsTotal_le_sum _ d) ?_
  decide +kernel

/-- the first half of the run: the deposit and its block -/
theorem run2 : BackRun env (genesisState cfg) t2 :=
  .block (.batch (.refl _) batchFresh1 markerFresh1 noMint1 batch1_ok) rewardFresh1 (by decide +kernel) bounded1
    seal1_ok next1_ok

/-- the whole run -/
theorem run4 : BackRun env (genesisState cfg) t4 :=
  .block (.batch run2 batchFresh2 markerFresh2 noMint2 batch2_ok) rewardFresh3 (by decide +kernel) bounded3
    seal2_ok next2_ok

end C16RunWitness

/-- non-vacuity of `C16_backed_history` / `C16_backed_from_genesis` / `C16_redeemable_from_genesis`: a run from a
    genesis state exists in which 500 MEL and 5 SYM are deposited into the (freshly created, builtin) MEL/SYM pool.
    After the first block 50 tokens of the pool are in circulation against a record of 10^9 + 50; the tokens are
    then withdrawn, and after the second block none is left against a record of 10^9.  Every hypothesis of the
    theorems holds, and their conclusion is instantiated for the MEL/SYM pool in both states. -/
theorem C16_backed_history_nonvacuous :
    ∃ (env : Env) (cfg : GenesisConfig) (s2 s4 : State) (p2 p4 : PoolState),
      BackRun env (genesisState cfg) s2 ∧ BackRun env s2 s4 ∧ LiqDenomsApartC env ∧
      (∀ k, CanonKey k → cfg.initCoindata.denom ≠ liqTokenDenom env k) ∧
      s2.height = 1 ∧ s4.height = 2 ∧
      s2.pools.get poolMelSym = some p2 ∧ supply s2 (liqTokenDenom env poolMelSym) = 50 ∧ p2.liqs = 1000000050 ∧
      s4.pools.get poolMelSym = some p4 ∧ supply s4 (liqTokenDenom env poolMelSym) = 0 ∧ p4.liqs = 1000000000 ∧
      Backed env s2 poolMelSym ∧ Backed env s4 poolMelSym ∧
      coinsTotal s2.coins (liqTokenDenom env poolMelSym) + poolsTotal s2.pools (liqTokenDenom env poolMelSym)
        ≤ p2.liqs := by
  open C16RunWitness in
  have hc : CanonKey poolMelSym := by unfold CanonKey; decide
  have tail : BackRun ReachWitness.env t2 t4 :=
    .block (.batch (.refl _) batchFresh2 markerFresh2 noMint2 batch2_ok) rewardFresh3 (by decide +kernel) bounded3
      seal2_ok next2_ok
  have g2 : t2.pools.get poolMelSym = some ⟨998962327, 1001044486, 1997920, 1000000050⟩ := by decide +kernel
  have g4 : t4.pools.get poolMelSym = some ⟨997931432, 1002083753, 3991706, 1000000000⟩ := by decide +kernel
  exact ⟨ReachWitness.env, ReachWitness.cfg, t2, t4, _, _, run2, tail, env_apart, genesis_apart,
    by decide +kernel, by decide +kernel, g2, by decide +kernel, rfl, g4, by decide +kernel, rfl,
    C16_backed_from_genesis _ _ _ run2 env_apart genesis_apart _ hc,
    C16_backed_from_genesis _ _ _ run4 env_apart genesis_apart _ hc,
    (C16_redeemable_from_genesis _ _ _ run2 env_apart genesis_apart _ _ g2).2⟩

/-! ### why pools are quantified over canonical keys, and why the genesis coin must not be a pool token -/

/-- **`∀ k, Backed env s k` is not preserved** (so `C16_backed_history` is stated for canonical keys): in the run of
    `C16_backed_history_nonvacuous` every pool key, canonical or not, is backed at genesis; after the deposit and
    its block the 50 tokens of the MEL/SYM pool are also "the tokens" of the non-canonical spelling `(SYM, MEL)` —
    `PoolKey.toBytes` spells both `[115]` — under which no pool is (or ever will be, `C16_pool_keys_canonical`)
    recorded. -/
theorem C16_backed_all_keys_counterexample :
    ∃ (env : Env) (cfg : GenesisConfig) (s' : State), BackRun env (genesisState cfg) s' ∧ LiqDenomsApartC env ∧
      (∀ k, Backed env (genesisState cfg) k) ∧ ¬ CanonKey ⟨.sym, .mel⟩ ∧ ¬ Backed env s' ⟨.sym, .mel⟩ := by
  open C16RunWitness in
  refine ⟨ReachWitness.env, ReachWitness.cfg, t2, run2, env_apart,
    fun k => C16_genesis_backed _ _ k (by intro e; cases e), by unfold CanonKey; decide, ?_⟩
  unfold Backed
  decide +kernel

/-- **`hgen` cannot be dropped from `C16_backed_from_genesis`**: a genesis configuration whose initial coin is
    denominated in the MEL/SYM pool's token starts with 5 tokens against no record at all -/
theorem C16_genesis_token_counterexample :
    ∃ (env : Env) (cfg : GenesisConfig), LiqDenomsApartC env ∧ CanonKey poolMelSym ∧
      BackRun env (genesisState cfg) (genesisState cfg) ∧ ¬ Backed env (genesisState cfg) poolMelSym := by
  refine ⟨ReachWitness.env,
    { network := .custom02, initCoindata := ⟨[7], 5, .custom [115], []⟩, stakes := [], initFeePool := 0,
      initFeeMultiplier := 0 }, C16RunWitness.env_apart, by unfold CanonKey; decide, .refl _, ?_⟩
  unfold Backed
  decide +kernel

end Mel

#print axioms Mel.noLiqMint_of_outputs
#print axioms Mel.BackRun.issRun
#print axioms Mel.BackRun.reachable
#print axioms Mel.BackRun.trans
#print axioms Mel.C16_pool_keys_canonical
#print axioms Mel.C16_backed_next
#print axioms Mel.C16_backed_history_pool
#print axioms Mel.C16_backed_history
#print axioms Mel.C16_genesis_backed
#print axioms Mel.C16_backed_from_genesis
#print axioms Mel.C16_redeemable
#print axioms Mel.C16_redeemable_coins
#print axioms Mel.C16_redeemable_from_genesis
#print axioms Mel.C16_backed_history_nonvacuous
#print axioms Mel.C16_backed_all_keys_counterexample
#print axioms Mel.C16_genesis_token_counterexample
