/-
  C02 — Exact UTXO transition: no double spend, no lost coin, rejection is a no-op.
  Property theorems only; helper lemmas live in MelModel/Lemmas/Batch.lean.
-/
import MelModel.ApplyTx
import MelModel.Lemmas.Batch
namespace Mel

/-- every coin consumed by the batch -/
def batchInputs (txs : List Tx) : List CoinID := txs.flatMap (·.inputs)

/-- the coins the batch creates: every output not sent to the destruction address, with the declared
    value, covenant hash and additional data, the creating block's height, and `NewCustom` rewritten to
    the creating transaction's hash (later transactions with the same hash overwrite earlier ones) -/
def batchCreated (height : Nat) (txs : List Tx) : AList CoinID CoinDataHeight :=
  txs.foldl (fun acc tx => acc.extend (outputCoinsFromTx tx height)) []

/-- the faucet de-duplication markers the batch inserts -/
def markerIds (env : Env) (txs : List Tx) : List CoinID :=
  (txs.filter fun tx => tx.kind = .faucet && !env.isGrandfathered tx.hash).map fun tx => { txhash := env.fdp tx.hash, index := 0 }

def markerCoin : CoinDataHeight :=
  { coinData := { denom := .mel, value := 0, additionalData := [], covhash := zeroHash }, height := 0 }

/-- hash hypothesis: marker ids live in a range disjoint from transaction hashes, so they are neither
    inputs nor outputs of the batch (DESIGN §2.2: keyed hashes are domain-separated) -/
def MarkersApart (env : Env) (height : Nat) (txs : List Tx) : Prop :=
  ∀ m ∈ markerIds env txs, m ∉ batchInputs txs ∧ (batchCreated height txs).get m = none

/-- **exact transition**: after an accepted batch the coin set is exactly the previous set minus every
    input plus every created coin (plus faucet markers). -/
theorem C02_exact (env : Env) (s s' : State) (txs : List Tx) (fb : Header)
    (h : applyBatch env s txs fb = .ok s') (hm : MarkersApart env s.height txs) (id : CoinID) :
    s'.coins.getCoin id =
      if id ∈ batchInputs txs then none
      else match (batchCreated s.height txs).get id with
        | some c => some c
        | none => if id ∈ markerIds env txs then some markerCoin else s.coins.getCoin id := by
  have hm1 : ∀ m ∈ markerIdsOf env txs, m ∉ txs.flatMap (·.inputs) := fun m hmm => (hm m hmm).1
  have hm2 : ∀ m ∈ markerIdsOf env txs, (createdOf s.height txs).get m = none := fun m hmm => (hm m hmm).2
  exact applyBatch_getCoin h hm1 hm2 id

/-- created coins carry what was declared -/
theorem C02_created_content (height : Nat) (txs : List Tx) (id : CoinID) (c : CoinDataHeight)
    (hwf : ∀ tx ∈ txs, tx.outputs.length ≤ 256)
    (h : (batchCreated height txs).get id = some c) :
    c.height = height ∧ c.coinData.covhash ≠ coinDestroy ∧ c.coinData.denom ≠ .newCustom ∧
    ∃ tx ∈ txs, ∃ o ∈ tx.outputs, id.txhash = tx.hash ∧ tx.outputs[id.index]? = some o ∧
      c.coinData.value = o.value ∧ c.coinData.covhash = o.covhash ∧ c.coinData.additionalData = o.additionalData ∧
      c.coinData.denom = (if o.denom = .newCustom then .custom tx.hash else o.denom) := by
  exact createdOf_content hwf h

/-- **no double spend**: an accepted batch consumes no coin twice -/
theorem C02_no_double_spend (env : Env) (s s' : State) (txs : List Tx) (fb : Header)
    (h : applyBatch env s txs fb = .ok s') : (batchInputs txs).Nodup := by
  obtain ⟨rel, _, _, h1, -⟩ := applyBatch_ok h
  exact (loadRelevantCoins_ok h1).2.1

/-- every input of an accepted batch was unspent before or is created inside the batch -/
theorem C02_inputs_exist (env : Env) (s s' : State) (txs : List Tx) (fb : Header)
    (h : applyBatch env s txs fb = .ok s') (id : CoinID) (hid : id ∈ batchInputs txs) :
    (s.coins.getCoin id).isSome ∨ ((batchCreated s.height txs).get id).isSome := by
  obtain ⟨rel, _, _, h1, -⟩ := applyBatch_ok h
  exact (loadRelevantCoins_ok h1).2.2.1 id hid

/-- every transaction of an accepted batch is individually well-formed and passes the validity check
    (balanced, authorised, unlocked) against the coins of the state and of the batch -/
theorem C02_each_valid (env : Env) (s s' : State) (txs : List Tx) (fb : Header)
    (h : applyBatch env s txs fb = .ok s') (tx : Tx) (htx : tx ∈ txs) :
    tx.isWellFormed = true ∧
    ∃ rel newStakes, loadRelevantCoins s txs = .ok rel ∧ loadStakeInfo s txs = .ok newStakes ∧
      checkTxValidity env s (lastHeaderOf s fb) tx rel newStakes = .ok () := by
  obtain ⟨rel, newStakes, _, h1, h2, h3, -⟩ := applyBatch_ok h
  exact ⟨((loadRelevantCoins_ok h1).1 tx htx).1, rel, newStakes, h1, h2, h3 tx htx⟩

/-- a batch with a repeated input is rejected -/
theorem C02_repeat_rejected (env : Env) (s : State) (txs : List Tx) (fb : Header)
    (h : ¬ (batchInputs txs).Nodup) : ∃ e, applyBatch env s txs fb = .reject e ∨ ∃ c, applyBatch env s txs fb = .crash c := by
  cases hr : applyBatch env s txs fb with
  | ok s' => exact absurd (C02_no_double_spend env s s' txs fb hr) h
  | reject e => exact ⟨e, Or.inl rfl⟩
  | crash c => exact ⟨default, Or.inr ⟨c, rfl⟩⟩

/-- a batch referencing a coin that is neither unspent nor created in the batch is rejected -/
theorem C02_missing_rejected (env : Env) (s : State) (txs : List Tx) (fb : Header) (id : CoinID)
    (hid : id ∈ batchInputs txs) (h1 : s.coins.getCoin id = none) (h2 : (batchCreated s.height txs).get id = none) :
    applyBatch env s txs fb = .reject .malformedTx ∨ applyBatch env s txs fb = .reject .nonexistentCoin := by
  exact applyBatch_missing hid h1 h2

/-- `apply_tx_batch(&mut self, …)`: the state is replaced only on success — rejection is a no-op -/
def applyTxBatchMut (env : Env) (s : State) (txs : List Tx) (fb : Header) : State × Outcome Unit :=
  match applyBatch env s txs fb with
  | .ok s' => (s', .ok ())
  | .reject e => (s, .reject e)
  | .crash c => (s, .crash c)

theorem C02_reject_noop (env : Env) (s : State) (txs : List Tx) (fb : Header) (e : StateError)
    (h : (applyTxBatchMut env s txs fb).2 = .reject e) : (applyTxBatchMut env s txs fb).1 = s := by
  unfold applyTxBatchMut at h ⊢
  cases hr : applyBatch env s txs fb with
  | ok s' => rw [hr] at h; cases h
  | reject e' => rfl
  | crash c => rfl

end Mel

#print axioms Mel.C02_exact
#print axioms Mel.C02_created_content
#print axioms Mel.C02_no_double_spend
#print axioms Mel.C02_inputs_exist
#print axioms Mel.C02_each_valid
#print axioms Mel.C02_repeat_rejected
#print axioms Mel.C02_missing_rejected
#print axioms Mel.C02_reject_noop
