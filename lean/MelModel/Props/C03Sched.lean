/-
  C03 — "…does not depend on how validation is scheduled across threads".
  `apply_tx_batch_impl` validates the members of a batch with rayon: `par_iter().try_for_each(check_tx_validity)` and,
  for the mints, `par_iter().filter(DoscMint).try_fold(|| this.dosc_speed, max).try_reduce(|| this.dosc_speed, max)`.
  rayon cuts the slice into consecutive segments, as it pleases and differently on every run; each segment is folded by
  one worker starting from the identity, and the segments' results are combined pairwise in some tree shape.
  The model's `applyBatch` runs the two passes sequentially.  This file states that this loses nothing: for *every*
  way of cutting the batch up (`Sched`: any binary tree over any consecutive segments, empty segments included) the
  scheduled evaluation accepts exactly when the sequential one does and returns the same state.  (Which member's error
  is reported may differ; the property does not speak about that and the correspondence check never compares it.)
  What a theorem cannot exhibit is rayon itself (work stealing, the thread pool): the harness runs batches under
  several `RAYON_NUM_THREADS` values and compares (DESIGN §4 C03).
  Property theorems only; helper lemmas live in MelModel/Lemmas/SchedL.lean.
-/
import MelModel.Sched
import MelModel.Lemmas.SchedL
namespace Mel

/-- validity under any schedule succeeds exactly when the sequential pass does -/
theorem C03_sched_forEach {α} (f : α → Outcome Unit) (sch : Sched α) :
    (sch.forEach f).toOption = (Outcome.forM' f sch.items).toOption := by
  exact sched_forEach f sch

/-- a crash under some schedule is a crash of the sequential pass or is preceded by a rejection there, and conversely:
    the scheduled pass crashes or rejects exactly when the sequential pass crashes or rejects -/
theorem C03_sched_forEach_isOk {α} (f : α → Outcome Unit) (sch : Sched α) :
    (sch.forEach f).isOk = (Outcome.forM' f sch.items).isOk := by
  exact sched_forEach_isOk f sch

/-- the maximum reduction under any schedule: same acceptance, same speed -/
theorem C03_sched_speed (env : Env) (s : State) (rel : Relevant) (sch : Sched Tx) :
    (sch.foldReduce s.doscSpeed (speedStep env s rel) max).toOption =
    (Outcome.foldlM' (speedStep env s rel) s.doscSpeed sch.items).toOption := by
  exact sched_speed env s rel sch

/-- the whole batch: however the two parallel passes are cut up, the batch is accepted exactly when the sequential
    model accepts it, with the same resulting state -/
theorem C03_any_schedule (env : Env) (s : State) (txs : List Tx) (gf : Header) (schedValid schedSpeed : Sched Tx)
    (hv : schedValid.items = txs) (hs : schedSpeed.items = txs) :
    (applyBatchSched env s txs gf schedValid schedSpeed).toOption = (applyBatch env s txs gf).toOption := by
  exact any_schedule env s txs gf schedValid schedSpeed hv hs

/-- two runs of the same batch under different schedules agree -/
theorem C03_schedules_agree (env : Env) (s : State) (txs : List Tx) (gf : Header) (v₁ s₁ v₂ s₂ : Sched Tx)
    (h₁ : v₁.items = txs) (h₂ : s₁.items = txs) (h₃ : v₂.items = txs) (h₄ : s₂.items = txs) :
    (applyBatchSched env s txs gf v₁ s₁).toOption = (applyBatchSched env s txs gf v₂ s₂).toOption := by
  rw [C03_any_schedule env s txs gf v₁ s₁ h₁ h₂, C03_any_schedule env s txs gf v₂ s₂ h₃ h₄]

/-- the identity matters: a reduction whose segments start from something other than the state's recorded speed can
    report a different speed — here segments starting from 7 on a state whose speed is 3, with no mint at all -/
theorem C03_sched_unit_matters :
    (Sched.foldReduce (α := Nat) 7 (fun b _ => Outcome.ok b) max (.join (.seg []) (.seg []))).toOption ≠
    (Outcome.foldlM' (fun (b : Nat) (_ : Nat) => Outcome.ok b) 3 []).toOption := by
  decide

/-! ### non-vacuity: schedules of a three-element list -/

example : (Sched.join (.seg [1]) (.join (.seg []) (.seg [2, 3]))).items = [1, 2, 3] := rfl
example : (Sched.join (.join (.seg [1, 2]) (.seg [3])) (.seg [])).items = [1, 2, 3] := rfl

end Mel

#print axioms Mel.C03_sched_forEach
#print axioms Mel.C03_sched_forEach_isOk
#print axioms Mel.C03_sched_speed
#print axioms Mel.C03_any_schedule
#print axioms Mel.C03_schedules_agree
#print axioms Mel.C03_sched_unit_matters
