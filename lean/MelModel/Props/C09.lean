/-
  C09 — Validation is total: hostile input is rejected, never a crash or hang.
  Termination is by construction (every model function is structural or fuelled with proved-sufficient fuel, C11).
  Property theorems only; helper lemmas live in MelModel/Lemmas/Total.lean (apply part) and
  MelModel/Lemmas/TotalSeal.lean (seal part: Props/C09Seal.lean).
-/
import MelModel.ApplyTx
import MelModel.Lemmas.Total
namespace Mel
open Mel.Gen

/-- the count invariant of C20 (so that `count - 1` never underflows) -/
def CountsSound (m : CoinMap) : Prop :=
  (m.coins.map (·.1)).Nodup ∧ (m.counts.map (·.1)).Nodup ∧
  (∀ a, m.coinCount a = (m.coins.filter fun e => e.2.coinData.covhash = a).length) ∧ (∀ e ∈ m.counts, e.2 ≠ 0)

theorem CountsSound_iff (m : CoinMap) : CountsSound m ↔ CountsOk m := Iff.rfl

/-- the largest real DOSC reward a proof of difficulty `d` can earn against a previous DOSC speed `ds`
    (coin age 1, TIP-910 work and speed factors; before saturation to a u128) -/
def maxDoscReward (d ds : Nat) : Nat :=
  (TIP910_WORK_FACTOR * 2 ^ d) * (TIP910_SPEED_FACTOR * 2 ^ d) * MICRO_CONVERTER / (ds ^ 2 * REWARD_DIVISOR)

/-- what is assumed of the state a batch is applied to — everything but `rewardFits` (an explicitly excluded
    finding) and `powDifficulty` (a fact about the MelPoW verifier) holds of states reachable from a genesis whose
    per-denomination supply stays below 2^127.  (Until the fix for F19 there was another excluded finding, a field
    `weights : ∀ t ∈ txs, (t.covenants.map covenantWeightFromBytes).sum ≤ U128_MAX`; `loadRelevantCoins` now
    rejects a batch with a transaction violating it — `C09_heavy_covenants_rejected` — so it is not assumed.
    Until the fix for F9 there was a field `powTotal : ∀ a b c d, env.powOk a b c d ≠ .panics` — MelPoW
    verification, a dependency crate, panics on a proof lacking nodes it looks up; `validateDoscmint` now rejects
    such a proof with `InvalidMelPoW` — `C09_doscmint_never_crashes_on_proof`, `C18_panicking_proof_rejected`; what
    the old code did is recorded in `C09_old_pow_panic_crashes` — so nothing is assumed of the oracle's answer
    `.panics` any more.) -/
structure ApplyPre (env : Env) (s : State) (txs : List Tx) : Prop where
  counts : CountsSound s.coins
  /-- the coins the batch creates are new -/
  fresh : ∀ t ∈ txs, ∀ i, s.coins.getCoin ⟨t.hash, i⟩ = none
  /-- no coin is from the future; all coin values together with everything the batch creates stay below 2^128
      (supply bound), so no sum of spent coins overflows -/
  heights : ∀ id c, s.coins.getCoin id = some c → c.height ≤ s.height
  bounded : (s.coins.coins.map (·.2.coinData.value)).sum + ((txs.flatMap (·.outputs)).map (·.value)).sum ≤ U128_MAX
  /-- recorded DOSC speeds are positive (they start at 10^6 and never decrease) -/
  speeds : ∀ h hdr, s.history.get h = some hdr → 0 < hdr.doscSpeed
  /-- the history only has entries for earlier blocks (a header is recorded when its block is sealed and
      the height advances) — otherwise a DoscMint spending a coin of the current height divides by zero -/
  historyBelow : ∀ h hdr, s.history.get h = some hdr → h < s.height
  /-- `melpow::Proof::verify` returns `false` for every difficulty above 100; without this the model's
      oracle could accept a difficulty ≥ 128, for which `2u128.pow(difficulty)` overflows -/
  powDifficulty : ∀ a b c d, env.powOk a b c d ≠ .invalid → c ≤ 100
  /-- finding (see `C09_reward_overflow_witness`): `calculate_reward` saturates at `u128::MAX` and
      `dosc_to_erg` then multiplies by an inflator > 1 and panics.  Excluded: every difficulty the MelPoW
      oracle accepts is so small against the previous DOSC speed that even the largest possible reward,
      inflated, fits a u128 (for DOSC speed 10^6 this means difficulty ≤ 73 at height 1) -/
  rewardFits : ∀ hdr, s.history.get (s.height - 1) = some hdr → ∀ a b d t, env.powOk a b d t ≠ .invalid →
    microergsIter s.height * maxDoscReward d hdr.doscSpeed / MICRO_CONVERTER ≤ U128_MAX

/-- **applying is total**: for every batch of arbitrary transactions the result is the new state or a
    rejection, never a crash — in particular whatever the covenant weights of the transactions add up to (F19)
    and whether or not the MelPoW verifier panics on the proof of a DoscMint (F9) -/
theorem C09_apply_total (env : Env) (s : State) (txs : List Tx) (fb : Header) (hp : ApplyPre env s txs) :
    ∀ c, applyBatch env s txs fb ≠ .crash c :=
  applyBatch_noCrash env s txs fb ((CountsSound_iff _).mp hp.counts) hp.fresh hp.heights hp.bounded hp.speeds
    hp.historyBelow hp.powDifficulty hp.rewardFits

/-- the first phases never crash, whatever the state and the transactions -/
theorem C09_load_total (s : State) (txs : List Tx) : ∀ c, loadRelevantCoins s txs ≠ .crash c :=
  loadRelevantCoins_noCrash s txs

theorem C09_stake_info_total (s : State) (txs : List Tx) : ∀ c, loadStakeInfo s txs ≠ .crash c :=
  loadStakeInfo_noCrash s txs

/-- covenant decoding, weighing and execution are total functions of the model (they return `Option`s);
    the script check therefore never crashes -/
theorem C09_scripts_total (env : Env) (i : Nat) (id : CoinID) (tx : Tx) (coin : CoinDataHeight) (lh : Header) :
    ∀ c, validateTxScripts env i id tx coin lh ≠ .crash c :=
  validateTxScripts_noCrash env i id tx coin lh

/-- crash sites that were reachable before the `fix:` commits are unreachable now: a transaction whose MEL
    outputs plus fee overflow a u128 is rejected up front (F18) -/
theorem C09_mel_total_guard (s : State) (txs : List Tx) (tx : Tx) (htx : tx ∈ txs) (hbad : tx.melTotalFits = false) :
    loadRelevantCoins s txs = .reject .malformedTx :=
  loadRelevantCoins_malformed s txs tx htx (by simp [hbad])

/-- … and so is a transaction whose covenant weights do not add up within a u128 (F19): `loadRelevantCoins`
    answers `MalformedTx` … -/
theorem C09_heavy_covenants_load_rejected (s : State) (txs : List Tx) (tx : Tx) (htx : tx ∈ txs)
    (hbad : tx.covWeightsFit = false) :
    loadRelevantCoins s txs = .reject .malformedTx :=
  loadRelevantCoins_heavy s txs tx htx hbad

/-- … hence so does `applyBatch`, which starts with `loadRelevantCoins`: the batch is rejected, under no
    assumption whatever on the state, the oracles or the other transactions; `Tx.weight` is never evaluated -/
theorem C09_heavy_covenants_rejected (env : Env) (s : State) (txs : List Tx) (fb : Header) (tx : Tx) (htx : tx ∈ txs)
    (hbad : tx.covWeightsFit = false) :
    applyBatch env s txs fb = .reject .malformedTx := by
  unfold applyBatch
  rw [loadRelevantCoins_heavy s txs tx htx hbad]
  rfl

/-- conversely every transaction of an accepted batch has covenant weights adding up within a u128, so its
    `Tx.weight` is a value (the hypothesis the fee theorems of C05 would otherwise need) -/
theorem C09_accepted_weights_fit (env : Env) (s s' : State) (txs : List Tx) (fb : Header)
    (h : applyBatch env s txs fb = .ok s') (tx : Tx) (htx : tx ∈ txs) :
    (tx.covenants.map covenantWeightFromBytes).sum ≤ U128_MAX ∧ ∃ w, tx.weight = .ok w := by
  obtain ⟨rel, _, _, hrel, _⟩ := applyBatch_ok h
  have hw : (tx.covenants.map covenantWeightFromBytes).sum ≤ U128_MAX := by
    simpa [Tx.covWeightsFit] using ((loadRelevantCoins_ok hrel).1 tx htx).2.2
  refine ⟨hw, satAdd128 (satAdd128 tx.rawLen (tx.covenants.map covenantWeightFromBytes).sum)
    (tx.outputs.length * 1000) - tx.inputs.length * 1000, ?_⟩
  unfold Tx.weight
  exact if_neg (Nat.not_lt.mpr hw)

/-- the crash branch of `Tx.weight` itself is still there (the dependency crate is unchanged): a transaction
    failing `covWeightsFit` makes it panic; only the guard in `loadRelevantCoins` keeps it out of reach -/
theorem C09_old_weight_sum_crash_of (tx : Tx) (hbad : tx.covWeightsFit = false) :
    tx.weight = .crash "melstructs: covenant weight sum overflow" := by
  have h : (tx.covenants.map covenantWeightFromBytes).sum > U128_MAX := by
    simpa [Tx.covWeightsFit] using hbad
  unfold Tx.weight
  exact if_pos h

namespace C09Witness
open Mel.VM

/-- nine nested loops of 65535 iterations around a `noop`: mathematical weight about 2^144 -/
def heavyOps : List Op :=
  [.loop 65535 9, .loop 65535 8, .loop 65535 7, .loop 65535 6, .loop 65535 5, .loop 65535 4, .loop 65535 3,
   .loop 65535 2, .loop 65535 1, .noop]

/-- its 46 bytes -/
def heavyCov : Bytes :=
  [encLoop, 255, 255, 0, 9, encLoop, 255, 255, 0, 8, encLoop, 255, 255, 0, 7, encLoop, 255, 255, 0, 6,
   encLoop, 255, 255, 0, 5, encLoop, 255, 255, 0, 4, encLoop, 255, 255, 0, 3, encLoop, 255, 255, 0, 2,
   encLoop, 255, 255, 0, 1, encNoop]

/-- a transaction carrying that covenant twice -/
def heavyTx : Tx := {
  kind := .normal, inputs := [], outputs := [], fee := 0, covenants := [heavyCov, heavyCov],
  data := [], sigs := [], hash := [], rawLen := 0, covHashes := [] }

end C09Witness

open C09Witness in
/-- a concrete witness: the 46-byte covenant `heavyCov` decodes (to nine nested `loop 65535` around a `noop`) and
    has saturated weight `u128::MAX`; a well-formed transaction carrying it twice fails `covWeightsFit`, its
    `Tx.weight` panics — and every batch containing it is rejected with `MalformedTx` -/
theorem C09_old_weight_sum_crash :
    VM.encodeAll heavyOps = some heavyCov ∧ VM.decodeAll heavyCov = some heavyOps ∧
    covenantWeightFromBytes heavyCov = U128_MAX ∧
    heavyTx.isWellFormed = true ∧ heavyTx.melTotalFits = true ∧ heavyTx.covWeightsFit = false ∧
    heavyTx.weight = .crash "melstructs: covenant weight sum overflow" ∧
    ∀ (env : Env) (s : State) (txs : List Tx) (fb : Header), heavyTx ∈ txs →
      applyBatch env s txs fb = .reject .malformedTx := by
  have hbad : heavyTx.covWeightsFit = false := by decide +kernel
  exact ⟨by decide +kernel, by decide +kernel, by decide +kernel, by decide +kernel, by decide +kernel, hbad,
    C09_old_weight_sum_crash_of _ hbad,
    fun env s txs fb htx => C09_heavy_covenants_rejected env s txs fb heavyTx htx hbad⟩

/-- a DoscMint without inputs never reaches `expect(inputs[0])`: the balance check has already rejected it
    (its MEL total — at least the fee entry — has no input to match) -/
theorem C09_doscmint_has_input (env : Env) (s : State) (lh : Header) (tx : Tx) (rel : Relevant)
    (ns : AList Hash StakeDoc) (hk : tx.kind = .doscMint) (h : checkTxValidity env s lh tx rel ns = .ok ()) :
    tx.inputs ≠ [] :=
  checkTxValidity_ok_inputs (by rw [hk]; decide) h

/-- `rewardFits` cannot be dropped: at height 1 with the genesis DOSC speed 10^6, a TIP-910 proof of
    difficulty 74 on a coin of age 1 has speed 100·2^74; its reward saturates at `u128::MAX`, and inflating
    that by 1000001/1000000 panics in `dosc_to_erg` -/
theorem C09_reward_overflow_witness :
    computeDoscmintSpeed true 74 1 0 = .ok (100 * 2 ^ 74) ∧
    calculateReward (100 * 2 ^ 74) 1000000 74 true = .ok U128_MAX ∧
    doscToErg 1 U128_MAX = .crash "melmint.rs: dosc inflated so much it doesn't fit into a u128" :=
  ⟨rfl, rfl, rfl⟩

/-- … and the overflow is reachable through `validateDoscmint` (hence `applyBatch`) on any non-mainnet
    state at height 1 once the MelPoW oracle accepts a difficulty-74 proof: `powDifficulty` alone does not
    exclude it -/
theorem C09_doscmint_reward_crash (env : Env) (s : State) (rel : Relevant) (tx : Tx) (id : CoinID)
    (rest : List CoinID) (coin : CoinDataHeight) (hdr : Header)
    (hnet : s.network ≠ .mainnet) (hheight : s.height = 1) (hhist : s.history = [(0, hdr)])
    (hds : hdr.doscSpeed = 1000000)
    (hin : tx.inputs = id :: rest) (hrel : rel.get id = some coin) (hch : coin.height = 0)
    (hd : tx.powDifficulty = some 74) (hparse : tx.powProofParses = true)
    (hpow : env.powOk (env.hdrHash hdr) id 74 tx.hash = .tip910) :
    validateDoscmint env s rel tx = .crash "melmint.rs: dosc inflated so much it doesn't fit into a u128" := by
  unfold validateDoscmint
  rw [hin]
  have w1 := C09_reward_overflow_witness.1
  have w2 := C09_reward_overflow_witness.2.1
  have w3 := C09_reward_overflow_witness.2.2
  simp only [hrel, hch, hheight, hhist, AList.get, hd, hparse]
  simp only [if_true, hpow, decide_true, w1, Outcome.ok_bind_c09]
  rw [hds, w2, Outcome.ok_bind_c09, w3]
  simp [hnet, Outcome.bind]

/-- `powDifficulty` cannot be dropped: an oracle accepting difficulty 128 makes `2u128.pow` overflow -/
theorem C09_doscmint_difficulty_crash (env : Env) (s : State) (rel : Relevant) (tx : Tx) (id : CoinID)
    (rest : List CoinID) (coin : CoinDataHeight) (hdr : Header)
    (hnet : s.network ≠ .mainnet) (hheight : s.height = 1) (hhist : s.history = [(0, hdr)])
    (hin : tx.inputs = id :: rest) (hrel : rel.get id = some coin) (hch : coin.height = 0)
    (hd : tx.powDifficulty = some 128) (hparse : tx.powProofParses = true)
    (hpow : env.powOk (env.hdrHash hdr) id 128 tx.hash = .legacy) :
    validateDoscmint env s rel tx = .crash "applytx.rs: 2u128.pow overflow" := by
  unfold validateDoscmint
  rw [hin]
  simp only [hrel, hch, hheight, hhist, AList.get, hd, hparse]
  simp only [if_true, hpow]
  simp [hnet, Outcome.bind, computeDoscmintSpeed]

/-- `historyBelow` cannot be dropped: a history entry at the current height lets a DoscMint spend a coin of
    age 0, and the speed computation divides by zero -/
theorem C09_doscmint_same_height_crash (env : Env) (s : State) (rel : Relevant) (tx : Tx) (id : CoinID)
    (rest : List CoinID) (coin : CoinDataHeight) (hdr : Header)
    (hnet : s.network ≠ .mainnet) (hheight : s.height = 1) (hhist : s.history = [(1, hdr)])
    (hin : tx.inputs = id :: rest) (hrel : rel.get id = some coin) (hch : coin.height = 1)
    (hd : tx.powDifficulty = some 10) (hparse : tx.powProofParses = true)
    (hpow : env.powOk (env.hdrHash hdr) id 10 tx.hash = .legacy) :
    validateDoscmint env s rel tx = .crash "applytx.rs: division by zero" := by
  unfold validateDoscmint
  rw [hin]
  simp only [hrel, hch, hheight, hhist, AList.get, hd, hparse]
  simp only [if_true, hpow]
  simp [hnet, Outcome.bind, computeDoscmintSpeed]

/-- **the MelPoW proof cannot crash the validation** (fix for finding F9): whatever the oracle answers for the
    proof — `.panics` included — `validateDoscmint` returns a speed or a rejection.  The hypotheses are those of
    the DoscMint totality lemma `validateDoscmint_noCrash`; none of them restricts the oracle's answer to
    exclude `.panics` (`powDifficulty` and `rewardFits` only speak of answers other than `.invalid` and bound the
    *difficulty*; for `.panics` they are not used: the transaction is rejected before any arithmetic). -/
theorem C09_doscmint_never_crashes_on_proof (env : Env) (s : State) (rel : Relevant) (tx : Tx)
    (hin : tx.inputs ≠ [])
    (heights : ∀ id c, rel.get id = some c → c.height ≤ s.height)
    (powDifficulty : ∀ a b c d, env.powOk a b c d ≠ .invalid → c ≤ 100)
    (historyBelow : ∀ h hdr, s.history.get h = some hdr → h < s.height)
    (speeds : ∀ h hdr, s.history.get h = some hdr → 0 < hdr.doscSpeed)
    (rewardFits : ∀ hdr, s.history.get (s.height - 1) = some hdr → ∀ a b d t, env.powOk a b d t ≠ .invalid →
      microergsIter s.height * maxDoscReward d hdr.doscSpeed / MICRO_CONVERTER ≤ U128_MAX) :
    ∀ c, validateDoscmint env s rel tx ≠ .crash c :=
  validateDoscmint_noCrash hin heights powDifficulty historyBelow speeds rewardFits

/-- … and when the verifier does panic, nothing at all is needed beyond the spent coin not being from the
    future: the outcome is a rejection (`nonexistentCoin`, `invalidMelPoW` or `malformedTx`), never a crash -/
theorem C09_doscmint_panicking_proof_rejects (env : Env) (s : State) (rel : Relevant) (tx : Tx)
    (hin : tx.inputs ≠ [])
    (heights : ∀ id c, rel.get id = some c → c.height ≤ s.height)
    (hpanics : ∀ a b c d, env.powOk a b c d = .panics) :
    ∃ e, validateDoscmint env s rel tx = .reject e := by
  unfold validateDoscmint
  cases hinp : tx.inputs with
  | nil => exact absurd hinp hin
  | cons coinId rest =>
    simp only
    cases hcoin : rel.get coinId with
    | none => exact ⟨_, rfl⟩
    | some coin =>
      simp only
      rw [if_neg (Nat.not_lt.mpr (heights coinId coin hcoin))]
      split
      · exact ⟨_, rfl⟩
      · cases s.history.get coin.height with
        | none => exact ⟨_, rfl⟩
        | some seedHdr =>
          simp only
          cases tx.powDifficulty with
          | none => exact ⟨_, rfl⟩
          | some difficulty =>
            simp only
            split
            · exact ⟨_, rfl⟩
            · rw [hpanics]; exact ⟨_, rfl⟩

/-- `validate_and_get_doscmint_speed` as it was BEFORE the `fix:` commit for finding F9: the same function, but a
    panic of `melpow::Proof::verify` propagates (the validation crashes) instead of counting as an invalid proof -/
def validateDoscmintOld (env : Env) (s : State) (rel : Relevant) (tx : Tx) : Outcome Nat :=
  match tx.inputs with
  | [] => .crash "applytx.rs: expect(inputs[0])"
  | coinId :: _ =>
    match rel.get coinId with
    | none => .reject .nonexistentCoin
    | some coin =>
      if coin.height > s.height then .crash "applytx.rs: BlockHeight subtraction underflow"
      else if s.height - coin.height < DOSCMINT_MIN_AGE && s.network = .mainnet then .reject .invalidMelPoW
      else match s.history.get coin.height with
        | none => .reject .invalidMelPoW
        | some seedHdr =>
          match tx.powDifficulty with
          | none => .reject .invalidMelPoW
          | some difficulty =>
            if !tx.powProofParses then .reject .malformedTx
            else match env.powOk (env.hdrHash seedHdr) coinId difficulty tx.hash with
              | .panics => .crash "melpow: Proof::verify panicked"
              | .invalid => .reject .invalidMelPoW
              | v =>
                let tip910 := v = .tip910
                (computeDoscmintSpeed tip910 difficulty s.height coin.height).bind fun mySpeed =>
                if s.height = 0 then .crash "applytx.rs: height - 1 underflow" else
                match s.history.get (s.height - 1) with
                | none => .reject .invalidMelPoW
                | some prev =>
                  (calculateReward mySpeed prev.doscSpeed difficulty tip910).bind fun rewardReal =>
                  (doscToErg s.height rewardReal).bind fun rewardNom =>
                    let totalErg := (tx.totalOutputs.get .erg).getD 0
                    if totalErg > rewardNom then .reject .invalidMelPoW else .ok mySpeed

/-- the record of finding F9 — why `ApplyPre` used to carry `powTotal`: in the old code a DoscMint whose proof
    makes the verifier panic, with every check before the proof check passing, crashed the validation (hence
    `apply_tx_batch`, hence the node), for any difficulty `d` the transaction states … -/
theorem C09_old_pow_panic_crashes (env : Env) (s : State) (rel : Relevant) (tx : Tx) (id : CoinID)
    (rest : List CoinID) (coin : CoinDataHeight) (hdr : Header) (d : Nat)
    (hnet : s.network ≠ .mainnet) (hheight : s.height = 1) (hhist : s.history = [(0, hdr)])
    (hin : tx.inputs = id :: rest) (hrel : rel.get id = some coin) (hch : coin.height = 0)
    (hd : tx.powDifficulty = some d) (hparse : tx.powProofParses = true)
    (hpow : env.powOk (env.hdrHash hdr) id d tx.hash = .panics) :
    validateDoscmintOld env s rel tx = .crash "melpow: Proof::verify panicked" := by
  unfold validateDoscmintOld
  rw [hin]
  simp only [hrel, hch, hheight, hhist, AList.get, hd, hparse]
  simp only [if_true, hpow]
  simp [hnet]

/-- … while the fixed code, on the very same input, rejects the transaction -/
theorem C09_pow_panic_rejected (env : Env) (s : State) (rel : Relevant) (tx : Tx) (id : CoinID)
    (rest : List CoinID) (coin : CoinDataHeight) (hdr : Header) (d : Nat)
    (hnet : s.network ≠ .mainnet) (hheight : s.height = 1) (hhist : s.history = [(0, hdr)])
    (hin : tx.inputs = id :: rest) (hrel : rel.get id = some coin) (hch : coin.height = 0)
    (hd : tx.powDifficulty = some d) (hparse : tx.powProofParses = true)
    (hpow : env.powOk (env.hdrHash hdr) id d tx.hash = .panics) :
    validateDoscmint env s rel tx = .reject .invalidMelPoW := by
  unfold validateDoscmint
  rw [hin]
  simp only [hrel, hch, hheight, hhist, AList.get, hd, hparse]
  simp only [if_true, hpow]
  simp [hnet]

/-- the fix changes nothing else: on an oracle that never answers `.panics` (the former assumption `powTotal`)
    the old and the new function coincide -/
theorem C09_old_doscmint_eq (env : Env) (s : State) (rel : Relevant) (tx : Tx)
    (hpow : ∀ a b c d, env.powOk a b c d ≠ .panics) :
    validateDoscmintOld env s rel tx = validateDoscmint env s rel tx := by
  unfold validateDoscmintOld validateDoscmint
  cases tx.inputs with
  | nil => rfl
  | cons coinId rest =>
    simp only
    cases rel.get coinId with
    | none => rfl
    | some coin =>
      simp only
      split
      · rfl
      · split
        · rfl
        · cases s.history.get coin.height with
          | none => rfl
          | some seedHdr =>
            simp only
            cases tx.powDifficulty with
            | none => rfl
            | some difficulty =>
              simp only
              split
              · rfl
              · cases hv : env.powOk (env.hdrHash seedHdr) coinId difficulty tx.hash with
                | panics => exact absurd hv (hpow _ _ _ _)
                | invalid => rfl
                | legacy => rfl
                | tip910 => rfl

/-- … while difficulty 73 under the same circumstances is fine -/
theorem C09_reward_fits_example : microergsIter 1 * maxDoscReward 73 1000000 / MICRO_CONVERTER ≤ U128_MAX := by
  decide

/-- the assumptions are satisfiable: an empty state and an oracle that accepts no proof -/
theorem C09_pre_nonvacuous (env : Env) (s : State) (hc : s.coins = {}) (hh : s.history = [])
    (hpow : ∀ a b c d, env.powOk a b c d = .invalid) : ApplyPre env s [] where
  counts := by rw [hc]; exact ⟨List.nodup_nil, List.nodup_nil, fun a => rfl, fun e he => by cases he⟩
  fresh := fun t ht => by cases ht
  heights := fun id c h => by rw [hc] at h; cases h
  bounded := by rw [hc]; decide
  speeds := fun h hdr hg => by rw [hh] at hg; cases hg
  historyBelow := fun h hdr hg => by rw [hh] at hg; cases hg
  powDifficulty := fun a b c d h => absurd (hpow a b c d) h
  rewardFits := fun hdr _ a b d t h => absurd (hpow a b d t) h

end Mel

#print axioms Mel.C09_apply_total
#print axioms Mel.C09_load_total
#print axioms Mel.C09_stake_info_total
#print axioms Mel.C09_scripts_total
#print axioms Mel.C09_mel_total_guard
#print axioms Mel.C09_heavy_covenants_load_rejected
#print axioms Mel.C09_heavy_covenants_rejected
#print axioms Mel.C09_accepted_weights_fit
#print axioms Mel.C09_old_weight_sum_crash_of
#print axioms Mel.C09_old_weight_sum_crash
#print axioms Mel.C09_doscmint_has_input
#print axioms Mel.C09_reward_overflow_witness
#print axioms Mel.C09_doscmint_reward_crash
#print axioms Mel.C09_doscmint_difficulty_crash
#print axioms Mel.C09_doscmint_same_height_crash
#print axioms Mel.C09_doscmint_never_crashes_on_proof
#print axioms Mel.C09_doscmint_panicking_proof_rejects
#print axioms Mel.C09_old_pow_panic_crashes
#print axioms Mel.C09_pow_panic_rejected
#print axioms Mel.C09_old_doscmint_eq
#print axioms Mel.C09_reward_fits_example
#print axioms Mel.C09_pre_nonvacuous
