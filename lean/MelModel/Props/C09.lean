/-
  C09 — Validation is total: hostile input is rejected, never a crash or hang.
  Termination is by construction (every model function is structural or fuelled with proved-sufficient fuel, C11).
  Property theorems only; helper lemmas live in MelModel/Lemmas/Total.lean (apply part) and
  MelModel/Lemmas/TotalSeal.lean (seal part: Props/C09Seal.lean).
-/
import MelModel.ApplyTx
import MelModel.Lemmas.Total
namespace Mel
open Mel.Gen

/-- the count invariant of C20 (so that `count - 1` never underflows) -/
def CountsSound (m : CoinMap) : Prop :=
  (m.coins.map (·.1)).Nodup ∧ (m.counts.map (·.1)).Nodup ∧
  (∀ a, m.coinCount a = (m.coins.filter fun e => e.2.coinData.covhash = a).length) ∧ (∀ e ∈ m.counts, e.2 ≠ 0)

/-- what is assumed of the state a batch is applied to — all of it holds of states reachable from a genesis
    whose per-denomination supply stays below 2^127 -/
structure ApplyPre (env : Env) (s : State) (txs : List Tx) : Prop where
  counts : CountsSound s.coins
  /-- the coins the batch creates are new, and distinct transactions have distinct hashes -/
  fresh : ∀ t ∈ txs, ∀ i, s.coins.getCoin ⟨t.hash, i⟩ = none
  hashes : (txs.map (·.hash)).Nodup
  markersApart : ∀ t ∈ txs, ∀ u ∈ txs, env.fdp t.hash ≠ u.hash
  /-- no coin is from the future; all coin values together with everything the batch creates stay below 2^128
      (supply bound), so no sum of spent coins overflows -/
  heights : ∀ id c, s.coins.getCoin id = some c → c.height ≤ s.height
  bounded : (s.coins.coins.map (·.2.coinData.value)).sum + ((txs.flatMap (·.outputs)).map (·.value)).sum ≤ U128_MAX
  /-- recorded DOSC speeds are positive (they start at 10^6 and never decrease) -/
  speeds : ∀ h hdr, s.history.get h = some hdr → 0 < hdr.doscSpeed
  /-- the history has an entry for the previous block (every state after genesis) -/
  prev : s.height = 0 ∨ (s.history.get (s.height - 1)).isSome
  /-- known finding F9: MelPoW verification (dependency crate) can panic on malformed proofs — excluded -/
  powTotal : ∀ a b c d, env.powOk a b c d ≠ .panics
  /-- known finding F19: the plain sum of covenant weights (dependency crate) can overflow — excluded -/
  weights : ∀ t ∈ txs, (t.covenants.map covenantWeightFromBytes).sum ≤ U128_MAX
  /-- the inflated reward fits a u128 (the inflator grows by 1/2,000,000 per block) -/
  inflator : microergsIter s.height ≤ MICRO_CONVERTER * 2 ^ 64

/-- **applying is total**: for every batch of arbitrary transactions the result is the new state or a
    rejection, never a crash -/
theorem C09_apply_total (env : Env) (s : State) (txs : List Tx) (fb : Header) (hp : ApplyPre env s txs) :
    ∀ c, applyBatch env s txs fb ≠ .crash c := by
  sorry

/-- the first phases never crash, whatever the state and the transactions -/
theorem C09_load_total (s : State) (txs : List Tx) : ∀ c, loadRelevantCoins s txs ≠ .crash c := by
  sorry

theorem C09_stake_info_total (s : State) (txs : List Tx) : ∀ c, loadStakeInfo s txs ≠ .crash c := by
  sorry

/-- covenant decoding, weighing and execution are total functions of the model (they return `Option`s);
    the script check therefore never crashes -/
theorem C09_scripts_total (env : Env) (i : Nat) (id : CoinID) (tx : Tx) (coin : CoinDataHeight) (lh : Header) :
    ∀ c, validateTxScripts env i id tx coin lh ≠ .crash c := by
  sorry

/-- crash sites that were reachable before the `fix:` commits are unreachable now: a transaction whose MEL
    outputs plus fee overflow a u128 is rejected up front (F18) -/
theorem C09_mel_total_guard (s : State) (txs : List Tx) (tx : Tx) (htx : tx ∈ txs) (hbad : tx.melTotalFits = false) :
    loadRelevantCoins s txs = .reject .malformedTx := by
  sorry

end Mel
