/-
  C18 — ERG is minted only against valid sequential work, within the reward formula.
  Property theorems only; helper lemmas live in MelModel/Lemmas/Mint.lean.
-/
import MelModel.ApplyTx
import MelModel.Lemmas.Mint
namespace Mel
open Mel.Gen

/-- the measured speed: (100 for the TIP-910 hash) · 2^difficulty / coin age -/
def speedOf (tip910 : Bool) (difficulty age : Nat) : Nat := (if tip910 then 100 else 1) * 2 ^ difficulty / age

/-- the reward in real DOSC: work · speed · 10^6 / (previous speed² · 2880), saturating at u128 -/
def rewardOf (tip910 : Bool) (difficulty speed prevSpeed : Nat) : Nat :=
  min ((if tip910 then min (2 ^ difficulty * 100) U128_MAX else 2 ^ difficulty) * speed * 1000000 / (prevSpeed ^ 2 * 2880)) U128_MAX

/-- **soundness**: an accepted ERG mint carries a valid MelPoW proof (legacy or TIP-910 hash) for the puzzle
    seeded by the header at the spent coin's creation height and that coin's id, at the stated difficulty; on
    mainnet the coin is at least 100 blocks old; the speed is the measured one; the ERG created does not exceed
    the inflated reward. -/
theorem C18_sound (env : Env) (s : State) (rel : Relevant) (tx : Tx) (sp : Nat)
    (h : validateDoscmint env s rel tx = .ok sp) :
    ∃ coinId coin seedHdr prevHdr difficulty tip910 erg,
      tx.inputs.head? = some coinId ∧ rel.get coinId = some coin ∧ coin.height < s.height ∧
      s.history.get coin.height = some seedHdr ∧ s.history.get (s.height - 1) = some prevHdr ∧
      tx.powDifficulty = some difficulty ∧ tx.powProofParses = true ∧
      env.powOk (env.hdrHash seedHdr) coinId difficulty tx.hash = (if tip910 then PowVerdict.tip910 else PowVerdict.legacy) ∧
      (s.network = .mainnet → 100 ≤ s.height - coin.height) ∧
      sp = speedOf tip910 difficulty (s.height - coin.height) ∧
      doscToErg s.height (rewardOf tip910 difficulty sp prevHdr.doscSpeed) = .ok erg ∧
      (tx.totalOutputs.get .erg).getD 0 ≤ erg := by
  unfold validateDoscmint at h
  cases hin : tx.inputs with
  | nil => rw [hin] at h; cases h
  | cons coinId rest =>
    rw [hin] at h
    simp only at h
    cases hrel : rel.get coinId with
    | none => rw [hrel] at h; cases h
    | some coin =>
      rw [hrel] at h
      simp only at h
      by_cases hgt : coin.height > s.height
      · rw [if_pos hgt] at h; cases h
      rw [if_neg hgt] at h
      by_cases hage : (decide (s.height - coin.height < DOSCMINT_MIN_AGE) && decide (s.network = .mainnet)) = true
      · rw [if_pos hage] at h; cases h
      rw [if_neg hage] at h
      cases hseed : s.history.get coin.height with
      | none => rw [hseed] at h; cases h
      | some seedHdr =>
        rw [hseed] at h
        simp only at h
        cases hd : tx.powDifficulty with
        | none => rw [hd] at h; cases h
        | some difficulty =>
          rw [hd] at h
          simp only at h
          by_cases hpp : (!tx.powProofParses) = true
          · rw [if_pos hpp] at h; cases h
          rw [if_neg hpp] at h
          generalize hv : env.powOk (env.hdrHash seedHdr) coinId difficulty tx.hash = v at h
          cases v with
          | panics => cases h
          | invalid => cases h
          | legacy =>
            have hdec : decide (PowVerdict.legacy = PowVerdict.tip910) = false := by decide
            simp only [hdec] at h
            obtain ⟨mySpeed, hcs, h⟩ := Mint.bind_ok_inv h
            obtain ⟨hd128, hlt, hms⟩ := Mint.computeDoscmintSpeed_ok hcs
            by_cases hz : s.height = 0
            · rw [if_pos hz] at h; cases h
            rw [if_neg hz] at h
            cases hprev : s.history.get (s.height - 1) with
            | none => rw [hprev] at h; cases h
            | some prev =>
              rw [hprev] at h
              simp only at h
              obtain ⟨rr, hrr, h⟩ := Mint.bind_ok_inv h
              obtain ⟨rn, hrn, h⟩ := Mint.bind_ok_inv h
              by_cases hex : (tx.totalOutputs.get .erg).getD 0 > rn
              · rw [if_pos hex] at h; cases h
              rw [if_neg hex] at h
              injection h with h
              subst h
              have hrr' := Mint.calculateReward_ok hrr
              refine ⟨coinId, coin, seedHdr, prev, difficulty, false, rn, rfl, hrel, hlt, hseed, rfl, rfl,
                by simpa using hpp, hv, ?_, ?_, ?_, by omega⟩
              · intro hn
                by_cases hlt100 : s.height - coin.height < DOSCMINT_MIN_AGE
                · exact absurd (by simp [hlt100, hn]) hage
                · simp only [DOSCMINT_MIN_AGE] at hlt100; omega
              · exact hms
              · have : rewardOf false difficulty mySpeed prev.doscSpeed = rr := by
                  rw [hrr']; rfl
                rw [this]; exact hrn
          | tip910 =>
            simp only at h
            obtain ⟨mySpeed, hcs, h⟩ := Mint.bind_ok_inv h
            obtain ⟨hd128, hlt, hms⟩ := Mint.computeDoscmintSpeed_ok hcs
            by_cases hz : s.height = 0
            · rw [if_pos hz] at h; cases h
            rw [if_neg hz] at h
            cases hprev : s.history.get (s.height - 1) with
            | none => rw [hprev] at h; cases h
            | some prev =>
              rw [hprev] at h
              simp only at h
              obtain ⟨rr, hrr, h⟩ := Mint.bind_ok_inv h
              obtain ⟨rn, hrn, h⟩ := Mint.bind_ok_inv h
              by_cases hex : (tx.totalOutputs.get .erg).getD 0 > rn
              · rw [if_pos hex] at h; cases h
              rw [if_neg hex] at h
              injection h with h
              subst h
              have hrr' := Mint.calculateReward_ok hrr
              refine ⟨coinId, coin, seedHdr, prev, difficulty, true, rn, rfl, hrel, hlt, hseed, rfl, rfl,
                by simpa using hpp, hv, ?_, ?_, ?_, by omega⟩
              · intro hn
                by_cases hlt100 : s.height - coin.height < DOSCMINT_MIN_AGE
                · exact absurd (by simp [hlt100, hn]) hage
                · simp only [DOSCMINT_MIN_AGE] at hlt100; omega
              · exact hms
              · have : rewardOf true difficulty mySpeed prev.doscSpeed = rr := by
                  rw [hrr']; rfl
                rw [this]; exact hrn

/-- each failing condition rejects: an invalid proof — one on which `melpow::Proof::verify` answers `false`, or
    (since the `fix:` for finding F9) one on which it panics because the proof lacks nodes the verifier looks up -/
theorem C18_invalid_proof (env : Env) (s : State) (rel : Relevant) (tx : Tx) (coinId : CoinID) (coin : CoinDataHeight)
    (seedHdr : Header) (d : Nat) (hi : tx.inputs.head? = some coinId) (hc : rel.get coinId = some coin)
    (hs : s.history.get coin.height = some seedHdr) (hd : tx.powDifficulty = some d)
    (hv : env.powOk (env.hdrHash seedHdr) coinId d tx.hash = .invalid ∨
          env.powOk (env.hdrHash seedHdr) coinId d tx.hash = .panics) :
    ∀ sp, validateDoscmint env s rel tx ≠ .ok sp := by
  intro sp h
  obtain ⟨coinId', coin', seedHdr', _, d', t, _, hi', hc', _, hs', _, hd', _, hv', _⟩ := C18_sound env s rel tx sp h
  rw [hi] at hi'; injection hi' with hi'; subst hi'
  rw [hc] at hc'; injection hc' with hc'; subst hc'
  rw [hs] at hs'; injection hs' with hs'; subst hs'
  rw [hd] at hd'; injection hd' with hd'; subst hd'
  rcases hv with hv | hv <;> rw [hv] at hv' <;> cases t <;> simp at hv'

/-- … and the answer is exactly `InvalidMelPoW` once the checks before the proof check pass (the spent coin is
    known and not from the future, the seed header is recorded, difficulty and proof decode), whether the verifier
    says "invalid" or panics.  (A coin too young on mainnet gives the same answer, so no age hypothesis.) -/
theorem C18_bad_proof_rejected (env : Env) (s : State) (rel : Relevant) (tx : Tx) (coinId : CoinID)
    (coin : CoinDataHeight) (seedHdr : Header) (d : Nat)
    (hi : tx.inputs.head? = some coinId) (hc : rel.get coinId = some coin) (hle : coin.height ≤ s.height)
    (hs : s.history.get coin.height = some seedHdr) (hd : tx.powDifficulty = some d)
    (hparse : tx.powProofParses = true)
    (hv : env.powOk (env.hdrHash seedHdr) coinId d tx.hash = .invalid ∨
          env.powOk (env.hdrHash seedHdr) coinId d tx.hash = .panics) :
    validateDoscmint env s rel tx = .reject .invalidMelPoW := by
  unfold validateDoscmint
  cases hin : tx.inputs with
  | nil => rw [hin] at hi; cases hi
  | cons c rest =>
    rw [hin] at hi
    simp only [List.head?_cons, Option.some.injEq] at hi
    subst hi
    simp only [hc, hs, hd, hparse]
    rw [if_neg (Nat.not_lt.mpr hle)]
    split
    · rfl
    · rcases hv with hv | hv <;> rw [hv] <;> rfl

/-- **the fix for finding F9**: a DoscMint whose proof makes `melpow::Proof::verify` panic is rejected with
    `InvalidMelPoW` — not a crash, and certainly not accepted -/
theorem C18_panicking_proof_rejected (env : Env) (s : State) (rel : Relevant) (tx : Tx) (coinId : CoinID)
    (coin : CoinDataHeight) (seedHdr : Header) (d : Nat)
    (hi : tx.inputs.head? = some coinId) (hc : rel.get coinId = some coin) (hle : coin.height ≤ s.height)
    (hs : s.history.get coin.height = some seedHdr) (hd : tx.powDifficulty = some d)
    (hparse : tx.powProofParses = true)
    (hv : env.powOk (env.hdrHash seedHdr) coinId d tx.hash = .panics) :
    validateDoscmint env s rel tx = .reject .invalidMelPoW :=
  C18_bad_proof_rejected env s rel tx coinId coin seedHdr d hi hc hle hs hd hparse (Or.inr hv)

/-- … in particular it is not accepted, under the hypotheses of `C18_invalid_proof` alone -/
theorem C18_panicking_proof_not_accepted (env : Env) (s : State) (rel : Relevant) (tx : Tx) (coinId : CoinID)
    (coin : CoinDataHeight) (seedHdr : Header) (d : Nat) (hi : tx.inputs.head? = some coinId)
    (hc : rel.get coinId = some coin) (hs : s.history.get coin.height = some seedHdr)
    (hd : tx.powDifficulty = some d)
    (hv : env.powOk (env.hdrHash seedHdr) coinId d tx.hash = .panics) :
    ∀ sp, validateDoscmint env s rel tx ≠ .ok sp :=
  C18_invalid_proof env s rel tx coinId coin seedHdr d hi hc hs hd (Or.inr hv)

/-- … undecodable data -/
theorem C18_undecodable (env : Env) (s : State) (rel : Relevant) (tx : Tx) (h : tx.powDifficulty = none) :
    ∀ sp, validateDoscmint env s rel tx ≠ .ok sp := by
  intro sp h'
  obtain ⟨_, _, _, _, d', _, _, _, _, _, _, _, hd', _⟩ := C18_sound env s rel tx sp h'
  rw [h] at hd'; cases hd'

/-- … a coin younger than 100 blocks on mainnet -/
theorem C18_too_recent (env : Env) (s : State) (rel : Relevant) (tx : Tx) (coinId : CoinID) (coin : CoinDataHeight)
    (hi : tx.inputs.head? = some coinId) (hc : rel.get coinId = some coin) (hn : s.network = .mainnet)
    (hy : s.height - coin.height < 100) : ∀ sp, validateDoscmint env s rel tx ≠ .ok sp := by
  intro sp h
  obtain ⟨coinId', coin', _, _, _, _, _, hi', hc', _, _, _, _, _, _, hage, _⟩ := C18_sound env s rel tx sp h
  rw [hi] at hi'; injection hi' with hi'; subst hi'
  rw [hc] at hc'; injection hc' with hc'; subst hc'
  have := hage hn
  omega

/-- every ERG-minting transaction of an accepted batch went through that validation -/
theorem C18_batch_validates (env : Env) (s s' : State) (txs : List Tx) (fb : Header)
    (h : applyBatch env s txs fb = .ok s') (tx : Tx) (htx : tx ∈ txs) (hk : tx.kind = .doscMint) :
    ∃ rel sp, loadRelevantCoins s txs = .ok rel ∧ validateDoscmint env s rel tx = .ok sp ∧ sp ≤ s'.doscSpeed := by
  obtain ⟨rel, hrel, hf⟩ := Mint.applyBatch_speed h
  obtain ⟨_, h2, _, _⟩ := Mint.speedFold_spec env s rel txs _ _ hf
  obtain ⟨sp, hv, hle⟩ := h2 tx htx hk
  exact ⟨rel, sp, hrel, hv, hle⟩

/-- only ERG-mint (and faucet) transactions may create ERG: every other accepted transaction's ERG outputs are
    matched by ERG inputs -/
theorem C18_erg_balanced (kind : TxKind) (inCoins outCoins : AList Denom Nat) (hk : kind ≠ .doscMint) (hf : kind ≠ .faucet)
    (h : checkBalanced kind inCoins outCoins = .ok ()) (v : Nat) (hv : (.erg, v) ∈ outCoins) :
    inCoins.get .erg = some v := by
  unfold checkBalanced at h
  rw [if_neg hf] at h
  have := Mint.forM'_ok h _ hv
  simp only [hk] at this
  cases hg : inCoins.get Denom.erg with
  | none => rw [hg] at this; simp at this
  | some iv =>
    rw [hg] at this
    simp only at this
    by_cases hne : v ≠ iv
    · rw [if_pos hne] at this; cases this
    · simp at hne; rw [hne]

/-- the DOSC speed never decreases, and without ERG mints it does not change -/
theorem C18_speed_monotone (env : Env) (s s' : State) (txs : List Tx) (fb : Header)
    (h : applyBatch env s txs fb = .ok s') : s.doscSpeed ≤ s'.doscSpeed := by
  obtain ⟨rel, _, hf⟩ := Mint.applyBatch_speed h
  exact (Mint.speedFold_spec env s rel txs _ _ hf).1

theorem C18_speed_unchanged (env : Env) (s s' : State) (txs : List Tx) (fb : Header)
    (h : applyBatch env s txs fb = .ok s') (hn : ∀ tx ∈ txs, tx.kind ≠ .doscMint) : s'.doscSpeed = s.doscSpeed := by
  obtain ⟨rel, _, hf⟩ := Mint.applyBatch_speed h
  exact (Mint.speedFold_spec env s rel txs _ _ hf).2.2.2 hn

/-- … it is the maximum of the previous value and the speeds demonstrated in the batch -/
theorem C18_speed_is_max (env : Env) (s s' : State) (txs : List Tx) (fb : Header)
    (h : applyBatch env s txs fb = .ok s') :
    s'.doscSpeed = s.doscSpeed ∨
    ∃ tx ∈ txs, tx.kind = .doscMint ∧ ∃ rel, loadRelevantCoins s txs = .ok rel ∧ validateDoscmint env s rel tx = .ok s'.doscSpeed := by
  obtain ⟨rel, hrel, hf⟩ := Mint.applyBatch_speed h
  rcases (Mint.speedFold_spec env s rel txs _ _ hf).2.2.1 with h3 | ⟨tx, hm, hk, hv⟩
  · left; exact h3
  · right; exact ⟨tx, hm, hk, rel, hrel, hv⟩

end Mel

#print axioms Mel.C18_sound
#print axioms Mel.C18_invalid_proof
#print axioms Mel.C18_bad_proof_rejected
#print axioms Mel.C18_panicking_proof_rejected
#print axioms Mel.C18_panicking_proof_not_accepted
#print axioms Mel.C18_undecodable
#print axioms Mel.C18_too_recent
#print axioms Mel.C18_batch_validates
#print axioms Mel.C18_erg_balanced
#print axioms Mel.C18_speed_monotone
#print axioms Mel.C18_speed_unchanged
#print axioms Mel.C18_speed_is_max
