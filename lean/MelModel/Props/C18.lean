/-
  C18 — ERG is minted only against valid sequential work, within the reward formula.
  Property theorems only; helper lemmas live in MelModel/Lemmas/Mint.lean.
-/
import MelModel.ApplyTx
import MelModel.Lemmas.Mint
namespace Mel
open Mel.Gen

/-- the measured speed: (100 for the TIP-910 hash) · 2^difficulty / coin age -/
def speedOf (tip910 : Bool) (difficulty age : Nat) : Nat := (if tip910 then 100 else 1) * 2 ^ difficulty / age

/-- the reward in real DOSC: work · speed · 10^6 / (previous speed² · 2880), saturating at u128 -/
def rewardOf (tip910 : Bool) (difficulty speed prevSpeed : Nat) : Nat :=
  min ((if tip910 then min (2 ^ difficulty * 100) U128_MAX else 2 ^ difficulty) * speed * 1000000 / (prevSpeed ^ 2 * 2880)) U128_MAX

/-- **soundness**: an accepted ERG mint carries a valid MelPoW proof (legacy or TIP-910 hash) for the puzzle
    seeded by the header at the spent coin's creation height and that coin's id, at the stated difficulty; on
    mainnet the coin is at least 100 blocks old; the speed is the measured one; the ERG created does not exceed
    the inflated reward. -/
theorem C18_sound (env : Env) (s : State) (rel : Relevant) (tx : Tx) (sp : Nat)
    (h : validateDoscmint env s rel tx = .ok sp) :
    ∃ coinId coin seedHdr prevHdr difficulty tip910 erg,
      tx.inputs.head? = some coinId ∧ rel.get coinId = some coin ∧ coin.height < s.height ∧
      s.history.get coin.height = some seedHdr ∧ s.history.get (s.height - 1) = some prevHdr ∧
      tx.powDifficulty = some difficulty ∧ tx.powProofParses = true ∧
      env.powOk (env.hdrHash seedHdr) coinId difficulty tx.hash = (if tip910 then PowVerdict.tip910 else PowVerdict.legacy) ∧
      (s.network = .mainnet → 100 ≤ s.height - coin.height) ∧
      sp = speedOf tip910 difficulty (s.height - coin.height) ∧
      doscToErg s.height (rewardOf tip910 difficulty sp prevHdr.doscSpeed) = .ok erg ∧
      (tx.totalOutputs.get .erg).getD 0 ≤ erg := by
  sorry

/-- each failing condition rejects: an invalid proof -/
theorem C18_invalid_proof (env : Env) (s : State) (rel : Relevant) (tx : Tx) (coinId : CoinID) (coin : CoinDataHeight)
    (seedHdr : Header) (d : Nat) (hi : tx.inputs.head? = some coinId) (hc : rel.get coinId = some coin)
    (hs : s.history.get coin.height = some seedHdr) (hd : tx.powDifficulty = some d)
    (hv : env.powOk (env.hdrHash seedHdr) coinId d tx.hash = .invalid) :
    ∀ sp, validateDoscmint env s rel tx ≠ .ok sp := by
  sorry

/-- … undecodable data -/
theorem C18_undecodable (env : Env) (s : State) (rel : Relevant) (tx : Tx) (h : tx.powDifficulty = none) :
    ∀ sp, validateDoscmint env s rel tx ≠ .ok sp := by
  sorry

/-- … a coin younger than 100 blocks on mainnet -/
theorem C18_too_recent (env : Env) (s : State) (rel : Relevant) (tx : Tx) (coinId : CoinID) (coin : CoinDataHeight)
    (hi : tx.inputs.head? = some coinId) (hc : rel.get coinId = some coin) (hn : s.network = .mainnet)
    (hy : s.height - coin.height < 100) : ∀ sp, validateDoscmint env s rel tx ≠ .ok sp := by
  sorry

/-- every ERG-minting transaction of an accepted batch went through that validation -/
theorem C18_batch_validates (env : Env) (s s' : State) (txs : List Tx) (fb : Header)
    (h : applyBatch env s txs fb = .ok s') (tx : Tx) (htx : tx ∈ txs) (hk : tx.kind = .doscMint) :
    ∃ rel sp, loadRelevantCoins s txs = .ok rel ∧ validateDoscmint env s rel tx = .ok sp ∧ sp ≤ s'.doscSpeed := by
  sorry

/-- only ERG-mint (and faucet) transactions may create ERG: every other accepted transaction's ERG outputs are
    matched by ERG inputs -/
theorem C18_erg_balanced (kind : TxKind) (inCoins outCoins : AList Denom Nat) (hk : kind ≠ .doscMint) (hf : kind ≠ .faucet)
    (h : checkBalanced kind inCoins outCoins = .ok ()) (v : Nat) (hv : (.erg, v) ∈ outCoins) :
    inCoins.get .erg = some v := by
  sorry

/-- the DOSC speed never decreases, and without ERG mints it does not change -/
theorem C18_speed_monotone (env : Env) (s s' : State) (txs : List Tx) (fb : Header)
    (h : applyBatch env s txs fb = .ok s') : s.doscSpeed ≤ s'.doscSpeed := by
  sorry

theorem C18_speed_unchanged (env : Env) (s s' : State) (txs : List Tx) (fb : Header)
    (h : applyBatch env s txs fb = .ok s') (hn : ∀ tx ∈ txs, tx.kind ≠ .doscMint) : s'.doscSpeed = s.doscSpeed := by
  sorry

/-- … it is the maximum of the previous value and the speeds demonstrated in the batch -/
theorem C18_speed_is_max (env : Env) (s s' : State) (txs : List Tx) (fb : Header)
    (h : applyBatch env s txs fb = .ok s') :
    s'.doscSpeed = s.doscSpeed ∨
    ∃ tx ∈ txs, tx.kind = .doscMint ∧ ∃ rel, loadRelevantCoins s txs = .ok rel ∧ validateDoscmint env s rel tx = .ok s'.doscSpeed := by
  sorry

end Mel
