/-
  C09 over REACHABLE states — applying AND sealing never crash in a state reachable from a genesis configuration,
  every sealed block of the history having respected the supply bounds — and C16's builtin pools over histories.

  `Props/Reach.lean` discharges the structural half of `ApplyPre` from reachability; this file does the same for
  the structural half of `SealTotalPre` (`counts`, `faithfulCov`, `txHashes`, `poolsSane`; `liqsU128` is not needed
  by `sealState_ok_pools` at all).  What stays a hypothesis is `SealBounds`: the amounts of the state being sealed
  are far below 2^128 (consequences of the supply premise of C09) and the height is below the point where the
  subsidy shift amount overflows.

  `poolsSane` is NOT a consequence of `Inv`/`Slots`: it is inductive only because every seal of the history was
  one that `sealState_ok_pools` speaks about, i.e. one whose pre-state met `SealBounds`; hence the reachability
  notion `ReachableB`, whose block step carries `SealBounds`.
  Property theorems only; helper lemmas live in MelModel/Lemmas/ReachSealL.lean.
-/
import MelModel.Props.Reach
import MelModel.Props.C09Seal
import MelModel.Lemmas.BackL
import MelModel.Lemmas.ReachSealL
namespace Mel
open Mel.Gen Mel.TotalSealL

/-- the part of `SealTotalPre` that bounds amounts (consequences of the supply premise of C09), not structure -/
structure SealBounds (s : State) : Prop where
  feeBound : s.feePool + s.tips + 2 ^ 21 ≤ 2 ^ 127
  reserveBound : ∀ p, s.pools.get poolMelSym = some p → p.lefts ≤ 2 ^ 125
  melInflowBound : melInflow s.txs ≤ 2 ^ 124
  height : s.height < TIP_909_HEIGHT + 128 * SUBSIDY_HALVING

/-- reachable, every sealed block having respected the bounds -/
inductive ReachableB (env : Env) : State → Prop
  | genesis (cfg : GenesisConfig) : ReachableB env (genesisState cfg)
  | batch {s s' : State} {txs : List Tx} {fb : Header} :
      ReachableB env s → BatchFresh s txs → MarkerFresh env s txs → applyBatch env s txs fb = .ok s' →
      ReachableB env s'
  | block {s s' : State} {ss : Sealed} {a : Option ProposerAction} :
      ReachableB env s → RewardFresh env s → SealBounds s → sealState env s a = .ok ss →
      nextUnsealed env ss = .ok s' → ReachableB env s'

/-- 1. `ReachableB` refines `ReachableSep` (hence `Reachable`) -/
theorem ReachableB.sep {env : Env} {s : State} (h : ReachableB env s) : ReachableSep env s := by
  induction h with
  | genesis cfg => exact .genesis cfg
  | batch _ hf hm hb ih => exact .batch ih hf hm hb
  | block _ hr _ hs hn ih => exact .block ih hr hs hn

theorem ReachableB.reachable {env : Env} {s : State} (h : ReachableB env s) : Reachable env s := h.sep.reachable

theorem ReachableB.inv {env : Env} {s : State} (h : ReachableB env s) : Inv s := (reachable_inv_slots env s h.sep).1

theorem ReachableB.slots {env : Env} {s : State} (h : ReachableB env s) : Slots s := (reachable_inv_slots env s h.sep).2

/-- the slot discipline gives the `faithfulCov` field of `SealTotalPre` -/
theorem slots_faithful {s : State} (h : Slots s) : Faithful s.txs s.coins := ReachSealL.faithful_of_slots h

/-- sealing a state that satisfies the invariant, the slot discipline, `poolsSane` and the bounds succeeds and
    prices every builtin pool that is due -/
theorem seal_ok_of_inv (env : Env) (s : State) (a : Option ProposerAction) (hi : Inv s) (hsl : Slots s)
    (hsane : ∀ k p, s.pools.get k = some p → p.liqs ≠ 0 → 0 < p.lefts ∧ 0 < p.rights) (hb : SealBounds s) :
    ∃ ss, sealState env s a = .ok ss ∧ PoolsOk s.tip902 ss.st.pools :=
  sealState_ok_pools env s a hi.counts (slots_faithful hsl)
    (ReachL.nodup_hashes_of_pairwise (sortedTxs_pairwise hi.sorted)) hsane hb.reserveBound hb.melInflowBound
    hb.feeBound hb.height

/-- the TIP-902 flag of the block sealed last: the flag at height `s.height - 1` on the same network -/
def prevTip902 (s : State) : Bool := ({ s with height := s.height - 1 } : State).tip902

/-- the pool invariant of reachable states -/
structure PoolsInv (s : State) : Prop where
  /-- C16: every pool that has issued liquidity has reserves on both sides -/
  sane : ∀ k p, s.pools.get k = some p → p.liqs ≠ 0 → 0 < p.lefts ∧ 0 < p.rights
  /-- once a block has been sealed, the builtin pools that were due in that block exist and are priced -/
  priced : 0 < s.height → PoolsOk (prevTip902 s) s.pools

/-- the pool invariant holds in every `ReachableB` state: genesis has no pools, batches do not touch pools, and
    a block step is a seal that `sealState_ok_pools` speaks about followed by `next_unsealed`, which keeps
    the pools -/
theorem reachableB_poolsInv {env : Env} {s : State} (h : ReachableB env s) : PoolsInv s := by
  induction h with
  | genesis cfg =>
    exact ⟨fun k p hg => (nomatch hg), fun hpos => absurd hpos (Nat.lt_irrefl 0)⟩
  | @batch s s' txs fb hr _ _ hb ih =>
    have hp : s'.pools = s.pools := BackL.applyBatch_pools hb
    obtain ⟨-, e2, e3⟩ := applyBatch_hhn _ _ _ _ _ hb
    have ht : prevTip902 s' = prevTip902 s :=
      ReachSealL.tip902_congr (a := { s' with height := s'.height - 1 }) (b := { s with height := s.height - 1 })
        e3 (by show s'.height - 1 = s.height - 1; rw [e2])
    refine ⟨by rw [hp]; exact ih.sane, fun hpos => ?_⟩
    rw [hp, ht]
    exact ih.priced (e2 ▸ hpos)
  | @block s s' ss a hr _ hbd hs hn ih =>
    obtain ⟨ss', hs', hpo⟩ := seal_ok_of_inv env s a hr.inv hr.slots ih.sane hbd
    rw [hs] at hs'
    cases hs'
    have hp : s'.pools = ss.st.pools := ReachSealL.nextUnsealed_pools hn
    obtain ⟨-, e2, e3⟩ := sealState_hhn _ _ _ _ hs
    obtain ⟨-, -, -, f2, f3⟩ := nextUnsealed_ok _ _ _ hn
    have ht : prevTip902 s' = s.tip902 :=
      ReachSealL.tip902_congr (a := { s' with height := s'.height - 1 }) (b := s)
        (f3.trans e3) (by show s'.height - 1 = s.height; rw [f2, e2]; rfl)
    refine ⟨by rw [hp]; exact hpo.sane, fun _ => ?_⟩
    rw [hp, ht]
    exact hpo

/-- 2. **`poolsSane` holds in every reachable state** (the `poolsSane` field of `SealTotalPre`) -/
theorem reachableB_poolsSane {env : Env} {s : State} (h : ReachableB env s) :
    ∀ k p, s.pools.get k = some p → p.liqs ≠ 0 → 0 < p.lefts ∧ 0 < p.rights :=
  (reachableB_poolsInv h).sane

/-- reachability gives the structural fields of `SealTotalPre` (`counts`, `faithfulCov`, `poolsSane`, `txHashes`);
    the remaining ones are `SealBounds` and the typing field `liqsU128`, which `sealState_ok_pools` does not use -/
theorem reachableB_sealPre {env : Env} {s : State} (h : ReachableB env s) :
    (s.tip906 = true → CountsSoundS s.coins) ∧
    (∀ tx ∈ s.txs, ∀ i o c, tx.outputs[i]? = some o → s.coins.getCoin ⟨tx.hash, i⟩ = some c →
      c.coinData.covhash = o.covhash) ∧
    (∀ k p, s.pools.get k = some p → (p.liqs ≠ 0 → 0 < p.lefts ∧ 0 < p.rights)) ∧
    (s.txs.map (·.hash)).Nodup :=
  ⟨h.inv.counts, slots_faithful h.slots, reachableB_poolsSane h,
    ReachL.nodup_hashes_of_pairwise (sortedTxs_pairwise h.inv.sorted)⟩

/-- **sealing a reachable state succeeds and prices every builtin pool that is due** (C09 + C16 for the sealed
    state, at every height including 0) -/
theorem C09_seal_ok_priced_reachable {env : Env} {s : State} (h : ReachableB env s) (hb : SealBounds s)
    (a : Option ProposerAction) : ∃ ss, sealState env s a = .ok ss ∧ PoolsOk s.tip902 ss.st.pools :=
  seal_ok_of_inv env s a h.inv h.slots (reachableB_poolsSane h) hb

/-- 3. **C09, sealing half, for reachable states**: sealing succeeds (nothing in it rejects) … -/
theorem C09_seal_ok_reachable {env : Env} {s : State} (h : ReachableB env s) (hb : SealBounds s) :
    ∀ a, ∃ ss, sealState env s a = .ok ss := fun a =>
  let ⟨ss, hs, _⟩ := C09_seal_ok_priced_reachable h hb a
  ⟨ss, hs⟩

/-- … in particular it never crashes -/
theorem C09_seal_total_reachable {env : Env} {s : State} (h : ReachableB env s) (hb : SealBounds s) :
    ∀ a c, sealState env s a ≠ .crash c := fun a =>
  let ⟨_, hs⟩ := C09_seal_ok_reachable h hb a
  Outcome.ne_crash_of_ok hs

/-- 4. **a whole block step is total**: seal, header, next block — and the new state is reachable again -/
theorem C09_block_total_reachable {env : Env} {s : State} (h : ReachableB env s) (hb : SealBounds s)
    (hr : RewardFresh env s) :
    ∀ a, ∃ ss s', sealState env s a = .ok ss ∧ nextUnsealed env ss = .ok s' ∧ ReachableB env s' := by
  intro a
  obtain ⟨ss, hs⟩ := C09_seal_ok_reachable h hb a
  obtain ⟨-, s', hn⟩ := reachable_header_ok env s a ss h.reachable hr hs
  exact ⟨ss, s', hs, hn, .block h hr hb hs hn⟩

/-- the apply half for `ReachableSep`, WITHOUT `s.tip906 = true` (`C09_apply_total_reachable` keeps that
    hypothesis): before TIP-906 no count entry exists and `insert_coin` / `remove_coin` are called with the flag
    off, so the count invariant is only needed once the flag is on — which is how `Inv.counts` states it -/
theorem C09_apply_total_sep (env : Env) (s : State) (txs : List Tx) (fb : Header)
    (hsep : ReachableSep env s) (hf : BatchFresh s txs)
    (bounded : (s.coins.coins.map (·.2.coinData.value)).sum + ((txs.flatMap (·.outputs)).map (·.value)).sum ≤ U128_MAX)
    (powDifficulty : ∀ a b c d, env.powOk a b c d ≠ .invalid → c ≤ 100)
    (rewardFits : ∀ hdr, s.history.get (s.height - 1) = some hdr → ∀ a b d t, env.powOk a b d t ≠ .invalid →
      microergsIter s.height * maxDoscReward d hdr.doscSpeed / MICRO_CONVERTER ≤ U128_MAX) :
    ∀ c, applyBatch env s txs fb ≠ .crash c :=
  let hi := (reachable_inv_slots env s hsep).1
  ReachSealL.applyBatch_noCrash' env s txs fb hi.counts hf.fresh hi.heights bounded hi.speeds hi.historyBelow
    powDifficulty rewardFits

/-- 5. **C09, apply half, for `ReachableB` states, whether or not TIP-906 is active** -/
theorem C09_step_total_reachable (env : Env) (s : State) (txs : List Tx) (fb : Header)
    (h : ReachableB env s) (hf : BatchFresh s txs)
    (bounded : (s.coins.coins.map (·.2.coinData.value)).sum + ((txs.flatMap (·.outputs)).map (·.value)).sum ≤ U128_MAX)
    (powDifficulty : ∀ a b c d, env.powOk a b c d ≠ .invalid → c ≤ 100)
    (rewardFits : ∀ hdr, s.history.get (s.height - 1) = some hdr → ∀ a b d t, env.powOk a b d t ≠ .invalid →
      microergsIter s.height * maxDoscReward d hdr.doscSpeed / MICRO_CONVERTER ≤ U128_MAX) :
    ∀ c, applyBatch env s txs fb ≠ .crash c :=
  C09_apply_total_sep env s txs fb h.sep hf bounded powDifficulty rewardFits

/-- **C09 for reachable states, both halves**: neither applying a batch nor sealing crashes -/
theorem C09_total_reachable (env : Env) (s : State) (h : ReachableB env s) (hb : SealBounds s)
    (powDifficulty : ∀ a b c d, env.powOk a b c d ≠ .invalid → c ≤ 100)
    (rewardFits : ∀ hdr, s.history.get (s.height - 1) = some hdr → ∀ a b d t, env.powOk a b d t ≠ .invalid →
      microergsIter s.height * maxDoscReward d hdr.doscSpeed / MICRO_CONVERTER ≤ U128_MAX) :
    (∀ txs fb, BatchFresh s txs →
      (s.coins.coins.map (·.2.coinData.value)).sum + ((txs.flatMap (·.outputs)).map (·.value)).sum ≤ U128_MAX →
      ∀ c, applyBatch env s txs fb ≠ .crash c) ∧
    (∀ a c, sealState env s a ≠ .crash c) :=
  ⟨fun txs fb hf hbd => C09_step_total_reachable env s txs fb h hf hbd powDifficulty rewardFits,
    C09_seal_total_reachable h hb⟩

/-! ### C16 over histories: the builtin pools -/

/-- 6. **C16 over histories**: in every reachable state past the first block the MEL/SYM and MEL/ERG pools exist
    with reserves on both sides and liquidity -/
theorem C16_builtins_reachable {env : Env} {s : State} (h : ReachableB env s) (hpos : 0 < s.height) :
    ∀ k ∈ [poolMelSym, poolMelErg], ∃ p, s.pools.get k = some p ∧ 0 < p.lefts ∧ 0 < p.rights ∧ 0 < p.liqs := by
  intro k hk
  have hpo := (reachableB_poolsInv h).priced hpos
  simp only [List.mem_cons, List.not_mem_nil, or_false] at hk
  rcases hk with rfl | rfl
  · exact hpo.builtins _ (melSym_mem_builtinsOf _)
  · exact hpo.builtins _ (melErg_mem_builtinsOf _)

/-- … and so does the ERG/SYM pool when TIP-902 was active in the block sealed last.  (In the block in which
    TIP-902 activates the pool is only created when that block is sealed: `prevTip902`, not `tip902`.) -/
theorem C16_ergsym_reachable {env : Env} {s : State} (h : ReachableB env s) (hpos : 0 < s.height)
    (h902 : prevTip902 s = true) :
    ∃ p, s.pools.get poolErgSym = some p ∧ 0 < p.lefts ∧ 0 < p.rights ∧ 0 < p.liqs := by
  have hpo := (reachableB_poolsInv h).priced hpos
  exact hpo.builtins _ (by rw [h902]; simp [builtinsOf])

/-- all builtin pools that were due in the block sealed last, in one statement -/
theorem C16_builtins_due_reachable {env : Env} {s : State} (h : ReachableB env s) (hpos : 0 < s.height) :
    ∀ k ∈ builtinsOf (prevTip902 s),
      ∃ p, s.pools.get k = some p ∧ 0 < p.lefts ∧ 0 < p.rights ∧ 0 < p.liqs :=
  ((reachableB_poolsInv h).priced hpos).builtins

/-- monotonicity of TIP-902 in the height: if the flag is on in some state of the same network at a smaller
    height (e.g. an earlier state of the history), it was on in the block sealed last -/
theorem prevTip902_of_earlier {s s0 : State} (hn : s.network = s0.network) (hh : s0.height < s.height)
    (h : s0.tip902 = true) : prevTip902 s = true :=
  ReachL.tipCondition_mono (s := s0) (s' := { s with height := s.height - 1 }) hn
    (by show s0.height ≤ s.height - 1; omega) _ h

/-- … and then it is on now -/
theorem tip902_of_prevTip902 {s : State} (h : prevTip902 s = true) : s.tip902 = true :=
  ReachL.tipCondition_mono (s := { s with height := s.height - 1 }) (s' := s) rfl
    (by show s.height - 1 ≤ s.height; omega) _ h

/-- off mainnet and testnet TIP-902 is active from the start -/
theorem prevTip902_custom {s : State} (h1 : s.network ≠ .mainnet) (h2 : s.network ≠ .testnet) :
    prevTip902 s = true := by
  show State.tipCondition _ TIP_902_HEIGHT = true
  unfold State.tipCondition
  rw [if_neg (by decide), if_neg h1, if_neg h2]

/-- on mainnet TIP-902 was active in the block sealed last iff the height is past the activation height -/
theorem prevTip902_mainnet {s : State} (h : s.network = .mainnet) :
    prevTip902 s = true ↔ TIP_902_HEIGHT < s.height := by
  show State.tipCondition _ TIP_902_HEIGHT = true ↔ _
  unfold State.tipCondition
  rw [if_neg (by decide), if_pos h]
  rw [decide_eq_true_iff]
  show s.height - 1 ≥ TIP_902_HEIGHT ↔ _
  unfold TIP_902_HEIGHT
  omega

/-- the ERG/SYM pool once a state in which TIP-902 is active has been sealed: `s0` any state of the same
    network at a smaller height with the flag on -/
theorem C16_ergsym_reachable_after {env : Env} {s s0 : State} (h : ReachableB env s)
    (hn : s.network = s0.network) (hh : s0.height < s.height) (h902 : s0.tip902 = true) :
    ∃ p, s.pools.get poolErgSym = some p ∧ 0 < p.lefts ∧ 0 < p.rights ∧ 0 < p.liqs :=
  C16_ergsym_reachable h (by omega) (prevTip902_of_earlier hn hh h902)

/-! ### non-vacuity: a concrete history genesis → batch → block (→ block) -/

namespace C09ReachWitness
open ReachWitness (env cfg u getOk eq_getOk)

/-- the state after the batch `[u]` (`u` a swap transaction spending the initial coin) -/
def s1 : State := getOk (applyBatch env (genesisState cfg) [u] default)
def ss1 : Sealed := getOk (sealState env s1 none)
def s2 : State := getOk (nextUnsealed env ss1)
def ss2 : Sealed := getOk (sealState env s2 none)
def s3 : State := getOk (nextUnsealed env ss2)

theorem batch_ok : applyBatch env (genesisState cfg) [u] default = .ok s1 := eq_getOk (by decide +kernel)
theorem seal1_ok : sealState env s1 none = .ok ss1 := eq_getOk (by decide +kernel)
theorem next1_ok : nextUnsealed env ss1 = .ok s2 := eq_getOk (by decide +kernel)
theorem seal2_ok : sealState env s2 none = .ok ss2 := eq_getOk (by decide +kernel)
theorem next2_ok : nextUnsealed env ss2 = .ok s3 := eq_getOk (by decide +kernel)

theorem batchFresh : BatchFresh (genesisState cfg) [u] := by
  refine ⟨by decide, ?_⟩
  intro x hx i
  simp only [List.mem_cons, List.not_mem_nil, or_false] at hx
  subst hx
  show (CoinMap.insertCoin {} ⟨zeroHash, 0⟩ _ _).getCoin ⟨u.hash, i⟩ = none
  rw [CoinMap.getCoin_insertCoin, if_neg]
  · rfl
  · intro e; injection e with e1; exact absurd e1 (by decide)

theorem markerFresh : MarkerFresh env (genesisState cfg) [u] := by
  intro f hf hk
  simp only [List.mem_cons, List.not_mem_nil, or_false] at hf
  subst hf
  exact absurd hk (by decide)

theorem rewardFresh1 : RewardFresh env s1 := by unfold RewardFresh; decide +kernel
theorem rewardFresh2 : RewardFresh env s2 := by unfold RewardFresh; decide +kernel

theorem s1_reachable : ReachableB env s1 := .batch (.genesis cfg) batchFresh markerFresh batch_ok

/-- the bounds hold of the state with the swap in its block -/
theorem s1_bounds : SealBounds s1 := by
  refine ⟨by decide +kernel, ?_, by decide +kernel, by decide +kernel⟩
  intro p hp
  have hpools : s1.pools = [] := BackL.applyBatch_pools batch_ok
  rw [hpools] at hp
  cases hp

theorem s2_reachable : ReachableB env s2 := .block s1_reachable rewardFresh1 s1_bounds seal1_ok next1_ok

/-- … and of the next state, in which the builtin pools exist (the MEL/SYM pool after the swap) -/
theorem s2_bounds : SealBounds s2 := by
  refine ⟨by decide +kernel, ?_, by decide +kernel, by decide +kernel⟩
  intro p hp
  have h : (match s2.pools.get poolMelSym with
      | some p => decide (p.lefts ≤ 2 ^ 125)
      | none => true) = true := by decide +kernel
  rw [hp] at h
  exact of_decide_eq_true h

theorem s3_reachable : ReachableB env s3 := .block s2_reachable rewardFresh2 s2_bounds seal2_ok next2_ok

theorem heights : s1.height = 0 ∧ s1.txs = [u] ∧ s2.height = 1 ∧ s3.height = 2 := by decide +kernel

end C09ReachWitness

/-- 7. **non-vacuity**: for a literal environment and genesis configuration, a `ReachableB` state of height 1
    (genesis → a batch with a swap transaction → block) and one of height 2 (→ another block); the states that are
    sealed on the way satisfy `SealBounds` (and `RewardFresh`), so every theorem above has its hypotheses met:
    by `s1` (height 0, a swap in its block) and by `s2` (height 1, the builtin pools in place) -/
theorem reachableB_nonvacuous :
    ∃ (env : Env) (s1 s2 s3 : State), ReachableB env s1 ∧ SealBounds s1 ∧ RewardFresh env s1 ∧ s1.txs ≠ [] ∧
      ReachableB env s2 ∧ SealBounds s2 ∧ RewardFresh env s2 ∧ s2.height = 1 ∧
      ReachableB env s3 ∧ s3.height = 2 :=
  open C09ReachWitness in
  ⟨ReachWitness.env, s1, s2, s3, s1_reachable, s1_bounds, rewardFresh1, by rw [heights.2.1]; exact List.cons_ne_nil _ _,
    s2_reachable, s2_bounds, rewardFresh2, heights.2.2.1, s3_reachable, heights.2.2.2⟩

/-- non-vacuity of the C16 statements: the height-1 state of the witness has all three builtin pools (the
    network is a custom one, TIP-902 is active from the start) -/
theorem C16_builtins_reachable_nonvacuous :
    ∃ (env : Env) (s : State), ReachableB env s ∧ 0 < s.height ∧ prevTip902 s = true ∧
      ∀ k ∈ [poolMelSym, poolMelErg, poolErgSym],
        ∃ p, s.pools.get k = some p ∧ 0 < p.lefts ∧ 0 < p.rights ∧ 0 < p.liqs := by
  open C09ReachWitness in
  have hpos : 0 < s2.height := by rw [heights.2.2.1]; exact Nat.one_pos
  have h902 : prevTip902 s2 = true := by decide +kernel
  refine ⟨ReachWitness.env, s2, s2_reachable, hpos, h902, ?_⟩
  intro k hk
  simp only [List.mem_cons, List.not_mem_nil, or_false] at hk
  rcases hk with rfl | rfl | rfl
  · exact C16_builtins_reachable s2_reachable hpos _ (by simp)
  · exact C16_builtins_reachable s2_reachable hpos _ (by simp)
  · exact C16_ergsym_reachable s2_reachable hpos h902

/-- non-vacuity of `C09_step_total_reachable`: its hypotheses hold for the batch `[u]` on the genesis state of
    the witness (TIP-906 is active there; `C09_step_pre906` below is a state where it is not) -/
example : ∀ c, applyBatch ReachWitness.env (genesisState ReachWitness.cfg) [ReachWitness.u] default ≠ .crash c :=
  C09_step_total_reachable _ _ _ _ (.genesis _) C09ReachWitness.batchFresh (by decide +kernel)
    (fun _ _ _ _ h => absurd rfl h) (fun _ _ _ _ _ _ h => absurd rfl h)

/-- … and before TIP-906: the genesis state of a mainnet configuration is reachable, TIP-906 is not active in it,
    and `C09_step_total_reachable` applies to it (`C09_apply_total_reachable` does not) -/
theorem C09_step_pre906 (env : Env) (cfg : GenesisConfig) (hn : cfg.network = .mainnet) :
    ReachableB env (genesisState cfg) ∧ (genesisState cfg).tip906 = false := by
  refine ⟨.genesis cfg, ?_⟩
  show State.tipCondition _ TIP_906_HEIGHT = false
  unfold State.tipCondition
  rw [if_neg (by decide)]
  show (if cfg.network = NetID.mainnet then decide ((0 : Nat) ≥ TIP_906_HEIGHT) else _) = false
  rw [if_pos hn]
  decide

end Mel

#print axioms Mel.ReachableB.sep
#print axioms Mel.reachableB_poolsInv
#print axioms Mel.reachableB_poolsSane
#print axioms Mel.reachableB_sealPre
#print axioms Mel.C09_seal_ok_priced_reachable
#print axioms Mel.C09_seal_ok_reachable
#print axioms Mel.C09_seal_total_reachable
#print axioms Mel.C09_block_total_reachable
#print axioms Mel.C09_apply_total_sep
#print axioms Mel.C09_step_total_reachable
#print axioms Mel.C09_total_reachable
#print axioms Mel.C16_builtins_reachable
#print axioms Mel.C16_ergsym_reachable
#print axioms Mel.C16_builtins_due_reachable
#print axioms Mel.C16_ergsym_reachable_after
#print axioms Mel.prevTip902_of_earlier
#print axioms Mel.tip902_of_prevTip902
#print axioms Mel.prevTip902_custom
#print axioms Mel.prevTip902_mainnet
#print axioms Mel.reachableB_nonvacuous
#print axioms Mel.C16_builtins_reachable_nonvacuous
#print axioms Mel.C09_step_pre906
