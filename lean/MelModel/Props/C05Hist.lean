/-
  C05, over blocks and histories — the exact accounting of the two fee accumulators (`fee_pool`, `tips`) across ONE
  block of the chain (an accepted batch, the seal, the opening of the next block), as a corollary of the one-step
  theorems of Props/C05.lean (`C05_split_exact`, `C05_reward`, `C05_seal_structure`), and what follows along any
  run of the chain (`ChainRun`, Props/C13Life.lean).  Property theorems only; helper lemmas live in
  MelModel/Lemmas/FeeHistL.lean (and Lemmas/Restart.lean: Melmint and the subsidy leave `tips` alone).

  The quantities: sealing a state `u` first runs Melmint (`presealMelmint env u = .ok s1`; `s1.feePool = u.feePool`,
  `s1.tips = u.tips`), then — once TIP-909 is active — the block subsidy (`applyTip909 s1 = .ok s2`; it swaps freshly
  made SYM into the MEL/SYM pool and adds the MEL it gets to the fee pool: `u.feePool ≤ s2.feePool`, tips untouched).
  `s2` is "the state after Melmint and the subsidy"; with a proposer action the reward `s2.feePool / 65536 + u.tips`
  leaves the two accumulators for a new coin, without an action nothing else happens.  `next_unsealed` keeps both
  accumulators and the coins.

  Contents: `C05_block_fees_action`, `C05_block_fees_none`, `C05_block_exact` (batch + seal with action + next:
  fee pool + tips + reward = fee pool + tips before + fees paid + subsidy), `C05_block_exact_none`,
  `C05_tips_zero_after_action`, `ActionRun`, `C05_tips_zero_block_start`, `C05_tips_zero_from_genesis`, non-vacuity
  `C05_block_exact_nonvacuous`, and `C05_tips_carried_without_action` (why the action matters).
-/
import MelModel.Props.C05
import MelModel.Props.C13Life
import MelModel.Props.Reach
import MelModel.Lemmas.FeeHistL
namespace Mel
open Mel.Gen

/-- **one sealed block with a proposer action, fee side**: with `s2` the state after Melmint and the subsidy
    (fee pool at least that of `u`, tips those of `u`), the block that opens next starts with ZERO tips, its fee
    pool is the post-subsidy fee pool less one 65536th, and the coin `proposer_reward(height)` holds exactly what
    left the two accumulators: `s2.feePool / 65536 + u.tips`, in MEL, to the action's destination -/
theorem C05_block_fees_action (env : Env) (u : State) (a : ProposerAction) (ss : Sealed) (s' : State)
    (hs : sealState env u (some a) = .ok ss) (hn : nextUnsealed env ss = .ok s') :
    ∃ s1 s2, presealMelmint env u = .ok s1 ∧ (if s1.tip909 then applyTip909 s1 else .ok s1) = .ok s2 ∧
      s1.feePool = u.feePool ∧ u.feePool ≤ s2.feePool ∧ s2.tips = u.tips ∧
      s'.tips = 0 ∧
      s'.feePool + s2.feePool / 65536 = s2.feePool ∧
      s'.coins.getCoin { txhash := env.rewardId u.height, index := 0 } =
        some { coinData := { covhash := a.rewardDest, value := s2.feePool / 65536 + u.tips, denom := .mel,
                             additionalData := [] }, height := u.height } ∧
      s'.feePool + s'.tips + (s2.feePool / 65536 + u.tips) = s2.feePool + u.tips := by
  obtain ⟨s1, s2, h1, h2, _, h3⟩ := C05_seal_structure env u (some a) ss hs
  simp only at h3
  obtain ⟨r1, r2, r3, -⟩ := C05_reward env _ ss.st a h3
  obtain ⟨n1, n2, -⟩ := FeeHistL.nextUnsealed_fee hn
  have f1 := FeeHistL.presealMelmint_fee env u s1 h1
  have t1 : s1.tips = u.tips := presealMelmint_tips env u s1 h1
  have hh1 := (presealMelmint_hhn env u s1 h1).2.1
  have f2 : s1.feePool ≤ s2.feePool ∧ s2.tips = s1.tips ∧ s2.height = s1.height := by
    split at h2
    · exact ⟨FeeHistL.applyTip909_fee s1 s2 h2, applyTip909_tips s1 s2 h2, (applyTip909_hhn s1 s2 h2).2.1⟩
    · cases h2; exact ⟨Nat.le_refl _, rfl, rfl⟩
  have t2 : s2.tips = u.tips := f2.2.1.trans t1
  have hh2 : s2.height = u.height := f2.2.2.trans hh1
  have r1' : s'.coins.getCoin { txhash := env.rewardId u.height, index := 0 } =
      some { coinData := { covhash := a.rewardDest, value := s2.feePool / 65536 + u.tips, denom := .mel,
                           additionalData := [] }, height := u.height } := by
    rw [FeeHistL.nextUnsealed_getCoin hn]
    have := r1
    simp only [rewardCoin, hh2, t2] at this
    exact this
  have r2' : s'.feePool + s2.feePool / 65536 = s2.feePool := by rw [n1]; exact r2
  refine ⟨s1, s2, h1, h2, f1, f1 ▸ f2.1, t2, by rw [n2]; exact r3, r2', r1', ?_⟩
  rw [n2, r3]
  omega

/-- **one sealed block without a proposer action, fee side**: tips are carried over unchanged, the fee pool is the
    post-subsidy fee pool; no reward coin is made -/
theorem C05_block_fees_none (env : Env) (u : State) (ss : Sealed) (s' : State)
    (hs : sealState env u none = .ok ss) (hn : nextUnsealed env ss = .ok s') :
    ∃ s1 s2, presealMelmint env u = .ok s1 ∧ (if s1.tip909 then applyTip909 s1 else .ok s1) = .ok s2 ∧
      s1.feePool = u.feePool ∧ u.feePool ≤ s2.feePool ∧
      s'.tips = u.tips ∧ s'.feePool = s2.feePool ∧
      ∀ id, s'.coins.getCoin id = s2.coins.getCoin id := by
  obtain ⟨s1, s2, h1, h2, _, h3⟩ := C05_seal_structure env u none ss hs
  simp only at h3
  obtain ⟨n1, n2, -⟩ := FeeHistL.nextUnsealed_fee hn
  have f1 := FeeHistL.presealMelmint_fee env u s1 h1
  have t1 : s1.tips = u.tips := presealMelmint_tips env u s1 h1
  have f2 : s1.feePool ≤ s2.feePool ∧ s2.tips = s1.tips := by
    split at h2
    · exact ⟨FeeHistL.applyTip909_fee s1 s2 h2, applyTip909_tips s1 s2 h2⟩
    · cases h2; exact ⟨Nat.le_refl _, rfl⟩
  refine ⟨s1, s2, h1, h2, f1, f1 ▸ f2.1, ?_, ?_, ?_⟩
  · rw [n2, h3, f2.2, t1]
  · rw [n1, h3]
  · intro id; rw [FeeHistL.nextUnsealed_getCoin hn, h3]

/-- **exact accounting of one whole block** (batch, seal with a proposer action, next block): what the two
    accumulators hold when the next block opens, plus the proposer's reward, is what they held before the batch plus
    every fee paid by the batch plus the block subsidy's MEL (`s2.feePool - u.feePool`, zero before TIP-909).
    Nothing is lost to rounding: the 65536th is subtracted from the pool exactly as it is added to the coin.
    `hp`, `ht`, `hcap` (no u128 saturation in the batch) are those of `C05_split_exact`. -/
theorem C05_block_exact (env : Env) (s u : State) (txs : List Tx) (fb : Header) (a : ProposerAction)
    (ss : Sealed) (s' : State)
    (hb : applyBatch env s txs fb = .ok u) (hs : sealState env u (some a) = .ok ss)
    (hn : nextUnsealed env ss = .ok s')
    (hp : s.feePool ≤ U128_MAX) (ht : s.tips ≤ U128_MAX)
    (hcap : s.feePool + s.tips + (txs.map (·.fee)).sum ≤ U128_MAX) :
    ∃ s1 s2, presealMelmint env u = .ok s1 ∧ (if s1.tip909 then applyTip909 s1 else .ok s1) = .ok s2 ∧
      u.feePool ≤ s2.feePool ∧ s'.tips = 0 ∧
      s'.coins.getCoin { txhash := env.rewardId u.height, index := 0 } =
        some { coinData := { covhash := a.rewardDest, value := s2.feePool / 65536 + u.tips, denom := .mel,
                             additionalData := [] }, height := u.height } ∧
      s'.feePool + s'.tips + (s2.feePool / 65536 + u.tips) =
        s.feePool + s.tips + (txs.map (·.fee)).sum + (s2.feePool - u.feePool) := by
  obtain ⟨s1, s2, h1, h2, _, f2, _, t0, _, r1, tot⟩ := C05_block_fees_action env u a ss s' hs hn
  have hx := C05_split_exact env s u txs fb hb hp ht hcap
  refine ⟨s1, s2, h1, h2, f2, t0, r1, ?_⟩
  omega

/-- … and without a proposer action: everything stays in the two accumulators -/
theorem C05_block_exact_none (env : Env) (s u : State) (txs : List Tx) (fb : Header)
    (ss : Sealed) (s' : State)
    (hb : applyBatch env s txs fb = .ok u) (hs : sealState env u none = .ok ss)
    (hn : nextUnsealed env ss = .ok s')
    (hp : s.feePool ≤ U128_MAX) (ht : s.tips ≤ U128_MAX)
    (hcap : s.feePool + s.tips + (txs.map (·.fee)).sum ≤ U128_MAX) :
    ∃ s1 s2, presealMelmint env u = .ok s1 ∧ (if s1.tip909 then applyTip909 s1 else .ok s1) = .ok s2 ∧
      u.feePool ≤ s2.feePool ∧ s'.tips = u.tips ∧
      s'.feePool + s'.tips = s.feePool + s.tips + (txs.map (·.fee)).sum + (s2.feePool - u.feePool) := by
  obtain ⟨s1, s2, h1, h2, _, f2, t0, f0, _⟩ := C05_block_fees_none env u ss s' hs hn
  have hx := C05_split_exact env s u txs fb hb hp ht hcap
  refine ⟨s1, s2, h1, h2, f2, t0, ?_⟩
  omega

/-! ### over runs -/

/-- **after any block sealed WITH a proposer action the next open block starts with zero tips** — wherever in a
    history (`ChainRun`) the block sits, and whatever the run did before -/
theorem C05_tips_zero_after_action (env : Env) (s m s' : State) (ss : Sealed) (a : ProposerAction)
    (_hrun : ChainRun env s m) (hs : sealState env m (some a) = .ok ss) (hn : nextUnsealed env ss = .ok s') :
    s'.tips = 0 ∧ s'.txs = [] := by
  obtain ⟨_, _, _, _, _, _, _, t0, _⟩ := C05_block_fees_action env m a ss s' hs hn
  exact ⟨t0, FeeHistL.nextUnsealed_txs hn⟩

/-- a run of the chain every block of which is sealed with a proposer action (as every block of a real chain is:
    `apply_block` of a block carrying its proposer's action) -/
inductive ActionRun (env : Env) : State → State → Prop
  | refl (s : State) : ActionRun env s s
  | batch {s m s' : State} {txs : List Tx} {fb : Header} :
      ActionRun env s m → applyBatch env m txs fb = .ok s' → ActionRun env s s'
  | block {s m s' : State} {ss : Sealed} {a : ProposerAction} :
      ActionRun env s m → sealState env m (some a) = .ok ss → nextUnsealed env ss = .ok s' → ActionRun env s s'

theorem ActionRun.toRun {env : Env} {s s' : State} (h : ActionRun env s s') : ChainRun env s s' := by
  induction h with
  | refl => exact .refl _
  | batch _ hb ih => exact .step ih (.batch hb)
  | block _ hs hn ih => exact .step ih (.block hs hn)

/-- **the invariant over runs**: along a run whose blocks all carry a proposer action, a block without transactions
    has no tips — tips are only ever what the transactions of the CURRENT block paid above their minimum fee; every
    seal hands all of them to the proposer -/
theorem C05_tips_zero_block_start (env : Env) (s s' : State) (hrun : ActionRun env s s')
    (h0 : s.txs = [] → s.tips = 0) : s'.txs = [] → s'.tips = 0 := by
  induction hrun with
  | refl => exact h0
  | @batch m s' txs fb _ hb ih =>
    intro hnil
    obtain ⟨e1, e2⟩ := FeeHistL.applyBatch_txs_nil hb hnil
    subst e1
    have hsame : applyBatch env m [] fb = .ok m := rfl
    rw [hsame] at hb
    cases hb
    exact ih e2
  | @block m s' ss a hr hs hn _ =>
    intro _
    exact (C05_tips_zero_after_action env s m s' ss a hr.toRun hs hn).1

/-- … in particular from a genesis state -/
theorem C05_tips_zero_from_genesis (env : Env) (cfg : GenesisConfig) (s' : State)
    (hrun : ActionRun env (genesisState cfg) s') : s'.txs = [] → s'.tips = 0 :=
  C05_tips_zero_block_start env (genesisState cfg) s' hrun (fun _ => rfl)

/-! ### non-vacuity, and why the proposer action matters -/

namespace C05HistWitness
open ReachWitness

/-- an ordinary transaction spending the initial coin of `ReachWitness.cfg` (5 MEL): 3 MEL out, 2 MEL fee; the fee
    multiplier is 0, so the minimum fee is 0 and all of the fee is a tip -/
def pz : Tx := {
  kind := .normal, inputs := [⟨zeroHash, 0⟩], outputs := [(⟨[8], 3, .mel, []⟩ : CoinData)], fee := 2,
  covenants := [C03Witness.cov], data := [], sigs := [], hash := [4], rawLen := 0, covHashes := [[7]] }

def act : ProposerAction := { feeMultiplierDelta := 0, rewardDest := [6] }

def q1 : State := getOk (applyBatch env (genesisState cfg) [pz] default)
def qs : Sealed := getOk (sealState env q1 (some act))
def q2 : State := getOk (nextUnsealed env qs)
def ns : Sealed := getOk (sealState env q1 none)
def n2 : State := getOk (nextUnsealed env ns)

theorem batch_ok : applyBatch env (genesisState cfg) [pz] default = .ok q1 := eq_getOk (by decide +kernel)
theorem seal_ok : sealState env q1 (some act) = .ok qs := eq_getOk (by decide +kernel)
theorem next_ok : nextUnsealed env qs = .ok q2 := eq_getOk (by decide +kernel)
theorem sealNone_ok : sealState env q1 none = .ok ns := eq_getOk (by decide +kernel)
theorem nextNone_ok : nextUnsealed env ns = .ok n2 := eq_getOk (by decide +kernel)

end C05HistWitness

/-- non-vacuity of `C05_block_exact` (and of `ActionRun` / `C05_tips_zero_from_genesis`): from a genesis state, a
    batch whose one transaction pays 2 MEL of fee (all of it a tip), sealed with a proposer action.  The subsidy
    brings the fee pool to 1038173; the proposer's coin holds 1038173 / 65536 + 2 = 17 MEL, the next block opens
    with a fee pool of 1038158 and no tips: 1038158 + 0 + 17 = 0 + 0 + 2 + 1038173. -/
theorem C05_block_exact_nonvacuous :
    ∃ (env : Env) (cfg : GenesisConfig) (u : State) (txs : List Tx) (fb : Header) (a : ProposerAction)
      (ss : Sealed) (s' : State),
      applyBatch env (genesisState cfg) txs fb = .ok u ∧ sealState env u (some a) = .ok ss ∧
      nextUnsealed env ss = .ok s' ∧ ActionRun env (genesisState cfg) s' ∧
      (genesisState cfg).feePool + (genesisState cfg).tips + (txs.map (·.fee)).sum ≤ U128_MAX ∧
      (txs.map (·.fee)).sum = 2 ∧ u.feePool = 0 ∧ u.tips = 2 ∧ s'.feePool = 1038158 ∧ s'.tips = 0 ∧ s'.txs = [] ∧
      s'.coins.getCoin { txhash := env.rewardId u.height, index := 0 } =
        some { coinData := { covhash := a.rewardDest, value := 17, denom := .mel, additionalData := [] },
               height := 0 } := by
  open C05HistWitness in
  exact ⟨ReachWitness.env, ReachWitness.cfg, q1, [pz], default, act, qs, q2, batch_ok, seal_ok, next_ok,
    .block (.batch (.refl _) batch_ok) seal_ok next_ok, by decide +kernel, by decide +kernel, by decide +kernel,
    by decide +kernel, by decide +kernel, by decide +kernel, by decide +kernel, by decide +kernel⟩

/-- **why `C05_tips_zero_block_start` is about runs whose blocks carry an action**: the same batch sealed WITHOUT a
    proposer action — a `ChainRun` from the same genesis state — opens the next block with no transaction and the
    2 MEL of tips still pending (they go to the proposer of a later block) -/
theorem C05_tips_carried_without_action :
    ∃ (env : Env) (cfg : GenesisConfig) (s' : State), ChainRun env (genesisState cfg) s' ∧
      (genesisState cfg).tips = 0 ∧ s'.txs = [] ∧ s'.tips = 2 := by
  open C05HistWitness in
  exact ⟨ReachWitness.env, ReachWitness.cfg, n2,
    .step (.step (.refl _) (.batch batch_ok)) (.block sealNone_ok nextNone_ok), rfl, by decide +kernel,
    by decide +kernel⟩

end Mel

#print axioms Mel.C05_block_fees_action
#print axioms Mel.C05_block_fees_none
#print axioms Mel.C05_block_exact
#print axioms Mel.C05_block_exact_none
#print axioms Mel.C05_tips_zero_after_action
#print axioms Mel.ActionRun.toRun
#print axioms Mel.C05_tips_zero_block_start
#print axioms Mel.C05_tips_zero_from_genesis
#print axioms Mel.C05_block_exact_nonvacuous
#print axioms Mel.C05_tips_carried_without_action
