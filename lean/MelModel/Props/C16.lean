/-
  C16 — Built-in pools always exist with reserves; liquidity tokens stay fully backed.
  Property theorems only; helper lemmas live in MelModel/Lemmas/Pools.lean.
-/
import MelModel.Seal
import MelModel.Lemmas.Pools
import MelModel.Lemmas.TotalSeal
namespace Mel
open Mel.Gen

/-- the builtin pools of a state (ERG/SYM only once TIP-902 is active) -/
def builtinKeys (s : State) : List PoolKey := [poolMelSym, poolMelErg] ++ (if s.tip902 then [poolErgSym] else [])

def HasReserves (p : PoolState) : Prop := 0 < p.lefts ∧ 0 < p.rights

/-- pools of a state are sane: every pool that has issued liquidity has reserves on both sides, and the
    builtin pools that exist have reserves and at least the nobody-owned initial liquidity -/
def PoolsSane (s : State) : Prop :=
  (∀ k p, s.pools.get k = some p → p.liqs ≠ 0 → HasReserves p) ∧
  (∀ k ∈ [poolMelSym, poolMelErg, poolErgSym], ∀ p, s.pools.get k = some p → HasReserves p ∧ 0 < p.liqs)

/-- what `create_builtins` leaves under each builtin key: the pool that was there when it records liquidity,
    the default pool when it was absent or records no liquidity at all (the `fix:` for finding F23) -/
theorem createBuiltins_get_builtin (s : State) (k : PoolKey) (hk : k ∈ builtinKeys s) :
    (createBuiltins s).pools.get k = some (fixedPool (s.pools.get k)) := by
  apply createBuiltins_get_fixed
  unfold builtinKeys at hk
  rcases List.mem_append.mp hk with hk | hk
  · simp only [List.mem_cons, List.not_mem_nil, or_false] at hk
    rcases hk with rfl | rfl
    · exact Or.inl rfl
    · exact Or.inr (Or.inl rfl)
  · split at hk
    · next ht =>
      simp only [List.mem_cons, List.not_mem_nil, or_false] at hk
      exact Or.inr (Or.inr ⟨ht, hk⟩)
    · cases hk

/-- `create_builtins` makes every builtin pool exist, with the default reserves when it was missing or held no
    liquidity at all, and unchanged when it records liquidity -/
theorem C16_builtins_created (s : State) (k : PoolKey) (hk : k ∈ builtinKeys s) :
    ∃ p, (createBuiltins s).pools.get k = some p ∧
      (s.pools.get k = none → p = builtinDefault) ∧
      (∀ q, s.pools.get k = some q → q.liqs = 0 → p = builtinDefault) ∧
      (∀ q, s.pools.get k = some q → q.liqs ≠ 0 → p = q) := by
  refine ⟨_, createBuiltins_get_builtin s k hk, ?_, ?_, ?_⟩
  · intro h; rw [h]; rfl
  · intro q h hq; rw [h]; simp [fixedPool, hq]
  · intro q h hq; rw [h]; simp [fixedPool, hq]

/-- after `create_builtins` every builtin pool records liquidity (whatever the state was) -/
theorem C16_builtins_have_liquidity (s : State) (k : PoolKey) (hk : k ∈ builtinKeys s) :
    ∃ p, (createBuiltins s).pools.get k = some p ∧ p.liqs ≠ 0 :=
  ⟨_, createBuiltins_get_builtin s k hk, fixedPool_liqs_ne _⟩

/-- a builtin pool whose only depositors withdrew everything is created afresh -/
theorem C16_emptied_builtin_recreated (s : State) (k : PoolKey) (p : PoolState) (hk : k ∈ builtinKeys s)
    (hp : s.pools.get k = some p) (hz : p.liqs = 0) :
    (createBuiltins s).pools.get k = some builtinDefault := by
  rw [createBuiltins_get_builtin s k hk, hp]
  simp [fixedPool, hz]

/-- what was wrong before the `fix:` commit (finding F23), in general: once TIP-902 is active, pegging on a state
    whose ERG/SYM pool has an empty SYM side crashes (the implied price is a fraction with denominator zero) -/
theorem C16_pegging_crashes_on_empty_ergsym (s : State) (p : PoolState) (ht : s.tip902 = true)
    (hp : s.pools.get poolErgSym = some p) (hr : p.rights = 0) :
    processPegging s = .crash "melswap.rs: implied_price Ratio::new(_, 0)" := by
  unfold processPegging
  simp only [ht, hp, if_true, Outcome.bind, hr]

/-- a small state at the TIP-902 activation height of the main network: the two old builtin pools as created,
    and an ERG/SYM pool whose only depositor has withdrawn everything (`withdraw` leaves (0, 0, _, 0)) -/
def emptiedErgSymState : State :=
  { (default : State) with
    network := .mainnet
    height := TIP_902_HEIGHT
    pools := [(poolMelSym, builtinDefault), (poolMelErg, builtinDefault),
              (poolErgSym, { lefts := 0, rights := 0, priceAccum := 7, liqs := 0 })] }

/-- what was wrong before the `fix:` commit (finding F23), on a concrete state: the old `create_builtins` only
    looked at whether the ERG/SYM pool existed, so it left the emptied pool as it was — and pegging on a state
    whose pools are left as they are crashes at the TIP-902 activation height -/
theorem C16_old_emptied_ergsym_crashes :
    emptiedErgSymState.tip902 = true ∧
    (emptiedErgSymState.pools.get poolErgSym).isNone = false ∧
    processPegging emptiedErgSymState = .crash "melswap.rs: implied_price Ratio::new(_, 0)" := by
  have ht : emptiedErgSymState.tip902 = true := by decide
  have hp : emptiedErgSymState.pools.get poolErgSym =
      some { lefts := 0, rights := 0, priceAccum := 7, liqs := 0 } := by decide
  exact ⟨ht, by rw [hp]; rfl, C16_pegging_crashes_on_empty_ergsym _ _ ht hp rfl⟩

/-- the same state after the `fix:`: `create_builtins` puts the default ERG/SYM pool back, so pegging reads
    reserves of 10^9 on both sides -/
theorem C16_emptied_ergsym_fixed :
    (createBuiltins emptiedErgSymState).pools.get poolErgSym = some builtinDefault :=
  C16_emptied_builtin_recreated _ _ _ (by decide) (by decide : emptiedErgSymState.pools.get poolErgSym =
    some { lefts := 0, rights := 0, priceAccum := 7, liqs := 0 }) rfl

/-! ### finding F24: a builtin pool emptied by the withdrawals of the block being sealed

  `create_builtins` ran only at the start of `preseal_melmint`; a builtin pool whose whole liquidity is redeemed in the
  block (the only holder of a user-opened pre-TIP-902 ERG/SYM pool; faucet-minted tokens, K-faucet-liq) left the
  withdrawal phase with no reserves, and pegging (and the TIP-909 subsidy) divided by zero. Since the `fix:` the
  builtin pools are made again after the withdrawal phase. -/

/-- `preseal_melmint` as it was before the `fix:` for finding F24: no second `create_builtins` -/
def presealMelmintOld (env : Env) (s : State) : Outcome State :=
  let s0 := createBuiltins s
  if s0.pools.length < 2 then .crash "assert!(pools.count() >= 2)" else
  (processSwaps s0).bind fun s1 =>
  (processDeposits env s1).bind fun s2 =>
  (processWithdrawals env s2).bind fun s3 =>
  processPegging s3

/-- **the state handed to pegging has every due builtin pool, with liquidity**: a successful `preseal_melmint` went
    through the three settlement phases to some `s3` and then ran the peg adjustment on `createBuiltins s3`, in which
    each builtin pool that is due (MEL/SYM, MEL/ERG, and ERG/SYM once TIP-902 is active) exists and records
    liquidity — whatever the withdrawals of the block did to it -/
theorem C16_builtins_priced_after_withdrawals (env : Env) (s s' : State) (h : presealMelmint env s = .ok s') :
    ∃ s1 s2 s3, processSwaps (createBuiltins s) = .ok s1 ∧ processDeposits env s1 = .ok s2 ∧
      processWithdrawals env s2 = .ok s3 ∧ processPegging (createBuiltins s3) = .ok s' ∧
      ∀ k ∈ builtinKeys s, ∃ p, (createBuiltins s3).pools.get k = some p ∧ p.liqs ≠ 0 := by
  unfold presealMelmint at h
  simp only at h
  split at h
  · cases h
  · obtain ⟨s1, h1, h⟩ := Outcome.bind_eq_ok h
    obtain ⟨s2, h2, h⟩ := Outcome.bind_eq_ok h
    obtain ⟨s3, h3, h⟩ := Outcome.bind_eq_ok h
    refine ⟨s1, s2, s3, h1, h2, h3, h, ?_⟩
    have hs := (((createBuiltins_same s).trans (processSwaps_same _ _ h1)).trans
      (processDeposits_same _ _ _ h2)).trans (processWithdrawals_same _ _ _ h3)
    have hk : builtinKeys s3 = builtinKeys s := by
      unfold builtinKeys State.tip902 State.tipCondition
      rw [hs.2.1, hs.2.2]
    intro k hk'
    exact C16_builtins_have_liquidity s3 k (by rw [hk]; exact hk')

/-- a withdrawal of a pool's WHOLE liquidity leaves it with no reserves and no liquidity (one of more than that is
    skipped by the guard, `C16_withdraw_guard`) -/
theorem C16_full_withdraw_empties (p : PoolState) (hq : p.liqs ≠ 0) :
    p.withdraw p.liqs = .ok ({ p with liqs := 0, lefts := 0, rights := 0 }, p.lefts, p.rights) := by
  unfold PoolState.withdraw
  rw [if_neg (Nat.lt_irrefl _), if_neg hq]
  simp

/-- the withdrawal that empties the ERG/SYM pool: its single output carries all 5000 liquidity tokens of the pool -/
def drainTx (env : Env) : Tx := {
  kind := .liqWithdraw, inputs := [], outputs := [(⟨[7], 5000, liqTokenDenom env poolErgSym, []⟩ : CoinData)],
  fee := 0, covenants := [], data := poolErgSym.toBytes, sigs := [], hash := [2], rawLen := 0, covHashes := [] }

/-- the state of finding F24 (off the main network, so TIP-902 is active): MEL/SYM and MEL/ERG as created, ERG/SYM a
    user-opened pool (5000 ERG, 7000 SYM, 5000 liquidity tokens, none of them nobody-owned), and the block contains
    `drainTx`, which redeems all 5000 tokens; the token coin sits at the transaction's output slot, as
    `get_withdrawal_transactions` requires. (The token denomination is `liqTokenDenom env poolErgSym`, so the state
    is a function of `env`.) -/
def drainedErgSymState (env : Env) : State := {
  network := .custom02, height := 10, history := [],
  coins := { coins := [(⟨[2], 0⟩, ⟨⟨[7], 5000, liqTokenDenom env poolErgSym, []⟩, 10⟩)], counts := [([7], 1)] },
  txs := [drainTx env], feePool := 0, feeMultiplier := 0, tips := 0, doscSpeed := 0,
  pools := [(poolMelSym, builtinDefault), (poolMelErg, builtinDefault),
            (poolErgSym, { lefts := 5000, rights := 7000, priceAccum := 0, liqs := 5000 })],
  stakes := [] }

theorem drained_tip902 (env : Env) : (drainedErgSymState env).tip902 = true := rfl

theorem drained_canon : canonicalPoolKey poolErgSym.toBytes = some poolErgSym := by decide

/-- the first `create_builtins` finds the three pools with liquidity; there is no swap and no deposit in the block -/
theorem drained_builtins (env : Env) : createBuiltins (drainedErgSymState env) = drainedErgSymState env := rfl
theorem drained_swaps (env : Env) : processSwaps (drainedErgSymState env) = .ok (drainedErgSymState env) := rfl
theorem drained_deposits (env : Env) :
    processDeposits env (drainedErgSymState env) = .ok (drainedErgSymState env) := rfl

/-- `drainTx` is selected as a withdrawal request -/
theorem drained_request (env : Env) : isWithdrawRequest env (drainedErgSymState env) (drainTx env) = true := by
  have hc : canonicalPoolKey (drainTx env).data = some poolErgSym := drained_canon
  have hg : ((drainedErgSymState env).coins.getCoin (outCoinID (drainTx env) 0)).isSome = true := rfl
  have hp : ((drainedErgSymState env).pools.get poolErgSym).isSome = true := rfl
  unfold isWithdrawRequest
  rw [show (drainTx env).outputs = [(⟨[7], 5000, liqTokenDenom env poolErgSym, []⟩ : CoinData)] from rfl]
  simp only [hc, hg, hp]
  simp [drainTx]

/-- the state after the withdrawal phase: the reserves are paid out (5000 ERG, 7000 SYM), the pool is empty -/
def drainedAfterWithdrawals (env : Env) : State := {
  network := .custom02, height := 10, history := [],
  coins := { coins := [(⟨[2], 1⟩, ⟨⟨[7], 7000, .sym, []⟩, 10⟩), (⟨[2], 0⟩, ⟨⟨[7], 5000, .erg, []⟩, 10⟩)],
             counts := [([7], 2)] },
  txs := [drainTx env], feePool := 0, feeMultiplier := 0, tips := 0, doscSpeed := 0,
  pools := [(poolErgSym, { lefts := 0, rights := 0, priceAccum := 0, liqs := 0 }),
            (poolMelSym, builtinDefault), (poolMelErg, builtinDefault)],
  stakes := [] }

/-- **the withdrawal phase empties the ERG/SYM pool** (no reserves, no liquidity) -/
theorem C16_drained_withdrawals (env : Env) :
    processWithdrawals env (drainedErgSymState env) = .ok (drainedAfterWithdrawals env) := by
  unfold processWithdrawals
  have hf : (drainedErgSymState env).txs.filter (isWithdrawRequest env (drainedErgSymState env))
      = [drainTx env] := by
    show [drainTx env].filter _ = _
    simp [List.filter, drained_request]
  simp only [hf]
  have hk : extractPoolKeysSorted [drainTx env] = [poolErgSym] := by
    unfold extractPoolKeysSorted
    simp only [List.filterMap, show canonicalPoolKey (drainTx env).data = some poolErgSym from drained_canon]
    rfl
  have ht : transactionsForPool [drainTx env] poolErgSym = [drainTx env] := by
    unfold transactionsForPool
    simp [List.filter, show canonicalPoolKey (drainTx env).data = some poolErgSym from drained_canon]
  rw [hk]
  simp only [Outcome.foldlM', ht]
  -- the one pool: 5000 of 5000 liquidity tokens redeemed, the reserves (5000, 7000) paid out in full
  have hhead : (drainTx env).outputs.headD default = ⟨[7], 5000, liqTokenDenom env poolErgSym, []⟩ := rfl
  have hg : (drainedErgSymState env).pools.get poolErgSym =
      some { lefts := 5000, rights := 7000, priceAccum := 0, liqs := 5000 } := rfl
  have hT : satSum [5000] = 5000 := rfl
  have hw : ({ lefts := 5000, rights := 7000, priceAccum := 0, liqs := 5000 } : PoolState).withdraw 5000 =
      .ok ({ lefts := 0, rights := 0, priceAccum := 0, liqs := 0 }, 5000, 7000) := rfl
  have m1 : multiplyFrac 5000 5000 5000 = .ok 5000 := rfl
  have m2 : multiplyFrac 7000 5000 5000 = .ok 7000 := rfl
  unfold processWithdrawalsForPool
  simp only [hg, List.map, hhead, hT, hw, Outcome.foldlM', m1, m2, Outcome.bind]
  rfl

/-- **before the `fix:` for F24 this seal crashed**: the old pipeline hands the emptied ERG/SYM pool to pegging, whose
    implied price is a fraction with denominator zero -/
theorem C16_old_drained_ergsym_crashes (env : Env) :
    presealMelmintOld env (drainedErgSymState env) = .crash "melswap.rs: implied_price Ratio::new(_, 0)" := by
  unfold presealMelmintOld
  simp only
  rw [drained_builtins, if_neg (show ¬ (drainedErgSymState env).pools.length < 2 by show ¬ 3 < 2; omega),
    drained_swaps]
  simp only [Outcome.bind]
  rw [drained_deposits]
  simp only
  rw [C16_drained_withdrawals]
  exact C16_pegging_crashes_on_empty_ergsym _ { lefts := 0, rights := 0, priceAccum := 0, liqs := 0 } rfl rfl rfl

theorem C16_old_drained_ergsym_crashes' (env : Env) :
    ∃ c, presealMelmintOld env (drainedErgSymState env) = .crash c :=
  ⟨_, C16_old_drained_ergsym_crashes env⟩

/-- **since the `fix:`** the second `create_builtins` puts the default ERG/SYM pool back, and that is the pool pegging
    (and the subsidy) read: `preseal_melmint` on the state is the peg adjustment of a state whose ERG/SYM pool is
    `builtinDefault` -/
theorem C16_drained_ergsym_recreated (env : Env) :
    presealMelmint env (drainedErgSymState env) = processPegging (createBuiltins (drainedAfterWithdrawals env)) ∧
    (createBuiltins (drainedAfterWithdrawals env)).pools.get poolErgSym = some builtinDefault ∧
    (createBuiltins (drainedAfterWithdrawals env)).pools.get poolMelSym = some builtinDefault ∧
    (createBuiltins (drainedAfterWithdrawals env)).pools.get poolMelErg = some builtinDefault := by
  refine ⟨?_, rfl, rfl, rfl⟩
  unfold presealMelmint
  simp only
  rw [drained_builtins, if_neg (show ¬ (drainedErgSymState env).pools.length < 2 by show ¬ 3 < 2; omega),
    drained_swaps]
  simp only [Outcome.bind]
  rw [drained_deposits]
  simp only
  rw [C16_drained_withdrawals]

/-! the standing assumptions of sealing (the fields of `SealTotalPre`, Props/C09Seal.lean) hold of the state -/

theorem drained_counts (env : Env) : CountsOk (drainedErgSymState env).coins := by
  refine ⟨?_, ?_, ?_, ?_⟩
  · show ([⟨[2], 0⟩] : List CoinID).Nodup
    decide
  · show ([[7]] : List Hash).Nodup
    decide
  · intro a
    show (AList.get [(([7] : Hash), 1)] a).getD 0 =
      ([(⟨[2], 0⟩, ⟨⟨[7], 5000, liqTokenDenom env poolErgSym, []⟩, 10⟩)].filter
        fun (e : CoinID × CoinDataHeight) => e.2.coinData.covhash = a).length
    by_cases ha : ([7] : Hash) = a
    · subst ha; simp [AList.get]
    · simp [AList.get, ha]
  · intro e he
    have : e = (([7] : Hash), 1) := by simpa [drainedErgSymState] using he
    rw [this]; decide

theorem drained_faithful (env : Env) : TotalSealL.Faithful (drainedErgSymState env).txs (drainedErgSymState env).coins := by
  intro tx htx i o c ho hc
  have htx' : tx = drainTx env := by simpa [drainedErgSymState] using htx
  subst htx'
  match i with
  | 0 =>
    have e1 : o = ⟨[7], 5000, liqTokenDenom env poolErgSym, []⟩ := by
      have : (drainTx env).outputs[0]? = some ⟨[7], 5000, liqTokenDenom env poolErgSym, []⟩ := rfl
      rw [this] at ho; exact (Option.some.inj ho).symm
    have e2 : c = ⟨⟨[7], 5000, liqTokenDenom env poolErgSym, []⟩, 10⟩ := by
      have : (drainedErgSymState env).coins.getCoin ⟨(drainTx env).hash, 0⟩ =
          some ⟨⟨[7], 5000, liqTokenDenom env poolErgSym, []⟩, 10⟩ := rfl
      rw [this] at hc; exact (Option.some.inj hc).symm
    rw [e1, e2]
  | n + 1 =>
    have : (drainTx env).outputs[n + 1]? = none := rfl
    rw [this] at ho; cases ho

theorem drained_pools (env : Env) (k : PoolKey) (p : PoolState) (h : (drainedErgSymState env).pools.get k = some p) :
    p = builtinDefault ∨ p = { lefts := 5000, rights := 7000, priceAccum := 0, liqs := 5000 } := by
  simp only [drainedErgSymState, AList.get] at h
  split at h
  · cases h; exact Or.inl rfl
  split at h
  · cases h; exact Or.inl rfl
  split at h
  · cases h; exact Or.inr rfl
  · cases h

/-- **the state of finding F24 seals** — for every environment and with or without a proposer action — and in the
    sealed state every builtin pool, the re-created ERG/SYM pool included, has liquidity and reserves on both sides -/
theorem C16_drained_ergsym_seals (env : Env) (a : Option ProposerAction) :
    ∃ ss, sealState env (drainedErgSymState env) a = .ok ss ∧
      ∀ k ∈ [poolMelSym, poolMelErg, poolErgSym],
        ∃ p, ss.st.pools.get k = some p ∧ p.liqs ≠ 0 ∧ 0 < p.lefts ∧ 0 < p.rights := by
  obtain ⟨ss, h, hpo⟩ := sealState_ok_pools env (drainedErgSymState env) a (fun _ => drained_counts env)
    (drained_faithful env) (by show ([[2]] : List Hash).Nodup; decide)
    (fun k p h hl => by rcases drained_pools env k p h with rfl | rfl <;> decide)
    (fun p h => by rcases drained_pools env _ p h with rfl | rfl <;> decide)
    (by
      show (if (liqTokenDenom env poolErgSym) = Denom.mel then 5000 else 0) + 0 ≤ 2 ^ 124
      rw [if_neg (by intro e; cases e)]; decide)
    (by show 0 + 0 + 2 ^ 21 ≤ 2 ^ 127; decide) (by show 10 < TIP_909_HEIGHT + 128 * SUBSIDY_HALVING; decide)
  refine ⟨ss, h, ?_⟩
  intro k hk
  obtain ⟨p, hp, h1, h2, h3⟩ := hpo.builtins k (by rw [drained_tip902]; exact hk)
  exact ⟨p, hp, by omega, h1, h2⟩

/-- a concrete environment for evaluating the witness (the token hash is the identity) -/
def drainEnv : Env := {
  vm := { hash := id, sigOk := fun _ _ _ => true },
  liqHash := id, fdp := fun h => 9 :: h, rewardId := fun _ => [], hdrHash := fun _ => [],
  powOk := fun _ _ _ _ => .invalid, isGrandfathered := fun _ => false,
  historyRoot := fun _ => [], coinsRoot := fun _ => [], txsRoot := fun _ _ => [],
  poolsRoot := fun _ => [], stakesRoot := fun _ => [] }

/-- the same by evaluation, with the values: sealed without an action in `drainEnv`, the ERG/SYM pool is the default
    pool moved by the TIP-909 subsidy swap (4096 SYM in, 4075 ERG out), and the withdrawer holds the old reserves -/
theorem C16_drained_ergsym_sealed_values :
    ∃ ss, sealState drainEnv (drainedErgSymState drainEnv) none = .ok ss ∧
      ss.st.pools.get poolErgSym =
        some { lefts := 999995925, rights := 1000004096, priceAccum := 999991, liqs := 1000000000 } ∧
      ss.st.coins.getCoin ⟨[2], 0⟩ = some ⟨⟨[7], 5000, .erg, []⟩, 10⟩ ∧
      ss.st.coins.getCoin ⟨[2], 1⟩ = some ⟨⟨[7], 7000, .sym, []⟩, 10⟩ := by
  have hv : (match sealState drainEnv (drainedErgSymState drainEnv) none with
      | .ok ss => decide (ss.st.pools.get poolErgSym =
            some { lefts := 999995925, rights := 1000004096, priceAccum := 999991, liqs := 1000000000 } ∧
          ss.st.coins.getCoin ⟨[2], 0⟩ = some ⟨⟨[7], 5000, .erg, []⟩, 10⟩ ∧
          ss.st.coins.getCoin ⟨[2], 1⟩ = some ⟨⟨[7], 7000, .sym, []⟩, 10⟩)
      | _ => false) = true := by decide +kernel
  cases hs : sealState drainEnv (drainedErgSymState drainEnv) none with
  | ok ss => rw [hs] at hv; exact ⟨ss, rfl, of_decide_eq_true hv⟩
  | reject e => rw [hs] at hv; cases hv
  | crash c => rw [hs] at hv; cases hv

theorem C16_default_has_reserves : HasReserves builtinDefault ∧ builtinDefault.liqs = 1000000000 := by
  simp [HasReserves, builtinDefault, MICRO_CONVERTER, BUILTIN_LIQ_MULT]

/-- after a successful seal every builtin pool exists -/
theorem C16_builtins_exist (env : Env) (s : State) (a : Option ProposerAction) (ss : Sealed)
    (h : sealState env s a = .ok ss) (k : PoolKey) (hk : k ∈ builtinKeys s) :
    ∃ p, ss.st.pools.get k = some p := by
  obtain ⟨p, hp, _⟩ := C16_builtins_created s k hk
  have := sealState_grow env s a ss h k (by rw [hp]; rfl)
  exact Option.isSome_iff_exists.mp this

/-- a withdrawal that does not redeem all the liquidity leaves reserves on both sides -/
theorem C16_partial_withdraw_keeps_reserves (p p' : PoolState) (q pl pr : Nat)
    (h : p.withdraw q = .ok (p', pl, pr)) (hr : HasReserves p) (hq : q < p.liqs) :
    HasReserves p' ∧ 0 < p'.liqs := by
  obtain ⟨hl, hrr⟩ := hr
  unfold PoolState.withdraw at h
  simp only at h
  split at h
  · cases h
  · split at h
    · cases h
    · split at h
      · omega
      · cases h
        have hL : p.lefts * q / p.liqs < p.lefts :=
          Nat.div_lt_of_lt_mul (by rw [Nat.mul_comm p.liqs]; exact Nat.mul_lt_mul_of_pos_left hq hl)
        have hR : p.rights * q / p.liqs < p.rights :=
          Nat.div_lt_of_lt_mul (by rw [Nat.mul_comm p.liqs]; exact Nat.mul_lt_mul_of_pos_left hq hrr)
        refine ⟨⟨?_, ?_⟩, ?_⟩ <;> simp only <;> omega

/-- a deposit into a pool with reserves (or an empty pool, with both amounts positive) leaves reserves -/
theorem C16_deposit_keeps_reserves (p p' : PoolState) (l r minted : Nat)
    (h : p.deposit l r = .ok (p', minted)) (hl : 0 < l) (hr : 0 < r)
    (hp : p.liqs ≠ 0 → HasReserves p) : HasReserves p' := by
  unfold PoolState.deposit at h
  simp only at h
  split at h
  · cases h; exact ⟨hl, hr⟩
  · next hne =>
    obtain ⟨hpl, hpr⟩ := hp hne
    split at h
    · cases h
    · cases h
      refine ⟨?_, ?_⟩ <;> simp only <;> omega

/-- the deposit selector only lets through deposits with both amounts positive -/
theorem C16_deposit_amounts_positive (s : State) (tx : Tx) (h : isDepositRequest s tx = true) :
    ∃ o0 o1 rest, tx.outputs = o0 :: o1 :: rest ∧ 0 < o0.value ∧ 0 < o1.value := by
  unfold isDepositRequest at h
  simp only [Bool.and_eq_true] at h
  obtain ⟨_, h⟩ := h
  split at h
  · next o0 o1 rest heq =>
    simp only [Bool.and_eq_true, decide_eq_true_eq] at h
    exact ⟨o0, o1, rest, heq, h.1.1.1.1, h.1.1.1.2⟩
  · cases h

/-- **backing at issue**: the liquidity tokens handed to the depositors of one pool in one block add up to
    no more than the liquidity the pool recorded for them -/
theorem C16_issue_backed (totalLiqs : Nat) (ws : List Nat) (hpos : 0 < ws.sum) (hfit : ws.sum ≤ U128_MAX) :
    (ws.map fun w => min (totalLiqs * w / ws.sum) U128_MAX).sum ≤ totalLiqs := by
  have _ := hfit   -- not needed: the bound holds for any list with a positive sum
  have h := shares_sum_mul_le totalLiqs ws.sum U128_MAX ws
  rw [Nat.mul_comm totalLiqs] at h
  rw [Nat.mul_comm _ ws.sum] at h
  exact Nat.le_of_mul_le_mul_left h hpos

/-- what was wrong before the `fix:` commit (finding F10): with the old denominator ⌊√Σa⌋·⌊√Σb⌋ two (1,1)
    deposits into a fresh pool are issued 2 + 2 tokens against a recorded liquidity of 2 -/
theorem C16_old_overissue :
    let total := 2          -- pool.deposit(2, 2) on an empty pool
    let oldDenominator := Nat.sqrt (1 + 1) * Nat.sqrt (1 + 1)
    (total * (Nat.sqrt 1 * Nat.sqrt 1) / oldDenominator) + (total * (Nat.sqrt 1 * Nat.sqrt 1) / oldDenominator) = 4 := by
  intro total oldDenominator
  have h2 : Nat.sqrt (1 + 1) = 1 := sqrt_two
  simp only [total, oldDenominator, sqrt_one, h2]

/-- redeeming burns exactly the liquidity redeemed, and a request for more than was ever issued is ignored -/
theorem C16_withdraw_guard (k : PoolKey) (s : State) (reqs : List Tx) (p : PoolState)
    (hp : s.pools.get k = some p)
    (hmore : p.liqs < satSum (reqs.map fun tx => (tx.outputs.headD default).value)) :
    processWithdrawalsForPool k s reqs = .ok s := by
  unfold processWithdrawalsForPool
  simp only [hp]
  rw [if_pos hmore]

/-- pegging and the TIP-909 subsidy only ever add to a builtin pool's side through `swap_many`, which keeps
    reserves (C15_swap_keeps_reserves); stated for the subsidy step -/
theorem C16_subsidy_keeps_reserves (s s' : State) (h : applyTip909 s = .ok s') :
    ∀ k ∈ [poolMelSym, poolErgSym], ∀ p', s'.pools.get k = some p' → HasReserves p' := by
  have h13 := poolMelSym_ne_poolErgSym
  unfold applyTip909 at h
  simp only at h
  split at h
  · cases h
  · split at h
    · cases h
    · obtain ⟨⟨sm', mel, x⟩, hsm, h⟩ := Outcome.bind_eq_ok h
      simp only at h
      split at h
      · cases h
      · split at h
        · cases h
        · obtain ⟨⟨es', y, z⟩, hes, h⟩ := Outcome.bind_eq_ok h
          cases h
          have hrew : 2 ^ SUBSIDY_LOG2 / 2 ^ ((s.height - TIP_909_HEIGHT) / SUBSIDY_HALVING) ≤ U128_MAX := by
            refine Nat.le_trans (Nat.div_le_self _ _) ?_
            decide
          have r1 := swapMany_right_reserves _ _ _ _ _ (by
            split
            · exact Nat.le_trans (Nat.sub_le _ _) hrew
            · exact Nat.le_trans (Nat.div_le_self _ _) hrew) hsm
          have r2 := swapMany_right_reserves _ _ _ _ _ (by
            split
            · exact Nat.le_trans (Nat.div_le_self _ _) hrew
            · exact Nat.le_trans (Nat.sub_le _ _) hrew) hes
          intro k hk p' hp'
          simp only [List.mem_cons, List.not_mem_nil, or_false] at hk
          rcases hk with rfl | rfl
          · simp only at hp'
            rw [AList.get_set_ne _ _ h13, AList.get_set_self] at hp'
            cases hp'; exact r1
          · simp only at hp'
            rw [AList.get_set_self] at hp'
            cases hp'; exact r2

end Mel

#print axioms Mel.createBuiltins_get_builtin
#print axioms Mel.C16_builtins_created
#print axioms Mel.C16_builtins_have_liquidity
#print axioms Mel.C16_emptied_builtin_recreated
#print axioms Mel.C16_pegging_crashes_on_empty_ergsym
#print axioms Mel.C16_old_emptied_ergsym_crashes
#print axioms Mel.C16_emptied_ergsym_fixed
#print axioms Mel.C16_builtins_priced_after_withdrawals
#print axioms Mel.C16_full_withdraw_empties
#print axioms Mel.C16_drained_withdrawals
#print axioms Mel.C16_old_drained_ergsym_crashes
#print axioms Mel.C16_old_drained_ergsym_crashes'
#print axioms Mel.C16_drained_ergsym_recreated
#print axioms Mel.C16_drained_ergsym_seals
#print axioms Mel.C16_drained_ergsym_sealed_values
#print axioms Mel.C16_default_has_reserves
#print axioms Mel.C16_builtins_exist
#print axioms Mel.C16_partial_withdraw_keeps_reserves
#print axioms Mel.C16_deposit_keeps_reserves
#print axioms Mel.C16_deposit_amounts_positive
#print axioms Mel.C16_issue_backed
#print axioms Mel.C16_old_overissue
#print axioms Mel.C16_withdraw_guard
#print axioms Mel.C16_subsidy_keeps_reserves
