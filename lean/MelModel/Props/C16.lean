/-
  C16 — Built-in pools always exist with reserves; liquidity tokens stay fully backed.
  Property theorems only; helper lemmas live in MelModel/Lemmas/Pools.lean.
-/
import MelModel.Seal
import MelModel.Lemmas.Pools
namespace Mel
open Mel.Gen

/-- the builtin pools of a state (ERG/SYM only once TIP-902 is active) -/
def builtinKeys (s : State) : List PoolKey := [poolMelSym, poolMelErg] ++ (if s.tip902 then [poolErgSym] else [])

def HasReserves (p : PoolState) : Prop := 0 < p.lefts ∧ 0 < p.rights

/-- pools of a state are sane: every pool that has issued liquidity has reserves on both sides, and the
    builtin pools that exist have reserves and at least the nobody-owned initial liquidity -/
def PoolsSane (s : State) : Prop :=
  (∀ k p, s.pools.get k = some p → p.liqs ≠ 0 → HasReserves p) ∧
  (∀ k ∈ [poolMelSym, poolMelErg, poolErgSym], ∀ p, s.pools.get k = some p → HasReserves p ∧ 0 < p.liqs)

/-- `create_builtins` makes every builtin pool exist, with the default reserves when it was missing -/
theorem C16_builtins_created (s : State) (k : PoolKey) (hk : k ∈ builtinKeys s) :
    ∃ p, (createBuiltins s).pools.get k = some p ∧
      (s.pools.get k = none → p = builtinDefault) ∧ (∀ q, s.pools.get k = some q → p = q) := by
  have h12 := poolMelSym_ne_poolMelErg
  have h13 := poolMelSym_ne_poolErgSym
  have h23 := poolMelErg_ne_poolErgSym
  have hcb : (createBuiltins s).pools =
      if s.tip902 then ((s.pools.setIfNone poolMelSym builtinDefault).setIfNone poolMelErg builtinDefault).setIfNone
          poolErgSym builtinDefault
      else (s.pools.setIfNone poolMelSym builtinDefault).setIfNone poolMelErg builtinDefault := by
    unfold createBuiltins AList.setIfNone
    cases s.tip902 <;> simp
  have hgoal : ∀ (v : Option PoolState), ∃ p, some (v.getD builtinDefault) = some p ∧
      (v = none → p = builtinDefault) ∧ (∀ q, v = some q → p = q) := by
    intro v; cases v <;> simp
  unfold builtinKeys at hk
  rw [hcb]
  rcases List.mem_append.mp hk with hk | hk
  · simp only [List.mem_cons, List.not_mem_nil, or_false] at hk
    rcases hk with rfl | rfl
    · have := hgoal (s.pools.get poolMelSym)
      split
      · rwa [AList.get_setIfNone_ne _ _ h13, AList.get_setIfNone_ne _ _ h12, AList.get_setIfNone_self]
      · rwa [AList.get_setIfNone_ne _ _ h12, AList.get_setIfNone_self]
    · have := hgoal (s.pools.get poolMelErg)
      split
      · rwa [AList.get_setIfNone_ne _ _ h23, AList.get_setIfNone_self,
          AList.get_setIfNone_ne _ _ h12.symm]
      · rwa [AList.get_setIfNone_self, AList.get_setIfNone_ne _ _ h12.symm]
  · split at hk
    · next ht =>
      simp only [List.mem_cons, List.not_mem_nil, or_false] at hk
      subst hk
      have := hgoal (s.pools.get poolErgSym)
      rwa [if_pos ht, AList.get_setIfNone_self, AList.get_setIfNone_ne _ _ h23.symm,
        AList.get_setIfNone_ne _ _ h13.symm]
    · cases hk

theorem C16_default_has_reserves : HasReserves builtinDefault ∧ builtinDefault.liqs = 1000000000 := by
  simp [HasReserves, builtinDefault, MICRO_CONVERTER, BUILTIN_LIQ_MULT]

/-- after a successful seal every builtin pool exists -/
theorem C16_builtins_exist (env : Env) (s : State) (a : Option ProposerAction) (ss : Sealed)
    (h : sealState env s a = .ok ss) (k : PoolKey) (hk : k ∈ builtinKeys s) :
    ∃ p, ss.st.pools.get k = some p := by
  obtain ⟨p, hp, _⟩ := C16_builtins_created s k hk
  have := sealState_grow env s a ss h k (by rw [hp]; rfl)
  exact Option.isSome_iff_exists.mp this

/-- a withdrawal that does not redeem all the liquidity leaves reserves on both sides -/
theorem C16_partial_withdraw_keeps_reserves (p p' : PoolState) (q pl pr : Nat)
    (h : p.withdraw q = .ok (p', pl, pr)) (hr : HasReserves p) (hq : q < p.liqs) :
    HasReserves p' ∧ 0 < p'.liqs := by
  obtain ⟨hl, hrr⟩ := hr
  unfold PoolState.withdraw at h
  simp only at h
  split at h
  · cases h
  · split at h
    · cases h
    · split at h
      · omega
      · cases h
        have hL : p.lefts * q / p.liqs < p.lefts :=
          Nat.div_lt_of_lt_mul (by rw [Nat.mul_comm p.liqs]; exact Nat.mul_lt_mul_of_pos_left hq hl)
        have hR : p.rights * q / p.liqs < p.rights :=
          Nat.div_lt_of_lt_mul (by rw [Nat.mul_comm p.liqs]; exact Nat.mul_lt_mul_of_pos_left hq hrr)
        refine ⟨⟨?_, ?_⟩, ?_⟩ <;> simp only <;> omega

/-- a deposit into a pool with reserves (or an empty pool, with both amounts positive) leaves reserves -/
theorem C16_deposit_keeps_reserves (p p' : PoolState) (l r minted : Nat)
    (h : p.deposit l r = .ok (p', minted)) (hl : 0 < l) (hr : 0 < r)
    (hp : p.liqs ≠ 0 → HasReserves p) : HasReserves p' := by
  unfold PoolState.deposit at h
  simp only at h
  split at h
  · cases h; exact ⟨hl, hr⟩
  · next hne =>
    obtain ⟨hpl, hpr⟩ := hp hne
    split at h
    · cases h
    · cases h
      refine ⟨?_, ?_⟩ <;> simp only <;> omega

/-- the deposit selector only lets through deposits with both amounts positive -/
theorem C16_deposit_amounts_positive (s : State) (tx : Tx) (h : isDepositRequest s tx = true) :
    ∃ o0 o1 rest, tx.outputs = o0 :: o1 :: rest ∧ 0 < o0.value ∧ 0 < o1.value := by
  unfold isDepositRequest at h
  simp only [Bool.and_eq_true] at h
  obtain ⟨_, h⟩ := h
  split at h
  · next o0 o1 rest heq =>
    simp only [Bool.and_eq_true, decide_eq_true_eq] at h
    exact ⟨o0, o1, rest, heq, h.1.1.1.1, h.1.1.1.2⟩
  · cases h

/-- **backing at issue**: the liquidity tokens handed to the depositors of one pool in one block add up to
    no more than the liquidity the pool recorded for them -/
theorem C16_issue_backed (totalLiqs : Nat) (ws : List Nat) (hpos : 0 < ws.sum) (hfit : ws.sum ≤ U128_MAX) :
    (ws.map fun w => min (totalLiqs * w / ws.sum) U128_MAX).sum ≤ totalLiqs := by
  have _ := hfit   -- not needed: the bound holds for any list with a positive sum
  have h := shares_sum_mul_le totalLiqs ws.sum U128_MAX ws
  rw [Nat.mul_comm totalLiqs] at h
  rw [Nat.mul_comm _ ws.sum] at h
  exact Nat.le_of_mul_le_mul_left h hpos

/-- what was wrong before the `fix:` commit (finding F10): with the old denominator ⌊√Σa⌋·⌊√Σb⌋ two (1,1)
    deposits into a fresh pool are issued 2 + 2 tokens against a recorded liquidity of 2 -/
theorem C16_old_overissue :
    let total := 2          -- pool.deposit(2, 2) on an empty pool
    let oldDenominator := Nat.sqrt (1 + 1) * Nat.sqrt (1 + 1)
    (total * (Nat.sqrt 1 * Nat.sqrt 1) / oldDenominator) + (total * (Nat.sqrt 1 * Nat.sqrt 1) / oldDenominator) = 4 := by
  intro total oldDenominator
  have h2 : Nat.sqrt (1 + 1) = 1 := sqrt_two
  simp only [total, oldDenominator, sqrt_one, h2]

/-- redeeming burns exactly the liquidity redeemed, and a request for more than was ever issued is ignored -/
theorem C16_withdraw_guard (k : PoolKey) (s : State) (reqs : List Tx) (p : PoolState)
    (hp : s.pools.get k = some p)
    (hmore : p.liqs < satSum (reqs.map fun tx => (tx.outputs.headD default).value)) :
    processWithdrawalsForPool k s reqs = .ok s := by
  unfold processWithdrawalsForPool
  simp only [hp]
  rw [if_pos hmore]

/-- pegging and the TIP-909 subsidy only ever add to a builtin pool's side through `swap_many`, which keeps
    reserves (C15_swap_keeps_reserves); stated for the subsidy step -/
theorem C16_subsidy_keeps_reserves (s s' : State) (h : applyTip909 s = .ok s') :
    ∀ k ∈ [poolMelSym, poolErgSym], ∀ p', s'.pools.get k = some p' → HasReserves p' := by
  have h13 := poolMelSym_ne_poolErgSym
  unfold applyTip909 at h
  simp only at h
  split at h
  · cases h
  · split at h
    · cases h
    · obtain ⟨⟨sm', mel, x⟩, hsm, h⟩ := Outcome.bind_eq_ok h
      simp only at h
      split at h
      · cases h
      · split at h
        · cases h
        · obtain ⟨⟨es', y, z⟩, hes, h⟩ := Outcome.bind_eq_ok h
          cases h
          have hrew : 2 ^ SUBSIDY_LOG2 / 2 ^ ((s.height - TIP_909_HEIGHT) / SUBSIDY_HALVING) ≤ U128_MAX := by
            refine Nat.le_trans (Nat.div_le_self _ _) ?_
            decide
          have r1 := swapMany_right_reserves _ _ _ _ _ (by
            split
            · exact Nat.le_trans (Nat.sub_le _ _) hrew
            · exact Nat.le_trans (Nat.div_le_self _ _) hrew) hsm
          have r2 := swapMany_right_reserves _ _ _ _ _ (by
            split
            · exact Nat.le_trans (Nat.div_le_self _ _) hrew
            · exact Nat.le_trans (Nat.sub_le _ _) hrew) hes
          intro k hk p' hp'
          simp only [List.mem_cons, List.not_mem_nil, or_false] at hk
          rcases hk with rfl | rfl
          · simp only at hp'
            rw [AList.get_set_ne _ _ h13, AList.get_set_self] at hp'
            cases hp'; exact r1
          · simp only at hp'
            rw [AList.get_set_self] at hp'
            cases hp'; exact r2

end Mel

#print axioms Mel.C16_builtins_created
#print axioms Mel.C16_default_has_reserves
#print axioms Mel.C16_builtins_exist
#print axioms Mel.C16_partial_withdraw_keeps_reserves
#print axioms Mel.C16_deposit_keeps_reserves
#print axioms Mel.C16_deposit_amounts_positive
#print axioms Mel.C16_issue_backed
#print axioms Mel.C16_old_overissue
#print axioms Mel.C16_withdraw_guard
#print axioms Mel.C16_subsidy_keeps_reserves
