/-
  C16 — Built-in pools always exist with reserves; liquidity tokens stay fully backed.
  Property theorems only; helper lemmas live in MelModel/Lemmas/Pools.lean.
-/
import MelModel.Seal
import MelModel.Lemmas.Pools
namespace Mel
open Mel.Gen

/-- the builtin pools of a state (ERG/SYM only once TIP-902 is active) -/
def builtinKeys (s : State) : List PoolKey := [poolMelSym, poolMelErg] ++ (if s.tip902 then [poolErgSym] else [])

def HasReserves (p : PoolState) : Prop := 0 < p.lefts ∧ 0 < p.rights

/-- pools of a state are sane: every pool that has issued liquidity has reserves on both sides, and the
    builtin pools that exist have reserves and at least the nobody-owned initial liquidity -/
def PoolsSane (s : State) : Prop :=
  (∀ k p, s.pools.get k = some p → p.liqs ≠ 0 → HasReserves p) ∧
  (∀ k ∈ [poolMelSym, poolMelErg, poolErgSym], ∀ p, s.pools.get k = some p → HasReserves p ∧ 0 < p.liqs)

/-- what `create_builtins` leaves under each builtin key: the pool that was there when it records liquidity,
    the default pool when it was absent or records no liquidity at all (the `fix:` for finding F23) -/
theorem createBuiltins_get_builtin (s : State) (k : PoolKey) (hk : k ∈ builtinKeys s) :
    (createBuiltins s).pools.get k = some (fixedPool (s.pools.get k)) := by
  apply createBuiltins_get_fixed
  unfold builtinKeys at hk
  rcases List.mem_append.mp hk with hk | hk
  · simp only [List.mem_cons, List.not_mem_nil, or_false] at hk
    rcases hk with rfl | rfl
    · exact Or.inl rfl
    · exact Or.inr (Or.inl rfl)
  · split at hk
    · next ht =>
      simp only [List.mem_cons, List.not_mem_nil, or_false] at hk
      exact Or.inr (Or.inr ⟨ht, hk⟩)
    · cases hk

/-- `create_builtins` makes every builtin pool exist, with the default reserves when it was missing or held no
    liquidity at all, and unchanged when it records liquidity -/
theorem C16_builtins_created (s : State) (k : PoolKey) (hk : k ∈ builtinKeys s) :
    ∃ p, (createBuiltins s).pools.get k = some p ∧
      (s.pools.get k = none → p = builtinDefault) ∧
      (∀ q, s.pools.get k = some q → q.liqs = 0 → p = builtinDefault) ∧
      (∀ q, s.pools.get k = some q → q.liqs ≠ 0 → p = q) := by
  refine ⟨_, createBuiltins_get_builtin s k hk, ?_, ?_, ?_⟩
  · intro h; rw [h]; rfl
  · intro q h hq; rw [h]; simp [fixedPool, hq]
  · intro q h hq; rw [h]; simp [fixedPool, hq]

/-- after `create_builtins` every builtin pool records liquidity (whatever the state was) -/
theorem C16_builtins_have_liquidity (s : State) (k : PoolKey) (hk : k ∈ builtinKeys s) :
    ∃ p, (createBuiltins s).pools.get k = some p ∧ p.liqs ≠ 0 :=
  ⟨_, createBuiltins_get_builtin s k hk, fixedPool_liqs_ne _⟩

/-- a builtin pool whose only depositors withdrew everything is created afresh -/
theorem C16_emptied_builtin_recreated (s : State) (k : PoolKey) (p : PoolState) (hk : k ∈ builtinKeys s)
    (hp : s.pools.get k = some p) (hz : p.liqs = 0) :
    (createBuiltins s).pools.get k = some builtinDefault := by
  rw [createBuiltins_get_builtin s k hk, hp]
  simp [fixedPool, hz]

/-- what was wrong before the `fix:` commit (finding F23), in general: once TIP-902 is active, pegging on a state
    whose ERG/SYM pool has an empty SYM side crashes (the implied price is a fraction with denominator zero) -/
theorem C16_pegging_crashes_on_empty_ergsym (s : State) (p : PoolState) (ht : s.tip902 = true)
    (hp : s.pools.get poolErgSym = some p) (hr : p.rights = 0) :
    processPegging s = .crash "melswap.rs: implied_price Ratio::new(_, 0)" := by
  unfold processPegging
  simp only [ht, hp, if_true, Outcome.bind, hr]

/-- a small state at the TIP-902 activation height of the main network: the two old builtin pools as created,
    and an ERG/SYM pool whose only depositor has withdrawn everything (`withdraw` leaves (0, 0, _, 0)) -/
def emptiedErgSymState : State :=
  { (default : State) with
    network := .mainnet
    height := TIP_902_HEIGHT
    pools := [(poolMelSym, builtinDefault), (poolMelErg, builtinDefault),
              (poolErgSym, { lefts := 0, rights := 0, priceAccum := 7, liqs := 0 })] }

/-- what was wrong before the `fix:` commit (finding F23), on a concrete state: the old `create_builtins` only
    looked at whether the ERG/SYM pool existed, so it left the emptied pool as it was — and pegging on a state
    whose pools are left as they are crashes at the TIP-902 activation height -/
theorem C16_old_emptied_ergsym_crashes :
    emptiedErgSymState.tip902 = true ∧
    (emptiedErgSymState.pools.get poolErgSym).isNone = false ∧
    processPegging emptiedErgSymState = .crash "melswap.rs: implied_price Ratio::new(_, 0)" := by
  have ht : emptiedErgSymState.tip902 = true := by decide
  have hp : emptiedErgSymState.pools.get poolErgSym =
      some { lefts := 0, rights := 0, priceAccum := 7, liqs := 0 } := by decide
  exact ⟨ht, by rw [hp]; rfl, C16_pegging_crashes_on_empty_ergsym _ _ ht hp rfl⟩

/-- the same state after the `fix:`: `create_builtins` puts the default ERG/SYM pool back, so pegging reads
    reserves of 10^9 on both sides -/
theorem C16_emptied_ergsym_fixed :
    (createBuiltins emptiedErgSymState).pools.get poolErgSym = some builtinDefault :=
  C16_emptied_builtin_recreated _ _ _ (by decide) (by decide : emptiedErgSymState.pools.get poolErgSym =
    some { lefts := 0, rights := 0, priceAccum := 7, liqs := 0 }) rfl

theorem C16_default_has_reserves : HasReserves builtinDefault ∧ builtinDefault.liqs = 1000000000 := by
  simp [HasReserves, builtinDefault, MICRO_CONVERTER, BUILTIN_LIQ_MULT]

/-- after a successful seal every builtin pool exists -/
theorem C16_builtins_exist (env : Env) (s : State) (a : Option ProposerAction) (ss : Sealed)
    (h : sealState env s a = .ok ss) (k : PoolKey) (hk : k ∈ builtinKeys s) :
    ∃ p, ss.st.pools.get k = some p := by
  obtain ⟨p, hp, _⟩ := C16_builtins_created s k hk
  have := sealState_grow env s a ss h k (by rw [hp]; rfl)
  exact Option.isSome_iff_exists.mp this

/-- a withdrawal that does not redeem all the liquidity leaves reserves on both sides -/
theorem C16_partial_withdraw_keeps_reserves (p p' : PoolState) (q pl pr : Nat)
    (h : p.withdraw q = .ok (p', pl, pr)) (hr : HasReserves p) (hq : q < p.liqs) :
    HasReserves p' ∧ 0 < p'.liqs := by
  obtain ⟨hl, hrr⟩ := hr
  unfold PoolState.withdraw at h
  simp only at h
  split at h
  · cases h
  · split at h
    · cases h
    · split at h
      · omega
      · cases h
        have hL : p.lefts * q / p.liqs < p.lefts :=
          Nat.div_lt_of_lt_mul (by rw [Nat.mul_comm p.liqs]; exact Nat.mul_lt_mul_of_pos_left hq hl)
        have hR : p.rights * q / p.liqs < p.rights :=
          Nat.div_lt_of_lt_mul (by rw [Nat.mul_comm p.liqs]; exact Nat.mul_lt_mul_of_pos_left hq hrr)
        refine ⟨⟨?_, ?_⟩, ?_⟩ <;> simp only <;> omega

/-- a deposit into a pool with reserves (or an empty pool, with both amounts positive) leaves reserves -/
theorem C16_deposit_keeps_reserves (p p' : PoolState) (l r minted : Nat)
    (h : p.deposit l r = .ok (p', minted)) (hl : 0 < l) (hr : 0 < r)
    (hp : p.liqs ≠ 0 → HasReserves p) : HasReserves p' := by
  unfold PoolState.deposit at h
  simp only at h
  split at h
  · cases h; exact ⟨hl, hr⟩
  · next hne =>
    obtain ⟨hpl, hpr⟩ := hp hne
    split at h
    · cases h
    · cases h
      refine ⟨?_, ?_⟩ <;> simp only <;> omega

/-- the deposit selector only lets through deposits with both amounts positive -/
theorem C16_deposit_amounts_positive (s : State) (tx : Tx) (h : isDepositRequest s tx = true) :
    ∃ o0 o1 rest, tx.outputs = o0 :: o1 :: rest ∧ 0 < o0.value ∧ 0 < o1.value := by
  unfold isDepositRequest at h
  simp only [Bool.and_eq_true] at h
  obtain ⟨_, h⟩ := h
  split at h
  · next o0 o1 rest heq =>
    simp only [Bool.and_eq_true, decide_eq_true_eq] at h
    exact ⟨o0, o1, rest, heq, h.1.1.1.1, h.1.1.1.2⟩
  · cases h

/-- **backing at issue**: the liquidity tokens handed to the depositors of one pool in one block add up to
    no more than the liquidity the pool recorded for them -/
theorem C16_issue_backed (totalLiqs : Nat) (ws : List Nat) (hpos : 0 < ws.sum) (hfit : ws.sum ≤ U128_MAX) :
    (ws.map fun w => min (totalLiqs * w / ws.sum) U128_MAX).sum ≤ totalLiqs := by
  have _ := hfit   -- not needed: the bound holds for any list with a positive sum
  have h := shares_sum_mul_le totalLiqs ws.sum U128_MAX ws
  rw [Nat.mul_comm totalLiqs] at h
  rw [Nat.mul_comm _ ws.sum] at h
  exact Nat.le_of_mul_le_mul_left h hpos

/-- what was wrong before the `fix:` commit (finding F10): with the old denominator ⌊√Σa⌋·⌊√Σb⌋ two (1,1)
    deposits into a fresh pool are issued 2 + 2 tokens against a recorded liquidity of 2 -/
theorem C16_old_overissue :
    let total := 2          -- pool.deposit(2, 2) on an empty pool
    let oldDenominator := Nat.sqrt (1 + 1) * Nat.sqrt (1 + 1)
    (total * (Nat.sqrt 1 * Nat.sqrt 1) / oldDenominator) + (total * (Nat.sqrt 1 * Nat.sqrt 1) / oldDenominator) = 4 := by
  intro total oldDenominator
  have h2 : Nat.sqrt (1 + 1) = 1 := sqrt_two
  simp only [total, oldDenominator, sqrt_one, h2]

/-- redeeming burns exactly the liquidity redeemed, and a request for more than was ever issued is ignored -/
theorem C16_withdraw_guard (k : PoolKey) (s : State) (reqs : List Tx) (p : PoolState)
    (hp : s.pools.get k = some p)
    (hmore : p.liqs < satSum (reqs.map fun tx => (tx.outputs.headD default).value)) :
    processWithdrawalsForPool k s reqs = .ok s := by
  unfold processWithdrawalsForPool
  simp only [hp]
  rw [if_pos hmore]

/-- pegging and the TIP-909 subsidy only ever add to a builtin pool's side through `swap_many`, which keeps
    reserves (C15_swap_keeps_reserves); stated for the subsidy step -/
theorem C16_subsidy_keeps_reserves (s s' : State) (h : applyTip909 s = .ok s') :
    ∀ k ∈ [poolMelSym, poolErgSym], ∀ p', s'.pools.get k = some p' → HasReserves p' := by
  have h13 := poolMelSym_ne_poolErgSym
  unfold applyTip909 at h
  simp only at h
  split at h
  · cases h
  · split at h
    · cases h
    · obtain ⟨⟨sm', mel, x⟩, hsm, h⟩ := Outcome.bind_eq_ok h
      simp only at h
      split at h
      · cases h
      · split at h
        · cases h
        · obtain ⟨⟨es', y, z⟩, hes, h⟩ := Outcome.bind_eq_ok h
          cases h
          have hrew : 2 ^ SUBSIDY_LOG2 / 2 ^ ((s.height - TIP_909_HEIGHT) / SUBSIDY_HALVING) ≤ U128_MAX := by
            refine Nat.le_trans (Nat.div_le_self _ _) ?_
            decide
          have r1 := swapMany_right_reserves _ _ _ _ _ (by
            split
            · exact Nat.le_trans (Nat.sub_le _ _) hrew
            · exact Nat.le_trans (Nat.div_le_self _ _) hrew) hsm
          have r2 := swapMany_right_reserves _ _ _ _ _ (by
            split
            · exact Nat.le_trans (Nat.div_le_self _ _) hrew
            · exact Nat.le_trans (Nat.sub_le _ _) hrew) hes
          intro k hk p' hp'
          simp only [List.mem_cons, List.not_mem_nil, or_false] at hk
          rcases hk with rfl | rfl
          · simp only at hp'
            rw [AList.get_set_ne _ _ h13, AList.get_set_self] at hp'
            cases hp'; exact r1
          · simp only at hp'
            rw [AList.get_set_self] at hp'
            cases hp'; exact r2

end Mel

#print axioms Mel.createBuiltins_get_builtin
#print axioms Mel.C16_builtins_created
#print axioms Mel.C16_builtins_have_liquidity
#print axioms Mel.C16_emptied_builtin_recreated
#print axioms Mel.C16_pegging_crashes_on_empty_ergsym
#print axioms Mel.C16_old_emptied_ergsym_crashes
#print axioms Mel.C16_emptied_ergsym_fixed
#print axioms Mel.C16_default_has_reserves
#print axioms Mel.C16_builtins_exist
#print axioms Mel.C16_partial_withdraw_keeps_reserves
#print axioms Mel.C16_deposit_keeps_reserves
#print axioms Mel.C16_deposit_amounts_positive
#print axioms Mel.C16_issue_backed
#print axioms Mel.C16_old_overissue
#print axioms Mel.C16_withdraw_guard
#print axioms Mel.C16_subsidy_keeps_reserves
