/-
  C16 — Built-in pools always exist with reserves; liquidity tokens stay fully backed.
  Property theorems only; helper lemmas live in MelModel/Lemmas/Pools.lean.
-/
import MelModel.Seal
import MelModel.Lemmas.Pools
namespace Mel
open Mel.Gen

/-- the builtin pools of a state (ERG/SYM only once TIP-902 is active) -/
def builtinKeys (s : State) : List PoolKey := [poolMelSym, poolMelErg] ++ (if s.tip902 then [poolErgSym] else [])

def HasReserves (p : PoolState) : Prop := 0 < p.lefts ∧ 0 < p.rights

/-- pools of a state are sane: every pool that has issued liquidity has reserves on both sides, and the
    builtin pools that exist have reserves and at least the nobody-owned initial liquidity -/
def PoolsSane (s : State) : Prop :=
  (∀ k p, s.pools.get k = some p → p.liqs ≠ 0 → HasReserves p) ∧
  (∀ k ∈ [poolMelSym, poolMelErg, poolErgSym], ∀ p, s.pools.get k = some p → HasReserves p ∧ 0 < p.liqs)

/-- `create_builtins` makes every builtin pool exist, with the default reserves when it was missing -/
theorem C16_builtins_created (s : State) (k : PoolKey) (hk : k ∈ builtinKeys s) :
    ∃ p, (createBuiltins s).pools.get k = some p ∧
      (s.pools.get k = none → p = builtinDefault) ∧ (∀ q, s.pools.get k = some q → p = q) := by
  sorry

theorem C16_default_has_reserves : HasReserves builtinDefault ∧ builtinDefault.liqs = 1000000000 := by
  sorry

/-- after a successful seal every builtin pool exists -/
theorem C16_builtins_exist (env : Env) (s : State) (a : Option ProposerAction) (ss : Sealed)
    (h : sealState env s a = .ok ss) (k : PoolKey) (hk : k ∈ builtinKeys s) :
    ∃ p, ss.st.pools.get k = some p := by
  sorry

/-- a withdrawal that does not redeem all the liquidity leaves reserves on both sides -/
theorem C16_partial_withdraw_keeps_reserves (p p' : PoolState) (q pl pr : Nat)
    (h : p.withdraw q = .ok (p', pl, pr)) (hr : HasReserves p) (hq : q < p.liqs) :
    HasReserves p' ∧ 0 < p'.liqs := by
  sorry

/-- a deposit into a pool with reserves (or an empty pool, with both amounts positive) leaves reserves -/
theorem C16_deposit_keeps_reserves (p p' : PoolState) (l r minted : Nat)
    (h : p.deposit l r = .ok (p', minted)) (hl : 0 < l) (hr : 0 < r)
    (hp : p.liqs ≠ 0 → HasReserves p) : HasReserves p' := by
  sorry

/-- the deposit selector only lets through deposits with both amounts positive -/
theorem C16_deposit_amounts_positive (s : State) (tx : Tx) (h : isDepositRequest s tx = true) :
    ∃ o0 o1 rest, tx.outputs = o0 :: o1 :: rest ∧ 0 < o0.value ∧ 0 < o1.value := by
  sorry

/-- **backing at issue**: the liquidity tokens handed to the depositors of one pool in one block add up to
    no more than the liquidity the pool recorded for them -/
theorem C16_issue_backed (totalLiqs : Nat) (ws : List Nat) (hpos : 0 < ws.sum) (hfit : ws.sum ≤ U128_MAX) :
    (ws.map fun w => min (totalLiqs * w / ws.sum) U128_MAX).sum ≤ totalLiqs := by
  sorry

/-- what was wrong before the `fix:` commit (finding F10): with the old denominator ⌊√Σa⌋·⌊√Σb⌋ two (1,1)
    deposits into a fresh pool are issued 2 + 2 tokens against a recorded liquidity of 2 -/
theorem C16_old_overissue :
    let total := 2          -- pool.deposit(2, 2) on an empty pool
    let oldDenominator := Nat.sqrt (1 + 1) * Nat.sqrt (1 + 1)
    (total * (Nat.sqrt 1 * Nat.sqrt 1) / oldDenominator) + (total * (Nat.sqrt 1 * Nat.sqrt 1) / oldDenominator) = 4 := by
  sorry

/-- redeeming burns exactly the liquidity redeemed, and a request for more than was ever issued is ignored -/
theorem C16_withdraw_guard (k : PoolKey) (s : State) (reqs : List Tx) (p : PoolState)
    (hp : s.pools.get k = some p)
    (hmore : p.liqs < satSum (reqs.map fun tx => (tx.outputs.headD default).value)) :
    processWithdrawalsForPool k s reqs = .ok s := by
  sorry

/-- pegging and the TIP-909 subsidy only ever add to a builtin pool's side through `swap_many`, which keeps
    reserves (C15_swap_keeps_reserves); stated for the subsidy step -/
theorem C16_subsidy_keeps_reserves (s s' : State) (h : applyTip909 s = .ok s') :
    ∀ k ∈ [poolMelSym, poolErgSym], ∀ p', s'.pools.get k = some p' → HasReserves p' := by
  sorry

end Mel
