/-
  C15 — Melswap settles only genuine requests, at one fair price, pro rata.
  Property theorems only; helper lemmas live in MelModel/Lemmas/Swap.lean (may import Mathlib tactic modules).
-/
import MelModel.Seal
import MelModel.Lemmas.Swap
namespace Mel
open Mel.Gen

/-! ### only genuine requests are settled -/

/-- request selectors demand the matching kind: each request is settled in exactly one phase -/
theorem C15_kinds (env : Env) (s : State) (tx : Tx) :
    (isSwapRequest s tx = true → tx.kind = .swap) ∧
    (isDepositRequest s tx = true → tx.kind = .liqDeposit) ∧
    (isWithdrawRequest env s tx = true → tx.kind = .liqWithdraw) := by
  exact ⟨fun h => (isSwapRequest_spec h).1, fun h => (isDepositRequest_spec h).1,
    fun h => (isWithdrawRequest_spec h).1⟩

/-- … and a data field that names the pool in its one canonical spelling -/
theorem C15_requests_name_pool (env : Env) (s : State) (tx : Tx)
    (h : isSwapRequest s tx = true ∨ isDepositRequest s tx = true ∨ isWithdrawRequest env s tx = true) :
    ∃ k, canonicalPoolKey tx.data = some k := by
  rcases h with h | h | h
  · obtain ⟨_, k, _, hk, _⟩ := isSwapRequest_spec h
    exact ⟨k, hk⟩
  · exact (isDepositRequest_spec h).2
  · exact (isWithdrawRequest_spec h).2

/-- a transaction of another kind, or whose data does not name a pool, is no request -/
def NotARequest (tx : Tx) : Prop :=
  (tx.kind ≠ .swap ∧ tx.kind ≠ .liqDeposit ∧ tx.kind ≠ .liqWithdraw) ∨ canonicalPoolKey tx.data = none

/-- **kind filter**: sealing leaves every coin whose id is not an output of a request transaction (and is not
    the proposer-reward id) exactly as it was — in particular all outputs of every other transaction. -/
theorem C15_kind_filter (env : Env) (s : State) (a : Option ProposerAction) (ss : Sealed)
    (h : sealState env s a = .ok ss) (id : CoinID)
    (hnr : ∀ tx ∈ s.txs, tx.hash = id.txhash → NotARequest tx)
    (hrw : id.txhash ≠ env.rewardId s.height) :
    ss.st.coins.getCoin id = s.coins.getCoin id := by
  exact sealState_coins id env s a ss h hnr hrw

/-! ### a pool name has one spelling, and a side is only ever its own denomination -/

/-- what `canonical_pool_key` accepts: canonical order, no `NewCustom` placeholder, the exact bytes -/
theorem C15_canonical (data : Bytes) (k : PoolKey) (h : canonicalPoolKey data = some k) :
    bytesLt k.left.toBytes k.right.toBytes = true ∧ k.left ≠ .newCustom ∧ k.right ≠ .newCustom ∧ k.toBytes = data := by
  exact canonicalPoolKey_some h

/-- hence two accepted spellings of one pool are the same bytes: no alias can reach a pool's slot -/
theorem C15_one_spelling (d₁ d₂ : Bytes) (k : PoolKey) (h₁ : canonicalPoolKey d₁ = some k)
    (h₂ : canonicalPoolKey d₂ = some k) : d₁ = d₂ := by
  rw [← (canonicalPoolKey_some h₁).2.2.2, ← (canonicalPoolKey_some h₂).2.2.2]

/-- the reversed / equal-sided spellings are rejected -/
theorem C15_reversed_rejected (data : Bytes) (k : PoolKey) (h : canonicalPoolKey data = some k) :
    ∀ data', canonicalPoolKey data' ≠ some { left := k.right, right := k.left } := by
  intro data' h'
  have h1 := (canonicalPoolKey_some h).1
  have h2 := (canonicalPoolKey_some h').1
  simp only at h2
  rw [bytesLt_asymm _ _ h1] at h2
  cases h2

/-- a swap request's first output is in one of the two denominations of the pool it names -/
theorem C15_swap_own_denom (s : State) (tx : Tx) (h : isSwapRequest s tx = true) :
    ∃ k o, canonicalPoolKey tx.data = some k ∧ tx.outputs.head? = some o ∧ (o.denom = k.left ∨ o.denom = k.right) := by
  obtain ⟨_, k, o, hk, ho, hd⟩ := isSwapRequest_spec h
  exact ⟨k, o, hk, ho, hd⟩

/-! ### one price, constant product, fee -/

/-- `swap_many` on a pool with reserves: reserves move by exactly what is paid in minus what is withdrawn;
    the withdrawn amounts are the constant-product amounts less 0.5%, rounded down -/
theorem C15_swap_exact (p p' : PoolState) (l r lw rw : Nat)
    (hfit : p.lefts + l ≤ U128_MAX ∧ p.rights + r ≤ U128_MAX)
    (h : p.swapMany l r = .ok (p', lw, rw)) :
    p'.lefts + lw = p.lefts + l ∧ p'.rights + rw = p.rights + r ∧ p'.liqs = p.liqs ∧
    rw = l * (p.rights + r) * 995 / ((p.lefts + l) * 1000) ∧
    lw = r * (p.lefts + l) * 995 / ((p.rights + r) * 1000) := by
  obtain ⟨hL, hR, erw, elw, el, er, eq⟩ := swapMany_ok hfit h
  have h1 : rw ≤ p.rights + r := by rw [erw]; exact share_le (by omega)
  have h2 : lw ≤ p.lefts + l := by rw [elw]; exact share_le (by omega)
  refine ⟨by omega, by omega, eq, erw, elw⟩

/-- swapping never decreases the reserve product -/
theorem C15_product (p p' : PoolState) (l r lw rw : Nat)
    (hfit : p.lefts + l ≤ U128_MAX ∧ p.rights + r ≤ U128_MAX)
    (h : p.swapMany l r = .ok (p', lw, rw)) :
    p.lefts * p.rights ≤ p'.lefts * p'.rights := by
  obtain ⟨hL, hR, erw, elw, el, er, _⟩ := swapMany_ok hfit h
  rw [el, er, erw, elw]
  exact swap_product hL hR

/-- a pool with reserves on both sides keeps reserves on both sides -/
theorem C15_swap_keeps_reserves (p p' : PoolState) (l r lw rw : Nat)
    (hfit : p.lefts + l ≤ U128_MAX ∧ p.rights + r ≤ U128_MAX)
    (h : p.swapMany l r = .ok (p', lw, rw)) : 0 < p'.lefts ∧ 0 < p'.rights := by
  obtain ⟨hL, hR, erw, elw, el, er, _⟩ := swapMany_ok hfit h
  have h1 : rw < p.rights + r := by rw [erw]; exact share_lt (by omega) hL hR
  have h2 : lw < p.lefts + l := by rw [elw]; exact share_lt (by omega) hR hL
  omega

/-- pro-rata shares rounded down never add up to more than what is split -/
theorem C15_pro_rata (total : Nat) (vs : List Nat) (hpos : 0 < vs.sum) :
    (vs.map fun v => total * v / vs.sum).sum ≤ total := by
  have h := pro_rata_aux total vs.sum vs
  rw [Nat.mul_comm total vs.sum] at h
  exact Nat.le_of_mul_le_mul_right (by rw [Nat.mul_comm total]; exact h) hpos

/-- `multiply_frac` is the rounded-down share, saturating at u128 -/
theorem C15_multiply_frac (x n d : Nat) (hd : 0 < d) : multiplyFrac x n d = .ok (min (x * n / d) U128_MAX) := by
  unfold multiplyFrac satU128
  rw [if_neg (by omega)]

/-! ### deposits mint and withdrawals burn in proportion to the reserves -/

theorem C15_deposit (p p' : PoolState) (l r minted : Nat) (h : p.deposit l r = .ok (p', minted))
    (hfit : p.lefts + l ≤ U128_MAX ∧ p.rights + r ≤ U128_MAX) :
    (p.liqs = 0 → minted = l ∧ p'.lefts = l ∧ p'.rights = r ∧ p'.liqs = l) ∧
    (p.liqs ≠ 0 → minted = min (Nat.sqrt (p.liqs ^ 2 * (l * r) / (p.lefts * p.rights))) U128_MAX ∧
                   p'.lefts = p.lefts + l ∧ p'.rights = p.rights + r ∧ p'.liqs = min (p.liqs + minted) U128_MAX) := by
  unfold PoolState.deposit at h
  split at h
  · next hz =>
    cases h
    exact ⟨fun _ => ⟨rfl, rfl, rfl, rfl⟩, fun hn => absurd hz hn⟩
  · next hz =>
    simp only at h
    split at h
    · cases h
    · cases h
      refine ⟨fun h0 => absurd h0 hz, fun _ => ?_⟩
      have e1 : satAdd128 l p.lefts - p.lefts = l := by unfold satAdd128; omega
      have e2 : satAdd128 r p.rights - p.rights = r := by unfold satAdd128; omega
      rw [e1, e2]
      exact ⟨rfl, rfl, rfl, rfl⟩

theorem C15_withdraw (p p' : PoolState) (q pl pr : Nat) (h : p.withdraw q = .ok (p', pl, pr)) :
    q ≤ p.liqs ∧ p'.liqs + q = p.liqs ∧ p'.lefts + pl = p.lefts ∧ p'.rights + pr = p.rights ∧
    (q < p.liqs → pl = p.lefts * q / p.liqs ∧ pr = p.rights * q / p.liqs) ∧
    (q = p.liqs → pl = p.lefts ∧ pr = p.rights) := by
  unfold PoolState.withdraw at h
  split at h
  · cases h
  · split at h
    · cases h
    · simp only at h
      split at h
      · cases h
        refine ⟨by omega, by simp only; omega, by simp, by simp, fun hq => by omega, fun _ => ⟨rfl, rfl⟩⟩
      · cases h
        have hl : p.lefts * q / p.liqs ≤ p.lefts :=
          Nat.div_le_of_le_mul (by rw [Nat.mul_comm]; exact Nat.mul_le_mul_right _ (by omega))
        have hr : p.rights * q / p.liqs ≤ p.rights :=
          Nat.div_le_of_le_mul (by rw [Nat.mul_comm]; exact Nat.mul_le_mul_right _ (by omega))
        refine ⟨by omega, by simp only; omega, by simp only; omega, by simp only; omega,
          fun _ => ⟨rfl, rfl⟩, fun hq => by omega⟩

end Mel

#print axioms Mel.C15_kinds
#print axioms Mel.C15_requests_name_pool
#print axioms Mel.C15_kind_filter
#print axioms Mel.C15_canonical
#print axioms Mel.C15_one_spelling
#print axioms Mel.C15_reversed_rejected
#print axioms Mel.C15_swap_own_denom
#print axioms Mel.C15_swap_exact
#print axioms Mel.C15_product
#print axioms Mel.C15_swap_keeps_reserves
#print axioms Mel.C15_pro_rata
#print axioms Mel.C15_multiply_frac
#print axioms Mel.C15_deposit
#print axioms Mel.C15_withdraw
