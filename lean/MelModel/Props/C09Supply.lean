/-
  C09 — totality under the property's OWN premise: a per-denomination SUPPLY bound.

  Props/C09.lean, C09Seal.lean, C09Reach.lean prove that applying and sealing never crash under amount hypotheses that
  are not stated in terms of supply (`ApplyPre.bounded`: all coins of all denominations plus all outputs of the batch;
  `SealBounds.melInflowBound`: the first MEL output of EVERY transaction of the block, whether its coin still exists or
  not; `SealBounds.reserveBound`, `feeBound`).  Here the premise is `supply s d ≤ S` (`supply`: SupplyDefs.lean —
  unspent coins + pool reserves, plus for MEL the fee pool and the tips).

  SEALING (fully supply-based).  The requests a seal settles are backed by coins of the state being sealed
  (`C09_swap_requests_backed`, `C09_deposit_requests_backed`, `C09_withdraw_requests_backed`), the requests are
  distinct transactions, so the MEL paid into the MEL/SYM pool by the swaps AND the deposits of one block is at most
  the MEL held in coins (`C09_mel_inflow_backed`).  Fee pool, tips and the MEL/SYM reserve are summands of the MEL
  supply.  Hence `C09_seal_ok_supply`: sealing a `ReachableSup env S` state with `supply s .mel ≤ S` succeeds for every
  `S ≤ sealSupplyCap = u128::MAX − 2^125 − u128::MAX/200` (about 0.87·2^128; in particular for 2^127, the bound of the
  property, and for 2^124).  The two deductions are what a seal may ADD to the MEL/SYM reserve out of nothing before
  the TIP-909 subsidy moves part of it into the fee pool with an unchecked `+=`: a builtin pool made afresh (at most
  2^125; really 10^9) and the peg adjustment (at most u128::MAX/200).  Which bound is needed where:
  * `melInflow ≤ 2^124` and `reserve ≤ 2^125` of `SealBounds` are replaced by `supply s .mel ≤ S`;
  * `feePool + tips + 2^21 ≤ 2^127` likewise (the `2^21` was never needed: the subsidy is paid out of the reserve).
  * a MEL supply above the cap can crash the seal: `C09_seal_supply_needed` (fee pool + tips ≈ 2^128: the proposer
    reward `base_fees + tips` overflows), `C09_seal_supply_needed_subsidy` (fee pool = u128::MAX: `fee_pool += mel`), `C01_seal_unbounded_counterexample` (Props/C01Hist.lean: amounts beyond a u128
    make the settlement create value), `C09_swap_needs_u128` (Props/C09Seal.lean).

  APPLYING (per-denomination, but NOT purely supply-based — and it cannot be).  The one amount-dependent crash site of
  `apply_tx_batch` is the sum of the spent coins of ONE transaction in ONE denomination (`in_coins`, unchecked `+`).
  The spent coins are distinct and are coins of the state or coins created by the batch, so the sum is at most
  `coinsTotal s.coins d + batchOutputs txs d` (`C09_inputs_bound`).  The first summand is bounded by the supply; the
  second is not: a batch may create coins and spend them again, and faucet transactions create coins out of nothing.
  `C09_apply_supply_insufficient` is a machine-checked counterexample to "supply bound on the state + well-formedness
  of every transaction (≤ 255 outputs of ≤ 2^120 each) ⇒ no crash": a genesis state with MEL supply exactly 2^127, a
  faucet transaction with 128 outputs of 2^120 MEL, and a transaction spending the initial coin and those 128 coins:
  `in_coins` overflows.  (With a smaller supply more faucet outputs are needed — 256 coins of 2^120 from two faucet
  transactions overflow whatever the state holds; that instance is not evaluated here: kernel evaluation of
  `load_relevant_coins` on 256 created coins takes about a minute, the instance below 13 s.)  The crash comes BEFORE
  the rejection of faucet transactions on mainnet: `C09_apply_supply_insufficient_mainnet`.
  The smallest repair is the explicit hypothesis
    ADDED (false without it, see `C09_apply_supply_insufficient`):
      `∀ d, S + batchOutputs txs d ≤ U128_MAX`  (only for batches all of whose transactions are well-formed)
  in `C09_apply_total_supply`; it is per denomination and implied by the old `bounded` (`C09_bounded_imp`).  For a
  single transaction it IS a consequence of well-formedness when `S < 2^120` (`C09_apply_one_total_supply`).

  Property theorems only; helper lemmas live in MelModel/Lemmas/SupplyBoundL.lean.
-/
import MelModel.Props.C09Reach
import MelModel.Props.C01Hist
import MelModel.Lemmas.SupplyBoundL
namespace Mel
open Mel.Gen

/-! ### the reachability notion: every sealed block respected the MEL supply bound -/

/-- the largest MEL supply for which sealing is proved total: below `u128::MAX` there must be room for a builtin pool
    made afresh (`2^125` bounds its reserve) and for the peg adjustment (at most `u128::MAX / 200`) -/
def sealSupplyCap : Nat := U128_MAX - 2 ^ 125 - U128_MAX / 200

theorem sealSupplyCap_facts :
    2 ^ 127 ≤ sealSupplyCap ∧ sealSupplyCap + 2 ^ 125 + U128_MAX / 200 = U128_MAX ∧ sealSupplyCap < 2 ^ 128 := by
  decide

/-- what is assumed of a state being sealed: the MEL supply is at most `S`, and the height is below the point where
    the subsidy shift amount overflows (this replaces `SealBounds` of Props/C09Reach.lean) -/
structure SupplyBounds (S : Nat) (s : State) : Prop where
  melSupply : supply s .mel ≤ S
  height : s.height < TIP_909_HEIGHT + 128 * SUBSIDY_HALVING

/-- reachable, every sealed block having respected the supply bound `S` (`ReachableB` of Props/C09Reach.lean with
    `SealBounds` replaced by the supply premise) -/
inductive ReachableSup (env : Env) (S : Nat) : State → Prop
  | genesis (cfg : GenesisConfig) : ReachableSup env S (genesisState cfg)
  | batch {s s' : State} {txs : List Tx} {fb : Header} :
      ReachableSup env S s → BatchFresh s txs → MarkerFresh env s txs → applyBatch env s txs fb = .ok s' →
      ReachableSup env S s'
  | block {s s' : State} {ss : Sealed} {a : Option ProposerAction} :
      ReachableSup env S s → RewardFresh env s → SupplyBounds S s → sealState env s a = .ok ss →
      nextUnsealed env ss = .ok s' → ReachableSup env S s'

/-- the instance for the bound of the property: no sealed state's MEL supply exceeded 2^127 -/
abbrev ReachableB' (env : Env) : State → Prop := ReachableSup env (2 ^ 127)

theorem SupplyBounds.mono {S S' : Nat} {s : State} (h : S ≤ S') (hb : SupplyBounds S s) : SupplyBounds S' s :=
  ⟨Nat.le_trans hb.melSupply h, hb.height⟩

/-- a larger bound allows more histories -/
theorem ReachableSup.mono {env : Env} {S S' : Nat} {s : State} (hS : S ≤ S') (h : ReachableSup env S s) :
    ReachableSup env S' s := by
  induction h with
  | genesis cfg => exact .genesis cfg
  | batch _ hf hm hb ih => exact .batch ih hf hm hb
  | block _ hr hbd hs hn ih => exact .block ih hr (hbd.mono hS) hs hn

theorem ReachableSup.sep {env : Env} {S : Nat} {s : State} (h : ReachableSup env S s) : ReachableSep env s := by
  induction h with
  | genesis cfg => exact .genesis cfg
  | batch _ hf hm hb ih => exact .batch ih hf hm hb
  | block _ hr _ hs hn ih => exact .block ih hr hs hn

theorem ReachableSup.reachable {env : Env} {S : Nat} {s : State} (h : ReachableSup env S s) : Reachable env s :=
  h.sep.reachable

theorem ReachableSup.inv {env : Env} {S : Nat} {s : State} (h : ReachableSup env S s) : Inv s :=
  (reachable_inv_slots env s h.sep).1

/-- the coins of the block's own transactions carry the declared value and denomination -/
theorem ReachableSup.faithful {env : Env} {S : Nat} {s : State} (h : ReachableSup env S s) : Faithful s :=
  C01_reachable_faithful env s h.sep

/-! ### 1. the requests a seal settles are backed by coins -/

/-- **swap requests are backed**: a swap request selected when `s` is sealed (the selector runs on
    `create_builtins(s)`, same coins) has its coin in `s.coins`, with the value and the denomination of the
    transaction's first output -/
theorem C09_swap_requests_backed (env : Env) (s : State) (h : ReachableSep env s) (tx : Tx) (htx : tx ∈ s.txs)
    (hreq : isSwapRequest (createBuiltins s) tx = true) :
    tx.kind = .swap ∧ ∃ k o rest c, canonicalPoolKey tx.data = some k ∧ tx.outputs = o :: rest ∧
      s.coins.getCoin ⟨tx.hash, 0⟩ = some c ∧ c.coinData.value = o.value ∧ c.coinData.denom = o.denom :=
  SupplyBoundL.swapRequest_backed (st := createBuiltins s) (C01_reachable_faithful env s h) htx rfl hreq

/-- **deposit requests are backed**: a deposit request selected after the swap phase has both its coins in `s.coins`
    (the swap phase rewrites coins of swap transactions only), with the values of the transaction's first two outputs
    and the two sides of the pool as denominations -/
theorem C09_deposit_requests_backed (env : Env) (s s1 : State) (h : ReachableSep env s)
    (h1 : processSwaps (createBuiltins s) = .ok s1) (tx : Tx) (htx : tx ∈ s.txs)
    (hreq : isDepositRequest s1 tx = true) :
    tx.kind = .liqDeposit ∧ ∃ k o0 o1 rest c0 c1, canonicalPoolKey tx.data = some k ∧
      tx.outputs = o0 :: o1 :: rest ∧
      s.coins.getCoin ⟨tx.hash, 0⟩ = some c0 ∧ c0.coinData.value = o0.value ∧ c0.coinData.denom = k.left ∧
      s.coins.getCoin ⟨tx.hash, 1⟩ = some c1 ∧ c1.coinData.value = o1.value ∧ c1.coinData.denom = k.right := by
  have hn := ReachL.nodup_hashes_of_pairwise (sortedTxs_pairwise (reachable_inv_slots env s h).1.sorted)
  have hkd : tx.kind = .liqDeposit := (SupplySealL.isDepositRequest_full hreq).1
  refine SupplyBoundL.depositRequest_backed (C01_reachable_faithful env s h) htx ?_ hreq
  intro i
  refine (processSwaps_coins ⟨tx.hash, i⟩ _ _ h1 ?_).1
  intro tx' htx' hreq' e
  have hks : tx'.kind = .swap := (SupplySealL.isSwapRequest_full hreq').1
  have : tx' = tx := eq_of_nodup_map _ hn htx' htx e
  rw [this, hkd] at hks
  cases hks

/-- **withdrawal requests are backed**: a withdrawal request selected after the swap and the deposit phases has its
    coin in `s.coins`, with the value of the transaction's only output, in the pool's liquidity token -/
theorem C09_withdraw_requests_backed (env : Env) (s s1 s2 : State) (h : ReachableSep env s)
    (h1 : processSwaps (createBuiltins s) = .ok s1) (h2 : processDeposits env s1 = .ok s2)
    (tx : Tx) (htx : tx ∈ s.txs) (hreq : isWithdrawRequest env s2 tx = true) :
    tx.kind = .liqWithdraw ∧ ∃ k o0 c0, canonicalPoolKey tx.data = some k ∧ tx.outputs = [o0] ∧
      s.coins.getCoin ⟨tx.hash, 0⟩ = some c0 ∧ c0.coinData.value = o0.value ∧
      c0.coinData.denom = liqTokenDenom env k := by
  have hn := ReachL.nodup_hashes_of_pairwise (sortedTxs_pairwise (reachable_inv_slots env s h).1.sorted)
  have hkw : tx.kind = .liqWithdraw := (SupplySealL.isWithdrawRequest_full hreq).1
  have htxs1 : s1.txs = s.txs := SupplyBoundL.processSwaps_txs (createBuiltins s) s1 h1
  refine SupplyBoundL.withdrawRequest_backed (C01_reachable_faithful env s h) htx ?_ hreq
  have e2 : s2.coins.getCoin ⟨tx.hash, 0⟩ = s1.coins.getCoin ⟨tx.hash, 0⟩ := by
    refine (processDeposits_coins ⟨tx.hash, 0⟩ env _ _ h2 ?_).1
    intro tx' htx' hreq' e
    have hkd : tx'.kind = .liqDeposit := (SupplySealL.isDepositRequest_full hreq').1
    have : tx' = tx := eq_of_nodup_map _ hn (htxs1 ▸ htx') htx e
    rw [this, hkw] at hkd
    cases hkd
  have e1 : s1.coins.getCoin ⟨tx.hash, 0⟩ = s.coins.getCoin ⟨tx.hash, 0⟩ := by
    refine (processSwaps_coins ⟨tx.hash, 0⟩ _ _ h1 ?_).1
    intro tx' htx' hreq' e
    have hks : tx'.kind = .swap := (SupplySealL.isSwapRequest_full hreq').1
    have : tx' = tx := eq_of_nodup_map _ hn htx' htx e
    rw [this, hkw] at hks
    cases hks
  exact e2.trans e1

/-- **the MEL paid into the MEL/SYM pool by the requests of one block is held in coins**: what the selected swap
    requests pay in (`swapMelIn`) plus what the selected deposit requests pay in (`depMelIn`) — distinct transactions,
    each backed by its own MEL coin — is at most the MEL held in unspent coins.  (`melInflow s.txs`, which
    `SealBounds` bounds instead, also counts transactions whose first output has been spent again.) -/
theorem C09_mel_inflow_backed (env : Env) (s s1 : State) (h : ReachableSep env s)
    (h1 : processSwaps (createBuiltins s) = .ok s1) :
    SupplyBoundL.swapMelIn (createBuiltins s) + SupplyBoundL.depMelIn s1 ≤ coinsTotal s.coins .mel :=
  let hi := (reachable_inv_slots env s h).1
  SupplyBoundL.inflow_le hi.coinKeys (ReachL.nodup_hashes_of_pairwise (sortedTxs_pairwise hi.sorted))
    (C01_reachable_faithful env s h) h1

/-- **fee pool, tips, the MEL/SYM reserve and the MEL coins are summands of the MEL supply** (this is how
    `feeBound` and `reserveBound` of `SealBounds` follow from the supply premise) -/
theorem C09_supply_mel_parts (s : State) (p : PoolState) (hp : s.pools.get poolMelSym = some p) :
    coinsTotal s.coins .mel + p.lefts + s.feePool + s.tips ≤ supply s .mel := by
  have := SupplyBoundL.melSym_reserve_le_poolsTotal hp
  rw [SupplyBoundL.supply_mel_split]
  omega

/-! ### 1. (continued) sealing succeeds under the supply premise -/

/-- sealing a state that satisfies the invariants of reachable states, `poolsSane` and the supply bound succeeds and
    prices every builtin pool that is due -/
theorem seal_ok_of_supply (env : Env) (s : State) (a : Option ProposerAction) (S : Nat) (hsep : ReachableSep env s)
    (hsane : ∀ k p, s.pools.get k = some p → p.liqs ≠ 0 → 0 < p.lefts ∧ 0 < p.rights)
    (hcap : S ≤ sealSupplyCap) (hb : SupplyBounds S s) :
    ∃ ss, sealState env s a = .ok ss ∧ PoolsOk s.tip902 ss.st.pools := by
  obtain ⟨hi, hsl⟩ := reachable_inv_slots env s hsep
  have hc : S + 2 ^ 125 + U128_MAX / 200 ≤ U128_MAX := by
    have := sealSupplyCap_facts.2.1
    omega
  exact SupplyBoundL.sealState_ok_supply env s a S hi.counts (slots_faithful hsl)
    (ReachL.nodup_hashes_of_pairwise (sortedTxs_pairwise hi.sorted)) hsane hi.coinKeys
    (C01_reachable_faithful env s hsep) hb.melSupply hc hb.height

/-- the pool invariant holds in every `ReachableSup` state (as `reachableB_poolsInv`) -/
theorem reachableSup_poolsInv {env : Env} {S : Nat} {s : State} (hcap : S ≤ sealSupplyCap)
    (h : ReachableSup env S s) : PoolsInv s := by
  induction h with
  | genesis cfg =>
    exact ⟨fun k p hg => (nomatch hg), fun hpos => absurd hpos (Nat.lt_irrefl 0)⟩
  | @batch s s' txs fb hr _ _ hb ih =>
    have hp : s'.pools = s.pools := BackL.applyBatch_pools hb
    obtain ⟨-, e2, e3⟩ := applyBatch_hhn _ _ _ _ _ hb
    have ht : prevTip902 s' = prevTip902 s :=
      ReachSealL.tip902_congr (a := { s' with height := s'.height - 1 }) (b := { s with height := s.height - 1 })
        e3 (by show s'.height - 1 = s.height - 1; rw [e2])
    refine ⟨by rw [hp]; exact ih.sane, fun hpos => ?_⟩
    rw [hp, ht]
    exact ih.priced (e2 ▸ hpos)
  | @block s s' ss a hr _ hbd hs hn ih =>
    obtain ⟨ss', hs', hpo⟩ := seal_ok_of_supply env s a S hr.sep ih.sane hcap hbd
    rw [hs] at hs'
    cases hs'
    have hp : s'.pools = ss.st.pools := ReachSealL.nextUnsealed_pools hn
    obtain ⟨-, e2, e3⟩ := sealState_hhn _ _ _ _ hs
    obtain ⟨-, -, -, f2, f3⟩ := nextUnsealed_ok _ _ _ hn
    have ht : prevTip902 s' = s.tip902 :=
      ReachSealL.tip902_congr (a := { s' with height := s'.height - 1 }) (b := s)
        (f3.trans e3) (by show s'.height - 1 = s.height; rw [f2, e2]; rfl)
    refine ⟨by rw [hp]; exact hpo.sane, fun _ => ?_⟩
    rw [hp, ht]
    exact hpo

/-- **sealing a reachable state succeeds and prices every builtin pool that is due, under the supply premise**:
    for every bound `S` up to `sealSupplyCap` (≥ 2^127) -/
theorem C09_seal_ok_supply {env : Env} {S : Nat} {s : State} (h : ReachableSup env S s) (hcap : S ≤ sealSupplyCap)
    (hb : SupplyBounds S s) (a : Option ProposerAction) :
    ∃ ss, sealState env s a = .ok ss ∧ PoolsOk s.tip902 ss.st.pools :=
  seal_ok_of_supply env s a S h.sep (reachableSup_poolsInv hcap h).sane hcap hb

/-- **C09, sealing half, with the premise of the property**: in a state reachable through blocks whose MEL supply
    never exceeded 2^127, sealing — with any proposer action or none — never crashes, as soon as the MEL supply of the
    state is at most 2^124 (a fortiori; `C09_seal_total_supply_127` has the sharp premise) -/
theorem C09_seal_total_supply {env : Env} {s : State} (h : ReachableB' env s) (hsup : supply s .mel ≤ 2 ^ 124)
    (hh : s.height < TIP_909_HEIGHT + 128 * SUBSIDY_HALVING) :
    ∀ a c, sealState env s a ≠ .crash c := fun a =>
  let ⟨_, hs, _⟩ := C09_seal_ok_supply h sealSupplyCap_facts.1
    ⟨Nat.le_trans hsup (Nat.pow_le_pow_right (by decide) (by decide)), hh⟩ a
  Outcome.ne_crash_of_ok hs

/-- … and with the bound of the property itself: MEL supply at most 2^127 -/
theorem C09_seal_total_supply_127 {env : Env} {s : State} (h : ReachableB' env s) (hsup : supply s .mel ≤ 2 ^ 127)
    (hh : s.height < TIP_909_HEIGHT + 128 * SUBSIDY_HALVING) :
    ∀ a c, sealState env s a ≠ .crash c := fun a =>
  let ⟨_, hs, _⟩ := C09_seal_ok_supply h sealSupplyCap_facts.1 ⟨hsup, hh⟩ a
  Outcome.ne_crash_of_ok hs

/-- **a whole block step is total**: seal, header, next block — and the new state is reachable again -/
theorem C09_block_total_supply {env : Env} {S : Nat} {s : State} (h : ReachableSup env S s)
    (hcap : S ≤ sealSupplyCap) (hb : SupplyBounds S s) (hr : RewardFresh env s) :
    ∀ a, ∃ ss s', sealState env s a = .ok ss ∧ nextUnsealed env ss = .ok s' ∧ ReachableSup env S s' := by
  intro a
  obtain ⟨ss, hs, _⟩ := C09_seal_ok_supply h hcap hb a
  obtain ⟨-, s', hn⟩ := reachable_header_ok env s a ss h.reachable hr hs
  exact ⟨ss, s', hs, hn, .block h hr hb hs hn⟩

/-! ### 2. applying under a per-denomination bound -/

/-- **the spent coins of one transaction, per denomination**: in a batch that `load_relevant_coins` accepts, what the
    inputs of one transaction are worth in denomination `d` is at most the coins of `d` in the state plus everything
    the outputs of the batch create in `d` -/
theorem C09_inputs_bound (s : State) (txs : List Tx) (rel : Relevant) (hload : loadRelevantCoins s txs = .ok rel)
    (tx : Tx) (htx : tx ∈ txs) (d : Denom) :
    (tx.inputs.map (SupplyBoundL.relValD rel d)).sum ≤ coinsTotal s.coins d + batchOutputs txs d :=
  SupplyBoundL.inputs_value_bound_d hload htx d

/-- the old hypothesis `bounded` of `ApplyPre` (all denominations together) implies the per-denomination one -/
theorem C09_bounded_imp (s : State) (txs : List Tx)
    (hb : (s.coins.coins.map (·.2.coinData.value)).sum + ((txs.flatMap (·.outputs)).map (·.value)).sum ≤ U128_MAX)
    (d : Denom) : coinsTotal s.coins d + batchOutputs txs d ≤ U128_MAX :=
  SupplyBoundL.bounded_imp_d s txs hb d

/-- the coins of a denomination are part of its supply -/
theorem coinsTotal_le_supply (s : State) (d : Denom) : coinsTotal s.coins d ≤ supply s d := by
  unfold supply
  omega

/-- **C09, apply half, per denomination**: for a state reachable from a genesis configuration and ANY batch (with
    fresh hashes), `apply_tx_batch` returns the new state or a rejection, never a crash, when for every denomination
    the supply of the state is at most `S` and `S` plus what the batch's outputs create in that denomination fits a
    u128.
    ADDED `hbatch` (false without it, see `C09_apply_supply_insufficient`): the supply premise alone does not
    bound the coins a batch creates and spends again. It is needed only for batches whose transactions are all
    well-formed (any other batch is rejected before any arithmetic). -/
theorem C09_apply_total_supply (env : Env) (s : State) (txs : List Tx) (fb : Header) (S : Nat)
    (hsep : ReachableSep env s) (hf : BatchFresh s txs)
    (hsupply : ∀ d, supply s d ≤ S)
    (hbatch : (∀ t ∈ txs, t.isWellFormed = true) → ∀ d, S + batchOutputs txs d ≤ U128_MAX)
    (powDifficulty : ∀ a b c d, env.powOk a b c d ≠ .invalid → c ≤ 100)
    (rewardFits : ∀ hdr, s.history.get (s.height - 1) = some hdr → ∀ a b d t, env.powOk a b d t ≠ .invalid →
      microergsIter s.height * maxDoscReward d hdr.doscSpeed / MICRO_CONVERTER ≤ U128_MAX) :
    ∀ c, applyBatch env s txs fb ≠ .crash c :=
  let hi := (reachable_inv_slots env s hsep).1
  SupplyBoundL.applyBatch_noCrash_d env s txs fb hi.counts hf.fresh hi.heights
    (fun hwf d => Nat.le_trans
      (Nat.add_le_add_right (Nat.le_trans (coinsTotal_le_supply s d) (hsupply d)) _) (hbatch hwf d))
    hi.speeds hi.historyBelow powDifficulty rewardFits

/-- the same with the coin totals instead of the supplies (weaker premise) -/
theorem C09_apply_total_coins (env : Env) (s : State) (txs : List Tx) (fb : Header)
    (hsep : ReachableSep env s) (hf : BatchFresh s txs)
    (hbounded : (∀ t ∈ txs, t.isWellFormed = true) → ∀ d, coinsTotal s.coins d + batchOutputs txs d ≤ U128_MAX)
    (powDifficulty : ∀ a b c d, env.powOk a b c d ≠ .invalid → c ≤ 100)
    (rewardFits : ∀ hdr, s.history.get (s.height - 1) = some hdr → ∀ a b d t, env.powOk a b d t ≠ .invalid →
      microergsIter s.height * maxDoscReward d hdr.doscSpeed / MICRO_CONVERTER ≤ U128_MAX) :
    ∀ c, applyBatch env s txs fb ≠ .crash c :=
  let hi := (reachable_inv_slots env s hsep).1
  SupplyBoundL.applyBatch_noCrash_d env s txs fb hi.counts hf.fresh hi.heights hbounded
    hi.speeds hi.historyBelow powDifficulty rewardFits

/-- what `is_well_formed` gives: the outputs of ONE transaction created in one denomination are worth at most
    255 · 2^120 < 2^128 (derived, not assumed) -/
theorem C09_wellFormed_outputs (tx : Tx) (h : tx.isWellFormed = true) (d : Denom) :
    outAll tx d ≤ 255 * MAX_COINVAL ∧ 255 * MAX_COINVAL < 2 ^ 128 :=
  ⟨SupplyBoundL.outAll_le_of_wellFormed h d, by decide⟩

/-- **a single transaction** (`apply_tx`): when no denomination's supply reaches 2^120 the amount premise is a
    consequence of well-formedness — nothing is assumed of the transaction -/
theorem C09_apply_one_total_supply (env : Env) (s : State) (tx : Tx) (fb : Header)
    (hsep : ReachableSep env s) (hf : BatchFresh s [tx])
    (hsupply : ∀ d, supply s d ≤ 2 ^ 120 - 1)
    (powDifficulty : ∀ a b c d, env.powOk a b c d ≠ .invalid → c ≤ 100)
    (rewardFits : ∀ hdr, s.history.get (s.height - 1) = some hdr → ∀ a b d t, env.powOk a b d t ≠ .invalid →
      microergsIter s.height * maxDoscReward d hdr.doscSpeed / MICRO_CONVERTER ≤ U128_MAX) :
    ∀ c, applyBatch env s [tx] fb ≠ .crash c := by
  refine C09_apply_total_supply env s [tx] fb (2 ^ 120 - 1) hsep hf hsupply ?_ powDifficulty rewardFits
  intro hwf d
  have h1 := SupplyBoundL.outAll_le_of_wellFormed (hwf tx List.mem_cons_self) d
  have h2 : batchOutputs [tx] d = outAll tx d := by simp [batchOutputs]
  rw [h2]
  have h3 : 2 ^ 120 - 1 + 255 * MAX_COINVAL ≤ U128_MAX := by decide
  omega

/-! ### 3. both halves -/

/-- **C09 under the supply premise, both halves**: in a state reachable through blocks that respected the bound `S`
    (`S ≤ sealSupplyCap`, e.g. `2^127` or `2^124`) and in which no denomination's supply exceeds `S`:
    any batch (with fresh hashes, and whose outputs leave room below a u128 — `hbatch`, see
    `C09_apply_total_supply`) is applied or rejected, never a crash; sealing with any proposer action or none
    SUCCEEDS, the next block opens, and its state is reachable in the same sense again.
    `powDifficulty` and `rewardFits` are the two premises about the MelPoW oracle of `ApplyPre`. -/
theorem C09_total_supply (env : Env) (S : Nat) (s : State) (h : ReachableSup env S s) (hcap : S ≤ sealSupplyCap)
    (hsupply : ∀ d, supply s d ≤ S)
    (hh : s.height < TIP_909_HEIGHT + 128 * SUBSIDY_HALVING)
    (hr : RewardFresh env s)
    (powDifficulty : ∀ a b c d, env.powOk a b c d ≠ .invalid → c ≤ 100)
    (rewardFits : ∀ hdr, s.history.get (s.height - 1) = some hdr → ∀ a b d t, env.powOk a b d t ≠ .invalid →
      microergsIter s.height * maxDoscReward d hdr.doscSpeed / MICRO_CONVERTER ≤ U128_MAX) :
    (∀ txs fb, BatchFresh s txs →
      ((∀ t ∈ txs, t.isWellFormed = true) → ∀ d, S + batchOutputs txs d ≤ U128_MAX) →
      ∀ c, applyBatch env s txs fb ≠ .crash c) ∧
    (∀ a c, sealState env s a ≠ .crash c) ∧
    (∀ a, ∃ ss s', sealState env s a = .ok ss ∧ nextUnsealed env ss = .ok s' ∧ ReachableSup env S s') :=
  have hb : SupplyBounds S s := ⟨hsupply .mel, hh⟩
  ⟨fun txs fb hf hbatch => C09_apply_total_supply env s txs fb S h.sep hf hsupply hbatch powDifficulty rewardFits,
    fun a => let ⟨_, hs, _⟩ := C09_seal_ok_supply h hcap hb a; Outcome.ne_crash_of_ok hs,
    C09_block_total_supply h hcap hb hr⟩

/-- the instance for the bound of the property -/
theorem C09_total_supply_127 (env : Env) (s : State) (h : ReachableB' env s)
    (hsupply : ∀ d, supply s d ≤ 2 ^ 127)
    (hh : s.height < TIP_909_HEIGHT + 128 * SUBSIDY_HALVING)
    (hr : RewardFresh env s)
    (powDifficulty : ∀ a b c d, env.powOk a b c d ≠ .invalid → c ≤ 100)
    (rewardFits : ∀ hdr, s.history.get (s.height - 1) = some hdr → ∀ a b d t, env.powOk a b d t ≠ .invalid →
      microergsIter s.height * maxDoscReward d hdr.doscSpeed / MICRO_CONVERTER ≤ U128_MAX) :
    (∀ txs fb, BatchFresh s txs →
      ((∀ t ∈ txs, t.isWellFormed = true) → ∀ d, 2 ^ 127 + batchOutputs txs d ≤ U128_MAX) →
      ∀ c, applyBatch env s txs fb ≠ .crash c) ∧
    (∀ a c, sealState env s a ≠ .crash c) ∧
    (∀ a, ∃ ss s', sealState env s a = .ok ss ∧ nextUnsealed env ss = .ok s' ∧ ReachableB' env s') :=
  C09_total_supply env (2 ^ 127) s h sealSupplyCap_facts.1 hsupply hh hr powDifficulty rewardFits

/-! ### 4. the supply premise matters -/

/-- the converse of the hypothesis of `C09_action_total`: when the proposer's reward does not fit a u128 the action
    panics (`base_fees + tips`, an unchecked `+`) -/
theorem C09_action_crash_of (env : Env) (s : State) (a : ProposerAction)
    (h : s.feePool / 65536 + s.tips > U128_MAX) :
    applyProposerAction env s a = .crash "state.rs: base_fees + tips overflow" := by
  unfold applyProposerAction collectProposerFee
  simp only
  have e : 2 ^ REWARD_SHIFT = 65536 := by decide
  rw [e, if_pos h]

/-- sealing with an action is sealing without one followed by the action -/
theorem sealState_some_of_none (env : Env) (s : State) (a : ProposerAction) (ss : Sealed)
    (h : sealState env s none = .ok ss) :
    sealState env s (some a) = (applyProposerAction env ss.st a).bind fun s3 => .ok { st := s3, action := some a } := by
  unfold sealState at h ⊢
  cases hp : presealMelmint env s with
  | reject e => rw [hp] at h; cases h
  | crash c => rw [hp] at h; cases h
  | ok s1 =>
    rw [hp] at h
    simp only [Outcome.bind] at h ⊢
    split at h
    · cases h
    · rename_i hlen
      rw [if_neg hlen]
      cases h2 : (if s1.tip909 = true then applyTip909 s1 else Outcome.ok s1) with
      | reject e => rw [h2] at h; cases h
      | crash c => rw [h2] at h; cases h
      | ok s2 =>
        rw [h2] at h
        cases h
        rfl

namespace C09SupplyWitness
open ReachWitness (env cfg getOk eq_getOk)

/-- a state whose MEL supply sits in the fee pool and the tips and exceeds 2^127 (it is about 2^128) -/
def feeHeavy : State := { genesisState cfg with feePool := 65536, tips := 2 ^ 128 - 1 }

/-- a state whose fee pool alone holds `u128::MAX` -/
def poolFull : State := { genesisState cfg with feePool := 2 ^ 128 - 1 }

theorem poolFull_crash : (sealState env poolFull none).isCrash = true := by decide +kernel

def feeHeavySealed : Sealed := getOk (sealState env feeHeavy none)

theorem feeHeavy_seal_none : sealState env feeHeavy none = .ok feeHeavySealed := eq_getOk (by decide +kernel)

/-- a genesis configuration whose one coin holds 2^127 MEL: the supply premise of the property holds with equality -/
def cfgBig : GenesisConfig :=
  { network := .custom02, initCoindata := ⟨[8], 2 ^ 127, .mel, []⟩, stakes := [], initFeePool := 0,
    initFeeMultiplier := 0 }

def big : CoinData := ⟨[8], 2 ^ 120, .mel, []⟩

/-- a faucet transaction with 128 outputs of 2^120 MEL (well-formed: at most 255 outputs of at most 2^120) -/
def f : Tx := {
  kind := .faucet, inputs := [], outputs := List.replicate 128 big, fee := 0,
  covenants := [], data := [], sigs := [], hash := [1], rawLen := 0, covHashes := [] }

/-- a transaction spending the initial coin and the 128 coins of `f`: 129 inputs worth 2^128 MEL -/
def t : Tx := {
  kind := .normal, inputs := ⟨zeroHash, 0⟩ :: (List.range 128).map (fun i => ⟨[1], i⟩), outputs := [], fee := 0,
  covenants := [C03Witness.cov], data := [], sigs := [], hash := [3], rawLen := 0, covHashes := [[8]] }

theorem crash : (applyBatch env (genesisState cfgBig) [f, t] default).isCrash = true := by decide +kernel

/-- the same configuration on mainnet, where faucet transactions are not allowed at all -/
def cfgBigMainnet : GenesisConfig := { cfgBig with network := .mainnet }

theorem crashMainnet : (applyBatch env (genesisState cfgBigMainnet) [f, t] default).isCrash = true := by
  decide +kernel

theorem batchFresh : BatchFresh (genesisState cfgBig) [f, t] := by
  refine ⟨by decide, ?_⟩
  intro x hx i
  have hk : ∀ h : Hash, h ≠ zeroHash → (genesisState cfgBig).coins.getCoin ⟨h, i⟩ = none := by
    intro h hne
    show (CoinMap.insertCoin {} ⟨zeroHash, 0⟩ _ _).getCoin ⟨h, i⟩ = none
    rw [CoinMap.getCoin_insertCoin, if_neg]
    · rfl
    · intro e; injection e with e1; exact hne e1
  simp only [List.mem_cons, List.not_mem_nil, or_false] at hx
  rcases hx with rfl | rfl <;> exact hk _ (by decide)

end C09SupplyWitness

open C09SupplyWitness in
/-- **the MEL supply premise cannot be dropped from the sealing half**: a literal state whose MEL supply
    (fee pool + tips + one 5-µMEL coin) is above 2^127 — sealing it without an action succeeds, sealing it with ANY
    proposer action panics in `base_fees + tips` -/
theorem C09_seal_supply_needed :
    supply feeHeavy .mel = 65536 + (2 ^ 128 - 1) + 5 ∧ 2 ^ 127 < supply feeHeavy .mel ∧
    (∃ ss, sealState ReachWitness.env feeHeavy none = .ok ss) ∧
    ∀ a, sealState ReachWitness.env feeHeavy (some a) = .crash "state.rs: base_fees + tips overflow" := by
  have h1 : supply feeHeavy .mel = 65536 + (2 ^ 128 - 1) + 5 := by decide +kernel
  refine ⟨h1, by rw [h1]; decide, ⟨_, feeHeavy_seal_none⟩, ?_⟩
  intro a
  rw [sealState_some_of_none _ _ a _ feeHeavy_seal_none,
    C09_action_crash_of _ _ a (by decide +kernel)]
  rfl

open C09SupplyWitness in
/-- … and without any proposer action: with a fee pool of `u128::MAX` (MEL supply above `sealSupplyCap`) the TIP-909
    subsidy, which moves MEL from the MEL/SYM reserve into the fee pool with an unchecked `+=`, panics -/
theorem C09_seal_supply_needed_subsidy :
    sealSupplyCap < supply poolFull .mel ∧ ∃ c, sealState ReachWitness.env poolFull none = .crash c := by
  refine ⟨by decide +kernel, ?_⟩
  have := poolFull_crash
  cases h : sealState ReachWitness.env poolFull none with
  | crash c => exact ⟨c, rfl⟩
  | ok a => rw [h] at this; cases this
  | reject e => rw [h] at this; cases this

open C09SupplyWitness in
/-- **a supply bound on the state and well-formedness of the transactions do not make applying total**
    (counterexample to the statement one would like: "`∀ d, supply s d ≤ 2^127` and every transaction well-formed —
    hence at most 255 · 2^120 per transaction and denomination — ⇒ `apply_tx_batch` does not crash"):
    the genesis state of a configuration whose one coin holds 2^127 MEL is reachable, its supply is at most 2^127
    in every denomination, the batch `[f, t]` has fresh hashes and well-formed transactions, the oracle premises
    hold — and `apply_tx_batch` crashes (the `in_coins` sum of `t` reaches 2^128).  What fails is `hbatch` of
    `C09_apply_total_supply`: the coins `f` creates out of nothing. -/
theorem C09_apply_supply_insufficient :
    ∃ (env : Env) (s : State) (txs : List Tx) (fb : Header),
      ReachableB' env s ∧ (∀ d, supply s d ≤ 2 ^ 127) ∧ BatchFresh s txs ∧
      (∀ t ∈ txs, t.isWellFormed = true ∧ ∀ d, outAll t d ≤ 255 * MAX_COINVAL) ∧
      (∀ a b c d, env.powOk a b c d ≠ .invalid → c ≤ 100) ∧
      (∀ hdr, s.history.get (s.height - 1) = some hdr → ∀ a b d t, env.powOk a b d t ≠ .invalid →
        microergsIter s.height * maxDoscReward d hdr.doscSpeed / MICRO_CONVERTER ≤ U128_MAX) ∧
      (2 ^ 127 + batchOutputs txs .mel = 2 ^ 128) ∧
      ∃ c, applyBatch env s txs fb = .crash c := by
  refine ⟨ReachWitness.env, genesisState cfgBig, [f, t], default, .genesis cfgBig, ?_, batchFresh, ?_,
    fun _ _ _ _ h => absurd rfl h, fun _ _ _ _ _ _ h => absurd rfl h, by decide +kernel, ?_⟩
  · intro d
    rw [C01_genesis_supply]
    show (if Denom.mel = d then 2 ^ 127 else 0) + (if d = .mel then 0 else 0) ≤ 2 ^ 127
    split <;> simp
  · intro x hx
    simp only [List.mem_cons, List.not_mem_nil, or_false] at hx
    have hw : x.isWellFormed = true := by rcases hx with rfl | rfl <;> decide +kernel
    exact ⟨hw, SupplyBoundL.outAll_le_of_wellFormed hw⟩
  · have := crash
    cases h : applyBatch ReachWitness.env (genesisState cfgBig) [f, t] default with
    | crash c => exact ⟨c, rfl⟩
    | ok a => rw [h] at this; cases this
    | reject e => rw [h] at this; cases this

open C09SupplyWitness in
/-- … and this is so even on MAINNET, where a faucet transaction is never accepted: `handle_faucet_tx` rejects it only
    in `create_next_state`, AFTER `check_tx_validity` has summed the spent coins of every transaction of the batch —
    the batch `[f, t]` crashes instead of being rejected with `MalformedTx` -/
theorem C09_apply_supply_insufficient_mainnet :
    (genesisState cfgBigMainnet).network = .mainnet ∧ (∀ d, supply (genesisState cfgBigMainnet) d ≤ 2 ^ 127) ∧
    ∃ c, applyBatch ReachWitness.env (genesisState cfgBigMainnet) [f, t] default = .crash c := by
  refine ⟨rfl, ?_, ?_⟩
  · intro d
    rw [C01_genesis_supply]
    show (if Denom.mel = d then 2 ^ 127 else 0) + (if d = .mel then 0 else 0) ≤ 2 ^ 127
    split <;> simp
  · have := crashMainnet
    cases h : applyBatch ReachWitness.env (genesisState cfgBigMainnet) [f, t] default with
    | crash c => exact ⟨c, rfl⟩
    | ok a => rw [h] at this; cases this
    | reject e => rw [h] at this; cases this

/-! ### 5. non-vacuity: the literal history of `reachableB_nonvacuous` satisfies the supply premise -/

namespace C09SupplyWitness
open ReachWitness (env cfg)
open C09ReachWitness (s1 ss1 s2 ss2 s3)

/-- the MEL supply of the two states that are sealed on the way is far below 2^124 -/
theorem s1_bounds : SupplyBounds (2 ^ 124) s1 := ⟨by decide +kernel, by decide +kernel⟩
theorem s2_bounds : SupplyBounds (2 ^ 124) s2 := ⟨by decide +kernel, by decide +kernel⟩

theorem s1_reachable : ReachableSup env (2 ^ 124) s1 :=
  .batch (.genesis cfg) C09ReachWitness.batchFresh C09ReachWitness.markerFresh C09ReachWitness.batch_ok

theorem s2_reachable : ReachableSup env (2 ^ 124) s2 :=
  .block s1_reachable C09ReachWitness.rewardFresh1 s1_bounds C09ReachWitness.seal1_ok C09ReachWitness.next1_ok

theorem s3_reachable : ReachableSup env (2 ^ 124) s3 :=
  .block s2_reachable C09ReachWitness.rewardFresh2 s2_bounds C09ReachWitness.seal2_ok C09ReachWitness.next2_ok

end C09SupplyWitness

/-- **non-vacuity**: the literal history genesis → batch with a swap → block → block of `reachableB_nonvacuous`
    is a `ReachableSup` history for the bound 2^124 (hence for 2^127: `ReachableB'`); the two states sealed on the
    way satisfy the supply premise (their MEL supplies are 5 and about 2·10^9 — the builtin pools) and
    `RewardFresh`, so the hypotheses of `C09_seal_ok_supply`, `C09_block_total_supply` and of the seal part of
    `C09_total_supply` are met by `s1` (a swap request in its block) and by `s2` (builtin pools in place) -/
theorem reachableSup_nonvacuous :
    ∃ (env : Env) (s1 s2 s3 : State), ReachableSup env (2 ^ 124) s1 ∧ SupplyBounds (2 ^ 124) s1 ∧
      RewardFresh env s1 ∧ s1.txs ≠ [] ∧ supply s1 .mel = 5 ∧
      ReachableSup env (2 ^ 124) s2 ∧ SupplyBounds (2 ^ 124) s2 ∧ RewardFresh env s2 ∧ s2.height = 1 ∧
      ReachableB' env s3 ∧ s3.height = 2 :=
  open C09SupplyWitness C09ReachWitness in
  ⟨ReachWitness.env, s1, s2, s3, C09SupplyWitness.s1_reachable, C09SupplyWitness.s1_bounds, rewardFresh1,
    by rw [heights.2.1]; exact List.cons_ne_nil _ _, by decide +kernel,
    C09SupplyWitness.s2_reachable, C09SupplyWitness.s2_bounds, rewardFresh2, heights.2.2.1,
    C09SupplyWitness.s3_reachable.mono (Nat.pow_le_pow_right (by decide) (by decide)), heights.2.2.2⟩

/-- non-vacuity of `C09_apply_total_supply` (and of the apply part of `C09_total_supply`): the genesis state of the
    witness has supply at most 5 in every denomination, and the batch `[u]` (a swap transaction with one output of
    5 µMEL) leaves room below a u128 -/
example : ∀ c, applyBatch ReachWitness.env (genesisState ReachWitness.cfg) [ReachWitness.u] default ≠ .crash c := by
  refine C09_apply_total_supply _ _ _ _ 5 (.genesis _) C09ReachWitness.batchFresh ?_ ?_
    (fun _ _ _ _ h => absurd rfl h) (fun _ _ _ _ _ _ h => absurd rfl h)
  · intro d
    rw [C01_genesis_supply]
    show (if Denom.mel = d then 5 else 0) + (if d = .mel then 0 else 0) ≤ 5
    split <;> simp
  · intro _ d
    have h1 : batchOutputs [ReachWitness.u] d = outAll ReachWitness.u d := by simp [batchOutputs]
    have h2 := SupplyBoundL.outAll_le_of_wellFormed (tx := ReachWitness.u) (by decide +kernel) d
    have h3 : 5 + 255 * MAX_COINVAL ≤ U128_MAX := by decide
    rw [h1]
    omega

/-- non-vacuity of `C09_total_supply` as a whole: its hypotheses hold of the genesis state of the witness -/
example :
    (∀ a c, sealState ReachWitness.env (genesisState ReachWitness.cfg) a ≠ .crash c) ∧
    (∀ a, ∃ ss s', sealState ReachWitness.env (genesisState ReachWitness.cfg) a = .ok ss ∧
      nextUnsealed ReachWitness.env ss = .ok s' ∧ ReachableB' ReachWitness.env s') := by
  have h := C09_total_supply_127 ReachWitness.env (genesisState ReachWitness.cfg) (.genesis _)
    (by
      intro d
      rw [C01_genesis_supply]
      show (if Denom.mel = d then 5 else 0) + (if d = .mel then 0 else 0) ≤ 2 ^ 127
      split <;> simp)
    (by decide +kernel) (by unfold RewardFresh; decide +kernel)
    (fun _ _ _ _ h => absurd rfl h) (fun _ _ _ _ _ _ h => absurd rfl h)
  exact ⟨h.2.1, h.2.2⟩

end Mel

#print axioms Mel.ReachableSup.mono
#print axioms Mel.ReachableSup.sep
#print axioms Mel.C09_swap_requests_backed
#print axioms Mel.C09_deposit_requests_backed
#print axioms Mel.C09_withdraw_requests_backed
#print axioms Mel.C09_mel_inflow_backed
#print axioms Mel.C09_supply_mel_parts
#print axioms Mel.seal_ok_of_supply
#print axioms Mel.reachableSup_poolsInv
#print axioms Mel.C09_seal_ok_supply
#print axioms Mel.C09_seal_total_supply
#print axioms Mel.C09_seal_total_supply_127
#print axioms Mel.C09_block_total_supply
#print axioms Mel.C09_inputs_bound
#print axioms Mel.C09_bounded_imp
#print axioms Mel.C09_apply_total_supply
#print axioms Mel.C09_apply_total_coins
#print axioms Mel.C09_wellFormed_outputs
#print axioms Mel.C09_apply_one_total_supply
#print axioms Mel.C09_total_supply
#print axioms Mel.C09_total_supply_127
#print axioms Mel.C09_action_crash_of
#print axioms Mel.sealState_some_of_none
#print axioms Mel.C09_seal_supply_needed
#print axioms Mel.C09_seal_supply_needed_subsidy
#print axioms Mel.C09_apply_supply_insufficient
#print axioms Mel.C09_apply_supply_insufficient_mainnet
#print axioms Mel.reachableSup_nonvacuous
