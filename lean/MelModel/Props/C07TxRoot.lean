/-
  C07 — "the … transaction roots are functions of the contents alone …; every … block transaction can be proven present"
  for the TIP-908 commitment (MelModel/TxRoot.lean): the root does not depend on the order in which the block's transactions
  are listed, it determines them, every transaction is provable at its position, the position is the rank of its hash, and
  the leaf found there is that transaction's.
  Property theorems only; helper lemmas live in MelModel/Lemmas/TxRootL.lean.
-/
import MelModel.TxRoot
import MelModel.Props.C07
import MelModel.Props.C07Dense
import MelModel.Lemmas.TxRootL
namespace Mel
open Mel.Merkle Mel.TxRoot

/-- the byte-string order is a total order: sorting has one result whatever the algorithm (`sort_unstable` included) -/
theorem C07_sorted_unique (l₁ l₂ : List Bytes) (hp : l₁.Perm l₂)
    (h₁ : l₁.Pairwise (fun a b => bytesLe a b = true)) (h₂ : l₂.Pairwise (fun a b => bytesLe a b = true)) : l₁ = l₂ := by
  exact sorted_unique l₁ l₂ hp h₁ h₂

/-- the root is a function of the set of transactions: any listing order gives the same root -/
theorem C07_txroot_perm (H : Hashers) (ls ls' : List Bytes) (hp : ls.Perm ls') : tip908Root H ls = tip908Root H ls' := by
  exact txroot_perm H ls ls' hp

/-- every transaction of the block is provable: its leaf sits at some position below the number of transactions, and the
    tree's own proof for that position verifies against the root -/
theorem C07_txroot_member_provable (H : Hashers) (ls : List Bytes) (l : Bytes) (hl : l ∈ ls) :
    ∃ i, i < ls.length ∧ (sortedLeaves ls).getD i [] = l ∧
      verifyDense H (denseProof H (sortedLeaves ls) i) (tip908Root H ls) i (hashData H l) = true := by
  exact txroot_member_provable H ls l hl

/-- … and nothing else is provable there: a verifying proof at a position below the number of transactions proves the leaf
    that is at that position in the sorted list (hash functions injective away from the zero rules) -/
theorem C07_txroot_sound (H : Hashers) (hi : Injective H) (ls : List Bytes) (i : Nat) (b : Bytes) (proof : List Hash)
    (hp : proof.length = Nat.log2 (denseLeaves H (sortedLeaves ls)).length) (hidx : i < ls.length)
    (hv : verifyDense H proof (tip908Root H ls) i (hashData H b) = true) : (sortedLeaves ls).getD i [] = b := by
  exact txroot_sound H ⟨hi.data_inj, hi.data_nz, hi.node_inj, hi.node_nz⟩ ls i b proof hp hidx hv

/-- the root determines the transactions: equal roots for two blocks with non-empty leaves whose leaf counts pad to the same
    size mean the same leaves up to order — "any difference in a transaction changes the header" -/
theorem C07_txroot_injective (H : Hashers) (hi : Injective H) (ls ls' : List Bytes)
    (hne : ∀ x ∈ ls, x ≠ []) (hne' : ∀ x ∈ ls', x ≠ [])
    (hsz : nextPow2 ls.length = nextPow2 ls'.length) (hr : tip908Root H ls = tip908Root H ls') : ls.Perm ls' := by
  exact txroot_injective H ⟨hi.data_inj, hi.data_nz, hi.node_inj, hi.node_nz⟩ ls ls' hne hne' hsz hr

/-- a hash has a position exactly when it is one of the block's -/
theorem C07_posn_none_iff (hashes : List Hash) (h : Hash) : sortedPosn hashes h = none ↔ h ∉ hashes := by
  exact posn_none_iff hashes h

/-- the position is the rank: the number of the block's hashes that are smaller (hashes distinct) -/
theorem C07_posn_is_rank (hashes : List Hash) (h : Hash) (i : Nat) (hnd : hashes.Nodup)
    (hp : sortedPosn hashes h = some i) : i = (hashes.filter (fun k => bytesLt k h)).length := by
  exact posn_is_rank hashes h i hnd hp

/-- the accessor and the tree agree: for transactions with distinct 32-byte signature-free hashes, the leaf at the
    position the accessor reports for a transaction's hash is that transaction's leaf — so the proof for that position
    is a proof of that transaction -/
theorem C07_posn_matches_leaf (txs : List (Hash × Hash)) (hlen : ∀ t ∈ txs, t.1.length = 32)
    (hnd : (txs.map (·.1)).Nodup) (t : Hash × Hash) (ht : t ∈ txs) (i : Nat)
    (hp : sortedPosn (txs.map (·.1)) t.1 = some i) :
    (sortedLeaves (txs.map fun t => leafOf t.1 t.2)).getD i [] = leafOf t.1 t.2 := by
  exact posn_matches_leaf txs hlen hnd t ht i hp

/-! ### non-vacuity -/

example : sortedPosn [[3], [1], [2]] [2] = some 1 ∧ sortedPosn [[3], [1], [2]] [9] = none := by
  simp [sortedPosn, List.mergeSort, List.MergeSort.Internal.splitInTwo, bytesLe, bytesLt, List.findIdx?_cons]

example : sortedLeaves [[3, 0], [1, 7], [2, 5]] = [[1, 7], [2, 5], [3, 0]] := by
  simp [sortedLeaves, List.mergeSort, List.MergeSort.Internal.splitInTwo, bytesLe, bytesLt]

end Mel

#print axioms Mel.C07_sorted_unique
#print axioms Mel.C07_txroot_perm
#print axioms Mel.C07_txroot_member_provable
#print axioms Mel.C07_txroot_sound
#print axioms Mel.C07_txroot_injective
#print axioms Mel.C07_posn_none_iff
#print axioms Mel.C07_posn_is_rank
#print axioms Mel.C07_posn_matches_leaf
