/-
  C16, history level — the liquidity tokens of a pool in circulation never exceed the liquidity the pool records.
  Property theorems only; helper lemmas live in MelModel/Lemmas/BackL.lean (which may build on Lemmas/Supply.lean,
  Lemmas/SupplySeal.lean, Lemmas/Pools.lean).

  "In circulation" counts every unit of the pool's token wherever it sits: in unspent coins and in the reserves of
  other pools (a liquidity token can itself be deposited into a pool) — `supply s (liqTokenDenom env k)`.
  Excluded by explicit hypotheses, each a recorded finding: tokens minted by a faucet transaction (K-faucet-liq)
  and the legacy deposit window (K-legacy-deposit).  A third exclusion found while proving — a deposit that drives
  a pool's recorded liquidity into the u128 ceiling (K-liq-saturation; the former hypothesis `DepositsFit`) — is
  gone: since the `fix:` such a deposit is left unsettled (`C16_saturating_deposit_skipped`), and a deposit that
  is settled satisfies `pool.liqs + issued ≤ u128::MAX`, so the saturating addition in `PoolState::deposit` is
  exact.  `C16_old_saturating_deposit` records the arithmetic that used to break the backing.

  Pools are quantified over *canonical* keys (`CanonKey`): `PoolKey.toBytes` spells `(SYM, MEL)` like `(MEL, SYM)`,
  so the two keys share one token denomination; the first draft's `LiqDenomsApart` (injectivity over all keys) is
  therefore unsatisfiable (`LiqDenomsApart_unsatisfiable`) and `∀ k, Backed env s k` fails for the non-canonical
  spelling as soon as anybody holds MEL-pool liquidity.  `C16_backed_*_pool` are the per-pool versions.
-/
import MelModel.Seal
import MelModel.SupplyDefs
import MelModel.Props.C01
import MelModel.Props.C01Seal
import MelModel.Props.C16
import MelModel.Lemmas.BackL
namespace Mel
open Mel.Gen

/-- the liquidity recorded by pool `k` (0 when the pool does not exist) -/
def recordedLiqs (s : State) (k : PoolKey) : Nat := ((s.pools.get k).map (·.liqs)).getD 0

theorem recordedLiqs_eq (s : State) (k : PoolKey) : recordedLiqs s k = BackL.liqsAt s.pools k := rfl

/-- pool `k`'s tokens are backed: no more of them exist than the pool has issued and not yet redeemed -/
def Backed (env : Env) (s : State) (k : PoolKey) : Prop :=
  supply s (liqTokenDenom env k) ≤ recordedLiqs s k

/-- the token denominations of distinct pools are distinct, and no token denomination is MEL/SYM/ERG
    (collision-freeness of the keyed hash `liqHash`) -/
structure LiqDenomsApart (env : Env) : Prop where
  inj : ∀ k k' : PoolKey, liqTokenDenom env k = liqTokenDenom env k' → k = k'

/-- `LiqDenomsApart` as written holds for NO environment: `PoolKey.toBytes` spells the non-canonical key
    `(SYM, MEL)` exactly like the canonical `(MEL, SYM)`, so the two have the same token denomination whatever
    `liqHash` is. Theorems that assumed it were vacuous; they now assume `LiqDenomsApartC` below. -/
theorem LiqDenomsApart_unsatisfiable (env : Env) : ¬ LiqDenomsApart env := by
  intro h
  have := h.inj ⟨.mel, .sym⟩ ⟨.sym, .mel⟩ rfl
  cases this

/-- a pool key in the one spelling settlement accepts (`canonical_pool_key`): the only keys for which pools are
    created, deposits are taken and tokens are issued -/
def CanonKey (k : PoolKey) : Prop := canonicalPoolKey k.toBytes = some k

/-- the corrected `LiqDenomsApart`: the token denominations of distinct *canonical* pool keys are distinct
    (collision-freeness of the keyed hash `liqHash`; `toBytes` is injective on canonical keys) -/
structure LiqDenomsApartC (env : Env) : Prop where
  inj : ∀ k k' : PoolKey, CanonKey k → CanonKey k' → liqTokenDenom env k = liqTokenDenom env k' → k = k'

/-- **a batch keeps every pool's tokens backed**, unless it mints them: no faucet output (K-faucet-liq) and no
    newly created custom token coincides with the pool's token denomination -/
theorem C16_backed_batch (env : Env) (s s' : State) (txs : List Tx) (fb : Header) (k : PoolKey)
    (h : applyBatch env s txs fb = .ok s') (hk : (s.coins.coins.map (·.1)).Nodup)
    (hmint : batchIssuance txs (liqTokenDenom env k) = 0)
    (hb : Backed env s k) : Backed env s' k := by
  have h1 := C01_apply env s s' txs fb h hk (liqTokenDenom env k)
  have hp := BackL.applyBatch_pools h
  unfold Backed recordedLiqs at *
  rw [hp]
  omega

/-- settlement, one pool at a time: what `C16_backed_settle` rests on; also says the state stays well-keyed -/
theorem C16_backed_settle_pool (env : Env) (s s' : State) (h : settle env s = .ok s') (hp : SealPre s)
    (hl : legacyDeposit s = false) (k : PoolKey)
    (hinj : ∀ k', CanonKey k' → liqTokenDenom env k' = liqTokenDenom env k → k' = k) :
    Good s s' ∧ (Backed env s k → Backed env s' k) := by
  unfold settle at h
  obtain ⟨s1, h1, h⟩ := Outcome.bind_eq_ok h
  obtain ⟨s2, h2, h3⟩ := Outcome.bind_eq_ok h
  have hfaith : ∀ tx ∈ s.txs, FaithfulTx s.coins tx := hp.faithful
  -- swaps
  obtain ⟨g1, l1, u1⟩ := swaps_phase s s1 s.coins (liqTokenDenom env k) h1 hp.coinKeys hp.poolKeys hp.txHashes
    hp.coinKeys hp.bounded (fun _ _ _ _ => rfl) (fun tx htx _ => hfaith tx htx)
  have q1 := BackL.processSwaps_liqs h1 k
  have same1 : ∀ tx ∈ s.txs, tx.kind ≠ .swap → ∀ i,
      s1.coins.getCoin ⟨tx.hash, i⟩ = s.coins.getCoin ⟨tx.hash, i⟩ := by
    intro tx htx hk i
    apply u1
    intro tx2 htx2 hk2 e
    have := eq_of_nodup_map _ hp.txHashes htx2 htx e
    rw [this] at hk2; exact hk hk2
  -- deposits
  have ht1 : (s1.txs.map (·.hash)).Nodup := by rw [g1.txs]; exact hp.txHashes
  obtain ⟨g2, l2, u2⟩ := BackL.deposits_phaseG env s1 s2 s.coins k h2
    ((legacyDeposit_congr g1.height g1.network).trans hl) hinj g1.coinKeys g1.poolKeys ht1 hp.coinKeys hp.bounded
    (fun tx htx hk i => same1 tx (g1.txs ▸ htx) (by rw [hk]; decide) i)
    (fun tx htx _ => hfaith tx (g1.txs ▸ htx))
  have same2 : ∀ tx ∈ s.txs, tx.kind ≠ .swap → tx.kind ≠ .liqDeposit → ∀ i,
      s2.coins.getCoin ⟨tx.hash, i⟩ = s.coins.getCoin ⟨tx.hash, i⟩ := by
    intro tx htx hk hk' i
    rw [← same1 tx htx hk i]
    apply u2
    intro tx2 htx2 hk2 e
    rw [g1.txs] at htx2
    have := eq_of_nodup_map _ hp.txHashes htx2 htx e
    rw [this] at hk2; exact hk' hk2
  -- withdrawals
  have g12 := g1.trans g2
  have ht2 : (s2.txs.map (·.hash)).Nodup := by rw [g12.txs]; exact hp.txHashes
  obtain ⟨g3, l3⟩ := BackL.withdrawals_phaseG env s2 s' s.coins k h3 g2.coinKeys g2.poolKeys ht2 hp.coinKeys
    hp.bounded
    (fun tx htx hk i => same2 tx (g12.txs ▸ htx) (by rw [hk]; decide) (by rw [hk]; decide) i)
    (fun tx htx _ => hfaith tx (g12.txs ▸ htx))
  refine ⟨g12.trans g3, ?_⟩
  intro hb
  unfold Backed at *
  rw [recordedLiqs_eq, BackL.supply_liq] at *
  unfold BackL.Step at l2 l3
  omega

/-- **settlement keeps every pool's tokens backed**: deposits issue at most what the pool adds to its record
    (`C16_issue_backed`), withdrawals burn exactly what the pool subtracts, swaps and the settlement of *other*
    pools only move tokens between coins and reserves.
    Changed from the first draft: `LiqDenomsApartC` instead of the unsatisfiable `LiqDenomsApart`
    (`LiqDenomsApart_unsatisfiable`); pools are quantified over *canonical* keys (for the non-canonical spelling
    `(SYM, MEL)`, whose token is the MEL/SYM pool's, `Backed` fails as soon as anybody holds MEL/SYM liquidity);
    The intermediate hypothesis `hfit : DepositsFit env s` (K-liq-saturation) is gone again: since the `fix:` a
    deposit that would saturate the record is left unsettled (`C16_saturating_deposit_skipped`). -/
theorem C16_backed_settle (env : Env) (s s' : State) (h : settle env s = .ok s') (hp : SealPre s)
    (hl : legacyDeposit s = false) (ha : LiqDenomsApartC env)
    (hb : ∀ k, CanonKey k → Backed env s k) : ∀ k, CanonKey k → Backed env s' k := by
  intro k hk
  exact (C16_backed_settle_pool env s s' h hp hl k (fun k' hk' e => ha.inj k' k hk' hk e)).2 (hb k hk)

/-- a step that leaves the coins of the token no larger, the pool reserves of the token and the recorded
    liquidity as they are, keeps the pool's tokens backed -/
theorem C16_backed_of_same {env : Env} {s s' : State} {k : PoolKey}
    (hc : coinsTotal s'.coins (.custom (env.liqHash k.toBytes)) ≤ coinsTotal s.coins (.custom (env.liqHash k.toBytes)))
    (ht : poolsTotal s'.pools (.custom (env.liqHash k.toBytes)) = poolsTotal s.pools (.custom (env.liqHash k.toBytes)))
    (hq : BackL.liqsAt s.pools k ≤ BackL.liqsAt s'.pools k) (hb : Backed env s k) : Backed env s' k := by
  unfold Backed at *
  rw [recordedLiqs_eq, BackL.supply_liq] at *
  unfold cp liqTokenDenom at *
  omega

theorem C16_backed_builtins_pool (env : Env) (s : State) (hk : (s.pools.map (·.1)).Nodup) (k : PoolKey)
    (hb : Backed env s k) : Backed env (createBuiltins s) k := by
  obtain ⟨_, t, l⟩ := BackL.createBuiltins_back s (env.liqHash k.toBytes) hk
  exact C16_backed_of_same (s := s) (s' := createBuiltins s) (Nat.le_refl _) t (l k) hb

/-- creating the builtin pools keeps tokens backed (a new builtin pool records 10^9 nobody-owned liquidity; since
    the `fix:` for F23 a builtin pool is also created afresh when it recorded no liquidity — then none of its
    tokens were in circulation, and the recorded liquidity only grows) -/
theorem C16_backed_builtins (env : Env) (s : State) (hk : (s.pools.map (·.1)).Nodup)
    (hb : ∀ k, Backed env s k) (hnone : ∀ k ∈ [poolMelSym, poolMelErg, poolErgSym], s.pools.get k = none →
      supply s (liqTokenDenom env k) = 0) :
    ∀ k, Backed env (createBuiltins s) k := by
  intro k
  have _ := hnone   -- implied by `hb`: an absent pool records 0, so none of its tokens may exist
  exact C16_backed_builtins_pool env s hk k (hb k)

theorem C16_backed_pegging_pool (env : Env) (s s' : State) (h : processPegging s = .ok s')
    (hk : (s.pools.map (·.1)).Nodup) (k : PoolKey) (hb : Backed env s k) : Backed env s' k := by
  obtain ⟨hc, _, t, l⟩ := BackL.processPegging_back h hk (env.liqHash k.toBytes)
  exact C16_backed_of_same (by rw [hc]; exact Nat.le_refl _) t (by rw [l k]; exact Nat.le_refl _) hb

/-- pegging, the TIP-909 subsidy and the proposer reward touch neither recorded liquidity nor any token.
    Changed from the first draft: the unsatisfiable (and unneeded) hypothesis `LiqDenomsApart env` is gone. -/
theorem C16_backed_pegging (env : Env) (s s' : State) (h : processPegging s = .ok s')
    (hk : (s.pools.map (·.1)).Nodup)
    (hsym : ∀ k, liqTokenDenom env k ≠ .mel ∧ liqTokenDenom env k ≠ .sym ∧ liqTokenDenom env k ≠ .erg)
    (hb : ∀ k, Backed env s k) : ∀ k, Backed env s' k := by
  intro k
  have _ := hsym   -- automatic: a token denomination is a `custom` one
  exact C16_backed_pegging_pool env s s' h hk k (hb k)

theorem C16_settle_of_phases {env : Env} {s0 t1 t2 t3 : State} (h1 : processSwaps s0 = .ok t1)
    (h2 : processDeposits env t1 = .ok t2) (h3 : processWithdrawals env t2 = .ok t3) :
    settle env s0 = .ok t3 := by
  unfold settle
  rw [h1]
  show (processDeposits env t1).bind _ = _
  rw [h2]
  exact h3

/-- sealing, one pool at a time -/
theorem C16_backed_seal_pool (env : Env) (s : State) (a : Option ProposerAction) (ss : Sealed)
    (h : sealState env s a = .ok ss) (hp : SealPre s) (hl : legacyDeposit s = false) (k : PoolKey)
    (hinj : ∀ k', CanonKey k' → liqTokenDenom env k' = liqTokenDenom env k → k' = k)
    (hb : Backed env s k) : Backed env ss.st k := by
  unfold sealState at h
  obtain ⟨s1, hpre, h⟩ := Outcome.bind_eq_ok h
  split at h
  · cases h
  obtain ⟨s2, h2, h⟩ := Outcome.bind_eq_ok h
  -- Melmint
  unfold presealMelmint at hpre
  simp only at hpre
  split at hpre
  · cases hpre
  obtain ⟨t1, ht1, hpre⟩ := Outcome.bind_eq_ok hpre
  obtain ⟨t2, ht2, hpre⟩ := Outcome.bind_eq_ok hpre
  obtain ⟨t3, ht3, hpeg⟩ := Outcome.bind_eq_ok hpre
  have hn0 := (BackL.createBuiltins_back s (env.liqHash k.toBytes) hp.poolKeys).1
  have hp0 : SealPre (createBuiltins s) := ⟨hp.coinKeys, hn0, hp.txHashes, hp.faithful, hp.bounded⟩
  have b0 := C16_backed_builtins_pool env s hp.poolKeys k hb
  obtain ⟨g, b3⟩ := C16_backed_settle_pool env (createBuiltins s) t3 (C16_settle_of_phases ht1 ht2 ht3) hp0 hl k hinj
  have b3 := b3 b0
  -- the second `create_builtins` (since the `fix:` for F24): a builtin pool emptied by the withdrawals is made afresh
  have hn3 := (BackL.createBuiltins_back t3 (env.liqHash k.toBytes) g.poolKeys).1
  have b3' := C16_backed_builtins_pool env t3 g.poolKeys k b3
  have b1 := C16_backed_pegging_pool env (createBuiltins t3) s1 hpeg hn3 k b3'
  obtain ⟨c1, n1, _, _⟩ := BackL.processPegging_back hpeg hn3 (env.liqHash k.toBytes)
  have k1 : s1.coins.Nodup := by rw [c1]; exact g.coinKeys
  -- subsidy
  have hs2 : Backed env s2 k ∧ s2.coins.Nodup := by
    split at h2
    · obtain ⟨c2, _, t, l⟩ := BackL.applyTip909_back h2 n1 (env.liqHash k.toBytes)
      exact ⟨C16_backed_of_same (by rw [c2]; exact Nat.le_refl _) t (by rw [l k]; exact Nat.le_refl _) b1,
        by rw [c2]; exact k1⟩
    · cases h2; exact ⟨b1, k1⟩
  -- proposer action
  split at h
  · cases h; exact hs2.1
  · next act =>
    obtain ⟨s3, h3, h⟩ := Outcome.bind_eq_ok h
    cases h
    obtain ⟨c3, p3⟩ := BackL.applyProposerAction_back h3 hs2.2 (env.liqHash k.toBytes)
    exact C16_backed_of_same c3 (by rw [p3]) (by rw [p3]; exact Nat.le_refl _) hs2.1

/-- **sealing keeps every pool's tokens backed**.
    Changed from the first draft exactly as `C16_backed_settle`: `LiqDenomsApartC` for the unsatisfiable
    `LiqDenomsApart`, and canonical keys; the intermediate `hfit : DepositsFit env (createBuiltins s)` is gone
    again (see `C16_backed_settle`). `hsym`, `hfresh` and `hnone` are not needed but kept. -/
theorem C16_backed_seal (env : Env) (s : State) (a : Option ProposerAction) (ss : Sealed)
    (h : sealState env s a = .ok ss) (hp : SealPre s) (hl : legacyDeposit s = false) (ha : LiqDenomsApartC env)
    (hsym : ∀ k, liqTokenDenom env k ≠ .mel ∧ liqTokenDenom env k ≠ .sym ∧ liqTokenDenom env k ≠ .erg)
    (hfresh : s.coins.getCoin { txhash := env.rewardId s.height, index := 0 } = none)
    (hnone : ∀ k ∈ [poolMelSym, poolMelErg, poolErgSym], s.pools.get k = none →
      supply s (liqTokenDenom env k) = 0)
    (hb : ∀ k, CanonKey k → Backed env s k) : ∀ k, CanonKey k → Backed env ss.st k := by
  intro k hk
  have _ := hsym
  have _ := hfresh
  have _ := hnone
  exact C16_backed_seal_pool env s a ss h hp hl k (fun k' hk' e => ha.inj k' k hk' hk e) (hb k hk)

namespace C16HistWitness

def env : Env := {
  vm := { hash := id, sigOk := fun _ _ _ => true },
  liqHash := id, fdp := fun h => 9 :: h, rewardId := fun _ => [], hdrHash := fun _ => [],
  powOk := fun _ _ _ _ => .invalid, isGrandfathered := fun _ => false,
  historyRoot := fun _ => [], coinsRoot := fun _ => [], txsRoot := fun _ _ => [],
  poolsRoot := fun _ => [], stakesRoot := fun _ => [] }

/-- an empty off-mainnet state: no pool, no coin -/
def s0 : State := {
  network := .custom02, height := 10, history := [], coins := {},
  txs := [], feePool := 0, feeMultiplier := 0, tips := 0, doscSpeed := 0, pools := [], stakes := [] }

/-- a faucet transaction with one output in the MEL/SYM pool's token denomination -/
def faucet : Tx := {
  kind := .faucet, inputs := [], outputs := [(⟨[8], 5, liqTokenDenom env poolMelSym, []⟩ : CoinData)], fee := 0,
  covenants := [], data := [], sigs := [], hash := [2], rawLen := 0, covHashes := [] }

def valOf (o : Outcome State) : State :=
  match o with
  | .ok a => a
  | _ => s0

theorem eq_ok_of_isOk {o : Outcome State} (h : o.isOk = true) : o = .ok (valOf o) := by
  cases o with
  | ok a => rfl
  | reject e => cases h
  | crash c => cases h

/-! #### a saturating deposit (K-liq-saturation) and an ordinary one -/

/-- the MEL/SYM pool's token denomination in `env` -/
def tok : Denom := liqTokenDenom env poolMelSym

/-- a deposit of `a` MEL and `b` SYM into the MEL/SYM pool -/
def dep (a b : Nat) : Tx := {
  kind := .liqDeposit, inputs := [], outputs := [(⟨[7], a, .mel, []⟩ : CoinData), ⟨[7], b, .sym, []⟩], fee := 0,
  covenants := [], data := [115], sigs := [], hash := [2], rawLen := 0, covHashes := [] }

/-- a state in which the MEL/SYM pool holds `(l, r)` and records `q` liquidity, all `q` tokens are in one coin,
    and the block contains the deposit `dep a b`, whose two coins exist as declared -/
def sDep (l r q a b : Nat) : State := {
  network := .custom02, height := 10, history := [],
  coins := { coins := [(⟨[1], 0⟩, ⟨⟨[7], q, tok, []⟩, 5⟩), (⟨[2], 0⟩, ⟨⟨[7], a, .mel, []⟩, 10⟩),
                       (⟨[2], 1⟩, ⟨⟨[7], b, .sym, []⟩, 10⟩)], counts := [([7], 3)] },
  txs := [dep a b], feePool := 0, feeMultiplier := 0, tips := 0, doscSpeed := 0,
  pools := [(poolMelSym, ⟨l, r, 0, q⟩)], stakes := [] }

theorem env_apart : LiqDenomsApartC env := by
  refine ⟨fun k k' hk hk' e => ?_⟩
  have e' : k.toBytes = k'.toBytes := Denom.custom.inj e
  unfold CanonKey at hk hk'
  rw [e', hk'] at hk
  exact (Option.some.inj hk).symm

theorem canon_melSym : CanonKey poolMelSym := by unfold CanonKey; decide

theorem coinsTotal_le_sum (m : CoinMap) (d : Denom) :
    coinsTotal m d ≤ (m.coins.map fun e => e.2.coinData.value).sum := by
  unfold coinsTotal
  induction m.coins with
  | nil => simp
  | cons e rest ih =>
    simp only [List.filter_cons, List.map_cons, List.sum_cons]
    split
    · simp only [List.map_cons, List.sum_cons]; omega
    · omega

theorem sealPre_sDep (l r q a b : Nat) (hfit : q + a + b ≤ U128_MAX) : SealPre (sDep l r q a b) := by
  refine ⟨?_, ?_, ?_, ?_, ?_⟩
  · show ([⟨[1], 0⟩, ⟨[2], 0⟩, ⟨[2], 1⟩] : List CoinID).Nodup
    decide
  · show ([poolMelSym] : List PoolKey).Nodup
    decide
  · show ([[2]] : List Hash).Nodup
    decide
  · intro tx htx i o c ho hc
    simp only [sDep, List.mem_cons, List.not_mem_nil, or_false] at htx
    subst htx
    match i with
    | 0 =>
      simp only [dep, List.getElem?_cons_zero, Option.some.injEq] at ho
      subst ho
      have : c = ⟨⟨[7], a, .mel, []⟩, 10⟩ := by
        have h2 : (sDep l r q a b).coins.getCoin ⟨(dep a b).hash, 0⟩ = some ⟨⟨[7], a, .mel, []⟩, 10⟩ := rfl
        rw [h2] at hc; exact (Option.some.inj hc).symm
      subst this
      exact ⟨rfl, rfl⟩
    | 1 =>
      simp only [dep, List.getElem?_cons_succ, List.getElem?_cons_zero, Option.some.injEq] at ho
      subst ho
      have : c = ⟨⟨[7], b, .sym, []⟩, 10⟩ := by
        have h2 : (sDep l r q a b).coins.getCoin ⟨(dep a b).hash, 1⟩ = some ⟨⟨[7], b, .sym, []⟩, 10⟩ := rfl
        rw [h2] at hc; exact (Option.some.inj hc).symm
      subst this
      exact ⟨rfl, rfl⟩
    | n + 2 => simp [dep] at ho
  · intro d
    refine Nat.le_trans (coinsTotal_le_sum _ d) ?_
    simp only [sDep, List.map_cons, List.map_nil, List.sum_cons, List.sum_nil]
    omega

/-- in `sDep` every canonical pool is backed as soon as the MEL/SYM pool is -/
theorem backed_sDep (l r q a b : Nat) : ∀ k, CanonKey k → Backed env (sDep l r q a b) k := by
  intro k hk
  by_cases e : k = poolMelSym
  · subst e
    unfold Backed
    have htok : tok = .custom [115] := by decide
    have h1 : supply (sDep l r q a b) (liqTokenDenom env poolMelSym) = q := by
      show supply _ tok = q
      simp [supply, coinsTotal, poolsTotal, sDep, htok, poolMelSym_eq]
    have h2 : recordedLiqs (sDep l r q a b) poolMelSym = q := by
      simp [recordedLiqs, sDep, AList.get]
    rw [h1, h2]
    exact Nat.le_refl _
  · have hne : k.toBytes ≠ [115] := by
      intro hb
      unfold CanonKey at hk
      rw [hb] at hk
      have : canonicalPoolKey [115] = some poolMelSym := by decide
      rw [this] at hk
      exact e (Option.some.inj hk).symm
    have hne' : ¬ ([115] : Bytes) = k.toBytes := fun h => hne h.symm
    unfold Backed
    have htok : tok = .custom [115] := by decide
    have h1 : supply (sDep l r q a b) (liqTokenDenom env k) = 0 := by
      show supply _ (.custom k.toBytes) = 0
      generalize k.toBytes = bs at hne hne'
      simp [supply, coinsTotal, poolsTotal, sDep, htok, poolMelSym_eq, hne']
    rw [h1]
    exact Nat.zero_le _

theorem coinMap_ext {a b : CoinMap} (h1 : a.coins = b.coins) (h2 : a.counts = b.counts) : a = b := by
  cases a; cases b; simp only at h1 h2; subst h1; subst h2; rfl

/-- the saturating deposit of K-liq-saturation: the MEL/SYM pool holds (2^120, 1) and records 2^120 liquidity,
    all 2^120 tokens are in circulation, and the block deposits 2^120 MEL and 2^120 SYM -/
def sSat : State := sDep (2 ^ 120) 1 (2 ^ 120) (2 ^ 120) (2 ^ 120)

end C16HistWitness

/-- **K-liq-saturation, after the `fix:`**: the MEL/SYM pool holds (2^120, 1) and records 2^120 liquidity — the
    state right after a first deposit of 2^120 MEL and 1 SYM — and all 2^120 tokens are in circulation.
    A second deposit of 2^120 MEL and 2^120 SYM is worth √(2^360) = 2^180 liquidity, which `deposit` clamps to
    `u128::MAX`; recording it would saturate (`2^120 + u128::MAX > u128::MAX`), so the deposit is left unsettled:
    `settle` succeeds and leaves the pools, the coins (the depositor's two coins included) and the token supply
    exactly as they were; the pool's 2^120 tokens stay backed by its record of 2^120.
    Every hypothesis of `C16_backed_settle` holds in this state. -/
theorem C16_saturating_deposit_skipped :
    ∃ s', settle C16HistWitness.env C16HistWitness.sSat = .ok s' ∧
      s'.pools = C16HistWitness.sSat.pools ∧ s'.coins = C16HistWitness.sSat.coins ∧
      supply s' (liqTokenDenom C16HistWitness.env poolMelSym)
        = supply C16HistWitness.sSat (liqTokenDenom C16HistWitness.env poolMelSym) ∧
      supply s' (liqTokenDenom C16HistWitness.env poolMelSym) = 2 ^ 120 ∧ recordedLiqs s' poolMelSym = 2 ^ 120 ∧
      Backed C16HistWitness.env s' poolMelSym ∧
      SealPre C16HistWitness.sSat ∧ legacyDeposit C16HistWitness.sSat = false ∧
      LiqDenomsApartC C16HistWitness.env ∧ (∀ k, CanonKey k → Backed C16HistWitness.env C16HistWitness.sSat k) := by
  open C16HistWitness in
  have hs : settle env sSat = .ok (valOf (settle env sSat)) := eq_ok_of_isOk (by decide +kernel)
  have hpools : (valOf (settle env sSat)).pools = sSat.pools := by decide +kernel
  have hcoins : (valOf (settle env sSat)).coins = sSat.coins :=
    coinMap_ext (by decide +kernel) (by decide +kernel)
  have hsup0 : supply sSat (liqTokenDenom env poolMelSym) = 2 ^ 120 := by decide +kernel
  have hsup : supply (valOf (settle env sSat)) (liqTokenDenom env poolMelSym) = 2 ^ 120 := by decide +kernel
  have hrec : recordedLiqs (valOf (settle env sSat)) poolMelSym = 2 ^ 120 := by decide +kernel
  refine ⟨_, hs, hpools, hcoins, hsup.trans hsup0.symm, hsup, hrec, ?_,
    sealPre_sDep (2 ^ 120) 1 (2 ^ 120) (2 ^ 120) (2 ^ 120) (by decide), by decide, env_apart,
    backed_sDep _ _ _ _ _⟩
  unfold Backed
  rw [hsup, hrec]
  exact Nat.le_refl _

/-- **what used to go wrong (K-liq-saturation)**, as pure arithmetic: on the pool of
    `C16_saturating_deposit_skipped` — (2^120, 1) with 2^120 liquidity recorded — `PoolState::deposit` of
    (2^120, 2^120) hands out `u128::MAX` liquidity while the new record is `saturating_add(2^120, u128::MAX) =
    u128::MAX`: the record grows by less than what is issued.  Before the `fix:` the depositors were issued all
    of it, leaving 2^120 + u128::MAX tokens in circulation against a record of u128::MAX. -/
theorem C16_old_saturating_deposit :
    ∃ p' : PoolState, PoolState.deposit ⟨2 ^ 120, 1, 0, 2 ^ 120⟩ (2 ^ 120) (2 ^ 120) = .ok (p', U128_MAX) ∧
      p'.liqs = U128_MAX ∧ p'.liqs < 2 ^ 120 + U128_MAX := by
  have h : (match PoolState.deposit ⟨2 ^ 120, 1, 0, 2 ^ 120⟩ (2 ^ 120) (2 ^ 120) with
      | .ok (p', q) => decide (q = U128_MAX ∧ p'.liqs = U128_MAX)
      | _ => false) = true := by decide +kernel
  cases hd : PoolState.deposit ⟨2 ^ 120, 1, 0, 2 ^ 120⟩ (2 ^ 120) (2 ^ 120) with
  | reject e => rw [hd] at h; cases h
  | crash c => rw [hd] at h; cases h
  | ok r =>
    obtain ⟨p', q⟩ := r
    rw [hd] at h
    have h' := of_decide_eq_true h
    refine ⟨p', by rw [h'.1], h'.2, ?_⟩
    rw [h'.2]
    decide

/-- non-vacuity of `C16_backed_settle`: an ordinary deposit (500 MEL and 5 SYM into a pool holding (1000, 10)
    with 1000 liquidity recorded and in circulation) meets every hypothesis; afterwards 1500 tokens circulate
    against a record of 1500 -/
theorem C16_backed_settle_nonvacuous :
    ∃ (env : Env) (s s' : State), settle env s = .ok s' ∧ SealPre s ∧ legacyDeposit s = false ∧
      LiqDenomsApartC env ∧ (∀ k, CanonKey k → Backed env s k) ∧
      supply s' (liqTokenDenom env poolMelSym) = 1500 ∧ recordedLiqs s' poolMelSym = 1500 := by
  open C16HistWitness in
  exact ⟨env, sDep 1000 10 1000 500 5, _, eq_ok_of_isOk (by decide +kernel),
    sealPre_sDep _ _ _ _ _ (by decide), by decide, env_apart, backed_sDep _ _ _ _ _,
    by decide +kernel, by decide +kernel⟩

/-- why K-faucet-liq is excluded: a faucet output in the token's denomination breaks `Backed` -/
theorem C16_faucet_breaks_backing :
    ∃ (env : Env) (s s' : State) (tx : Tx) (fb : Header) (k : PoolKey),
      Backed env s k ∧ tx.kind = .faucet ∧ applyBatch env s [tx] fb = .ok s' ∧ ¬ Backed env s' k := by
  open C16HistWitness in
  refine ⟨env, s0, valOf (applyBatch env s0 [faucet] default), faucet, default, poolMelSym, ?_, rfl,
    eq_ok_of_isOk (by decide +kernel), ?_⟩
  · unfold Backed; decide +kernel
  · unfold Backed; decide +kernel

/-- non-vacuity of `C16_backed_seal`: the same ordinary deposit, sealed without a proposer action, meets every
    hypothesis; afterwards the MEL/SYM pool's 1500 tokens are backed by a record of 1500 -/
theorem C16_backed_seal_nonvacuous :
    ∃ (env : Env) (s : State) (ss : Sealed), sealState env s none = .ok ss ∧ SealPre s ∧
      legacyDeposit s = false ∧ LiqDenomsApartC env ∧
      (∀ k, liqTokenDenom env k ≠ .mel ∧ liqTokenDenom env k ≠ .sym ∧ liqTokenDenom env k ≠ .erg) ∧
      s.coins.getCoin { txhash := env.rewardId s.height, index := 0 } = none ∧
      (∀ k ∈ [poolMelSym, poolMelErg, poolErgSym], s.pools.get k = none → supply s (liqTokenDenom env k) = 0) ∧
      (∀ k, CanonKey k → Backed env s k) ∧
      supply ss.st (liqTokenDenom env poolMelSym) = 1500 ∧ recordedLiqs ss.st poolMelSym = 1500 := by
  open C16HistWitness in
  have hb := backed_sDep 1000 10 1000 500 5
  have hok : (sealState env (sDep 1000 10 1000 500 5) none).isOk = true := by decide +kernel
  cases hss : sealState env (sDep 1000 10 1000 500 5) none with
  | reject e => rw [hss] at hok; cases hok
  | crash c => rw [hss] at hok; cases hok
  | ok ss =>
    have h1 : supply ss.st (liqTokenDenom env poolMelSym) = 1500 ∧ recordedLiqs ss.st poolMelSym = 1500 := by
      have : (match sealState env (sDep 1000 10 1000 500 5) none with
          | .ok ss => decide (supply ss.st (liqTokenDenom env poolMelSym) = 1500 ∧
              recordedLiqs ss.st poolMelSym = 1500)
          | _ => false) = true := by decide +kernel
      rw [hss] at this
      exact of_decide_eq_true this
    refine ⟨env, sDep 1000 10 1000 500 5, ss, hss, sealPre_sDep _ _ _ _ _ (by decide), by decide, env_apart,
      fun k => ⟨(by intro e; cases e), (by intro e; cases e), (by intro e; cases e)⟩, rfl, ?_, hb, h1.1, h1.2⟩
    · intro k hk hnone
      have hc : CanonKey k := by
        simp only [List.mem_cons, List.not_mem_nil, or_false] at hk
        rcases hk with rfl | rfl | rfl <;> (unfold CanonKey; decide)
      have h2 := hb k hc
      unfold Backed recordedLiqs at h2
      rw [hnone] at h2
      exact Nat.le_zero.mp h2

end Mel

#print axioms Mel.C16_backed_batch
#print axioms Mel.C16_backed_settle
#print axioms Mel.C16_backed_builtins
#print axioms Mel.C16_backed_pegging
#print axioms Mel.C16_backed_seal
#print axioms Mel.C16_faucet_breaks_backing
#print axioms Mel.LiqDenomsApart_unsatisfiable
#print axioms Mel.C16_backed_settle_pool
#print axioms Mel.C16_backed_seal_pool
#print axioms Mel.C16_saturating_deposit_skipped
#print axioms Mel.C16_old_saturating_deposit
#print axioms Mel.C16_backed_settle_nonvacuous
#print axioms Mel.C16_backed_seal_nonvacuous
