/-
  C07 over HISTORIES — the history tree of every reachable state is the chain of its ancestors' headers, linked by
  hashes; the header of a sealed reachable state continues that chain; the network never changes along a chain.
  (`Props/C07Chain.lean` has the one-step statement `C07_chain`.)
  Property theorems only; helper lemmas live in MelModel/Lemmas/BlockHistL.lean.
-/
import MelModel.Props.Reach
import MelModel.Props.C09Reach
import MelModel.Props.C13Life
import MelModel.Props.C07Chain
import MelModel.Lemmas.BlockHistL
import MelModel.Lemmas.SealCongL
namespace Mel
open Mel.Gen

/-- the linking invariant holds of every reachable state (plain `Reachable` suffices: no hash assumption, no
    `MarkerFresh`, no bounds are needed) -/
theorem reachable_histChain {env : Env} {s : State} (h : Reachable env s) : BlockHistL.HistChain env s := by
  induction h with
  | genesis cfg => exact BlockHistL.histChain_genesis env cfg
  | batch _ _ hb ih => exact BlockHistL.histChain_batch hb ih
  | block _ _ hs hn ih => exact BlockHistL.histChain_next hn (BlockHistL.histChain_seal hs ih)

/-- 1. **the history of a reachable state is the hash-linked chain of its ancestors' headers**: it holds a header at
    exactly the heights below the state's; the header at height `h` has height `h` and the state's network; the
    first header's `previous` is the zero hash; and every header's `previous` is the hash of the header one
    below it -/
theorem C07_history_linked (env : Env) (s : State) (hr : Reachable env s) :
    (∀ h x, s.history.get h = some x → h < s.height ∧ x.height = h ∧ x.network = s.network) ∧
    (∀ h, h < s.height → ∃ x, s.history.get h = some x) ∧
    (∀ x, s.history.get 0 = some x → x.previous = zeroHash) ∧
    (∀ h x y, s.history.get h = some x → s.history.get (h + 1) = some y →
      y.previous = env.hdrHash x ∧ y.height = x.height + 1 ∧ y.network = x.network) := by
  have hc := reachable_histChain hr
  refine ⟨fun h x hx => ⟨hc.below h x hx, hc.heights h x hx, hc.networks h x hx⟩, hc.full, hc.first, ?_⟩
  intro h x y hx hy
  refine ⟨hc.linked h x y hx hy, ?_, ?_⟩
  · rw [hc.heights h x hx, hc.heights _ y hy]
  · rw [hc.networks h x hx, hc.networks _ y hy]

/-- … so from any recorded header one can walk down to the first one: for every height `h` below the state's
    there is the whole chain `x₀, …, x_h` of recorded headers, each linked to its predecessor -/
theorem C07_history_chain (env : Env) (s : State) (hr : Reachable env s) (h : Nat) (hlt : h < s.height) :
    ∃ chain : List Header, chain.length = h + 1 ∧
      (∀ i, i ≤ h → ∃ x, chain[i]? = some x ∧ s.history.get i = some x) ∧
      (∀ i x y, chain[i]? = some x → chain[i + 1]? = some y → y.previous = env.hdrHash x) ∧
      (∀ x, chain[0]? = some x → x.previous = zeroHash) := by
  have hc := reachable_histChain hr
  induction h with
  | zero =>
    obtain ⟨x, hx⟩ := hc.full 0 hlt
    refine ⟨[x], rfl, ?_, ?_, ?_⟩
    · intro i hi
      have : i = 0 := by omega
      subst this
      exact ⟨x, rfl, hx⟩
    · intro i a b _ hb
      simp at hb
    · intro a ha
      simp at ha
      subst ha
      exact hc.first x hx
  | succ n ih =>
    obtain ⟨chain, hl, h1, h2, h3⟩ := ih (by omega)
    obtain ⟨y, hy⟩ := hc.full (n + 1) hlt
    refine ⟨chain ++ [y], by simp [hl], ?_, ?_, ?_⟩
    · intro i hi
      by_cases e : i ≤ n
      · obtain ⟨x, hx1, hx2⟩ := h1 i e
        refine ⟨x, ?_, hx2⟩
        rw [List.getElem?_append_left (by omega)]
        exact hx1
      · have : i = n + 1 := by omega
        subst this
        refine ⟨y, ?_, hy⟩
        rw [List.getElem?_append_right (by omega)]
        simp [hl]
    · intro i a b ha hb
      by_cases e : i + 1 ≤ n
      · rw [List.getElem?_append_left (by omega)] at ha hb
        exact h2 i a b ha hb
      · by_cases e2 : i = n
        · subst e2
          rw [List.getElem?_append_left (by omega)] at ha
          rw [List.getElem?_append_right (by omega)] at hb
          simp [hl] at hb
          subst hb
          obtain ⟨x, hx1, hx2⟩ := h1 i (Nat.le_refl _)
          rw [hx1] at ha
          cases ha
          exact hc.linked _ _ _ hx2 hy
        · rw [List.getElem?_eq_none (by simp [hl]; omega)] at hb
          cases hb
    · intro a ha
      rw [List.getElem?_append_left (by omega)] at ha
      exact h3 a ha

/-- 2. **the header of a sealed reachable state continues the chain**: it has the state's height and network, and
    (above height 0) its `previous` is the hash of the header recorded one below; at height 0 it is the zero
    hash.  (Reachability is what makes the recorded header exist, `C07_header_exists_reachable`; the equations
    themselves hold of every sealed state.) -/
theorem C07_header_of_reachable (env : Env) (s : State) (a : Option ProposerAction) (ss : Sealed) (hdr : Header)
    (_hr : Reachable env s) (hs : sealState env s a = .ok ss) (hh : headerOf env ss = .ok hdr) :
    hdr.height = s.height ∧ hdr.network = s.network ∧
    (0 < s.height → ∃ p, s.history.get (s.height - 1) = some p ∧ hdr.previous = env.hdrHash p) ∧
    (s.height = 0 → hdr.previous = zeroHash) := by
  obtain ⟨e1, e2, e3⟩ := sealState_hhn _ _ _ _ hs
  obtain ⟨p, hp, hhdr⟩ := headerOf_ok env ss hdr hh
  have h1 : hdr.height = ss.st.height := by rw [hhdr]
  have h2 : hdr.network = ss.st.network := by rw [hhdr]
  have h3 : hdr.previous = p := by rw [hhdr]
  refine ⟨h1.trans e2, h2.trans e3, ?_, ?_⟩
  · intro hpos
    rcases hp with ⟨h0, _⟩ | ⟨_, ph, hph, hpe⟩
    · omega
    · rw [e1, e2] at hph
      exact ⟨ph, hph, h3.trans hpe⟩
  · intro h0
    rcases hp with ⟨_, hz⟩ | ⟨hne, _⟩
    · exact h3.trans hz
    · exact absurd (e2.trans h0) hne

/-- … and that header exists, with its predecessor a recorded header of height `s.height - 1` on the same network:
    the chain of `C07_history_linked` extends by the new header -/
theorem C07_header_exists_reachable (env : Env) (s : State) (a : Option ProposerAction) (ss : Sealed)
    (hr : Reachable env s) (hs : sealState env s a = .ok ss) :
    ∃ hdr, headerOf env ss = .ok hdr ∧ hdr.height = s.height ∧ hdr.network = s.network ∧
      (s.height = 0 → hdr.previous = zeroHash) ∧
      (0 < s.height → ∃ p, s.history.get (s.height - 1) = some p ∧ hdr.previous = env.hdrHash p ∧
        p.height + 1 = hdr.height ∧ p.network = hdr.network) := by
  have hc := reachable_histChain hr
  obtain ⟨e1, e2, e3⟩ := sealState_hhn _ _ _ _ hs
  obtain ⟨hdr, hh⟩ := ReachL.headerOf_total env ss (by rw [e1, e2]; exact hc.full)
  obtain ⟨c1, c2, c3, c4⟩ := C07_header_of_reachable env s a ss hdr hr hs hh
  refine ⟨hdr, hh, c1, c2, c4, fun hpos => ?_⟩
  obtain ⟨p, hp, hpe⟩ := c3 hpos
  refine ⟨p, hp, hpe, ?_, ?_⟩
  · rw [hc.heights _ p hp, c1]
    exact Nat.sub_add_cancel hpos
  · rw [hc.networks _ p hp, c2]

/-- 3. **the network never changes along a chain** -/
theorem C07_network_constant (env : Env) (s s' : State) (h : ChainRun env s s') : s'.network = s.network := by
  induction h with
  | refl => rfl
  | step _ hstep ih =>
    cases hstep with
    | batch hb => exact (applyBatch_hhn _ _ _ _ _ hb).2.2.trans ih
    | block h1 h2 =>
      obtain ⟨-, -, -, -, f3⟩ := nextUnsealed_ok _ _ _ h2
      exact (f3.trans (sealState_hhn _ _ _ _ h1).2.2).trans ih

/-- reachable states are exactly the ends of chains that start in a genesis state, as far as `ChainRun` is concerned:
    every reachable state is the end of a run from a genesis state -/
theorem reachable_chainRun {env : Env} {s : State} (h : Reachable env s) :
    ∃ cfg, ChainRun env (genesisState cfg) s := by
  induction h with
  | genesis cfg => exact ⟨cfg, .refl _⟩
  | batch _ _ hb ih => obtain ⟨cfg, hrun⟩ := ih; exact ⟨cfg, .step hrun (.batch hb)⟩
  | block _ _ hs hn ih => obtain ⟨cfg, hrun⟩ := ih; exact ⟨cfg, .step hrun (.block hs hn)⟩

/-- … so the network of a reachable state, and of every header in its history, is the one of its genesis
    configuration -/
theorem C07_network_of_genesis (env : Env) (s : State) (hr : Reachable env s) :
    ∃ cfg, ChainRun env (genesisState cfg) s ∧ s.network = cfg.network ∧
      ∀ h x, s.history.get h = some x → x.network = cfg.network := by
  obtain ⟨cfg, hrun⟩ := reachable_chainRun hr
  have hn : s.network = cfg.network := C07_network_constant env _ _ hrun
  exact ⟨cfg, hrun, hn, fun h x hx => ((C07_history_linked env s hr).1 h x hx).2.2.trans hn⟩

/-- **the recorded chain only grows**: along any run from a reachable state, every header already recorded stays
    recorded at its height -/
theorem C07_history_persistent (env : Env) (s s' : State) (hr : Reachable env s) (hrun : ChainRun env s s') :
    ∀ h x, s.history.get h = some x → s'.history.get h = some x := by
  have hc := reachable_histChain hr
  have key : s.height ≤ s'.height ∧ ∀ h x, s.history.get h = some x → s'.history.get h = some x := by
    induction hrun with
    | refl => exact ⟨Nat.le_refl _, fun _ _ hx => hx⟩
    | step _ hstep ih =>
      cases hstep with
      | batch hb =>
        obtain ⟨e1, e2, -⟩ := applyBatch_hhn _ _ _ _ _ hb
        rw [e1, e2]; exact ih
      | block h1 h2 =>
        obtain ⟨e1, e2, -⟩ := sealState_hhn _ _ _ _ h1
        obtain ⟨hdr, -, f1, f2, -⟩ := nextUnsealed_ok _ _ _ h2
        refine ⟨by rw [f2, e2]; exact Nat.le_succ_of_le ih.1, fun h x hx => ?_⟩
        have hlt := hc.below h x hx
        rw [f1, AList.get_set_ne _ _ (by rw [e2]; omega), e1]
        exact ih.2 h x hx
  exact key.2

/-! ### headers commit to the CONTENT of the maps

`RootsInjective` (Props/C07Chain.lean) asks that equal roots mean equal association LISTS.  The trees of the
implementation are functions of the maps' content, not of an insertion order, so the roots of two coin lists that
are permutations of each other are the same: `RootsInjective.coins` does not hold of such an environment.  The two
halves of "the root is an injective function of the content" are stated separately. -/

/-- collision-freeness: equal roots mean equal content (every lookup gives the same answer) -/
structure RootsCollisionFree (env : Env) : Prop where
  history : ∀ a b : AList Nat Header, env.historyRoot a = env.historyRoot b → ∀ h, a.get h = b.get h
  coins : ∀ a b : CoinMap, env.coinsRoot a = env.coinsRoot b →
    (∀ id, a.getCoin id = b.getCoin id) ∧ (∀ h, a.coinCount h = b.coinCount h)
  txs : ∀ t a b, env.txsRoot t a = env.txsRoot t b → a = b
  pools : ∀ a b : AList PoolKey PoolState, env.poolsRoot a = env.poolsRoot b → ∀ k, a.get k = b.get k
  stakes : ∀ a b : StakeSet, env.stakesRoot a = env.stakesRoot b → ∀ k, a.getStake k = b.getStake k

/-- the roots of coin maps / stake sets are functions of their content: two maps that answer every lookup alike
    have the same root (the order of the association list does not matter) -/
structure RootsExtensional (env : Env) : Prop where
  coins : ∀ a b : CoinMap, (∀ id, a.getCoin id = b.getCoin id) → (∀ h, a.coinCount h = b.coinCount h) →
    env.coinsRoot a = env.coinsRoot b
  stakes : ∀ a b : StakeSet, (∀ k, a.getStake k = b.getStake k) → env.stakesRoot a = env.stakesRoot b

/-- the list-level notion of C07 implies the content-level one -/
theorem RootsInjective.collisionFree {env : Env} (h : RootsInjective env) : RootsCollisionFree env where
  history := fun a b e k => by rw [h.history a b e]
  coins := fun a b e => by
    obtain ⟨e1, e2⟩ := h.coins a b e
    exact ⟨fun id => by unfold CoinMap.getCoin; rw [e1], fun x => by unfold CoinMap.coinCount; rw [e2]⟩
  txs := h.txs
  pools := fun a b e k => by rw [h.pools a b e]
  stakes := fun a b e k => by rw [h.stakes a b e]

/-- why the content-level notions are needed: no environment satisfies both `RootsInjective` (equal roots ⇒ equal
    lists) and `RootsExtensional` (same content ⇒ equal roots) — two coin lists holding the same two coins in
    opposite orders have the same content -/
theorem rootsInjective_not_extensional (env : Env) (hi : RootsInjective env) (hx : RootsExtensional env) : False := by
  let d : CoinDataHeight := default
  let a : CoinMap := { coins := [(⟨[], 0⟩, d), (⟨[], 1⟩, d)], counts := [] }
  let b : CoinMap := { coins := [(⟨[], 1⟩, d), (⟨[], 0⟩, d)], counts := [] }
  have hroot : env.coinsRoot a = env.coinsRoot b := by
    refine hx.coins a b (fun id => ?_) (fun _ => rfl)
    show AList.get [((⟨[], 0⟩ : CoinID), d), (⟨[], 1⟩, d)] id = AList.get [((⟨[], 1⟩ : CoinID), d), (⟨[], 0⟩, d)] id
    simp only [AList.get]
    by_cases h0 : (⟨[], 0⟩ : CoinID) = id
    · simp [h0]
    · by_cases h1 : (⟨[], 1⟩ : CoinID) = id
      · simp [h1]
      · simp [h0, h1]
  have := (hi.coins a b hroot).1
  exact absurd this (by decide)

/-- `C07_sensitive` with collision-freeness on content: equal headers mean the same coins, counts, pools, stakes
    and history AS MAPS, the same transaction list, fee pool, fee multiplier, DOSC speed, height and network -/
theorem C07_sensitive_ext (env : Env) (hi : RootsCollisionFree env) (s₁ s₂ : Sealed) (h : Header)
    (h₁ : headerOf env s₁ = .ok h) (h₂ : headerOf env s₂ = .ok h) (ht : s₁.st.tip908 = s₂.st.tip908) :
    (∀ id, s₁.st.coins.getCoin id = s₂.st.coins.getCoin id) ∧
    (∀ x, s₁.st.coins.coinCount x = s₂.st.coins.coinCount x) ∧
    (∀ k, s₁.st.pools.get k = s₂.st.pools.get k) ∧
    (∀ k, s₁.st.stakes.getStake k = s₂.st.stakes.getStake k) ∧ s₁.st.txs = s₂.st.txs ∧
    (∀ n, s₁.st.history.get n = s₂.st.history.get n) ∧ s₁.st.feePool = s₂.st.feePool ∧
    s₁.st.feeMultiplier = s₂.st.feeMultiplier ∧ s₁.st.doscSpeed = s₂.st.doscSpeed ∧
    s₁.st.height = s₂.st.height ∧ s₁.st.network = s₂.st.network := by
  obtain ⟨p₁, _, e₁⟩ := headerOf_ok env s₁ h h₁
  obtain ⟨p₂, _, e₂⟩ := headerOf_ok env s₂ h h₂
  rw [e₁] at e₂
  simp only [Header.mk.injEq] at e₂
  obtain ⟨hn, _, hh, hhist, hcoins, htxs, hfp, hfm, hds, hpools, hstakes⟩ := e₂
  rw [ht] at htxs
  have hc := hi.coins _ _ hcoins
  exact ⟨hc.1, hc.2, hi.pools _ _ hpools, hi.stakes _ _ hstakes, hi.txs _ _ _ htxs,
    hi.history _ _ hhist, hfp, hfm, hds, hh, hn⟩

/-- the other direction: observationally equivalent sealed states (`BatchEquiv`: the same coins, counts and stakes
    as maps, everything else equal) have the same header when the roots are functions of the content -/
theorem C07_header_respects_equiv (env : Env) (hx : RootsExtensional env) (s₁ s₂ : Sealed)
    (e : BatchEquiv s₁.st s₂.st) : headerOf env s₂ = headerOf env s₁ :=
  SealCongL.headerOf_equiv env s₁ s₂ e (hx.coins _ _ (fun id => (e.coins id).symm) (fun x => (e.counts x).symm))
    (hx.stakes _ _ (fun k => (e.stakes k).symm))

/-! ### non-vacuity -/

/-- a reachable state with two linked headers in its history exists (the height-2 state of `C09ReachWitness`):
    `C07_history_linked` is not vacuous, nor are the theorems about sealed reachable states -/
theorem C07_history_nonvacuous :
    ∃ (env : Env) (s : State) (x y : Header), Reachable env s ∧ s.height = 2 ∧
      s.history.get 0 = some x ∧ s.history.get 1 = some y ∧
      y.previous = env.hdrHash x ∧ x.previous = zeroHash ∧
      ∃ ss, sealState env s none = .ok ss ∧ ∃ hdr, headerOf env ss = .ok hdr ∧ hdr.height = 2 ∧
        hdr.previous = env.hdrHash y := by
  open C09ReachWitness in
  have hr : Reachable ReachWitness.env s3 := s3_reachable.reachable
  have hh : s3.height = 2 := heights.2.2.2
  obtain ⟨l1, l2, l3, l4⟩ := C07_history_linked _ _ hr
  obtain ⟨x, hx⟩ := l2 0 (by omega)
  obtain ⟨y, hy⟩ := l2 1 (by omega)
  have hsealed : (sealState ReachWitness.env s3 none).isOk = true := by decide +kernel
  obtain ⟨ss, hs⟩ : ∃ ss, sealState ReachWitness.env s3 none = .ok ss := ⟨_, ReachWitness.eq_getOk hsealed⟩
  obtain ⟨hdr, e0, e1, -, -, e4⟩ := C07_header_exists_reachable _ _ _ _ hr hs
  obtain ⟨p, hp, hpe, -⟩ := e4 (by omega)
  rw [hh] at hp
  rw [show (2 : Nat) - 1 = 1 from rfl, hy] at hp
  cases hp
  exact ⟨_, s3, x, y, hr, hh, hx, hy, (l4 0 x y hx hy).1, l3 x hx, ss, hs, hdr, e0, e1.trans hh, hpe⟩

end Mel

#print axioms Mel.reachable_histChain
#print axioms Mel.C07_history_linked
#print axioms Mel.C07_history_chain
#print axioms Mel.C07_header_of_reachable
#print axioms Mel.C07_header_exists_reachable
#print axioms Mel.C07_network_constant
#print axioms Mel.reachable_chainRun
#print axioms Mel.C07_network_of_genesis
#print axioms Mel.C07_history_persistent
#print axioms Mel.C07_history_nonvacuous
#print axioms Mel.RootsInjective.collisionFree
#print axioms Mel.rootsInjective_not_extensional
#print axioms Mel.C07_sensitive_ext
#print axioms Mel.C07_header_respects_equiv
