/-
  C07 — the dense Merkle tree (TIP-908 transactions commitment): proofs are *sound*, padding proves nothing,
  and the root determines the list of transactions.
  `Props/C07.lean` has completeness (`C07_dense_complete`); this file has the converse direction, which is what a light
  client relies on: a proof that verifies against the transactions root at position `i` proves the transaction that
  really sits at position `i`, and nothing else.
  Property theorems only; helper lemmas live in MelModel/Lemmas/DenseL.lean.
-/
import MelModel.Merkle
import MelModel.Props.C07
import MelModel.Lemmas.DenseL
namespace Mel
open Mel.Merkle

/-- soundness of `verify_dense`: a proof of the tree's depth that verifies against the root at position `i`
    proves the leaf that is at position `i` (hash functions injective away from the zero rules) -/
theorem C07_dense_sound (H : Hashers) (hi : Injective H) (blocks : List Bytes) (i : Nat) (leaf : Hash)
    (proof : List Hash)
    (hp : proof.length = Nat.log2 (denseLeaves H blocks).length)
    (hidx : i < (denseLeaves H blocks).length)
    (hv : verifyDense H proof (denseRoot H blocks) i leaf = true) :
    leaf = (denseLeaves H blocks).getD i Z := by
  exact dense_sound H ⟨hi.data_inj, hi.data_nz, hi.node_inj, hi.node_nz⟩ blocks i leaf proof hp hidx hv

/-- a position holding a transaction proves that transaction only (the empty string included: it hashes to zero
    and nothing else does) -/
theorem C07_dense_proves_only_the_member (H : Hashers) (hi : Injective H) (blocks : List Bytes) (i : Nat)
    (b : Bytes) (proof : List Hash)
    (hp : proof.length = Nat.log2 (denseLeaves H blocks).length)
    (hidx : i < blocks.length)
    (hv : verifyDense H proof (denseRoot H blocks) i (hashData H b) = true) :
    blocks.getD i [] = b := by
  exact dense_member_only H ⟨hi.data_inj, hi.data_nz, hi.node_inj, hi.node_nz⟩ blocks i b proof hp hidx hv

/-- the zero padding behind the last transaction proves no transaction at all -/
theorem C07_dense_padding_proves_nothing (H : Hashers) (hi : Injective H) (blocks : List Bytes) (i : Nat)
    (b : Bytes) (proof : List Hash)
    (hp : proof.length = Nat.log2 (denseLeaves H blocks).length)
    (hlo : blocks.length ≤ i) (hidx : i < (denseLeaves H blocks).length) (hb : b ≠ []) :
    verifyDense H proof (denseRoot H blocks) i (hashData H b) = false := by
  exact dense_padding_nothing H ⟨hi.data_inj, hi.data_nz, hi.node_inj, hi.node_nz⟩ blocks i b proof hp hlo hidx hb

/-- the number of leaves is a power of two that holds every block: `2 ^ log2 = length`, `blocks.length ≤ length` -/
theorem C07_dense_shape (H : Hashers) (blocks : List Bytes) :
    2 ^ Nat.log2 (denseLeaves H blocks).length = (denseLeaves H blocks).length ∧
    blocks.length ≤ (denseLeaves H blocks).length := by
  exact dense_shape H blocks

/-- the root determines the list: two lists of (non-empty) serialised transactions padded to the same size with
    equal roots are equal — "any difference in a transaction changes the header" for the TIP-908 commitment.
    (The padded size is not committed to by the root itself: a one-leaf tree's root is the leaf's data hash, a
    two-leaf tree's a node hash, and nothing in `Injective` separates the two hash functions' ranges.) -/
theorem C07_dense_root_injective (H : Hashers) (hi : Injective H) (bs bs' : List Bytes)
    (hne : ∀ x ∈ bs, x ≠ []) (hne' : ∀ x ∈ bs', x ≠ [])
    (hsz : nextPow2 bs.length = nextPow2 bs'.length)
    (hr : denseRoot H bs = denseRoot H bs') : bs = bs' := by
  exact dense_root_injective H ⟨hi.data_inj, hi.data_nz, hi.node_inj, hi.node_nz⟩ bs bs' hne hne' hsz hr

/-! ### the hypotheses are satisfiable, the conclusions are not trivial -/

open C07Example in
/-- the toy hashers `H₀` of Props/C07 (tag byte, length byte, concatenation): three blocks, the proof for position 1
    verifies for the block at position 1 and not for another one; the proof has the tree's depth -/
example :
    verifyDense H₀ (denseProof H₀ [[1], [2], [3]] 1) (denseRoot H₀ [[1], [2], [3]]) 1
      (hashData H₀ [2]) = true ∧
    verifyDense H₀ (denseProof H₀ [[1], [2], [3]] 1) (denseRoot H₀ [[1], [2], [3]]) 1
      (hashData H₀ [3]) = false ∧
    (denseProof H₀ [[1], [2], [3]] 1).length = Nat.log2 (denseLeaves H₀ [[1], [2], [3]]).length := by
  decide

open C07Example in
/-- `C07_dense_sound` instantiated with the provably injective hashers `H₁`: over three blocks, whatever proof of
    length 2 verifies at position 1 proves the block at position 1 -/
example (leaf : Hash) (proof : List Hash) (hp : proof.length = 2)
    (hv : verifyDense H₁ proof (denseRoot H₁ [[1], [2], [3]]) 1 leaf = true) : leaf = hashData H₁ [2] := by
  have hlen : (denseLeaves H₁ [[1], [2], [3]]).length = 4 := by decide
  have h := C07_dense_sound H₁ H₁_injective [[1], [2], [3]] 1 leaf proof
    (by rw [hlen, hp]; decide) (by rw [hlen]; decide) hv
  rw [h]
  decide

end Mel

#print axioms Mel.C07_dense_sound
#print axioms Mel.C07_dense_proves_only_the_member
#print axioms Mel.C07_dense_padding_proves_nothing
#print axioms Mel.C07_dense_shape
#print axioms Mel.C07_dense_root_injective
