/-
  C13 — Staked SYM is locked for the life of the stake; voting power follows the stakes.
  Property theorems only; helper lemmas live in MelModel/Lemmas/StakeL.lean.
-/
import MelModel.Chain
import MelModel.Lemmas.StakeL
namespace Mel
open Mel.Gen Mel.StakeLL

/-- a stake transaction registers the stake document `d` in state `s` -/
def Registers (s : State) (tx : Tx) (d : StakeDoc) : Prop :=
  tx.kind = .stake ∧ legacyStakeReg s = false ∧ tx.stakeDoc = some d ∧
  ∃ first, tx.outputs.head? = some first ∧ first.denom = .sym ∧
    d.eStart > s.epoch ∧ d.ePostEnd > d.eStart ∧ d.symsStaked = first.value

/-- registration happens exactly under the stated conditions (transactions of a batch have distinct hashes) -/
theorem C13_register_iff (env : Env) (s s' : State) (txs : List Tx) (fb : Header)
    (h : applyBatch env s txs fb = .ok s') (hu : (txs.map (·.hash)).Nodup) (k : Hash) (d : StakeDoc) :
    s'.stakes.getStake k = some d ↔
      (∃ tx ∈ txs, tx.hash = k ∧ Registers s tx d) ∨
      ((∀ tx ∈ txs, tx.hash = k → ∀ d', ¬ Registers s tx d') ∧ s.stakes.getStake k = some d) := by
  obtain ⟨rel, ns, _, hns, _, hst⟩ := applyBatch_ok env s s' txs fb h
  rw [loadStakeInfo_eq] at hns
  have hiff := stakeFold_get_iff s k d txs [] ns hns hu
  have hget : s'.stakes.getStake k = (AList.get ns k).or (s.stakes.getStake k) := by
    rw [hst]; exact AList.get_reverse_foldl_set ns s.stakes k
  constructor
  · intro hs
    rw [hget] at hs
    cases hk : AList.get ns k with
    | some v =>
      rw [hk, Option.some_or] at hs; cases hs
      rcases hiff.mp hk with hreg | ⟨_, hnil⟩
      · exact .inl hreg
      · simp [AList.get] at hnil
    | none =>
      rw [hk, Option.none_or] at hs
      refine .inr ⟨?_, hs⟩
      intro tx ht htk d' hreg
      have := (stakeFold_get_iff s k d' txs [] ns hns hu).mpr (.inl ⟨tx, ht, htk, hreg⟩)
      rw [hk] at this; cases this
  · rintro (hreg | ⟨hall, hold⟩)
    · rw [hget, hiff.mpr (.inl hreg), Option.some_or]
    · rw [hget]
      cases hk : AList.get ns k with
      | some v =>
        rcases (stakeFold_get_iff s k v txs [] ns hns hu).mp hk with ⟨tx, ht, htk, hreg⟩ | ⟨_, hnil⟩
        · exact absurd hreg (hall tx ht htk v)
        · simp [AList.get] at hnil
      | none => rw [Option.none_or]; exact hold

/-- outside the legacy window a stake transaction with undecodable data, no output, or a first output
    that is not SYM makes the batch fail -/
theorem C13_malformed (env : Env) (s : State) (txs : List Tx) (fb : Header) (tx : Tx) (htx : tx ∈ txs)
    (hk : tx.kind = .stake) (hl : legacyStakeReg s = false)
    (hbad : tx.stakeDoc = none ∨ tx.outputs = [] ∨ ∃ o, tx.outputs.head? = some o ∧ o.denom ≠ .sym) :
    ∀ s', applyBatch env s txs fb ≠ .ok s' := by
  intro s' h
  obtain ⟨rel, ns, _, hns, _, _⟩ := applyBatch_ok env s s' txs fb h
  rw [loadStakeInfo_eq] at hns
  obtain ⟨b1, b2, hstep⟩ := Outcome.foldlM'_ok_mem _ _ _ _ _ htx hns
  exact stakeStep_malformed s tx hk hl hbad b1 b2 hstep

/-- while a stake is registered (or being registered in this batch) no output of its transaction can be
    spent (outside the legacy window) -/
theorem C13_locked (env : Env) (s : State) (txs : List Tx) (fb : Header) (tx : Tx) (htx : tx ∈ txs)
    (id : CoinID) (hid : id ∈ tx.inputs) (hl : legacyStakeLock s = false)
    (hst : (s.stakes.getStake id.txhash).isSome ∨ ∃ t ∈ txs, t.hash = id.txhash ∧ ∃ d, Registers s t d) :
    ∀ s', applyBatch env s txs fb ≠ .ok s' := by
  intro s' h
  obtain ⟨rel, ns, _, hns, hchk, _⟩ := applyBatch_ok env s s' txs fb h
  rw [loadStakeInfo_eq] at hns
  have hv := Outcome.forM'_ok_mem _ _ _ htx hchk
  refine checkTxValidity_locked env s _ tx rel ns id hid hl ?_ hv
  rcases hst with hst | ⟨t, ht, hth, d, hreg⟩
  · simp [hst]
  · have := stakeFold_contains s t d hreg txs [] ns hns ht
    rw [hth] at this
    simp [this]

/-- … and for a single otherwise-loadable transaction the error is `CoinLocked` -/
theorem C13_locked_error (env : Env) (s : State) (tx : Tx) (fb : Header) (rel : Relevant)
    (hrel : loadRelevantCoins s [tx] = .ok rel) (hns : tx.kind ≠ .stake)
    (id : CoinID) (hfirst : tx.inputs.head? = some id) (hl : legacyStakeLock s = false)
    (hst : (s.stakes.getStake id.txhash).isSome) :
    applyBatch env s [tx] fb = .reject .coinLocked := by
  have hns : loadStakeInfo s [tx] = .ok [] := by
    rw [loadStakeInfo_eq]
    simp [Outcome.foldlM', stakeStep, hns]
  obtain ⟨rest, hin⟩ : ∃ rest, tx.inputs = id :: rest := by
    cases hi : tx.inputs with
    | nil => rw [hi] at hfirst; cases hfirst
    | cons a rest => rw [hi] at hfirst; simp at hfirst; exact ⟨rest, by rw [hfirst]⟩
  have hchk : ∀ lh, checkTxValidity env s lh tx rel [] = .reject .coinLocked := by
    intro lh
    unfold checkTxValidity
    simp [hin, List.zipIdx_cons, Outcome.foldlM', hst, hl, Outcome.bind]
  unfold applyBatch
  simp [hrel, hns, Outcome.bind, Outcome.forM', hchk]

/-- opening a block drops exactly the stakes whose end epoch is before the new block's epoch: a stake with
    end field `e` stays registered (hence locked) through the last block of epoch `e` and is gone from the
    first block of epoch `e + 1` on -/
theorem C13_unlock (env : Env) (ss : Sealed) (s' : State) (h : nextUnsealed env ss = .ok s')
    (hu : (ss.st.stakes.map (·.1)).Nodup) (k : Hash) :
    s'.stakes.getStake k =
      match ss.st.stakes.getStake k with
      | some d => if d.ePostEnd ≥ (ss.st.height + 1) / STAKE_EPOCH then some d else none
      | none => none := by
  have hs : s'.stakes = ss.st.stakes.unlockOld ((ss.st.height + 1) / STAKE_EPOCH) := by
    unfold nextUnsealed at h
    obtain ⟨hdr, _, h⟩ := Outcome.bind_eq_ok h
    simp only at h
    split at h <;> (cases h; rfl)
  rw [hs]
  unfold StakeSet.unlockOld StakeSet.getStake
  rw [AList.get_filter _ _ hu]
  cases AList.get ss.st.stakes k with
  | none => rfl
  | some d => simp

/-- sealing never touches the stake set -/
theorem C13_seal_keeps_stakes (env : Env) (s : State) (a : Option ProposerAction) (ss : Sealed)
    (h : sealState env s a = .ok ss) : ss.st.stakes = s.stakes := by
  exact sealState_sameSt env s a ss h

/-- voting power of a key = sum of its registered stakes with start ≤ epoch < end -/
theorem C13_votes (st : StakeSet) (epoch : Nat) (key : Bytes) :
    st.votes epoch key =
      ((st.filter fun e => e.2.eStart ≤ epoch ∧ epoch < e.2.ePostEnd ∧ e.2.pubkey = key).map (·.2.symsStaked)).sum := by
  unfold StakeSet.votes
  congr 2
  apply List.filter_congr
  intro e _
  by_cases hk : e.2.pubkey = key <;> simp [StakeSet.active, Bool.and_assoc, hk]

theorem C13_total_votes (st : StakeSet) (epoch : Nat) :
    st.totalVotes epoch = ((st.filter fun e => e.2.eStart ≤ epoch ∧ epoch < e.2.ePostEnd).map (·.2.symsStaked)).sum := by
  unfold StakeSet.totalVotes
  congr 2
  apply List.filter_congr
  intro e _
  simp [StakeSet.active]

/-- the total is the sum of the per-key tallies over the distinct keys (no vote is lost or double counted) -/
theorem C13_total_is_sum_of_keys (st : StakeSet) (epoch : Nat) (keys : List Bytes) (hn : keys.Nodup)
    (hall : ∀ e ∈ st, e.2.pubkey ∈ keys) :
    st.totalVotes epoch = (keys.map (st.votes epoch)).sum := by
  exact (StakeSet.sum_votes_eq_total st epoch keys hn (fun e he _ => hall e he)).symm

/-- known deviation (K2): inside the legacy window stake transactions are let through unregistered -/
theorem C13_legacy_window (s : State) (txs : List Tx) (h : legacyStakeReg s = true) :
    loadStakeInfo s txs = .ok [] := by
  exact loadStakeInfo_legacy s txs h

end Mel

#print axioms Mel.C13_register_iff
#print axioms Mel.C13_malformed
#print axioms Mel.C13_locked
#print axioms Mel.C13_locked_error
#print axioms Mel.C13_unlock
#print axioms Mel.C13_seal_keeps_stakes
#print axioms Mel.C13_votes
#print axioms Mel.C13_total_votes
#print axioms Mel.C13_total_is_sum_of_keys
#print axioms Mel.C13_legacy_window
