/-
  C13 — Staked SYM is locked for the life of the stake; voting power follows the stakes.
  Property theorems only; helper lemmas live in MelModel/Lemmas/StakeL.lean.
-/
import MelModel.Chain
import MelModel.Lemmas.StakeL
namespace Mel
open Mel.Gen

/-- a stake transaction registers the stake document `d` in state `s` -/
def Registers (s : State) (tx : Tx) (d : StakeDoc) : Prop :=
  tx.kind = .stake ∧ legacyStakeReg s = false ∧ tx.stakeDoc = some d ∧
  ∃ first, tx.outputs.head? = some first ∧ first.denom = .sym ∧
    d.eStart > s.epoch ∧ d.ePostEnd > d.eStart ∧ d.symsStaked = first.value

/-- registration happens exactly under the stated conditions (transactions of a batch have distinct hashes) -/
theorem C13_register_iff (env : Env) (s s' : State) (txs : List Tx) (fb : Header)
    (h : applyBatch env s txs fb = .ok s') (hu : (txs.map (·.hash)).Nodup) (k : Hash) (d : StakeDoc) :
    s'.stakes.getStake k = some d ↔
      (∃ tx ∈ txs, tx.hash = k ∧ Registers s tx d) ∨
      ((∀ tx ∈ txs, tx.hash = k → ∀ d', ¬ Registers s tx d') ∧ s.stakes.getStake k = some d) := by
  sorry

/-- outside the legacy window a stake transaction with undecodable data, no output, or a first output
    that is not SYM makes the batch fail -/
theorem C13_malformed (env : Env) (s : State) (txs : List Tx) (fb : Header) (tx : Tx) (htx : tx ∈ txs)
    (hk : tx.kind = .stake) (hl : legacyStakeReg s = false)
    (hbad : tx.stakeDoc = none ∨ tx.outputs = [] ∨ ∃ o, tx.outputs.head? = some o ∧ o.denom ≠ .sym) :
    ∀ s', applyBatch env s txs fb ≠ .ok s' := by
  sorry

/-- while a stake is registered (or being registered in this batch) no output of its transaction can be
    spent (outside the legacy window) -/
theorem C13_locked (env : Env) (s : State) (txs : List Tx) (fb : Header) (tx : Tx) (htx : tx ∈ txs)
    (id : CoinID) (hid : id ∈ tx.inputs) (hl : legacyStakeLock s = false)
    (hst : (s.stakes.getStake id.txhash).isSome ∨ ∃ t ∈ txs, t.hash = id.txhash ∧ ∃ d, Registers s t d) :
    ∀ s', applyBatch env s txs fb ≠ .ok s' := by
  sorry

/-- … and for a single otherwise-loadable transaction the error is `CoinLocked` -/
theorem C13_locked_error (env : Env) (s : State) (tx : Tx) (fb : Header) (rel : Relevant)
    (hrel : loadRelevantCoins s [tx] = .ok rel) (hns : tx.kind ≠ .stake)
    (id : CoinID) (hfirst : tx.inputs.head? = some id) (hl : legacyStakeLock s = false)
    (hst : (s.stakes.getStake id.txhash).isSome) :
    applyBatch env s [tx] fb = .reject .coinLocked := by
  sorry

/-- opening a block drops exactly the stakes whose end epoch is before the new block's epoch: a stake with
    end field `e` stays registered (hence locked) through the last block of epoch `e` and is gone from the
    first block of epoch `e + 1` on -/
theorem C13_unlock (env : Env) (ss : Sealed) (s' : State) (h : nextUnsealed env ss = .ok s')
    (hu : (ss.st.stakes.map (·.1)).Nodup) (k : Hash) :
    s'.stakes.getStake k =
      match ss.st.stakes.getStake k with
      | some d => if d.ePostEnd ≥ (ss.st.height + 1) / STAKE_EPOCH then some d else none
      | none => none := by
  sorry

/-- sealing never touches the stake set -/
theorem C13_seal_keeps_stakes (env : Env) (s : State) (a : Option ProposerAction) (ss : Sealed)
    (h : sealState env s a = .ok ss) : ss.st.stakes = s.stakes := by
  sorry

/-- voting power of a key = sum of its registered stakes with start ≤ epoch < end -/
theorem C13_votes (st : StakeSet) (epoch : Nat) (key : Bytes) :
    st.votes epoch key =
      ((st.filter fun e => e.2.eStart ≤ epoch ∧ epoch < e.2.ePostEnd ∧ e.2.pubkey = key).map (·.2.symsStaked)).sum := by
  sorry

theorem C13_total_votes (st : StakeSet) (epoch : Nat) :
    st.totalVotes epoch = ((st.filter fun e => e.2.eStart ≤ epoch ∧ epoch < e.2.ePostEnd).map (·.2.symsStaked)).sum := by
  sorry

/-- the total is the sum of the per-key tallies over the distinct keys (no vote is lost or double counted) -/
theorem C13_total_is_sum_of_keys (st : StakeSet) (epoch : Nat) (keys : List Bytes) (hn : keys.Nodup)
    (hall : ∀ e ∈ st, e.2.pubkey ∈ keys) :
    st.totalVotes epoch = (keys.map (st.votes epoch)).sum := by
  sorry

/-- known deviation (K2): inside the legacy window stake transactions are let through unregistered -/
theorem C13_legacy_window (s : State) (txs : List Tx) (h : legacyStakeReg s = true) :
    loadStakeInfo s txs = .ok [] := by
  sorry

end Mel
