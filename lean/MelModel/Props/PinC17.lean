/-
  C17 — the constants the property's statement (and the recorded deviations) fix, pinned against the values regenerated
  from /repo's source on every run (Generated/Tables.lean): the step is at most multiplier/128 (floor 2 once TIP-901 is active), scaled by delta/128.
  The model is parametric in these constants, so a changed constant would be followed silently by the model and the
  correspondence; these theorems are what turns such a change into a broken proof obligation.
-/
import MelModel.Generated.Tables
namespace Mel
open Mel.Gen

theorem C17_pin_FEEMULT_SHIFT : FEEMULT_SHIFT = 7 := rfl
theorem C17_pin_FEEMULT_DIV : FEEMULT_DIV = 128 := rfl
theorem C17_pin_FEEMULT_FLOOR : FEEMULT_FLOOR = 2 := rfl
theorem C17_pin_TIP_901_HEIGHT : TIP_901_HEIGHT = 42700 := rfl

end Mel

#print axioms Mel.C17_pin_FEEMULT_SHIFT
#print axioms Mel.C17_pin_FEEMULT_DIV
#print axioms Mel.C17_pin_FEEMULT_FLOOR
#print axioms Mel.C17_pin_TIP_901_HEIGHT
