/-
  C02, over histories — no double spend over the whole life of the chain: a coin that is absent at some point of a run
  after its creating transaction was applied (in particular: after it was spent) is absent at every later point, so no
  later batch that has it among its inputs is accepted.

  What can make a coin id `⟨h, i⟩` appear:
  * a batch containing a transaction with hash `h` (its outputs) — excluded by hash freshness (`t.hash ≠ h`, as in
    `ChainRunAvoiding h` of Props/C13Life.lean: collision-freeness of the transaction hash);
  * a (non-grandfathered) faucet transaction whose de-duplication marker id is `h` — domain separation of
    `faucet_dedup_pseudocoin` from transaction hashes;
  * sealing with a proposer action at a height whose reward id is `h` — domain separation of
    `CoinID::proposer_reward`;
  * settlement at sealing: it REWRITES slot 0 of a pool request of the block — but only while the slot-0 coin is still
    there, so it never resurrects a spent coin — and it CREATES slot 1 of a liquidity withdrawal of the block (the
    second payout coin).  The latter is the one structural premise (`i = 1 → no withdrawal with hash h in the block
    being sealed`); it is needed (`C02_withdrawal_slot1_appears`) and it is vacuous once the block that contained the
    transaction with hash `h` has been sealed.
  The premises are bundled in `SpentRun` (in the style of `RunClearOf`, Props/C19Life.lean).
  Property theorems only; helper lemmas live in MelModel/Lemmas/SpentL.lean.
-/
import MelModel.Chain
import MelModel.Props.C02
import MelModel.Props.C13Life
import MelModel.Props.C05Hist
import MelModel.Lemmas.SpentL
import MelModel.Lemmas.FLifeL
namespace Mel
open Mel.Gen

/-- a run of the chain along which the coin id `⟨h, i⟩` cannot be created: no transaction applied on the way has hash
    `h` or (if it is a faucet transaction that writes a marker) marker id `h`, no sealed height has reward id `h`, and —
    for slot 1 only — no block is sealed while it contains a liquidity withdrawal with hash `h` -/
inductive SpentRun (env : Env) (h : Hash) (i : Nat) : State → State → Prop
  | refl (s : State) : SpentRun env h i s s
  | batch {s x s' : State} {txs : List Tx} {fb : Header} : SpentRun env h i s x →
      (∀ t ∈ txs, t.hash ≠ h) →
      (∀ t ∈ txs, t.kind = .faucet → env.isGrandfathered t.hash = false → env.fdp t.hash ≠ h) →
      applyBatch env x txs fb = .ok s' → SpentRun env h i s s'
  | block {s x s' : State} {ss : Sealed} {a : Option ProposerAction} : SpentRun env h i s x →
      env.rewardId x.height ≠ h →
      (i = 1 → ∀ t ∈ x.txs, t.hash = h → t.kind ≠ .liqWithdraw) →
      sealState env x a = .ok ss → nextUnsealed env ss = .ok s' → SpentRun env h i s s'

theorem SpentRun.toRun {env : Env} {h : Hash} {i : Nat} {s s' : State} (hrun : SpentRun env h i s s') :
    ChainRun env s s' := by
  induction hrun with
  | refl => exact .refl _
  | batch _ _ _ hb ih => exact .step ih (.batch hb)
  | block _ _ _ h1 h2 ih => exact .step ih (.block h1 h2)

/-- domain separation of a hash `h` from the two keyed-hash families of pseudo-coin ids, stated globally -/
def HashApart (env : Env) (h : Hash) : Prop := (∀ x, env.fdp x ≠ h) ∧ (∀ n, env.rewardId n ≠ h)

/-! ### one step -/

/-- an accepted batch without a transaction of hash `h` (or marker id `h`) keeps `⟨h, i⟩` absent -/
theorem C02_batch_keeps_absent (env : Env) (s s' : State) (txs : List Tx) (fb : Header) (h : Hash) (i : Nat)
    (hb : applyBatch env s txs fb = .ok s') (hfresh : ∀ t ∈ txs, t.hash ≠ h)
    (hmk : ∀ t ∈ txs, t.kind = .faucet → env.isGrandfathered t.hash = false → env.fdp t.hash ≠ h)
    (hn : s.coins.getCoin ⟨h, i⟩ = none) : s'.coins.getCoin ⟨h, i⟩ = none :=
  SpentL.applyBatch_absent hb hmk (.inr ⟨hn, hfresh⟩)

/-- **a spent coin is gone**: after an accepted batch every input is absent (no marker of the batch landing on it) -/
theorem C02_spent_after_batch (env : Env) (s s' : State) (txs : List Tx) (fb : Header) (id : CoinID)
    (hb : applyBatch env s txs fb = .ok s') (hin : id ∈ batchInputs txs)
    (hmk : ∀ t ∈ txs, t.kind = .faucet → env.isGrandfathered t.hash = false → env.fdp t.hash ≠ id.txhash) :
    s'.coins.getCoin id = none :=
  SpentL.applyBatch_absent hb hmk (.inl hin)

/-- sealing keeps `⟨h, i⟩` absent: settlement rewrites slot 0 of a pool request only while that coin is there, and
    creates only slot 1 of a liquidity withdrawal; the proposer action writes only the reward coin -/
theorem C02_seal_keeps_absent (env : Env) (s : State) (a : Option ProposerAction) (ss : Sealed) (h : Hash) (i : Nat)
    (hs : sealState env s a = .ok ss) (hrew : env.rewardId s.height ≠ h)
    (hw : i = 1 → ∀ t ∈ s.txs, t.hash = h → t.kind ≠ .liqWithdraw)
    (hn : s.coins.getCoin ⟨h, i⟩ = none) : ss.st.coins.getCoin ⟨h, i⟩ = none :=
  SpentL.sealState_absent hs hn hrew hw

/-- opening the next block touches no coin -/
theorem C02_next_keeps_coins (env : Env) (ss : Sealed) (s' : State) (hn : nextUnsealed env ss = .ok s')
    (id : CoinID) : s'.coins.getCoin id = ss.st.coins.getCoin id :=
  FLifeL.nextUnsealed_getCoin hn id

/-! ### over runs -/

/-- **spent stays spent**: a coin `⟨h, i⟩` that is absent at some point of a run is absent at every later point, as
    long as no later batch contains a transaction with hash `h` and the domain-separation premises of `SpentRun`
    hold -/
theorem C02_spent_stays_spent (env : Env) (h : Hash) (i : Nat) (s s' : State) (hrun : SpentRun env h i s s')
    (hn : s.coins.getCoin ⟨h, i⟩ = none) : s'.coins.getCoin ⟨h, i⟩ = none := by
  induction hrun with
  | refl => exact hn
  | batch _ hfresh hmk hb ih => exact C02_batch_keeps_absent env _ _ _ _ h i hb hfresh hmk ih
  | block _ hrew hw hs hnx ih =>
    rw [C02_next_keeps_coins env _ _ hnx]
    exact C02_seal_keeps_absent env _ _ _ h i hs hrew hw ih

/-- a run avoiding `h`, from a state whose block holds no transaction with hash `h` (e.g. any state after the block of
    the creating transaction was sealed), with `h` apart from the pseudo-coin ids, is a `SpentRun` for every slot -/
theorem SpentRun.of_avoiding {env : Env} {h : Hash} {s s' : State} (i : Nat) (hrun : ChainRunAvoiding env h s s')
    (hap : HashApart env h) (hstart : ∀ t ∈ s.txs, t.hash ≠ h) :
    SpentRun env h i s s' ∧ ∀ t ∈ s'.txs, t.hash ≠ h := by
  induction hrun with
  | refl => exact ⟨.refl _, hstart⟩
  | batch _ hne hb ih =>
    refine ⟨.batch ih.1 hne (fun t _ _ _ => hap.1 _) hb, fun t ht => ?_⟩
    rcases SpentL.applyBatch_mem_txs hb ht with ht | ht
    · exact hne t ht
    · exact ih.2 t ht
  | block _ hs hn ih =>
    refine ⟨.block ih.1 (hap.2 _) (fun _ t ht e => absurd e (ih.2 t ht)) hs hn, fun t ht => ?_⟩
    rw [ReachL.nextUnsealed_txs hn] at ht
    cases ht

/-- … and for every slot other than 1 no condition on the starting block is needed -/
theorem SpentRun.of_avoiding_slot {env : Env} {h : Hash} {s s' : State} {i : Nat} (hrun : ChainRunAvoiding env h s s')
    (hap : HashApart env h) (hi : i ≠ 1) : SpentRun env h i s s' := by
  induction hrun with
  | refl => exact .refl _
  | batch _ hne hb ih => exact .batch ih hne (fun t _ _ _ => hap.1 _) hb
  | block _ hs hn ih => exact .block ih (hap.2 _) (fun e => absurd e hi) hs hn

/-- **spent stays spent, along `ChainRunAvoiding`** (the form over the runs of Props/C13Life.lean): `h` apart from the
    marker and reward ids, and the starting block without a transaction of hash `h` -/
theorem C02_spent_stays_spent_avoiding (env : Env) (h : Hash) (i : Nat) (s s' : State)
    (hrun : ChainRunAvoiding env h s s') (hn : s.coins.getCoin ⟨h, i⟩ = none)
    (hap : HashApart env h) (hstart : ∀ t ∈ s.txs, t.hash ≠ h) : s'.coins.getCoin ⟨h, i⟩ = none :=
  C02_spent_stays_spent env h i s s' (SpentRun.of_avoiding i hrun hap hstart).1 hn

/-- … for a slot other than 1 from ANY state, e.g. one in the very block of the creating transaction (a coin created
    and spent in the same block) -/
theorem C02_spent_stays_spent_avoiding_slot (env : Env) (h : Hash) (i : Nat) (s s' : State)
    (hrun : ChainRunAvoiding env h s s') (hn : s.coins.getCoin ⟨h, i⟩ = none)
    (hap : HashApart env h) (hi : i ≠ 1) : s'.coins.getCoin ⟨h, i⟩ = none :=
  C02_spent_stays_spent env h i s s' (SpentRun.of_avoiding_slot hrun hap hi) hn

/-- an input of an accepted batch none of whose transactions has the input's hash existed before the batch -/
theorem C02_input_existed (env : Env) (s s' : State) (txs : List Tx) (fb : Header) (id : CoinID)
    (hb : applyBatch env s txs fb = .ok s') (hin : id ∈ batchInputs txs) (hfresh : ∀ t ∈ txs, t.hash ≠ id.txhash) :
    (s.coins.getCoin id).isSome = true := by
  rcases C02_inputs_exist env s s' txs fb hb id hin with h | h
  · exact h
  · cases hc : (batchCreated s.height txs).get id with
    | none => rw [hc] at h; cases h
    | some c =>
      obtain ⟨tx, htx, hm⟩ := createdOf_get_some (height := s.height) (txs := txs) hc
      obtain ⟨j, o, -, hk, -⟩ := mem_outputCoinsFromTx hm
      exact absurd (by rw [hk]) (hfresh tx htx)

/-- **no double spend, ever**: once an accepted batch of the run has `⟨h, i⟩` among its inputs, no later batch of the
    run that has it among its inputs is accepted (such a batch cannot create the coin itself: hash freshness) -/
theorem C02_no_double_spend_ever (env : Env) (h : Hash) (i : Nat) (m s s' : State) (txs₀ : List Tx) (fb₀ : Header)
    (h₀ : applyBatch env m txs₀ fb₀ = .ok s) (hin₀ : (⟨h, i⟩ : CoinID) ∈ batchInputs txs₀)
    (hmk₀ : ∀ t ∈ txs₀, t.kind = .faucet → env.isGrandfathered t.hash = false → env.fdp t.hash ≠ h)
    (hrun : SpentRun env h i s s')
    (txs : List Tx) (fb : Header) (hfresh : ∀ t ∈ txs, t.hash ≠ h) (hin : (⟨h, i⟩ : CoinID) ∈ batchInputs txs) :
    ∀ s'', applyBatch env s' txs fb ≠ .ok s'' := by
  intro s'' hb
  have h1 : s.coins.getCoin ⟨h, i⟩ = none := C02_spent_after_batch env m s txs₀ fb₀ ⟨h, i⟩ h₀ hin₀ hmk₀
  have h2 := C02_spent_stays_spent env h i s s' hrun h1
  have h3 := C02_input_existed env s' s'' txs fb ⟨h, i⟩ hb hin hfresh
  rw [h2] at h3
  cases h3

/-- … and the verdict is a rejection: `MalformedTx` (if some transaction of the batch is malformed) or
    `NonexistentCoin` -/
theorem C02_second_spend_rejected (env : Env) (h : Hash) (i : Nat) (m s s' : State) (txs₀ : List Tx) (fb₀ : Header)
    (h₀ : applyBatch env m txs₀ fb₀ = .ok s) (hin₀ : (⟨h, i⟩ : CoinID) ∈ batchInputs txs₀)
    (hmk₀ : ∀ t ∈ txs₀, t.kind = .faucet → env.isGrandfathered t.hash = false → env.fdp t.hash ≠ h)
    (hrun : SpentRun env h i s s')
    (txs : List Tx) (fb : Header) (hfresh : ∀ t ∈ txs, t.hash ≠ h) (hin : (⟨h, i⟩ : CoinID) ∈ batchInputs txs) :
    applyBatch env s' txs fb = .reject .malformedTx ∨ applyBatch env s' txs fb = .reject .nonexistentCoin := by
  have h1 : s.coins.getCoin ⟨h, i⟩ = none := C02_spent_after_batch env m s txs₀ fb₀ ⟨h, i⟩ h₀ hin₀ hmk₀
  have h2 := C02_spent_stays_spent env h i s s' hrun h1
  refine C02_missing_rejected env s' txs fb ⟨h, i⟩ hin h2 ?_
  cases hc : (batchCreated s'.height txs).get ⟨h, i⟩ with
  | none => rfl
  | some c =>
    obtain ⟨tx, htx, hm⟩ := createdOf_get_some (height := s'.height) (txs := txs) hc
    obtain ⟨j, o, -, hk, -⟩ := mem_outputCoinsFromTx hm
    exact absurd (congrArg CoinID.txhash hk).symm (hfresh tx htx)

/-- the same along `ChainRunAvoiding`, for a coin in slot 0 (or any slot but 1) -/
theorem C02_no_double_spend_ever_avoiding (env : Env) (h : Hash) (i : Nat) (m s s' : State) (txs₀ : List Tx)
    (fb₀ : Header) (h₀ : applyBatch env m txs₀ fb₀ = .ok s) (hin₀ : (⟨h, i⟩ : CoinID) ∈ batchInputs txs₀)
    (hap : HashApart env h) (hi : i ≠ 1) (hrun : ChainRunAvoiding env h s s')
    (txs : List Tx) (fb : Header) (hfresh : ∀ t ∈ txs, t.hash ≠ h) (hin : (⟨h, i⟩ : CoinID) ∈ batchInputs txs) :
    ∀ s'', applyBatch env s' txs fb ≠ .ok s'' :=
  C02_no_double_spend_ever env h i m s s' txs₀ fb₀ h₀ hin₀ (fun _ _ _ _ => hap.1 _)
    (SpentRun.of_avoiding_slot hrun hap hi) txs fb hfresh hin

/-! ### the structural premise of `SpentRun` is needed; non-vacuity -/

namespace C02HistWitness
open ReachWitness (env cfg getOk eq_getOk)
open C05HistWitness (pz q1 ns n2 batch_ok sealNone_ok nextNone_ok)

/-- a liquidity withdrawal with ONE output (10 liquidity tokens of the MEL/SYM pool), hash `[4]` -/
def wd : Tx := {
  kind := .liqWithdraw, inputs := [], outputs := [(⟨[8], 10, .custom [115], []⟩ : CoinData)], fee := 0,
  covenants := [], data := [115], sigs := [], hash := [4], rawLen := 0, covHashes := [] }
/-- a state whose block holds `wd`, whose slot-0 coin is there; the coin `([4], 1)` does not exist -/
def xw : State := {
  network := .custom02, height := 0, history := [],
  coins := { coins := [(⟨[4], 0⟩, ⟨⟨[8], 10, .custom [115], []⟩, 0⟩)], counts := [([8], 1)] },
  txs := [wd], feePool := 0, feeMultiplier := 0, tips := 0, doscSpeed := 1000000,
  pools := [(poolMelSym, { lefts := 1000000, rights := 1000000, priceAccum := 0, liqs := 1000000 })], stakes := [] }
def xws : Sealed := getOk (sealState env xw none)
theorem xw_seal : sealState env xw none = .ok xws := eq_getOk (by decide +kernel)

/-- (block 1) spends `pz`'s output `([4], 0)` — the FIRST spend -/
def sp : Tx := {
  kind := .normal, inputs := [⟨[4], 0⟩], outputs := [(⟨[8], 2, .mel, []⟩ : CoinData)], fee := 1,
  covenants := [C03Witness.cov], data := [], sigs := [], hash := [5], rawLen := 0, covHashes := [[8]] }
/-- (block 2) tries to spend `([4], 0)` again -/
def sp2 : Tx := {
  kind := .normal, inputs := [⟨[4], 0⟩], outputs := [(⟨[8], 2, .mel, []⟩ : CoinData)], fee := 1,
  covenants := [C03Witness.cov], data := [], sigs := [], hash := [6], rawLen := 0, covHashes := [[8]] }

def u1 : State := getOk (applyBatch env n2 [sp] default)
def us1 : Sealed := getOk (sealState env u1 none)
def v1 : State := getOk (nextUnsealed env us1)

theorem u1_ok : applyBatch env n2 [sp] default = .ok u1 := eq_getOk (by decide +kernel)
theorem us1_ok : sealState env u1 none = .ok us1 := eq_getOk (by decide +kernel)
theorem v1_ok : nextUnsealed env us1 = .ok v1 := eq_getOk (by decide +kernel)

def isRejectNC : Outcome State → Bool
  | .reject .nonexistentCoin => true
  | _ => false

theorem eq_of_isRejectNC {o : Outcome State} (h : isRejectNC o = true) : o = .reject .nonexistentCoin := by
  cases o with
  | ok a => cases h
  | crash c => cases h
  | reject e => cases e <;> first | rfl | cases h

end C02HistWitness

/-- **the slot-1 premise of `SpentRun` is needed**: the literal state `xw` (its block holds the one-output liquidity
    withdrawal `wd` with hash `[4]`, whose slot-0 coin is there) has no coin `([4], 1)`; sealing it succeeds and CREATES
    `([4], 1)` — the second payout coin of the withdrawal — although no batch ran and the reward id is not `[4]` -/
theorem C02_withdrawal_slot1_appears :
    ∃ (env : Env) (x : State) (ss : Sealed) (h : Hash), sealState env x none = .ok ss ∧
      env.rewardId x.height ≠ h ∧ x.coins.getCoin ⟨h, 1⟩ = none ∧ (ss.st.coins.getCoin ⟨h, 1⟩).isSome = true ∧
      ∃ t ∈ x.txs, t.hash = h ∧ t.kind = .liqWithdraw := by
  open C02HistWitness in
  exact ⟨ReachWitness.env, xw, xws, [4], xw_seal, by decide, by decide +kernel, by decide +kernel, wd,
    List.mem_cons_self, rfl, rfl⟩

/-- **non-vacuity — a literal run of three blocks**: block 0 creates the coin `([4], 0)` (transaction `pz`), block 1
    spends it (transaction `sp`, the batch is accepted), block 1 is sealed and block 2 opened — a `SpentRun` for
    `([4], 0)`; the coin existed before the spend, is absent after it and after the block, and in block 2 (as in
    block 1) the batch `[sp2]` that spends it AGAIN is rejected with `NonexistentCoin` -/
theorem C02_no_double_spend_ever_nonvacuous :
    ∃ (env : Env) (cfg : GenesisConfig) (m s s' : State) (h : Hash) (txs₀ txs : List Tx) (fb : Header),
      ChainRun env (genesisState cfg) m ∧ (m.coins.getCoin ⟨h, 0⟩).isSome = true ∧
      applyBatch env m txs₀ fb = .ok s ∧ (⟨h, 0⟩ : CoinID) ∈ batchInputs txs₀ ∧
      SpentRun env h 0 s s' ∧ s.height < s'.height ∧
      s.coins.getCoin ⟨h, 0⟩ = none ∧ s'.coins.getCoin ⟨h, 0⟩ = none ∧
      (∀ t ∈ txs, t.hash ≠ h) ∧ (⟨h, 0⟩ : CoinID) ∈ batchInputs txs ∧
      applyBatch env s txs fb = .reject .nonexistentCoin ∧ applyBatch env s' txs fb = .reject .nonexistentCoin := by
  open C02HistWitness C05HistWitness in
  have hrun : SpentRun ReachWitness.env [4] 0 u1 v1 :=
    .block (.refl _) (by decide) (fun e => absurd e (by decide)) us1_ok v1_ok
  have hin₀ : (⟨[4], 0⟩ : CoinID) ∈ batchInputs [sp] := by decide
  have hmk₀ : ∀ t ∈ [sp], t.kind = .faucet → ReachWitness.env.isGrandfathered t.hash = false →
      ReachWitness.env.fdp t.hash ≠ [4] := by
    intro t ht hk
    simp only [List.mem_cons, List.not_mem_nil, or_false] at ht
    subst ht
    cases hk
  have hfresh : ∀ t ∈ [sp2], t.hash ≠ [4] := by
    intro t ht
    simp only [List.mem_cons, List.not_mem_nil, or_false] at ht
    subst ht
    decide
  have hin : (⟨[4], 0⟩ : CoinID) ∈ batchInputs [sp2] := by decide
  have hn₁ := C02_spent_after_batch ReachWitness.env n2 u1 [sp] default ⟨[4], 0⟩ u1_ok hin₀ hmk₀
  have hn₂ := C02_spent_stays_spent ReachWitness.env [4] 0 u1 v1 hrun hn₁
  refine ⟨ReachWitness.env, ReachWitness.cfg, n2, u1, v1, [4], [sp], [sp2], default,
    .step (.step (.refl _) (.batch batch_ok)) (.block sealNone_ok nextNone_ok), by decide +kernel, u1_ok, hin₀,
    hrun, by decide +kernel, hn₁, hn₂, hfresh, hin, eq_of_isRejectNC (by decide +kernel),
    eq_of_isRejectNC (by decide +kernel)⟩

/-- … and the hypotheses of `C02_no_double_spend_ever` / `C02_second_spend_rejected` are met by that run -/
example : ∀ s'', applyBatch ReachWitness.env C02HistWitness.v1 [C02HistWitness.sp2] default ≠ .ok s'' := by
  open C02HistWitness in
  refine C02_no_double_spend_ever ReachWitness.env [4] 0 C05HistWitness.n2 u1 v1 [sp] default u1_ok (by decide) ?_
    (.block (.refl _) (by decide) (fun e => absurd e (by decide)) us1_ok v1_ok) [sp2] default ?_ (by decide)
  · intro t ht hk
    simp only [List.mem_cons, List.not_mem_nil, or_false] at ht
    subst ht
    cases hk
  · intro t ht
    simp only [List.mem_cons, List.not_mem_nil, or_false] at ht
    subst ht
    decide

end Mel

#print axioms Mel.SpentRun.toRun
#print axioms Mel.C02_batch_keeps_absent
#print axioms Mel.C02_spent_after_batch
#print axioms Mel.C02_seal_keeps_absent
#print axioms Mel.C02_next_keeps_coins
#print axioms Mel.C02_spent_stays_spent
#print axioms Mel.SpentRun.of_avoiding
#print axioms Mel.SpentRun.of_avoiding_slot
#print axioms Mel.C02_spent_stays_spent_avoiding
#print axioms Mel.C02_spent_stays_spent_avoiding_slot
#print axioms Mel.C02_input_existed
#print axioms Mel.C02_no_double_spend_ever
#print axioms Mel.C02_second_spend_rejected
#print axioms Mel.C02_no_double_spend_ever_avoiding
#print axioms Mel.C02_withdrawal_slot1_appears
#print axioms Mel.C02_no_double_spend_ever_nonvacuous
