/-
  C01 — conservation of every denomination: the sealing part (Melmint settlement, pegging, TIP-909 subsidy,
  proposer reward).  Helper lemmas live in MelModel/Lemmas/SupplySeal.lean.
-/
import MelModel.Seal
import MelModel.SupplyDefs
import MelModel.Lemmas.SupplySeal
import MelModel.Lemmas.Pools
namespace Mel
open Mel.Gen

/-- the settlement phases of `preseal_melmint` (everything but the builtin-pool creation and the pegging) -/
def settle (env : Env) (s : State) : Outcome State :=
  (processSwaps s).bind fun s1 => (processDeposits env s1).bind fun s2 => processWithdrawals env s2

/-- the coins of the block's own transactions are exactly what the transactions declared (this is what
    `C02_exact` establishes for the transactions applied in this block) -/
def Faithful (s : State) : Prop :=
  ∀ tx ∈ s.txs, ∀ i o c, tx.outputs[i]? = some o → s.coins.getCoin ⟨tx.hash, i⟩ = some c →
    c.coinData.value = o.value ∧ c.coinData.denom = createdDenom tx o

/-- standing assumptions about the state being sealed: unique keys, distinct transaction hashes, the block's
    coins as declared, and no denomination's coin total beyond a u128 (C09's supply precondition) -/
structure SealPre (s : State) : Prop where
  coinKeys : (s.coins.coins.map (·.1)).Nodup
  poolKeys : (s.pools.map (·.1)).Nodup
  txHashes : (s.txs.map (·.hash)).Nodup
  faithful : Faithful s
  bounded : ∀ d, coinsTotal s.coins d ≤ U128_MAX

/-- **settlement conserves**: outside the legacy deposit window, swaps, deposits and withdrawals — any number,
    against any pools, in one block — leave no more of any denomination in existence than before (liquidity
    tokens themselves are the subject of C16) -/
theorem C01_settlement (env : Env) (s s' : State) (h : settle env s = .ok s') (hp : SealPre s)
    (hl : legacyDeposit s = false) (d : Denom) (hd : ∀ k : PoolKey, d ≠ liqTokenDenom env k) :
    supply s' d ≤ supply s d := by
  unfold settle at h
  obtain ⟨s1, h1, h⟩ := Outcome.bind_eq_ok h
  obtain ⟨s2, h2, h3⟩ := Outcome.bind_eq_ok h
  have hfaith : ∀ tx ∈ s.txs, FaithfulTx s.coins tx := hp.faithful
  -- swaps
  obtain ⟨g1, l1, u1⟩ := swaps_phase s s1 s.coins d h1 hp.coinKeys hp.poolKeys hp.txHashes hp.coinKeys
    hp.bounded (fun _ _ _ _ => rfl) (fun tx htx _ => hfaith tx htx)
  have same1 : ∀ tx ∈ s.txs, tx.kind ≠ .swap → ∀ i,
      s1.coins.getCoin ⟨tx.hash, i⟩ = s.coins.getCoin ⟨tx.hash, i⟩ := by
    intro tx htx hk i
    apply u1
    intro tx2 htx2 hk2 e
    have := eq_of_nodup_map _ hp.txHashes htx2 htx e
    rw [this] at hk2; exact hk hk2
  -- deposits
  have ht1 : (s1.txs.map (·.hash)).Nodup := by rw [g1.txs]; exact hp.txHashes
  obtain ⟨g2, l2, u2⟩ := deposits_phase env s1 s2 s.coins d h2
    ((legacyDeposit_congr g1.height g1.network).trans hl) hd g1.coinKeys g1.poolKeys ht1
    (fun tx htx hk i => same1 tx (g1.txs ▸ htx) (by rw [hk]; decide) i)
    (fun tx htx _ => hfaith tx (g1.txs ▸ htx))
  have same2 : ∀ tx ∈ s.txs, tx.kind ≠ .swap → tx.kind ≠ .liqDeposit → ∀ i,
      s2.coins.getCoin ⟨tx.hash, i⟩ = s.coins.getCoin ⟨tx.hash, i⟩ := by
    intro tx htx hk hk' i
    rw [← same1 tx htx hk i]
    apply u2
    intro tx2 htx2 hk2 e
    rw [g1.txs] at htx2
    have := eq_of_nodup_map _ hp.txHashes htx2 htx e
    rw [this] at hk2; exact hk' hk2
  -- withdrawals
  have g12 := g1.trans g2
  have ht2 : (s2.txs.map (·.hash)).Nodup := by rw [g12.txs]; exact hp.txHashes
  obtain ⟨g3, l3⟩ := withdrawals_phase env s2 s' s.coins d h3 hd g2.coinKeys g2.poolKeys ht2 hp.coinKeys
    hp.bounded
    (fun tx htx hk i => same2 tx (g12.txs ▸ htx) (by rw [hk]; decide) (by rw [hk]; decide) i)
    (fun tx htx _ => hfaith tx (g12.txs ▸ htx))
  have g := g12.trans g3
  unfold supply
  unfold cp at l1 l2 l3
  rw [g.feePool, g.tips]
  omega

/-- creating a missing builtin pool — or, since the `fix:` for F23, replacing one that records no liquidity — adds
    its nobody-owned initial liquidity (10^9 on each side) and nothing else (what a replaced pool held disappears) -/
theorem C01_builtins (s : State) (d : Denom) (hk : (s.pools.map (·.1)).Nodup) :
    supply (createBuiltins s) d ≤ supply s d + 3 * (2 * (MICRO_CONVERTER * BUILTIN_LIQ_MULT)) ∧
    (createBuiltins s).coins = s.coins ∧ (createBuiltins s).feePool = s.feePool ∧ (createBuiltins s).tips = s.tips := by
  refine ⟨?_, rfl, rfl, rfl⟩
  have hX : builtinDefault.lefts + builtinDefault.rights = 2 * (MICRO_CONVERTER * BUILTIN_LIQ_MULT) := by
    simp only [builtinDefault]; omega
  unfold supply createBuiltins
  simp only
  have h1 := poolsTotal_setIf s.pools (builtinMissing s.pools poolMelSym) poolMelSym builtinDefault d hk
  generalize (if builtinMissing s.pools poolMelSym = true then s.pools.set poolMelSym builtinDefault
      else s.pools) = p1 at h1 ⊢
  have h2 := poolsTotal_setIf p1 (builtinMissing p1 poolMelErg) poolMelErg builtinDefault d h1.1
  generalize (if builtinMissing p1 poolMelErg = true then p1.set poolMelErg builtinDefault else p1) = p2 at h2 ⊢
  have h3 := poolsTotal_setIf p2 (s.tip902 && builtinMissing p2 poolErgSym) poolErgSym builtinDefault d h2.1
  have a1 := h1.2
  have a2 := h2.2
  have a3 := h3.2
  omega

/-- what `create_builtins` creates of denomination `d` in state `s`: the default reserves (10^9 on each side) of each
    builtin pool it makes — MEL/SYM, MEL/ERG and, once TIP-902 is active, ERG/SYM, whenever that pool is absent or
    records no liquidity (the keys are distinct, so "missing" can be read off `s.pools` for all three) -/
def builtinsCreated (s : State) (d : Denom) : Nat :=
  (if builtinMissing s.pools poolMelSym then pc d (poolMelSym, builtinDefault) else 0) +
  (if builtinMissing s.pools poolMelErg then pc d (poolMelErg, builtinDefault) else 0) +
  (if s.tip902 && builtinMissing s.pools poolErgSym then pc d (poolErgSym, builtinDefault) else 0)

/-- the state `preseal_melmint` hands to its SECOND `create_builtins` (since the `fix:` for finding F24): `s` with the
    builtin pools created and the block's swaps, deposits and withdrawals settled. (When the settlement does not
    succeed there is no such state and sealing fails; the value is then immaterial.) -/
def settled (env : Env) (s : State) : State :=
  match settle env (createBuiltins s) with
  | .ok s3 => s3
  | _ => createBuiltins s

theorem settled_eq {env : Env} {s s3 : State} (h : settle env (createBuiltins s) = .ok s3) : settled env s = s3 := by
  unfold settled; rw [h]

theorem builtinMissing_fixBuiltin_ne (m : AList PoolKey PoolState) {k k' : PoolKey} (hne : k' ≠ k) :
    builtinMissing (fixBuiltin m k) k' = builtinMissing m k' := by
  unfold builtinMissing
  rw [get_fixBuiltin_ne m hne]

theorem poolsTotal_fixBuiltin (pools : AList PoolKey PoolState) (k : PoolKey) (d : Denom)
    (hn : (pools.map (·.1)).Nodup) :
    ((fixBuiltin pools k).map (·.1)).Nodup ∧
    poolsTotal (fixBuiltin pools k) d ≤
      poolsTotal pools d + (if builtinMissing pools k then pc d (k, builtinDefault) else 0) := by
  unfold fixBuiltin
  cases builtinMissing pools k with
  | false => exact ⟨hn, by simp⟩
  | true =>
    simp only [if_true]
    refine ⟨pools_nodup_set hn k _, ?_⟩
    have h1 := poolsTotal_set hn d k builtinDefault
    omega

/-- **the builtin pools, sharp**: `create_builtins` adds to the supply of `d` at most `builtinsCreated s d` — the
    default reserves of exactly the pools it makes — and nothing else (what a replaced pool held disappears) -/
theorem C01_builtins_sharp (s : State) (d : Denom) (hk : (s.pools.map (·.1)).Nodup) :
    supply (createBuiltins s) d ≤ supply s d + builtinsCreated s d := by
  have h1 := poolsTotal_fixBuiltin s.pools poolMelSym d hk
  have h2 := poolsTotal_fixBuiltin (fixBuiltin s.pools poolMelSym) poolMelErg d h1.1
  have h3 := poolsTotal_fixBuiltin (fixBuiltin (fixBuiltin s.pools poolMelSym) poolMelErg) poolErgSym d h2.1
  rw [builtinMissing_fixBuiltin_ne _ poolMelSym_ne_poolMelErg.symm] at h2
  rw [builtinMissing_fixBuiltin_ne _ poolMelErg_ne_poolErgSym.symm,
    builtinMissing_fixBuiltin_ne _ poolMelSym_ne_poolErgSym.symm] at h3
  have a1 := h1.2
  have a2 := h2.2
  have a3 := h3.2
  unfold supply builtinsCreated
  show coinsTotal s.coins d + poolsTotal (createBuiltins s).pools d +
    (if d = .mel then s.feePool + s.tips else 0) ≤ _
  rw [createBuiltins_pools]
  cases s.tip902 with
  | true => simp only [if_true, Bool.true_and]; omega
  | false => simp only [Bool.false_eq_true, if_false, Bool.false_and]; omega

/-- each denomination sits on one side of at most two builtin pools: one `create_builtins` creates at most
    `2 · 10^9` of it -/
theorem builtinsCreated_le (s : State) (d : Denom) :
    builtinsCreated s d ≤ 2 * (MICRO_CONVERTER * BUILTIN_LIQ_MULT) := by
  have hl : builtinDefault.lefts = MICRO_CONVERTER * BUILTIN_LIQ_MULT := rfl
  have hr : builtinDefault.rights = MICRO_CONVERTER * BUILTIN_LIQ_MULT := rfl
  unfold builtinsCreated
  simp only [pc, poolMelSym_eq, poolMelErg_eq, poolErgSym_eq, hl, hr]
  generalize MICRO_CONVERTER * BUILTIN_LIQ_MULT = X
  cases d <;> simp <;> (repeat' split) <;> omega

/-- nothing but MEL, SYM and ERG is ever created by `create_builtins` -/
theorem builtinsCreated_other (s : State) (d : Denom) (hm : d ≠ .mel) (hs : d ≠ .sym) (he : d ≠ .erg) :
    builtinsCreated s d = 0 := by
  unfold builtinsCreated
  simp only [pc, poolMelSym_eq, poolMelErg_eq, poolErgSym_eq]
  cases d <;> simp_all

/-- when the builtin pools that are due exist and record liquidity, `create_builtins` creates nothing -/
theorem builtinsCreated_zero (s : State) (d : Denom)
    (hb : ∀ k ∈ [poolMelSym, poolMelErg, poolErgSym], ∃ p, s.pools.get k = some p ∧ p.liqs ≠ 0) :
    builtinsCreated s d = 0 := by
  have hm : ∀ k ∈ [poolMelSym, poolMelErg, poolErgSym], builtinMissing s.pools k = false := by
    intro k hk
    obtain ⟨p, hp, hl⟩ := hb k hk
    unfold builtinMissing
    rw [hp]
    simpa using hl
  unfold builtinsCreated
  simp [hm poolMelSym (by simp), hm poolMelErg (by simp), hm poolErgSym (by simp)]

/-- pegging touches nothing but the MEL/SYM pool (coins, fee pool, tips and all other pools are unchanged) -/
theorem C01_pegging_local (s s' : State) (h : processPegging s = .ok s') :
    s'.coins = s.coins ∧ s'.feePool = s.feePool ∧ s'.tips = s.tips ∧
    ∀ k, k ≠ poolMelSym → s'.pools.get k = s.pools.get k := by
  unfold processPegging at h
  simp only at h
  obtain ⟨⟨a, b⟩, _, h⟩ := Outcome.bind_eq_ok h
  simp only at h
  obtain ⟨sm, _, h⟩ := Outcome.bind_eq_ok h
  split at h
  · cases h
  · obtain ⟨sm1, _, h⟩ := Outcome.bind_eq_ok h
    obtain ⟨sm2, _, h⟩ := Outcome.bind_eq_ok h
    cases h
    exact ⟨rfl, rfl, rfl, fun k hk => AList.get_set_ne _ _ hk⟩

/-- the TIP-909 subsidy: SYM enters the MEL/SYM and ERG/SYM pools (at most `2^20 >> halvings` in total), the MEL
    bought with it moves from the pool to the fee pool (MEL is conserved), nothing else changes -/
theorem C01_subsidy (s s' : State) (h : applyTip909 s = .ok s') (hk : (s.pools.map (·.1)).Nodup) :
    s'.coins = s.coins ∧ s'.tips = s.tips ∧
    supply s' .mel ≤ supply s .mel ∧ supply s' .erg ≤ supply s .erg ∧
    supply s' .sym ≤ supply s .sym + 2 ^ SUBSIDY_LOG2 / 2 ^ ((s.height - TIP_909_HEIGHT) / SUBSIDY_HALVING) := by
  unfold applyTip909 at h
  simp only at h
  split at h
  · cases h
  · split at h
    · cases h
    · next sm hsm =>
      obtain ⟨⟨sm', mel, x⟩, h1, h⟩ := Outcome.bind_eq_ok h
      simp only at h
      split at h
      · cases h
      · split at h
        · cases h
        · next es hes =>
          obtain ⟨⟨es', y, z⟩, h2, h⟩ := Outcome.bind_eq_ok h
          cases h
          refine ⟨rfl, rfl, ?_⟩
          have l1 := swapMany_le h1
          have l2 := swapMany_le h2
          have hn1 := pools_nodup_set hk poolMelSym sm'
          have t1 := fun d => poolsTotal_set hk d poolMelSym sm'
          have t2 := fun d => poolsTotal_set hn1 d poolErgSym es'
          simp only [AList.at?_some hsm, AList.at?_some hes] at t1 t2
          have hA : 2 ^ SUBSIDY_LOG2 / 2 ^ ((s.height - TIP_909_HEIGHT) / SUBSIDY_HALVING) / 2 ^ SUBSIDY_ERG_SHIFT
              ≤ 2 ^ SUBSIDY_LOG2 / 2 ^ ((s.height - TIP_909_HEIGHT) / SUBSIDY_HALVING) := Nat.div_le_self _ _
          generalize 2 ^ SUBSIDY_LOG2 / 2 ^ ((s.height - TIP_909_HEIGHT) / SUBSIDY_HALVING) = reward at *
          generalize reward / 2 ^ SUBSIDY_ERG_SHIFT = A at *
          have m1 := t1 .mel; have m2 := t2 .mel
          have e1 := t1 .erg; have e2 := t2 .erg
          have s1 := t1 .sym; have s2 := t2 .sym
          simp only [pc, poolMelSym_eq, poolErgSym_eq] at m1 m2 e1 e2 s1 s2
          simp at m1 m2 e1 e2 s1 s2
          unfold supply
          simp only [poolMelSym_eq, poolErgSym_eq, if_true, reduceCtorEq, if_false]
          clear h h1 h2 t1 t2
          generalize s.tip909a = t at *
          cases t
          · simp only [Bool.false_eq_true, if_false] at l1 l2
            omega
          · simp only [if_true] at l1 l2
            omega

/-- the proposer reward moves MEL from the fee pool and the tips into one coin: nothing is created -/
theorem C01_reward (env : Env) (s s' : State) (a : ProposerAction) (h : collectProposerFee env s a = .ok s')
    (hk : (s.coins.coins.map (·.1)).Nodup)
    (hfresh : s.coins.getCoin { txhash := env.rewardId s.height, index := 0 } = none) (d : Denom) :
    supply s' d = supply s d := by
  unfold collectProposerFee at h
  simp only at h
  split at h
  · cases h
  · cases h
    have hc := coinsTotal_insertCoin hk d { txhash := env.rewardId s.height, index := 0 }
      { coinData := { covhash := a.rewardDest, value := s.feePool / 2 ^ REWARD_SHIFT + s.tips, denom := .mel,
                      additionalData := [] }, height := s.height } s.tip906
    rw [cwAt_none hfresh] at hc
    have hle : s.feePool / 2 ^ REWARD_SHIFT ≤ s.feePool := Nat.div_le_self _ _
    unfold supply
    simp only [cw] at hc ⊢
    by_cases hd : d = .mel
    · subst hd
      simp only [if_true] at hc ⊢
      omega
    · have hd' : ¬ Denom.mel = d := fun e => hd e.symm
      simp only [hd, hd', if_false] at hc ⊢
      omega

/-- known deviation (K-legacy-deposit): inside the legacy window the deposited second coin is not consumed,
    so a deposit duplicates its right-hand amount. Witness at the level of the per-pool step: the coin removal
    is skipped. -/
theorem C01_legacy_deposit_keeps_coin (env : Env) (k : PoolKey) (s s' : State) (tx : Tx)
    (hl : legacyDeposit s = true) (h : processDepositsForPool env k s [tx] = .ok s') (c : CoinDataHeight)
    (hc : s.coins.getCoin (outCoinID tx 1) = some c) : s'.coins.getCoin (outCoinID tx 1) = some c := by
  unfold processDepositsForPool at h
  simp only at h
  split at h
  · cases h
  · cases h
  · split at h
    · cases h; exact hc
    · obtain ⟨coins, hf, h2⟩ := Outcome.bind_eq_ok h
      cases h2
      -- (`split at h` above has already resolved `if legacyDeposit s` with `hl`)
      simp only [Outcome.foldlM'] at hf
      split at hf
      · next b1 hb1 =>
        cases hf
        obtain ⟨v, _, hb1⟩ := Outcome.bind_eq_ok hb1
        cases hb1
        simp only
        rw [CoinMap.getCoin_insertCoin_ne _ _ _ (by unfold outCoinID; intro e; cases e)]
        exact hc
      · cases hf
      · cases hf

end Mel

#print axioms Mel.C01_settlement
#print axioms Mel.C01_builtins
#print axioms Mel.C01_builtins_sharp
#print axioms Mel.builtinsCreated_le
#print axioms Mel.C01_pegging_local
#print axioms Mel.C01_subsidy
#print axioms Mel.C01_reward
#print axioms Mel.C01_legacy_deposit_keeps_coin
