/-
  C01 — conservation of every denomination: the sealing part (Melmint settlement, pegging, TIP-909 subsidy,
  proposer reward).  Helper lemmas live in MelModel/Lemmas/SupplySeal.lean.
-/
import MelModel.Seal
import MelModel.SupplyDefs
import MelModel.Lemmas.SupplySeal
namespace Mel
open Mel.Gen

/-- the settlement phases of `preseal_melmint` (everything but the builtin-pool creation and the pegging) -/
def settle (env : Env) (s : State) : Outcome State :=
  (processSwaps s).bind fun s1 => (processDeposits env s1).bind fun s2 => processWithdrawals env s2

/-- the coins of the block's own transactions are exactly what the transactions declared (this is what
    `C02_exact` establishes for the transactions applied in this block) -/
def Faithful (s : State) : Prop :=
  ∀ tx ∈ s.txs, ∀ i o c, tx.outputs[i]? = some o → s.coins.getCoin ⟨tx.hash, i⟩ = some c →
    c.coinData.value = o.value ∧ c.coinData.denom = createdDenom tx o

/-- standing assumptions about the state being sealed: unique keys, distinct transaction hashes, the block's
    coins as declared, and no denomination's coin total beyond a u128 (C09's supply precondition) -/
structure SealPre (s : State) : Prop where
  coinKeys : (s.coins.coins.map (·.1)).Nodup
  poolKeys : (s.pools.map (·.1)).Nodup
  txHashes : (s.txs.map (·.hash)).Nodup
  faithful : Faithful s
  bounded : ∀ d, coinsTotal s.coins d ≤ U128_MAX

/-- **settlement conserves**: outside the legacy deposit window, swaps, deposits and withdrawals — any number,
    against any pools, in one block — leave no more of any denomination in existence than before (liquidity
    tokens themselves are the subject of C16) -/
theorem C01_settlement (env : Env) (s s' : State) (h : settle env s = .ok s') (hp : SealPre s)
    (hl : legacyDeposit s = false) (d : Denom) (hd : ∀ k : PoolKey, d ≠ liqTokenDenom env k) :
    supply s' d ≤ supply s d := by
  sorry

/-- creating a missing builtin pool adds its nobody-owned initial liquidity (10^9 on each side) and nothing else -/
theorem C01_builtins (s : State) (d : Denom) (hk : (s.pools.map (·.1)).Nodup) :
    supply (createBuiltins s) d ≤ supply s d + 3 * (2 * (MICRO_CONVERTER * BUILTIN_LIQ_MULT)) ∧
    (createBuiltins s).coins = s.coins ∧ (createBuiltins s).feePool = s.feePool ∧ (createBuiltins s).tips = s.tips := by
  sorry

/-- pegging touches nothing but the MEL/SYM pool (coins, fee pool, tips and all other pools are unchanged) -/
theorem C01_pegging_local (s s' : State) (h : processPegging s = .ok s') :
    s'.coins = s.coins ∧ s'.feePool = s.feePool ∧ s'.tips = s.tips ∧
    ∀ k, k ≠ poolMelSym → s'.pools.get k = s.pools.get k := by
  sorry

/-- the TIP-909 subsidy: SYM enters the MEL/SYM and ERG/SYM pools (at most `2^20 >> halvings` in total), the MEL
    bought with it moves from the pool to the fee pool (MEL is conserved), nothing else changes -/
theorem C01_subsidy (s s' : State) (h : applyTip909 s = .ok s') (hk : (s.pools.map (·.1)).Nodup) :
    s'.coins = s.coins ∧ s'.tips = s.tips ∧
    supply s' .mel ≤ supply s .mel ∧ supply s' .erg ≤ supply s .erg ∧
    supply s' .sym ≤ supply s .sym + 2 ^ SUBSIDY_LOG2 / 2 ^ ((s.height - TIP_909_HEIGHT) / SUBSIDY_HALVING) := by
  sorry

/-- the proposer reward moves MEL from the fee pool and the tips into one coin: nothing is created -/
theorem C01_reward (env : Env) (s s' : State) (a : ProposerAction) (h : collectProposerFee env s a = .ok s')
    (hk : (s.coins.coins.map (·.1)).Nodup)
    (hfresh : s.coins.getCoin { txhash := env.rewardId s.height, index := 0 } = none) (d : Denom) :
    supply s' d = supply s d := by
  sorry

/-- known deviation (K-legacy-deposit): inside the legacy window the deposited second coin is not consumed,
    so a deposit duplicates its right-hand amount. Witness at the level of the per-pool step: the coin removal
    is skipped. -/
theorem C01_legacy_deposit_keeps_coin (env : Env) (k : PoolKey) (s s' : State) (tx : Tx)
    (hl : legacyDeposit s = true) (h : processDepositsForPool env k s [tx] = .ok s') (c : CoinDataHeight)
    (hc : s.coins.getCoin (outCoinID tx 1) = some c) : s'.coins.getCoin (outCoinID tx 1) = some c := by
  sorry

end Mel
