/-
  C01 — No value is created from nothing (conservation of every denomination): the batch part.
  (The sealing part is in Props/C01Seal.lean.)  Helper lemmas live in MelModel/Lemmas/Supply.lean.
-/
import MelModel.ApplyTx
import MelModel.SupplyDefs
import MelModel.Lemmas.Supply
namespace Mel
open Mel.Gen

/-- what one transaction may create out of nothing in denomination `d` — the protocol's explicit issuance
    rules at the batch level: an (off-mainnet, see C19) faucet's outputs and fee; a transaction's own newly
    created custom token; the ERG outputs of an ERG mint (bounded by the reward, see C18) -/
def txIssuance (tx : Tx) (d : Denom) : Nat :=
  if tx.kind = .faucet then
    ((tx.outputs.filter fun o => createdDenom tx o = d).map (·.value)).sum + (if d = .mel then tx.fee else 0)
  else
    ((tx.outputs.filter fun o => o.denom = .newCustom ∧ d = .custom tx.hash).map (·.value)).sum +
    (if tx.kind = .doscMint ∧ d = .erg then ((tx.outputs.filter fun o => o.denom = .erg).map (·.value)).sum else 0)

def batchIssuance (txs : List Tx) (d : Denom) : Nat := (txs.map fun tx => txIssuance tx d).sum

/-- **conservation across a batch**: whatever the batch contains — ordinary, swap, deposit, withdrawal, stake
    transactions, in any order, spending each other's outputs — the supply of every denomination grows by at
    most the declared issuance. -/
theorem C01_apply (env : Env) (s s' : State) (txs : List Tx) (fb : Header)
    (h : applyBatch env s txs fb = .ok s') (hk : (s.coins.coins.map (·.1)).Nodup) (d : Denom) :
    supply s' d ≤ supply s d + batchIssuance txs d :=
  supply_applyBatch env s s' txs fb h hk d

/-- in particular a batch without faucet, new-token and ERG-mint transactions creates nothing at all -/
theorem C01_apply_closed (env : Env) (s s' : State) (txs : List Tx) (fb : Header)
    (h : applyBatch env s txs fb = .ok s') (hk : (s.coins.coins.map (·.1)).Nodup)
    (hc : ∀ tx ∈ txs, tx.kind ≠ .faucet ∧ tx.kind ≠ .doscMint ∧ ∀ o ∈ tx.outputs, o.denom ≠ .newCustom)
    (d : Denom) : supply s' d ≤ supply s d := by
  have hz : batchIssuance txs d = 0 := by
    apply sum_map_eq_zero
    intro tx htx
    obtain ⟨h1, h2, h3⟩ := hc tx htx
    have hf : (tx.outputs.filter fun o => o.denom = .newCustom ∧ d = .custom tx.hash) = [] := by
      rw [List.filter_eq_nil_iff]
      intro o ho
      have := h3 o ho
      simp [this]
    have hm : ¬ (tx.kind = .doscMint ∧ d = .erg) := fun hh => h2 hh.1
    simp only [txIssuance, if_neg h1, hf, if_neg hm]
    rfl
  have := C01_apply env s s' txs fb h hk d
  omega

/-- per-transaction balance, the fact conservation rests on: a validated non-faucet transaction's outputs of a
    denomination (plus the fee for MEL) equal its inputs of that denomination, for every denomination it outputs
    other than new tokens and minted ERG -/
theorem C01_tx_balanced (kind : TxKind) (inCoins outCoins : AList Denom Nat) (hk : kind ≠ .faucet)
    (h : checkBalanced kind inCoins outCoins = .ok ()) (d : Denom) (v : Nat) (hv : (d, v) ∈ outCoins)
    (hd : d ≠ .newCustom) (he : ¬ (kind = .doscMint ∧ d = .erg)) : inCoins.get d = some v :=
  checkBalanced_ok hk h d v hv hd he

/-- opening the next block changes no total -/
theorem C01_next (s : State) (hdr : Header) (d : Denom) :
    supply { s with history := s.history.set s.height hdr, height := s.height + 1,
                    stakes := s.stakes.unlockOld ((s.height + 1) / STAKE_EPOCH), txs := [] } d = supply s d := by
  rfl

/-- non-vacuity: a one-coin state and a transfer -/
example : coinsTotal { coins := [(⟨[1], 0⟩, ⟨⟨[7], 5, .mel, []⟩, 0⟩), (⟨[2], 0⟩, ⟨⟨[7], 6, .sym, []⟩, 0⟩)], counts := [] } .mel = 5 := by
  decide

end Mel

#print axioms Mel.C01_apply
#print axioms Mel.C01_apply_closed
#print axioms Mel.C01_tx_balanced
#print axioms Mel.C01_next

