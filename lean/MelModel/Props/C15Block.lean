/-
  C15 at the level of the BLOCK — what `process_swaps`, `process_deposits` and `process_withdrawals` do to the STATE,
  connecting the pool arithmetic of Props/C15.lean (`C15_swap_exact`, `C15_product`, `C15_pro_rata`, `C15_deposit`,
  `C15_withdraw`) to the pools and coins of the block.
  Property theorems only; helper lemmas live in MelModel/Lemmas/SettleBlockL.lean.

  Vocabulary (all from Lemmas/SettleBlockL.lean and Lemmas/TotalSeal.lean, definitions only):
    `out0 tx`, `out1 tx`       the first / second output of a transaction, as the settlement code reads them
    `swapReqs s k`             the swap requests of the block naming pool `k`, exactly as `process_swaps` selects them
                               (`transactionsForPool (s.txs.filter (isSwapRequest s)) k`); `depReqs`, `wdReqs` likewise
    `swapTL k reqs`, `swapTR`  the saturating totals of the left-side / right-side request values (`total_lefts`, …)
    `sumL k reqs`, `sumR`      the same totals as exact sums
    `depTL`, `depTR`, `depTW`  totals of a pool's deposits: lefts, rights, and the weights `depW tx = mtsqrt(l, r)`
    `wdT reqs`                 total of the liquidity tokens a pool's withdrawal requests redeem
    `paidOut m i txs`          the sum of the values held in `m` at the `i`-th outputs of `txs`
    `DepPaid`, `WdPaid`        the coins of a pool's depositors / withdrawers after settlement (fields = the statement)
-/
import MelModel.Props.C15
import MelModel.Lemmas.SettleBlockL
namespace Mel
open Mel.Gen
open TotalSealL
open SettleBlockL

/-! ### 1. one pool of the swap phase -/

/-- **one pool, settled**: `process_swaps_for_single_pool` on pool `k` (state `p`) with requests `swaps`. If it succeeds,
    the pool after it is the `p'` of `p.swapMany l r` for the totals `l`, `r` of the two sides; every left-side request
    has its first coin rewritten to `min ⌊rw·v/l⌋ MAX_COINVAL` of the right denomination (covenant hash and additional
    data of the transaction's first output, the height of the block), every other request to `min ⌊lw·v/r⌋ MAX_COINVAL`
    of the left denomination; all other pools, and all coins that are not first outputs of these requests, are as
    before. (`multiply_frac` saturates at u128 first; `MAX_COINVAL < u128::MAX` makes the second cap the only one.) -/
theorem C15_swap_phase_pool (k : PoolKey) (s s' : State) (swaps : List Tx) (p : PoolState)
    (hp : s.pools.get k = some p)
    -- ADDED (false without it, see `C15_swap_phase_pool_needs_unique_hashes`): the transactions of a block have
    -- pairwise different hashes (an invariant of every reachable state, `Slots`/`nodup_hashes_of_sorted`)
    (hnd : (swaps.map (·.hash)).Nodup)
    (h : processSwapsForPool k s swaps = .ok s') :
    ∃ p' lw rw, p.swapMany (swapTL k swaps) (swapTR k swaps) = .ok (p', lw, rw) ∧
      s'.pools.get k = some p' ∧ (∀ k', k' ≠ k → s'.pools.get k' = s.pools.get k') ∧
      (∀ tx ∈ swaps, (out0 tx).denom = k.left → 0 < swapTL k swaps ∧
        s'.coins.getCoin ⟨tx.hash, 0⟩ = some ⟨{ out0 tx with
          denom := k.right, value := min (rw * (out0 tx).value / swapTL k swaps) MAX_COINVAL }, s.height⟩) ∧
      (∀ tx ∈ swaps, (out0 tx).denom ≠ k.left → 0 < swapTR k swaps ∧
        s'.coins.getCoin ⟨tx.hash, 0⟩ = some ⟨{ out0 tx with
          denom := k.left, value := min (lw * (out0 tx).value / swapTR k swaps) MAX_COINVAL }, s.height⟩) ∧
      (∀ id, (∀ tx ∈ swaps, id ≠ ⟨tx.hash, 0⟩) → s'.coins.getCoin id = s.coins.getCoin id) ∧
      s'.txs = s.txs ∧ s'.height = s.height := by
  obtain ⟨p', lw, rw, hsm, hpools, hpaid, hun, hb⟩ := swap_phase_pool hp h
  refine ⟨p', lw, rw, hsm, ?_, ?_, (hpaid hnd).left, (hpaid hnd).right, hun, hb.txs, hb.height⟩
  · rw [hpools]; exact AList.get_set_self _ _ _
  · intro k' hne; rw [hpools]; exact AList.get_set_ne _ _ hne

/-- without requests the loop does nothing: the coins stay, the pool is `swap_many 0 0` of itself (which still moves
    the price accumulator) — `process_swaps` never calls the function for such a pool, see `C15_swap_phase` -/
theorem C15_swap_phase_pool_no_request (k : PoolKey) (s s' : State) (p : PoolState)
    (hp : s.pools.get k = some p) (h : processSwapsForPool k s [] = .ok s') :
    s'.coins = s.coins ∧ ∃ p' lw rw, p.swapMany 0 0 = .ok (p', lw, rw) ∧ s'.pools.get k = some p' := by
  obtain ⟨p0, p', lw, rw, coins, hp0, hsm, hc, e⟩ := processSwapsForPool_inv h
  rw [hp] at hp0; cases hp0
  simp only [Outcome.foldlM'] at hc
  cases hc
  subst e
  exact ⟨rfl, p', lw, rw, hsm, AList.get_set_self _ _ _⟩

/-! ### 2. the whole swap phase -/

/-- membership in `swapReqs s k`, spelled out: a transaction of the block, selected by `get_swap_transactions`, whose
    data is the canonical spelling of `k` — so every request is a request of exactly one pool -/
theorem C15_swapReqs_mem (s : State) (k : PoolKey) (tx : Tx) :
    tx ∈ swapReqs s k ↔ tx ∈ s.txs ∧ isSwapRequest s tx = true ∧ canonicalPoolKey tx.data = some k := by
  constructor
  · exact mem_swapReqs
  · intro ⟨h1, h2, h3⟩
    exact mem_transactionsForPool'.mpr ⟨List.mem_filter.mpr ⟨h1, h2⟩, h3⟩

theorem C15_request_one_pool (s : State) (k₁ k₂ : PoolKey) (tx : Tx) (h₁ : tx ∈ swapReqs s k₁)
    (h₂ : tx ∈ swapReqs s k₂) : k₁ = k₂ := by
  have a := (mem_swapReqs h₁).2.2
  have b := (mem_swapReqs h₂).2.2
  rw [a] at b
  exact Option.some.inj b

/-- **the whole swap phase** (`process_swaps`: all pools named by requests, in sorted key order). If it succeeds:
    transactions, height and network are as before; a pool without requests is unchanged; coins that are not first
    outputs of swap requests are unchanged; and every pool `k` with requests — it exists with reserves on both sides, and
    its two sides are different denominations — is settled exactly as `C15_swap_phase_pool` says, *from its state `p`
    before the phase and its own requests only*: nothing about the other pools enters `p'`, `lw`, `rw` or the payouts. -/
theorem C15_swap_phase (s s' : State) (h : processSwaps s = .ok s')
    -- ADDED (the payouts are false without it, see `C15_swap_phase_pool_needs_unique_hashes`)
    (hnd : (s.txs.map (·.hash)).Nodup) :
    (s'.txs = s.txs ∧ s'.height = s.height ∧ s'.network = s.network) ∧
    (∀ k, swapReqs s k = [] → s'.pools.get k = s.pools.get k) ∧
    (∀ id, (∀ tx ∈ s.txs, isSwapRequest s tx = true → id ≠ ⟨tx.hash, 0⟩) →
      s'.coins.getCoin id = s.coins.getCoin id) ∧
    (∀ k, swapReqs s k ≠ [] → ∃ p p' lw rw,
      s.pools.get k = some p ∧ 0 < p.lefts ∧ 0 < p.rights ∧ k.left ≠ k.right ∧
      p.swapMany (swapTL k (swapReqs s k)) (swapTR k (swapReqs s k)) = .ok (p', lw, rw) ∧
      s'.pools.get k = some p' ∧
      (∀ tx ∈ swapReqs s k, (out0 tx).denom = k.left → 0 < swapTL k (swapReqs s k) ∧
        s'.coins.getCoin ⟨tx.hash, 0⟩ = some ⟨{ out0 tx with
          denom := k.right,
          value := min (rw * (out0 tx).value / swapTL k (swapReqs s k)) MAX_COINVAL }, s.height⟩) ∧
      (∀ tx ∈ swapReqs s k, (out0 tx).denom = k.right → 0 < swapTR k (swapReqs s k) ∧
        s'.coins.getCoin ⟨tx.hash, 0⟩ = some ⟨{ out0 tx with
          denom := k.left,
          value := min (lw * (out0 tx).value / swapTR k (swapReqs s k)) MAX_COINVAL }, s.height⟩) ∧
      (∀ tx ∈ swapReqs s k, 0 < (out0 tx).value ∧ ((out0 tx).denom = k.left ∨ (out0 tx).denom = k.right))) := by
  obtain ⟨hb, hnone, hun, hsome⟩ := swap_phase h
  refine ⟨⟨hb.txs, hb.height, hb.network⟩, hnone, hun, ?_⟩
  intro k hk
  obtain ⟨p, p', lw, rw, hp, hp', hsm, hpaid⟩ := hsome k hk
  obtain ⟨tx0, htx0⟩ := List.exists_mem_of_ne_nil _ hk
  obtain ⟨q, hq, hl, hr, _⟩ := swapReqs_spec htx0
  rw [hp] at hq; cases hq
  have hne : k.left ≠ k.right := canonical_sides_ne (mem_swapReqs htx0).2.2
  refine ⟨p, p', lw, rw, hp, hl, hr, hne, hsm, hp', (hpaid hnd).left, ?_, ?_⟩
  · intro tx htx hd
    exact (hpaid hnd).right tx htx (by rw [hd]; exact fun e => hne e.symm)
  · intro tx htx
    obtain ⟨_, _, _, _, hv, hd, _⟩ := swapReqs_spec htx
    exact ⟨hv, hd⟩

/-- **each pool is settled independently**: running `process_swaps_for_single_pool` for `k` alone, directly on the
    state before the phase, succeeds and yields the very pool state and the very payouts that the whole phase leaves
    for `k` — whatever other pools the block trades on, and wherever `k` comes in the key order. -/
theorem C15_swap_phase_independent (s s' : State) (h : processSwaps s = .ok s')
    (hnd : (s.txs.map (·.hash)).Nodup) (k : PoolKey) (hk : swapReqs s k ≠ []) :
    ∃ s'', processSwapsForPool k s (swapReqs s k) = .ok s'' ∧ s''.pools.get k = s'.pools.get k ∧
      ∀ tx ∈ swapReqs s k, s''.coins.getCoin ⟨tx.hash, 0⟩ = s'.coins.getCoin ⟨tx.hash, 0⟩ :=
  swap_phase_alone h hnd hk

/-! ### 3. one price per side -/

/-- **single price**: two requests on the same side of the same pool, of values `v₁`, `v₂`, are paid
    `min ⌊w·v₁/T⌋ MAX_COINVAL` and `min ⌊w·v₂/T⌋ MAX_COINVAL` of the same denomination, for the SAME `w` (what the pool
    paid out on that side) and the SAME `T` (what the side paid in). Hence, when the cap does not bite, the payouts
    are in proportion `v₁ : v₂` up to the rounding of one unit: `a₁·v₂ < (a₂+1)·v₁` and `a₂·v₁ < (a₁+1)·v₂`. -/
theorem C15_single_price (s s' : State) (h : processSwaps s = .ok s') (hnd : (s.txs.map (·.hash)).Nodup)
    (k : PoolKey) (tx₁ tx₂ : Tx) (h₁ : tx₁ ∈ swapReqs s k) (h₂ : tx₂ ∈ swapReqs s k)
    (hside : (out0 tx₁).denom = (out0 tx₂).denom) :
    ∃ w T c₁ c₂, 0 < T ∧
      s'.coins.getCoin ⟨tx₁.hash, 0⟩ = some c₁ ∧ s'.coins.getCoin ⟨tx₂.hash, 0⟩ = some c₂ ∧
      c₁.coinData.value = min (w * (out0 tx₁).value / T) MAX_COINVAL ∧
      c₂.coinData.value = min (w * (out0 tx₂).value / T) MAX_COINVAL ∧
      c₁.coinData.denom = c₂.coinData.denom ∧
      (c₂.coinData.value < MAX_COINVAL →
        c₁.coinData.value * (out0 tx₂).value < (c₂.coinData.value + 1) * (out0 tx₁).value) ∧
      (c₁.coinData.value < MAX_COINVAL →
        c₂.coinData.value * (out0 tx₁).value < (c₁.coinData.value + 1) * (out0 tx₂).value) := by
  have hk : swapReqs s k ≠ [] := fun e => by rw [e] at h₁; cases h₁
  obtain ⟨_, _, _, hsome⟩ := C15_swap_phase s s' h hnd
  obtain ⟨p, p', lw, rw, _, _, _, hne, _, _, hleft, hright, hall⟩ := hsome k hk
  have hv₁ := (hall tx₁ h₁).1
  have hv₂ := (hall tx₂ h₂).1
  -- the arithmetic, for either side
  have arith : ∀ (w T : Nat), 0 < T →
      (min (w * (out0 tx₂).value / T) MAX_COINVAL < MAX_COINVAL →
        min (w * (out0 tx₁).value / T) MAX_COINVAL * (out0 tx₂).value <
          (min (w * (out0 tx₂).value / T) MAX_COINVAL + 1) * (out0 tx₁).value) ∧
      (min (w * (out0 tx₁).value / T) MAX_COINVAL < MAX_COINVAL →
        min (w * (out0 tx₂).value / T) MAX_COINVAL * (out0 tx₁).value <
          (min (w * (out0 tx₁).value / T) MAX_COINVAL + 1) * (out0 tx₂).value) := by
    intro w T hT
    refine ⟨fun hc => ?_, fun hc => ?_⟩
    · have e : min (w * (out0 tx₂).value / T) MAX_COINVAL = w * (out0 tx₂).value / T := by omega
      rw [e]
      exact Nat.lt_of_le_of_lt (Nat.mul_le_mul_right _ (Nat.min_le_left _ _)) (same_price hT hv₁)
    · have e : min (w * (out0 tx₁).value / T) MAX_COINVAL = w * (out0 tx₁).value / T := by omega
      rw [e]
      exact Nat.lt_of_le_of_lt (Nat.mul_le_mul_right _ (Nat.min_le_left _ _)) (same_price hT hv₂)
  rcases (hall tx₁ h₁).2 with hd | hd
  · obtain ⟨hT, g₁⟩ := hleft tx₁ h₁ hd
    obtain ⟨_, g₂⟩ := hleft tx₂ h₂ (by rw [← hside]; exact hd)
    exact ⟨rw, _, _, _, hT, g₁, g₂, rfl, rfl, rfl, arith rw _ hT⟩
  · obtain ⟨hT, g₁⟩ := hright tx₁ h₁ hd
    obtain ⟨_, g₂⟩ := hright tx₂ h₂ (by rw [← hside]; exact hd)
    exact ⟨lw, _, _, _, hT, g₁, g₂, rfl, rfl, rfl, arith lw _ hT⟩

/-! ### 4. what is paid out in total, and how the reserves move -/

/-- **total payout bounded**: what the left-side requests of pool `k` hold after the phase adds up to at most `rw`,
    the rights `swap_many` withdrew, and what the right-side requests hold to at most `lw` — provided the side's
    total paid in is the exact sum of its requests. -/
theorem C15_block_payout_bounded (s s' : State) (h : processSwaps s = .ok s')
    (hnd : (s.txs.map (·.hash)).Nodup) (k : PoolKey) (hk : swapReqs s k ≠ []) :
    ∃ p p' lw rw, s.pools.get k = some p ∧ s'.pools.get k = some p' ∧
      p.swapMany (swapTL k (swapReqs s k)) (swapTR k (swapReqs s k)) = .ok (p', lw, rw) ∧
      -- ADDED hypotheses `sumL … ≤ U128_MAX` / `sumR … ≤ U128_MAX` (false without, see
      -- `C15_block_payout_needs_unsaturated_total`): `total_lefts` is a *saturating* sum
      (sumL k (swapReqs s k) ≤ U128_MAX →
        paidOut s'.coins 0 ((swapReqs s k).filter fun tx => (out0 tx).denom = k.left) ≤ rw) ∧
      (sumR k (swapReqs s k) ≤ U128_MAX →
        paidOut s'.coins 0 ((swapReqs s k).filter fun tx => (out0 tx).denom = k.right) ≤ lw) := by
  obtain ⟨_, _, _, hsome⟩ := C15_swap_phase s s' h hnd
  obtain ⟨p, p', lw, rw, hp, _, _, _, hsm, hp', hleft, hright, _⟩ := hsome k hk
  refine ⟨p, p', lw, rw, hp, hp', hsm, ?_, ?_⟩
  · intro hfit
    refine paidOut_filter_le (fun tx => decide ((out0 tx).denom = k.left)) (fun tx => (out0 tx).value) rw
      (swapTL k (swapReqs s k)) ?_ ?_
    · rw [swapTL_eq_sumL hfit]; unfold sumL; simp only [decide_eq_true_eq]
    · intro tx htx hq
      rw [coinValueAt_of (hleft tx htx (of_decide_eq_true hq)).2]
      exact Nat.min_le_left _ _
  · intro hfit
    refine paidOut_filter_le (fun tx => decide ((out0 tx).denom = k.right)) (fun tx => (out0 tx).value) lw
      (swapTR k (swapReqs s k)) ?_ ?_
    · rw [swapTR_eq_sumR hfit]; unfold sumR; simp only [decide_eq_true_eq]
    · intro tx htx hq
      rw [coinValueAt_of (hright tx htx (of_decide_eq_true hq)).2]
      exact Nat.min_le_left _ _

/-- **the reserves move by exactly the amounts paid in and out**, and the amounts paid out are the constant-product
    amounts less the 0.5% fee, rounded down (`C15_swap_exact`, lifted): for a pool with requests whose reserves plus
    the totals paid in fit a u128. -/
theorem C15_block_reserves_exact (s s' : State) (h : processSwaps s = .ok s') (k : PoolKey) (hk : swapReqs s k ≠ [])
    (p : PoolState) (hp : s.pools.get k = some p)
    (hfit : p.lefts + swapTL k (swapReqs s k) ≤ U128_MAX ∧ p.rights + swapTR k (swapReqs s k) ≤ U128_MAX) :
    ∃ p' lw rw, s'.pools.get k = some p' ∧
      p.swapMany (swapTL k (swapReqs s k)) (swapTR k (swapReqs s k)) = .ok (p', lw, rw) ∧
      p'.lefts + lw = p.lefts + swapTL k (swapReqs s k) ∧
      p'.rights + rw = p.rights + swapTR k (swapReqs s k) ∧ p'.liqs = p.liqs ∧
      rw = swapTL k (swapReqs s k) * (p.rights + swapTR k (swapReqs s k)) * 995
            / ((p.lefts + swapTL k (swapReqs s k)) * 1000) ∧
      lw = swapTR k (swapReqs s k) * (p.lefts + swapTL k (swapReqs s k)) * 995
            / ((p.rights + swapTR k (swapReqs s k)) * 1000) ∧
      0 < p'.lefts ∧ 0 < p'.rights := by
  obtain ⟨_, _, _, hsome⟩ := swap_phase h
  obtain ⟨q, p', lw, rw, hq, hp', hsm, _⟩ := hsome k hk
  rw [hp] at hq; cases hq
  obtain ⟨e1, e2, e3, e4, e5⟩ := C15_swap_exact p p' _ _ lw rw hfit hsm
  obtain ⟨e6, e7⟩ := C15_swap_keeps_reserves p p' _ _ lw rw hfit hsm
  exact ⟨p', lw, rw, hp', hsm, e1, e2, e3, e4, e5, e6, e7⟩

/-! ### 5. the reserve product -/

/-- **swapping never decreases a pool's reserve product** (`C15_product`, lifted to the block): every pool that exists
    before the swap phase exists after it, and — when its reserves plus the totals paid in fit a u128 — with a
    reserve product at least as large. No assumption on the transaction hashes is needed. -/
theorem C15_block_product (s s' : State) (h : processSwaps s = .ok s') (k : PoolKey) (p : PoolState)
    (hp : s.pools.get k = some p)
    (hfit : p.lefts + swapTL k (swapReqs s k) ≤ U128_MAX ∧ p.rights + swapTR k (swapReqs s k) ≤ U128_MAX) :
    ∃ p', s'.pools.get k = some p' ∧ p.lefts * p.rights ≤ p'.lefts * p'.rights ∧ p'.liqs = p.liqs := by
  obtain ⟨_, hnone, _, hsome⟩ := swap_phase h
  by_cases hk : swapReqs s k = []
  · exact ⟨p, by rw [hnone k hk]; exact hp, Nat.le_refl _, rfl⟩
  · obtain ⟨q, p', lw, rw, hq, hp', hsm, _⟩ := hsome k hk
    rw [hp] at hq; cases hq
    exact ⟨p', hp', C15_product p p' _ _ lw rw hfit hsm, (C15_swap_exact p p' _ _ lw rw hfit hsm).2.2.1⟩

/-! ### 6. deposits -/

/-- **one pool of the deposit phase** (`process_deposits_for_single_pool`, pool `k`, deposits `deps`; an absent pool
    counts as the empty pool). If it succeeds, `deposit l r` of the pool for the totals of the two sides succeeded with
    `(p', minted)`. If recording `minted` would overflow the pool's liquidity the deposits are left unsettled and the
    state is unchanged. Otherwise the pool becomes `p'`, other pools are unchanged, every depositor's first coin is
    rewritten to `min ⌊minted·wᵢ/W⌋ u128::MAX` liquidity tokens of the pool (`wᵢ = mtsqrt(lᵢ, rᵢ)`, `W` their saturating
    sum), the second coin is removed (outside the legacy window, where it stays), and all other coins are unchanged. -/
theorem C15_deposit_phase_pool (env : Env) (k : PoolKey) (s s' : State) (deps : List Tx)
    -- ADDED (false without it for the same reason as `C15_swap_phase_pool_needs_unique_hashes`)
    (hnd : (deps.map (·.hash)).Nodup)
    (h : processDepositsForPool env k s deps = .ok s') :
    ∃ p' minted, ((s.pools.get k).getD PoolState.newEmpty).deposit (depTL deps) (depTR deps) = .ok (p', minted) ∧
      (((s.pools.get k).getD PoolState.newEmpty).liqs + minted > U128_MAX → s' = s) ∧
      (((s.pools.get k).getD PoolState.newEmpty).liqs + minted ≤ U128_MAX →
        s'.pools.get k = some p' ∧ (∀ k', k' ≠ k → s'.pools.get k' = s.pools.get k') ∧
        DepPaid env k deps s.height (legacyDeposit s) minted s.coins s'.coins ∧
        (∀ id, (∀ tx ∈ deps, id ≠ ⟨tx.hash, 0⟩ ∧ id ≠ ⟨tx.hash, 1⟩) → s'.coins.getCoin id = s.coins.getCoin id)) ∧
      s'.txs = s.txs ∧ s'.height = s.height := by
  obtain ⟨p', minted, hdep, h1, h2, hb⟩ := deposit_phase_pool h
  refine ⟨p', minted, hdep, h1, fun hle => ?_, hb.txs, hb.height⟩
  obtain ⟨e, hpaid, hun⟩ := h2 hle
  refine ⟨by rw [e]; exact AList.get_set_self _ _ _, fun k' hne => by rw [e]; exact AList.get_set_ne _ _ hne,
    hpaid hnd, hun⟩

/-- **the whole deposit phase** (`process_deposits`): pools without deposit requests and coins that are not first or
    second outputs of deposit requests are unchanged; every pool with requests is settled once, from its own state
    before the phase and its own requests only, as `C15_deposit_phase_pool` says. -/
theorem C15_deposit_phase (env : Env) (s s' : State) (h : processDeposits env s = .ok s')
    (hnd : (s.txs.map (·.hash)).Nodup) :
    (s'.txs = s.txs ∧ s'.height = s.height ∧ s'.network = s.network) ∧
    (∀ k, depReqs s k = [] → s'.pools.get k = s.pools.get k) ∧
    (∀ id, (∀ tx ∈ s.txs, isDepositRequest s tx = true → id ≠ ⟨tx.hash, 0⟩ ∧ id ≠ ⟨tx.hash, 1⟩) →
      s'.coins.getCoin id = s.coins.getCoin id) ∧
    (∀ k, depReqs s k ≠ [] → ∃ p' minted,
      ((s.pools.get k).getD PoolState.newEmpty).deposit (depTL (depReqs s k)) (depTR (depReqs s k))
        = .ok (p', minted) ∧
      (((s.pools.get k).getD PoolState.newEmpty).liqs + minted > U128_MAX →
        s'.pools.get k = s.pools.get k ∧
        ∀ tx ∈ depReqs s k, ∀ i, s'.coins.getCoin ⟨tx.hash, i⟩ = s.coins.getCoin ⟨tx.hash, i⟩) ∧
      (((s.pools.get k).getD PoolState.newEmpty).liqs + minted ≤ U128_MAX →
        s'.pools.get k = some p' ∧
        DepPaid env k (depReqs s k) s.height (legacyDeposit s) minted s.coins s'.coins)) := by
  obtain ⟨hb, hnone, hun, hsome⟩ := deposit_phase h
  refine ⟨⟨hb.txs, hb.height, hb.network⟩, hnone, hun, ?_⟩
  intro k hk
  obtain ⟨p', minted, hdep, h1, h2⟩ := hsome k hk
  exact ⟨p', minted, hdep, fun hs => ⟨(h1 hs).1, (h1 hs).2 hnd⟩, fun hs => ⟨(h2 hs).1, (h2 hs).2 hnd⟩⟩

/-- **deposits mint in proportion to the reserves** (`C15_deposit`, lifted): for a pool with deposit requests that is
    settled, with reserves plus totals fitting a u128: a pool without liquidity is seeded with the amounts paid in and
    `minted = l`; otherwise `minted = ⌊√(liqs²·(l·r)/(lefts·rights))⌋`, the reserves grow by exactly `l` and `r` and the
    liquidity record by exactly `minted`. What the depositors are handed adds up to at most `minted` (when the
    weights' total is their exact sum). -/
theorem C15_block_deposit_proportional (env : Env) (s s' : State) (h : processDeposits env s = .ok s')
    (hnd : (s.txs.map (·.hash)).Nodup) (k : PoolKey) (hk : depReqs s k ≠ []) (p : PoolState)
    (hp : (s.pools.get k).getD PoolState.newEmpty = p)
    (hfit : p.lefts + depTL (depReqs s k) ≤ U128_MAX ∧ p.rights + depTR (depReqs s k) ≤ U128_MAX) :
    ∃ p' minted, p.deposit (depTL (depReqs s k)) (depTR (depReqs s k)) = .ok (p', minted) ∧
      (p.liqs + minted ≤ U128_MAX → s'.pools.get k = some p' ∧
        (p.liqs = 0 → minted = depTL (depReqs s k) ∧ p'.lefts = depTL (depReqs s k) ∧
          p'.rights = depTR (depReqs s k) ∧ p'.liqs = minted) ∧
        (p.liqs ≠ 0 →
          minted = min (Nat.sqrt (p.liqs ^ 2 * (depTL (depReqs s k) * depTR (depReqs s k)) / (p.lefts * p.rights)))
            U128_MAX ∧
          p'.lefts = p.lefts + depTL (depReqs s k) ∧ p'.rights = p.rights + depTR (depReqs s k) ∧
          p'.liqs = p.liqs + minted) ∧
        (((depReqs s k).map depW).sum ≤ U128_MAX → paidOut s'.coins 0 (depReqs s k) ≤ minted)) := by
  obtain ⟨_, _, _, hsome⟩ := C15_deposit_phase env s s' h hnd
  obtain ⟨p', minted, hdep, _, h2⟩ := hsome k hk
  rw [hp] at hdep h2
  refine ⟨p', minted, hdep, fun hle => ?_⟩
  obtain ⟨hp', hpaid⟩ := h2 hle
  obtain ⟨c1, c2⟩ := C15_deposit p p' _ _ minted hdep hfit
  refine ⟨hp', ?_, ?_, ?_⟩
  · intro hz
    obtain ⟨a, b, c, d⟩ := c1 hz
    exact ⟨a, b, c, by rw [d, a]⟩
  · intro hz
    obtain ⟨a, b, c, d⟩ := c2 hz
    exact ⟨a, b, c, by rw [d]; omega⟩
  · intro hw
    refine paidOut_le depW minted (depTW (depReqs s k)) (satSum_eq_sum _ hw) ?_
    intro tx htx
    rw [coinValueAt_of (hpaid.token tx htx).2]
    exact Nat.min_le_left _ _

/-! ### 7. withdrawals -/

/-- **one pool of the withdrawal phase** (`process_withdrawals_for_single_pool`, pool `k` in state `p`, requests
    `reqs` redeeming `q = wdT reqs` tokens in total). Requests for more than the pool's whole liquidity are left
    unsettled (state unchanged). Otherwise the pool becomes the `p'` of `p.withdraw q = (p', tl, tr)`; every request
    redeeming `qᵢ` gets `min ⌊tl·qᵢ/q⌋ u128::MAX` lefts at its first output and `min ⌊tr·qᵢ/q⌋ u128::MAX` rights as a
    new coin at index 1; other pools and all other coins are unchanged. -/
theorem C15_withdraw_phase_pool (k : PoolKey) (s s' : State) (reqs : List Tx) (p : PoolState)
    (hp : s.pools.get k = some p)
    -- ADDED (false without it for the same reason as `C15_swap_phase_pool_needs_unique_hashes`)
    (hnd : (reqs.map (·.hash)).Nodup)
    (h : processWithdrawalsForPool k s reqs = .ok s') :
    (wdT reqs > p.liqs → s' = s) ∧
    (wdT reqs ≤ p.liqs → ∃ p' tl tr, p.withdraw (wdT reqs) = .ok (p', tl, tr) ∧
      s'.pools.get k = some p' ∧ (∀ k', k' ≠ k → s'.pools.get k' = s.pools.get k') ∧
      WdPaid k reqs s.height tl tr s'.coins ∧
      (∀ id, (∀ tx ∈ reqs, id ≠ ⟨tx.hash, 0⟩ ∧ id ≠ ⟨tx.hash, 1⟩) → s'.coins.getCoin id = s.coins.getCoin id)) ∧
    s'.txs = s.txs ∧ s'.height = s.height := by
  obtain ⟨h1, h2, hb⟩ := withdraw_phase_pool hp h
  refine ⟨h1, fun hle => ?_, hb.txs, hb.height⟩
  obtain ⟨p', tl, tr, hw, e, hpaid, hun⟩ := h2 hle
  exact ⟨p', tl, tr, hw, by rw [e]; exact AList.get_set_self _ _ _,
    fun k' hne => by rw [e]; exact AList.get_set_ne _ _ hne, hpaid hnd, hun⟩

/-- **the whole withdrawal phase** (`process_withdrawals`) -/
theorem C15_withdraw_phase (env : Env) (s s' : State) (h : processWithdrawals env s = .ok s')
    (hnd : (s.txs.map (·.hash)).Nodup) :
    (s'.txs = s.txs ∧ s'.height = s.height ∧ s'.network = s.network) ∧
    (∀ k, wdReqs env s k = [] → s'.pools.get k = s.pools.get k) ∧
    (∀ id, (∀ tx ∈ s.txs, isWithdrawRequest env s tx = true → id ≠ ⟨tx.hash, 0⟩ ∧ id ≠ ⟨tx.hash, 1⟩) →
      s'.coins.getCoin id = s.coins.getCoin id) ∧
    (∀ k, wdReqs env s k ≠ [] → ∃ p, s.pools.get k = some p ∧
      (wdT (wdReqs env s k) > p.liqs →
        s'.pools.get k = some p ∧
        ∀ tx ∈ wdReqs env s k, ∀ i, s'.coins.getCoin ⟨tx.hash, i⟩ = s.coins.getCoin ⟨tx.hash, i⟩) ∧
      (wdT (wdReqs env s k) ≤ p.liqs → ∃ p' tl tr, p.withdraw (wdT (wdReqs env s k)) = .ok (p', tl, tr) ∧
        s'.pools.get k = some p' ∧ WdPaid k (wdReqs env s k) s.height tl tr s'.coins)) := by
  obtain ⟨hb, hnone, hun, hsome⟩ := withdraw_phase h
  refine ⟨⟨hb.txs, hb.height, hb.network⟩, hnone, hun, ?_⟩
  intro k hk
  obtain ⟨p, hp, h1, h2⟩ := hsome k hk
  refine ⟨p, hp, fun hs => ⟨(h1 hs).1, (h1 hs).2 hnd⟩, fun hs => ?_⟩
  obtain ⟨p', tl, tr, hw, hp', hpaid⟩ := h2 hs
  exact ⟨p', tl, tr, hw, hp', hpaid hnd⟩

/-- **withdrawals burn in proportion to the reserves** (`C15_withdraw`, lifted): a settled pool gives up exactly what
    it pays (`p'.lefts + tl = p.lefts`, …), burns exactly `q`, and pays `⌊lefts·q/liqs⌋`, `⌊rights·q/liqs⌋` (everything
    when `q` is all the liquidity); what the requests are handed on each side adds up to at most `tl` / `tr` (when
    the total redeemed is the exact sum of the requests). -/
theorem C15_block_withdraw_proportional (env : Env) (s s' : State) (h : processWithdrawals env s = .ok s')
    (hnd : (s.txs.map (·.hash)).Nodup) (k : PoolKey) (hk : wdReqs env s k ≠ []) (p : PoolState)
    (hp : s.pools.get k = some p) (hle : wdT (wdReqs env s k) ≤ p.liqs) :
    ∃ p' tl tr, p.withdraw (wdT (wdReqs env s k)) = .ok (p', tl, tr) ∧ s'.pools.get k = some p' ∧
      p'.liqs + wdT (wdReqs env s k) = p.liqs ∧ p'.lefts + tl = p.lefts ∧ p'.rights + tr = p.rights ∧
      (wdT (wdReqs env s k) < p.liqs →
        tl = p.lefts * wdT (wdReqs env s k) / p.liqs ∧ tr = p.rights * wdT (wdReqs env s k) / p.liqs) ∧
      (wdT (wdReqs env s k) = p.liqs → tl = p.lefts ∧ tr = p.rights) ∧
      (((wdReqs env s k).map fun tx => (out0 tx).value).sum ≤ U128_MAX →
        paidOut s'.coins 0 (wdReqs env s k) ≤ tl ∧ paidOut s'.coins 1 (wdReqs env s k) ≤ tr) := by
  obtain ⟨_, _, _, hsome⟩ := C15_withdraw_phase env s s' h hnd
  obtain ⟨q, hq, _, h2⟩ := hsome k hk
  rw [hp] at hq; cases hq
  obtain ⟨p', tl, tr, hw, hp', hpaid⟩ := h2 hle
  obtain ⟨_, c2, c3, c4, c5, c6⟩ := C15_withdraw p p' _ tl tr hw
  refine ⟨p', tl, tr, hw, hp', c2, c3, c4, c5, c6, fun hs => ⟨?_, ?_⟩⟩
  · refine paidOut_le (fun tx => (out0 tx).value) tl (wdT (wdReqs env s k)) (satSum_eq_sum _ hs) ?_
    intro tx htx
    rw [coinValueAt_of (hpaid.paid tx htx).2.1]
    exact Nat.min_le_left _ _
  · refine paidOut_le (fun tx => (out0 tx).value) tr (wdT (wdReqs env s k)) (satSum_eq_sum _ hs) ?_
    intro tx htx
    rw [coinValueAt_of (hpaid.paid tx htx).2.2]
    exact Nat.min_le_left _ _


/-! ### 8. counterexamples for the added hypotheses, and non-vacuity on literal states -/

namespace C15BlockWitness

def env : Env := {
  vm := { hash := id, sigOk := fun _ _ _ => true },
  liqHash := id, fdp := fun h => 9 :: h, rewardId := fun _ => [], hdrHash := fun _ => [],
  powOk := fun _ _ _ _ => .invalid, isGrandfathered := fun _ => false,
  historyRoot := fun _ => [], coinsRoot := fun _ => [], txsRoot := fun _ _ => [],
  poolsRoot := fun _ => [], stakesRoot := fun _ => [] }

def getOk {α} [Inhabited α] : Outcome α → α
  | .ok a => a
  | _ => default

theorem eq_getOk {α} [Inhabited α] {o : Outcome α} (h : o.isOk = true) : o = .ok (getOk o) := by
  cases o <;> first | rfl | cases h

theorem ok_of_toOption {α} {o : Outcome α} {a : α} (h : o.toOption = some a) : o = .ok a := by
  cases o with
  | ok b => simp only [Outcome.toOption, Option.some.injEq] at h; rw [h]
  | reject e => cases h
  | crash c => cases h

/-- a swap request of `v` units of `d` against the pool spelled `name`, with hash `[n]` -/
def swapTx (n : UInt8) (v : Nat) (d : Denom) (name : Bytes) : Tx := {
  kind := .swap, inputs := [], outputs := [(⟨[7], v, d, []⟩ : CoinData)], fee := 0,
  covenants := [], data := name, sigs := [], hash := [n], rawLen := 0, covHashes := [] }

def txA : Tx := swapTx 2 100 .mel [115]   -- 100 MEL into MEL/SYM
def txB : Tx := swapTx 3 300 .mel [115]   -- 300 MEL into MEL/SYM
def txC : Tx := swapTx 4 70 .erg [100]    -- 70 ERG into ERG/MEL (`poolMelErg`; ERG is its left side)

/-- two pools — MEL/SYM (1000, 1000) and ERG/MEL (5000, 2000) — and three swap requests, two of them on MEL/SYM -/
def st : State := {
  network := .custom02, height := 10, history := [],
  coins := { coins := [(⟨[2], 0⟩, ⟨⟨[7], 100, .mel, []⟩, 10⟩), (⟨[3], 0⟩, ⟨⟨[7], 300, .mel, []⟩, 10⟩),
                       (⟨[4], 0⟩, ⟨⟨[7], 70, .erg, []⟩, 10⟩)], counts := [([7], 3)] },
  txs := [txA, txB, txC], feePool := 0, feeMultiplier := 0, tips := 0, doscSpeed := 0,
  pools := [(poolMelSym, ⟨1000, 1000, 0, 1000⟩), (poolMelErg, ⟨5000, 2000, 0, 3000⟩)], stakes := [] }

def st' : State := getOk (processSwaps st)

theorem swaps_ok : processSwaps st = .ok st' := eq_getOk (by decide +kernel)
theorem nodup : (st.txs.map (·.hash)).Nodup := by decide
theorem reqsMelSym : swapReqs st poolMelSym = [txA, txB] := by decide +kernel
theorem reqsMelErg : swapReqs st poolMelErg = [txC] := by decide +kernel

/-- the values: MEL/SYM took 400 MEL and paid 284 SYM (71 + 213); ERG/MEL took 70 ERG and paid 27 MEL -/
theorem values :
    st'.pools.get poolMelSym = some ⟨1400, 716, 1955307, 1000⟩ ∧
    st'.pools.get poolMelErg = some ⟨5070, 1973, 2569690, 3000⟩ ∧
    st'.coins.getCoin ⟨[2], 0⟩ = some ⟨⟨[7], 71, .sym, []⟩, 10⟩ ∧
    st'.coins.getCoin ⟨[3], 0⟩ = some ⟨⟨[7], 213, .sym, []⟩, 10⟩ ∧
    st'.coins.getCoin ⟨[4], 0⟩ = some ⟨⟨[7], 27, .mel, []⟩, 10⟩ := by decide +kernel

/-! the first added hypothesis: two requests with one hash -/

def dupA : Tx := swapTx 2 100 .mel [115]
def dupB : Tx := swapTx 2 300 .mel [115]
def dupSt : State := { st with
  coins := { coins := [(⟨[2], 0⟩, ⟨⟨[7], 100, .mel, []⟩, 10⟩)], counts := [([7], 1)] }, txs := [dupA, dupB] }

/-! the second added hypothesis: two requests whose values add up to more than a u128 -/

def bigA : Tx := swapTx 2 U128_MAX .mel [115]
def bigB : Tx := swapTx 3 U128_MAX .mel [115]
def bigSt : State := { st with
  coins := { coins := [(⟨[2], 0⟩, ⟨⟨[7], U128_MAX, .mel, []⟩, 10⟩), (⟨[3], 0⟩, ⟨⟨[7], U128_MAX, .mel, []⟩, 10⟩)],
             counts := [([7], 2)] }, txs := [bigA, bigB] }
def bigSt' : State := getOk (processSwaps bigSt)
theorem big_ok : processSwaps bigSt = .ok bigSt' := eq_getOk (by decide +kernel)

/-! deposits and withdrawals: two depositors (100/100 and 300/300) into MEL/SYM (1000, 1000, 1000 tokens issued), and
    in another block one withdrawal of 50 of its tokens (`env.liqHash` is the identity: the token is `custom [115]`) -/

def depTx (n : UInt8) (l r : Nat) : Tx := {
  kind := .liqDeposit, inputs := [], outputs := [(⟨[7], l, .mel, []⟩ : CoinData), ⟨[7], r, .sym, []⟩], fee := 0,
  covenants := [], data := [115], sigs := [], hash := [n], rawLen := 0, covHashes := [] }
def dep1 : Tx := depTx 2 100 100
def dep2 : Tx := depTx 3 300 300
def depSt : State := { st with
  coins := { coins := [(⟨[2], 0⟩, ⟨⟨[7], 100, .mel, []⟩, 10⟩), (⟨[2], 1⟩, ⟨⟨[7], 100, .sym, []⟩, 10⟩),
                       (⟨[3], 0⟩, ⟨⟨[7], 300, .mel, []⟩, 10⟩), (⟨[3], 1⟩, ⟨⟨[7], 300, .sym, []⟩, 10⟩)],
             counts := [([7], 4)] }, txs := [dep1, dep2] }
def depSt' : State := getOk (processDeposits env depSt)
theorem deps_ok : processDeposits env depSt = .ok depSt' := eq_getOk (by decide +kernel)
theorem depNodup : (depSt.txs.map (·.hash)).Nodup := by decide
theorem depReqsMelSym : depReqs depSt poolMelSym = [dep1, dep2] := by decide +kernel

def wdTx : Tx := {
  kind := .liqWithdraw, inputs := [], outputs := [(⟨[7], 50, .custom [115], []⟩ : CoinData)], fee := 0,
  covenants := [], data := [115], sigs := [], hash := [2], rawLen := 0, covHashes := [] }
def wdSt : State := { st with
  coins := { coins := [(⟨[2], 0⟩, ⟨⟨[7], 50, .custom [115], []⟩, 10⟩)], counts := [([7], 1)] }, txs := [wdTx] }
def wdSt' : State := getOk (processWithdrawals env wdSt)
theorem wds_ok : processWithdrawals env wdSt = .ok wdSt' := eq_getOk (by decide +kernel)
theorem wdNodup : (wdSt.txs.map (·.hash)).Nodup := by decide
theorem wdReqsMelSym : wdReqs env wdSt poolMelSym = [wdTx] := by decide +kernel

end C15BlockWitness

open C15BlockWitness in
/-- with two requests of one hash the payout formula of `C15_swap_phase_pool` fails for the first of them: the coin
    `⟨[2], 0⟩` holds the second request's share (213), not the first's (71) -/
theorem C15_swap_phase_pool_needs_unique_hashes :
    ∃ s', processSwapsForPool poolMelSym dupSt [dupA, dupB] = .ok s' ∧
      dupSt.pools.get poolMelSym = some ⟨1000, 1000, 0, 1000⟩ ∧
      (⟨1000, 1000, 0, 1000⟩ : PoolState).swapMany (swapTL poolMelSym [dupA, dupB]) (swapTR poolMelSym [dupA, dupB])
        = .ok (⟨1400, 716, 1955307, 1000⟩, 0, 284) ∧
      (out0 dupA).denom = poolMelSym.left ∧
      s'.coins.getCoin ⟨dupA.hash, 0⟩ ≠ some ⟨{ out0 dupA with
        denom := poolMelSym.right,
        value := min (284 * (out0 dupA).value / swapTL poolMelSym [dupA, dupB]) MAX_COINVAL }, dupSt.height⟩ :=
  ⟨getOk (processSwapsForPool poolMelSym dupSt [dupA, dupB]), eq_getOk (by decide +kernel), by decide +kernel,
    ok_of_toOption (by decide +kernel), by decide +kernel, by decide +kernel⟩

open C15BlockWitness in
/-- … so `C15_swap_phase_pool` without `hnd` is false: its conclusion fails on that literal -/
theorem C15_swap_phase_pool_false_without_unique_hashes :
    ¬ ∀ (k : PoolKey) (s s' : State) (swaps : List Tx) (p : PoolState), s.pools.get k = some p →
      processSwapsForPool k s swaps = .ok s' →
      ∃ p' lw rw, p.swapMany (swapTL k swaps) (swapTR k swaps) = .ok (p', lw, rw) ∧
        ∀ tx ∈ swaps, (out0 tx).denom = k.left →
          s'.coins.getCoin ⟨tx.hash, 0⟩ = some ⟨{ out0 tx with
            denom := k.right, value := min (rw * (out0 tx).value / swapTL k swaps) MAX_COINVAL }, s.height⟩ := by
  intro hall
  obtain ⟨s', hs', hp, hsm, hd, hne⟩ := C15_swap_phase_pool_needs_unique_hashes
  obtain ⟨p', lw, rw, hsm', hc⟩ := hall poolMelSym dupSt s' [dupA, dupB] _ hp hs'
  rw [hsm] at hsm'
  cases hsm'
  exact hne (hc dupA List.mem_cons_self hd)

open C15BlockWitness in
/-- with a saturated total the left side is paid out more than the pool gave up: `total_lefts = u128::MAX` for two
    requests of `u128::MAX` each, both are handed the whole `rw = 995` -/
theorem C15_block_payout_needs_unsaturated_total :
    processSwaps bigSt = .ok bigSt' ∧ (bigSt.txs.map (·.hash)).Nodup ∧ swapReqs bigSt poolMelSym = [bigA, bigB] ∧
      (⟨1000, 1000, 0, 1000⟩ : PoolState).swapMany (swapTL poolMelSym [bigA, bigB]) (swapTR poolMelSym [bigA, bigB])
        = .ok (⟨U128_MAX, 5, 68056473384187692692674921486353642291, 1000⟩, 0, 995) ∧
      paidOut bigSt'.coins 0 ((swapReqs bigSt poolMelSym).filter fun tx => (out0 tx).denom = poolMelSym.left) = 1990 :=
  ⟨big_ok, by decide, by decide +kernel, ok_of_toOption (by decide +kernel), by decide +kernel⟩

open C15BlockWitness in
/-- … so `C15_block_payout_bounded` without `sumL … ≤ U128_MAX` is false -/
theorem C15_block_payout_false_with_saturated_total :
    ¬ ∀ (s s' : State) (k : PoolKey) (p p' : PoolState) (lw rw : Nat), processSwaps s = .ok s' →
      (s.txs.map (·.hash)).Nodup → s.pools.get k = some p →
      p.swapMany (swapTL k (swapReqs s k)) (swapTR k (swapReqs s k)) = .ok (p', lw, rw) →
      paidOut s'.coins 0 ((swapReqs s k).filter fun tx => (out0 tx).denom = k.left) ≤ rw := by
  intro hall
  obtain ⟨h1, h2, h3, h4, h5⟩ := C15_block_payout_needs_unsaturated_total
  have := hall bigSt bigSt' poolMelSym ⟨1000, 1000, 0, 1000⟩ _ 0 995 h1 h2 rfl (by rw [h3]; exact h4)
  rw [h5] at this
  omega

open C15BlockWitness in
/-- **non-vacuity**: every hypothesis of the swap theorems holds on the literal block of `C15BlockWitness` (two pools,
    three requests, two of them on one pool), and the conclusions are the computed values -/
theorem C15_block_nonvacuous :
    processSwaps st = .ok st' ∧ (st.txs.map (·.hash)).Nodup ∧
    swapReqs st poolMelSym = [txA, txB] ∧ swapReqs st poolMelErg = [txC] ∧
    (∃ p, st.pools.get poolMelSym = some p ∧
      p.lefts + swapTL poolMelSym (swapReqs st poolMelSym) ≤ U128_MAX ∧
      p.rights + swapTR poolMelSym (swapReqs st poolMelSym) ≤ U128_MAX) ∧
    sumL poolMelSym (swapReqs st poolMelSym) ≤ U128_MAX ∧ sumR poolMelSym (swapReqs st poolMelSym) ≤ U128_MAX ∧
    st'.pools.get poolMelSym = some ⟨1400, 716, 1955307, 1000⟩ ∧
    st'.pools.get poolMelErg = some ⟨5070, 1973, 2569690, 3000⟩ ∧
    st'.coins.getCoin ⟨[2], 0⟩ = some ⟨⟨[7], 71, .sym, []⟩, 10⟩ ∧
    st'.coins.getCoin ⟨[3], 0⟩ = some ⟨⟨[7], 213, .sym, []⟩, 10⟩ ∧
    st'.coins.getCoin ⟨[4], 0⟩ = some ⟨⟨[7], 27, .mel, []⟩, 10⟩ :=
  ⟨swaps_ok, nodup, reqsMelSym, reqsMelErg, ⟨_, rfl, by decide +kernel, by decide +kernel⟩, by decide +kernel,
    by decide +kernel, values.1, values.2.1, values.2.2.1, values.2.2.2.1, values.2.2.2.2⟩

section Instances
open C15BlockWitness

/-- `C15_swap_phase` and `C15_swap_phase_independent` on the literal block -/
example := C15_swap_phase st st' swaps_ok nodup
example := C15_swap_phase_independent st st' swaps_ok nodup poolMelSym (by rw [reqsMelSym]; exact List.cons_ne_nil _ _)
/-- `C15_swap_phase_pool`, on the same block: MEL/SYM settled alone -/
example := C15_swap_phase_pool poolMelSym st (getOk (processSwapsForPool poolMelSym st [txA, txB])) [txA, txB]
  ⟨1000, 1000, 0, 1000⟩ rfl (by decide) (eq_getOk (by decide +kernel))
/-- `C15_single_price` for the two MEL requests: 71·300 < (213+1)·100 and 213·100 < (71+1)·300 -/
example := C15_single_price st st' swaps_ok nodup poolMelSym txA txB (by rw [reqsMelSym]; simp)
  (by rw [reqsMelSym]; simp) rfl
example := C15_block_payout_bounded st st' swaps_ok nodup poolMelSym (by rw [reqsMelSym]; exact List.cons_ne_nil _ _)
example := C15_block_reserves_exact st st' swaps_ok poolMelSym (by rw [reqsMelSym]; exact List.cons_ne_nil _ _)
  ⟨1000, 1000, 0, 1000⟩ rfl ⟨by decide +kernel, by decide +kernel⟩
example := C15_block_product st st' swaps_ok poolMelErg ⟨5000, 2000, 0, 3000⟩ (by decide +kernel)
  ⟨by decide +kernel, by decide +kernel⟩

end Instances

open C15BlockWitness in
/-- **non-vacuity, deposits and withdrawals**: the two depositors share the 400 tokens minted by their weights
    `mtsqrt` = 100 : 289 (102 and 297 tokens, rounded down) and lose their second coins; the withdrawer of 50 of the 1000 tokens gets 50 MEL at output 0 and 50 SYM as a new coin at index 1 -/
theorem C15_block_nonvacuous_liq :
    (processDeposits env depSt = .ok depSt' ∧ (depSt.txs.map (·.hash)).Nodup ∧
      depReqs depSt poolMelSym = [dep1, dep2] ∧
      depSt'.pools.get poolMelSym = some ⟨1400, 1400, 0, 1400⟩ ∧
      depSt'.coins.getCoin ⟨[2], 0⟩ = some ⟨⟨[7], 102, .custom [115], []⟩, 10⟩ ∧
      depSt'.coins.getCoin ⟨[3], 0⟩ = some ⟨⟨[7], 297, .custom [115], []⟩, 10⟩ ∧
      depSt'.coins.getCoin ⟨[2], 1⟩ = none ∧ depSt'.coins.getCoin ⟨[3], 1⟩ = none) ∧
    (processWithdrawals env wdSt = .ok wdSt' ∧ (wdSt.txs.map (·.hash)).Nodup ∧
      wdReqs env wdSt poolMelSym = [wdTx] ∧
      wdSt'.pools.get poolMelSym = some ⟨950, 950, 0, 950⟩ ∧
      wdSt'.coins.getCoin ⟨[2], 0⟩ = some ⟨⟨[7], 50, .mel, []⟩, 10⟩ ∧
      wdSt'.coins.getCoin ⟨[2], 1⟩ = some ⟨⟨[7], 50, .sym, []⟩, 10⟩) :=
  ⟨⟨deps_ok, depNodup, depReqsMelSym, by decide +kernel, by decide +kernel, by decide +kernel, by decide +kernel,
      by decide +kernel⟩,
   ⟨wds_ok, wdNodup, wdReqsMelSym, by decide +kernel, by decide +kernel, by decide +kernel⟩⟩

section InstancesLiq
open C15BlockWitness

example := C15_deposit_phase_pool env poolMelSym depSt (getOk (processDepositsForPool env poolMelSym depSt [dep1, dep2]))
  [dep1, dep2] (by decide) (eq_getOk (by decide +kernel))
example := C15_withdraw_phase_pool poolMelSym wdSt (getOk (processWithdrawalsForPool poolMelSym wdSt [wdTx])) [wdTx]
  ⟨1000, 1000, 0, 1000⟩ rfl (by decide) (eq_getOk (by decide +kernel))
example := C15_deposit_phase env depSt depSt' deps_ok depNodup
example := C15_block_deposit_proportional env depSt depSt' deps_ok depNodup poolMelSym
  (by rw [depReqsMelSym]; exact List.cons_ne_nil _ _) ⟨1000, 1000, 0, 1000⟩ rfl
  ⟨by decide +kernel, by decide +kernel⟩
example := C15_withdraw_phase env wdSt wdSt' wds_ok wdNodup
example := C15_block_withdraw_proportional env wdSt wdSt' wds_ok wdNodup poolMelSym
  (by rw [wdReqsMelSym]; exact List.cons_ne_nil _ _) ⟨1000, 1000, 0, 1000⟩ rfl (by decide +kernel)

end InstancesLiq

end Mel

#print axioms Mel.C15_swap_phase_pool
#print axioms Mel.C15_swap_phase_pool_no_request
#print axioms Mel.C15_swapReqs_mem
#print axioms Mel.C15_request_one_pool
#print axioms Mel.C15_swap_phase
#print axioms Mel.C15_swap_phase_independent
#print axioms Mel.C15_single_price
#print axioms Mel.C15_block_payout_bounded
#print axioms Mel.C15_block_reserves_exact
#print axioms Mel.C15_block_product
#print axioms Mel.C15_deposit_phase_pool
#print axioms Mel.C15_deposit_phase
#print axioms Mel.C15_block_deposit_proportional
#print axioms Mel.C15_withdraw_phase_pool
#print axioms Mel.C15_withdraw_phase
#print axioms Mel.C15_block_withdraw_proportional
#print axioms Mel.C15_swap_phase_pool_needs_unique_hashes
#print axioms Mel.C15_block_payout_needs_unsaturated_total
#print axioms Mel.C15_swap_phase_pool_false_without_unique_hashes
#print axioms Mel.C15_block_payout_false_with_saturated_total
#print axioms Mel.C15_block_nonvacuous
#print axioms Mel.C15_block_nonvacuous_liq
