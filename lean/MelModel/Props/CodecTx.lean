/-
  The serialisation of a transaction (MelModel/Stdcode.lean: `encodeTx`, byte for byte what `stdcode::serialize(tx)`
  writes — compared with the real bytes on the transactions of the stdcode stream) is what `txLen` measures (C05) and it is
  injective: two transactions with the same bytes have the same content.  The transaction hashes are hashes of these
  bytes (`hash_nosigs`: with the signatures cleared), so the hypothesis the state-level theorems make about hashes —
  "equal signature-free hash ⇒ equal signature-free content" (C02, C03, C06, C19, C20) — is, by `Codec_nosigs_injective`,
  exactly collision-freeness of the hash function on byte strings and nothing about the serialisation.
  Property theorems only; helper lemmas live in MelModel/Lemmas/CodecTxL.lean.
-/
import MelModel.Stdcode
import MelModel.Props.Codec
import MelModel.Lemmas.CodecTxL
namespace Mel
open Mel.Stdcode

/-- the size term of the weight is the length of the serialisation -/
theorem C05_size_is_encoding_length (tx : Tx) (hi : ∀ c ∈ tx.inputs, c.txhash.length = 32)
    (ho : ∀ o ∈ tx.outputs, o.covhash.length = 32) : (encodeTx tx).length = txLen tx := by
  exact encodeTx_length tx hi ho

/-- different contents, different bytes -/
theorem Codec_encodeTx_injective (tx tx' : Tx) (h : TxOk tx) (h' : TxOk tx') (he : encodeTx tx = encodeTx tx') :
    tx.kind = tx'.kind ∧ tx.inputs = tx'.inputs ∧ tx.outputs = tx'.outputs ∧ tx.fee = tx'.fee ∧
    tx.covenants = tx'.covenants ∧ tx.data = tx'.data ∧ tx.sigs = tx'.sigs := by
  exact encodeTx_injective tx tx' h h' he

/-- the preimage of the signature-free hash determines everything but the signatures -/
theorem Codec_nosigs_injective (tx tx' : Tx) (h : TxOk tx) (h' : TxOk tx')
    (he : encodeTxNoSigs tx = encodeTxNoSigs tx') :
    tx.kind = tx'.kind ∧ tx.inputs = tx'.inputs ∧ tx.outputs = tx'.outputs ∧ tx.fee = tx'.fee ∧
    tx.covenants = tx'.covenants ∧ tx.data = tx'.data := by
  exact nosigs_injective tx tx' h h' he

/-- the signature-free preimage does not see the signatures: malleating them leaves the hash alone -/
theorem Codec_nosigs_ignores_sigs (tx : Tx) (sigs : List Bytes) :
    encodeTxNoSigs { tx with sigs := sigs } = encodeTxNoSigs tx := by
  rfl

/-- the serialisation is self-delimiting: no transaction's bytes are a proper prefix of another's -/
theorem Codec_encodeTx_prefix_free (tx tx' : Tx) (h : TxOk tx) (h' : TxOk tx') (t : Bytes)
    (he : encodeTx tx ++ t = encodeTx tx') : t = [] := by
  exact encodeTx_prefix_free tx tx' h h' t he

/-- a denomination's bytes name it -/
theorem Codec_denom_bytes_injective (d d' : Denom) (h : DenomOk d) (h' : DenomOk d') (he : d.toBytes = d'.toBytes) :
    d = d' := by
  exact denom_bytes_injective d d' h h' he

/-- without `DenomOk` they do not: a "custom token" whose name is the one byte `m` spells MEL -/
theorem Codec_denom_needs_ok : (Denom.custom [109]).toBytes = Denom.mel.toBytes ∧ Denom.custom [109] ≠ Denom.mel := by
  decide

/-! ### non-vacuity -/

example : TxOk { kind := .normal, inputs := [{ txhash := List.replicate 32 1, index := 0 }],
                 outputs := [{ covhash := List.replicate 32 2, value := 5, denom := .mel, additionalData := [] }],
                 fee := 1, covenants := [[9]], data := [], sigs := [List.replicate 64 3], hash := [], rawLen := 0,
                 covHashes := [] } := by
  constructor <;> simp [DenomOk]

example : encodeTx { kind := .faucet, inputs := [], outputs := [], fee := 300, covenants := [], data := [7], sigs := [],
                     hash := [], rawLen := 0, covHashes := [] } = [255, 0, 0, 251, 44, 1, 0, 1, 7, 0] := by
  decide

end Mel

#print axioms Mel.C05_size_is_encoding_length
#print axioms Mel.Codec_encodeTx_injective
#print axioms Mel.Codec_nosigs_injective
#print axioms Mel.Codec_nosigs_ignores_sigs
#print axioms Mel.Codec_encodeTx_prefix_free
#print axioms Mel.Codec_denom_bytes_injective
#print axioms Mel.Codec_denom_needs_ok
