/-
  C08 — Restart equivalence: a state rebuilt from its block behaves identically.
  Property theorems only; helper lemmas live in MelModel/Lemmas/Restart.lean.
-/
import MelModel.Chain
import MelModel.Lemmas.Restart
namespace Mel
open Mel.Gen

/-- the transaction list of a state is kept sorted by hash with distinct hashes -/
def TxsSorted : List Tx → Prop
  | [] => True
  | [_] => True
  | a :: b :: rest => bytesLt a.hash b.hash = true ∧ TxsSorted (b :: rest)

/-- `insertTx` keeps the list sorted -/
theorem C08_insert_sorted (txs : List Tx) (tx : Tx) (h : TxsSorted txs) : TxsSorted (State.insertTx txs tx) := by
  sorry

/-- re-inserting the transactions of a sorted list rebuilds the same list -/
theorem C08_rebuild_sorted (txs : List Tx) (h : TxsSorted txs) : txs.foldl State.insertTx [] = txs := by
  sorry

/-- restoring from the block (with the stake set and the trees the header's roots denote) gives back every
    field of the state except the pending tips, which the block does not carry -/
theorem C08_roundtrip (env : Env) (ss : Sealed) (blk : Block) (h : toBlock env ss = .ok blk) (hs : TxsSorted ss.st.txs) :
    fromBlock blk ss.st.stakes ss.st.coins ss.st.history ss.st.pools =
      { st := { ss.st with tips := 0 }, action := ss.action } := by
  sorry

/-- **restart equivalence at restart points without pending tips**: the rebuilt state *is* the original, so every
    continuation — batches, blocks, proposer actions — gives the same headers and the same verdicts -/
theorem C08_restart_partial (env : Env) (ss : Sealed) (blk : Block) (h : toBlock env ss = .ok blk)
    (hs : TxsSorted ss.st.txs) (ht : ss.st.tips = 0) :
    fromBlock blk ss.st.stakes ss.st.coins ss.st.history ss.st.pools = ss := by
  sorry

/-- tips are zero after sealing with a proposer action (so those are always faithful restart points) -/
theorem C08_tips_zero_after_action (env : Env) (s : State) (a : ProposerAction) (ss : Sealed)
    (h : sealState env s (some a) = .ok ss) : ss.st.tips = 0 := by
  sorry

/-- known finding (F6): sealing without an action keeps the pending tips, `next_unsealed` carries them, but the
    rebuilt state has none — so with pending tips the next proposer reward differs after a restart -/
theorem C08_tips_kept_without_action (env : Env) (s : State) (ss : Sealed) (h : sealState env s none = .ok ss) :
    ss.st.tips = s.tips := by
  sorry

theorem C08_tips_lost_on_restore (blk : Block) (stakes : StakeSet) (coins : CoinMap) (hist : AList Nat Header)
    (pools : AList PoolKey PoolState) : (fromBlock blk stakes coins hist pools).st.tips = 0 := by
  sorry

/-- the reward a proposer collects depends on the pending tips: different tips, different reward coin -/
theorem C08_reward_depends_on_tips (env : Env) (s₁ s₂ s₁' s₂' : State) (a : ProposerAction)
    (hf : s₁.feePool = s₂.feePool) (hh : s₁.height = s₂.height) (ht : s₁.tips ≠ s₂.tips)
    (h₁ : collectProposerFee env s₁ a = .ok s₁') (h₂ : collectProposerFee env s₂ a = .ok s₂') :
    s₁'.coins.getCoin { txhash := env.rewardId s₁.height, index := 0 } ≠
    s₂'.coins.getCoin { txhash := env.rewardId s₂.height, index := 0 } := by
  sorry

end Mel
