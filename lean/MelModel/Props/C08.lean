/-
  C08 — Restart equivalence: a state rebuilt from its block behaves identically.
  Property theorems only; helper lemmas live in MelModel/Lemmas/Restart.lean.
-/
import MelModel.Chain
import MelModel.Lemmas.Restart
namespace Mel
open Mel.Gen

/-- the transaction list of a state is kept sorted by hash with distinct hashes -/
def TxsSorted : List Tx → Prop
  | [] => True
  | [_] => True
  | a :: b :: rest => bytesLt a.hash b.hash = true ∧ TxsSorted (b :: rest)

/-- `insertTx` keeps the list sorted -/
theorem C08_insert_sorted (txs : List Tx) (tx : Tx) (h : TxsSorted txs) : TxsSorted (State.insertTx txs tx) := by
  have key : ∀ a l, TxsSorted (a :: l) ↔ (HeadGt a.hash l ∧ TxsSorted l) := by
    intro a l
    cases l with
    | nil => simp [TxsSorted, HeadGt_nil]
    | cons b r => simp [TxsSorted, HeadGt_cons]
  induction txs with
  | nil => simp [State.insertTx, TxsSorted]
  | cons t rest ih =>
    obtain ⟨hh, hr⟩ := (key t rest).mp h
    unfold State.insertTx
    split
    · next heq => rw [key]; rw [heq] at hh; exact ⟨hh, hr⟩
    · split
      · next hlt => rw [key, HeadGt_cons]; exact ⟨hlt, h⟩
      · next hne hlt =>
        rw [key]
        refine ⟨HeadGt_insertTx _ _ _ hh ?_, ih hr⟩
        cases hc : bytesLt t.hash tx.hash with
        | true => rfl
        | false => exact absurd (bytesLt_total _ _ hc (by simpa using hlt)) hne

/-- re-inserting the transactions of a sorted list rebuilds the same list -/
theorem C08_rebuild_sorted (txs : List Tx) (h : TxsSorted txs) : txs.foldl State.insertTx [] = txs := by
  have hp : ∀ l : List Tx, TxsSorted l → List.Pairwise TxLt l := by
    intro l
    induction l with
    | nil => intro _; exact List.Pairwise.nil
    | cons a r ih =>
      intro hs
      cases r with
      | nil => exact List.pairwise_singleton _ _
      | cons b r' =>
        obtain ⟨hab, hs'⟩ := hs
        have hb := ih hs'
        refine List.Pairwise.cons ?_ hb
        intro c hc
        rcases List.mem_cons.mp hc with rfl | hc
        · exact hab
        · exact bytesLt_trans _ _ _ hab ((List.pairwise_cons.mp hb).1 c hc)
  simpa using foldl_insertTx_pairwise txs [] (by simpa using hp txs h)

/-- restoring from the block (with the stake set and the trees the header's roots denote) gives back every
    field of the state except the pending tips, which the block does not carry -/
theorem C08_roundtrip (env : Env) (ss : Sealed) (blk : Block) (h : toBlock env ss = .ok blk) (hs : TxsSorted ss.st.txs) :
    fromBlock blk ss.st.stakes ss.st.coins ss.st.history ss.st.pools =
      { st := { ss.st with tips := 0 }, action := ss.action } := by
  unfold toBlock at h
  obtain ⟨hd, hhd, h⟩ := Outcome.bind_eq_ok h
  cases h
  unfold headerOf at hhd
  obtain ⟨p, _, hhd⟩ := Outcome.bind_eq_ok hhd
  cases hhd
  simp only [fromBlock, C08_rebuild_sorted _ hs]

/-- **restart equivalence at restart points without pending tips**: the rebuilt state *is* the original, so every
    continuation — batches, blocks, proposer actions — gives the same headers and the same verdicts -/
theorem C08_restart_partial (env : Env) (ss : Sealed) (blk : Block) (h : toBlock env ss = .ok blk)
    (hs : TxsSorted ss.st.txs) (ht : ss.st.tips = 0) :
    fromBlock blk ss.st.stakes ss.st.coins ss.st.history ss.st.pools = ss := by
  rw [C08_roundtrip env ss blk h hs]
  obtain ⟨st, act⟩ := ss
  cases st
  simp only at ht
  subst ht
  rfl

/-- tips are zero after sealing with a proposer action (so those are always faithful restart points) -/
theorem C08_tips_zero_after_action (env : Env) (s : State) (a : ProposerAction) (ss : Sealed)
    (h : sealState env s (some a) = .ok ss) : ss.st.tips = 0 := by
  obtain ⟨s2, _, h⟩ := sealState_pre_tips env s (some a) ss h
  simp only at h
  obtain ⟨s3, h3, h⟩ := Outcome.bind_eq_ok h
  cases h
  unfold applyProposerAction at h3
  exact collectProposerFee_tips _ _ _ _ h3

/-- known finding (F6): sealing without an action keeps the pending tips, `next_unsealed` carries them, but the
    rebuilt state has none — so with pending tips the next proposer reward differs after a restart -/
theorem C08_tips_kept_without_action (env : Env) (s : State) (ss : Sealed) (h : sealState env s none = .ok ss) :
    ss.st.tips = s.tips := by
  obtain ⟨s2, hs2, h⟩ := sealState_pre_tips env s none ss h
  simp only at h
  cases h
  exact hs2

theorem C08_tips_lost_on_restore (blk : Block) (stakes : StakeSet) (coins : CoinMap) (hist : AList Nat Header)
    (pools : AList PoolKey PoolState) : (fromBlock blk stakes coins hist pools).st.tips = 0 := by
  rfl

/-- the reward a proposer collects depends on the pending tips: different tips, different reward coin -/
theorem C08_reward_depends_on_tips (env : Env) (s₁ s₂ s₁' s₂' : State) (a : ProposerAction)
    (hf : s₁.feePool = s₂.feePool) (_hh : s₁.height = s₂.height) (ht : s₁.tips ≠ s₂.tips)
    (h₁ : collectProposerFee env s₁ a = .ok s₁') (h₂ : collectProposerFee env s₂ a = .ok s₂') :
    s₁'.coins.getCoin { txhash := env.rewardId s₁.height, index := 0 } ≠
    s₂'.coins.getCoin { txhash := env.rewardId s₂.height, index := 0 } := by
  unfold collectProposerFee at h₁ h₂
  simp only at h₁ h₂
  split at h₁
  · cases h₁
  split at h₂
  · cases h₂
  cases h₁; cases h₂
  simp only [getCoin_insertCoin_self]
  intro heq
  have hv := congrArg (fun o : Option CoinDataHeight => o.map (·.coinData.value)) heq
  simp only [Option.map_some, Option.some.injEq, hf] at hv
  exact ht (Nat.add_left_cancel hv)

end Mel

#print axioms Mel.C08_insert_sorted
#print axioms Mel.C08_rebuild_sorted
#print axioms Mel.C08_roundtrip
#print axioms Mel.C08_restart_partial
#print axioms Mel.C08_tips_zero_after_action
#print axioms Mel.C08_tips_kept_without_action
#print axioms Mel.C08_tips_lost_on_restore
#print axioms Mel.C08_reward_depends_on_tips
