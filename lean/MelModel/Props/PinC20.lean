/-
  C20 — the constants the property's statement (and the recorded deviations) fix, pinned against the values regenerated
  from /repo's source on every run (Generated/Tables.lean): TIP-906 activates at height 830000 on Mainnet and with all TIPs at height 500 on Testnet.
  The model is parametric in these constants, so a changed constant would be followed silently by the model and the
  correspondence; these theorems are what turns such a change into a broken proof obligation.
-/
import MelModel.Generated.Tables
namespace Mel
open Mel.Gen

theorem C20_pin_TIP_906_HEIGHT : TIP_906_HEIGHT = 830000 := rfl
theorem C20_pin_TESTNET_TIP_HEIGHT : TESTNET_TIP_HEIGHT = 500 := rfl

end Mel

#print axioms Mel.C20_pin_TIP_906_HEIGHT
#print axioms Mel.C20_pin_TESTNET_TIP_HEIGHT
