/-
  C17 — The fee multiplier moves only by the bounded, specified step per block.
  Property theorems only; helper lemmas live in MelModel/Lemmas/FeeMult.lean.
-/
import MelModel.Seal
import MelModel.Lemmas.FeeMult
namespace Mel
open Mel.Gen

/-- the largest movement allowed in one block: 1/128 of the multiplier, at least 2 once TIP-901 -/
def maxMove (m : Nat) (tip901 : Bool) : Nat := if tip901 then max (m / 128) 2 else m / 128

/-- the specified step: `trunc(maxMove × δ / 128)` (truncation toward zero) -/
def specStep (m : Nat) (δ : Int) (tip901 : Bool) : Int := Int.tdiv ((maxMove m tip901 : Int) * δ) 128

/-- closed form on the whole domain: the multiplier moves by exactly the specified step, clamped to
    the range of a u128 (the clamp only acts for `m < 2` going down and within 2^121 of the top). -/
theorem C17_closed_form (m : Nat) (δ : Int) (tip901 : Bool) (hm : m ≤ U128_MAX)
    (hδ : -128 ≤ δ ∧ δ ≤ 127) :
    ((moveFeeMultiplier m δ tip901 : Nat) : Int) = max 0 (min ((m : Int) + specStep m δ tip901) (U128_MAX : Int)) := by
  have hd := natAbs_le_128 δ hδ
  have hs := scaled_le (feeMaxMove m tip901) δ.natAbs hd
  have hU : U128_MAX = 340282366920938463463374607431768211455 := by decide
  rw [moveFeeMultiplier_eq]
  show _ = max 0 (min ((m : Int) + Int.tdiv ((feeMaxMove m tip901 : Int) * δ) 128) _)
  by_cases h : δ ≥ 0
  · rw [if_pos h, tdiv_mul_of_nonneg _ _ h]
    generalize feeMaxMove m tip901 * δ.natAbs / 128 = k at *
    omega
  · rw [if_neg h, tdiv_mul_of_neg _ _ (by omega)]
    generalize feeMaxMove m tip901 * δ.natAbs / 128 = k at *
    omega

/-- whenever the exact result is representable it is the result -/
theorem C17_exact (m : Nat) (δ : Int) (tip901 : Bool) (hm : m ≤ U128_MAX) (hδ : -128 ≤ δ ∧ δ ≤ 127)
    (hlo : 0 ≤ (m : Int) + specStep m δ tip901) (hhi : (m : Int) + specStep m δ tip901 ≤ (U128_MAX : Int)) :
    ((moveFeeMultiplier m δ tip901 : Nat) : Int) = (m : Int) + specStep m δ tip901 := by
  rw [C17_closed_form m δ tip901 hm hδ]
  omega

/-- for every multiplier from 2 up to 2^127 the move is exact (no clamping at all) -/
theorem C17_exact_range (m : Nat) (δ : Int) (tip901 : Bool) (h2 : 2 ≤ m) (hm : m ≤ 2 ^ 127)
    (hδ : -128 ≤ δ ∧ δ ≤ 127) :
    ((moveFeeMultiplier m δ tip901 : Nat) : Int) = (m : Int) + specStep m δ tip901 := by
  have hU : U128_MAX = 340282366920938463463374607431768211455 := by decide
  have hd := natAbs_le_128 δ hδ
  have hs := scaled_le (feeMaxMove m tip901) δ.natAbs hd
  have hmm : feeMaxMove m tip901 ≤ m ∧ feeMaxMove m tip901 ≤ m / 128 + 2 := by
    unfold feeMaxMove; split <;> omega
  have hspec : specStep m δ tip901 = Int.tdiv ((feeMaxMove m tip901 : Int) * δ) 128 := rfl
  apply C17_exact m δ tip901 (by omega) hδ
  · rw [hspec]
    by_cases h : δ ≥ 0
    · rw [tdiv_mul_of_nonneg _ _ h]; omega
    · rw [tdiv_mul_of_neg _ _ (by omega)]; omega
  · rw [hspec]
    by_cases h : δ ≥ 0
    · rw [tdiv_mul_of_nonneg _ _ h]; omega
    · rw [tdiv_mul_of_neg _ _ (by omega)]; omega

/-- never wraps: the result is a u128, and it differs from `m` by at most `maxMove` -/
theorem C17_no_wrap (m : Nat) (δ : Int) (tip901 : Bool) (hm : m ≤ U128_MAX) (hδ : -128 ≤ δ ∧ δ ≤ 127) :
    moveFeeMultiplier m δ tip901 ≤ U128_MAX ∧
    moveFeeMultiplier m δ tip901 ≤ m + maxMove m tip901 ∧
    m ≤ moveFeeMultiplier m δ tip901 + maxMove m tip901 := by
  have hd := natAbs_le_128 δ hδ
  have hs := scaled_le (feeMaxMove m tip901) δ.natAbs hd
  rw [moveFeeMultiplier_eq]
  show _ ≤ _ ∧ _ ≤ m + feeMaxMove m tip901 ∧ m ≤ _ + feeMaxMove m tip901
  generalize feeMaxMove m tip901 * δ.natAbs / 128 = k at *
  split <;> omega

/-- a block sealed without a proposer action leaves the fee multiplier unchanged -/
theorem C17_no_action (env : Env) (s : State) (ss : Sealed) (h : sealState env s none = .ok ss) :
    ss.st.feeMultiplier = s.feeMultiplier := by
  obtain ⟨s2, hs, h⟩ := sealState_pre env s none ss h
  cases h; exact hs.1

/-- a block sealed with an action moves it by exactly `moveFeeMultiplier` -/
theorem C17_action (env : Env) (s : State) (a : ProposerAction) (ss : Sealed)
    (h : sealState env s (some a) = .ok ss) :
    ss.st.feeMultiplier = moveFeeMultiplier s.feeMultiplier a.feeMultiplierDelta s.tip901 := by
  obtain ⟨s2, hs, h⟩ := sealState_pre env s (some a) ss h
  obtain ⟨s3, h3, h⟩ := Outcome.bind_eq_ok h
  cases h
  rw [applyProposerAction_feeMultiplier env s2 a s3 h3, hs.1, hs.tip901]

/-- what was wrong before the `fix:` commit (finding F7): the old code panics at both ends … -/
theorem C17_old_underflow : moveFeeMultiplierOld 1 (-128) true = none := by
  decide
theorem C17_old_i64_overflow : moveFeeMultiplierOld (2 ^ 64) 127 true = none :=
  moveFeeMultiplierOld_2p64_true
/-- … and from 2^70 on the `as i64` cast truncates: the move is silently wrong (2 instead of 2^63). -/
theorem C17_old_truncates : moveFeeMultiplierOld (2 ^ 70) 127 true = some (2 ^ 70 + 1) :=
  moveFeeMultiplierOld_2p70_true
/-- … and the repaired code agrees with it wherever it did not panic or truncate. -/
theorem C17_old_agrees (m : Nat) (δ : Int) (tip901 : Bool) (h2 : 2 ≤ m) (hm : m < 2 ^ 63)
    (hδ : -128 ≤ δ ∧ δ ≤ 127) :
    moveFeeMultiplierOld m δ tip901 = some (moveFeeMultiplier m δ tip901) := by
  exact moveFeeMultiplierOld_agrees m δ tip901 h2 hm hδ

/-- non-vacuity -/
example : moveFeeMultiplier 1000000 (-128) true = 992188 ∧ moveFeeMultiplier 1 (-128) true = 0
    ∧ moveFeeMultiplier 100 127 true = 101 := by
  decide

#print axioms C17_closed_form
#print axioms C17_exact
#print axioms C17_exact_range
#print axioms C17_no_wrap
#print axioms C17_no_action
#print axioms C17_action
#print axioms C17_old_underflow
#print axioms C17_old_i64_overflow
#print axioms C17_old_truncates
#print axioms C17_old_agrees

end Mel
