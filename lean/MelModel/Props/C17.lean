/-
  C17 — The fee multiplier moves only by the bounded, specified step per block.
  Property theorems only; helper lemmas live in MelModel/Lemmas/FeeMult.lean.
-/
import MelModel.Seal
import MelModel.Lemmas.FeeMult
namespace Mel
open Mel.Gen

/-- the largest movement allowed in one block: 1/128 of the multiplier, at least 2 once TIP-901 -/
def maxMove (m : Nat) (tip901 : Bool) : Nat := if tip901 then max (m / 128) 2 else m / 128

/-- the specified step: `trunc(maxMove × δ / 128)` (truncation toward zero) -/
def specStep (m : Nat) (δ : Int) (tip901 : Bool) : Int := Int.tdiv ((maxMove m tip901 : Int) * δ) 128

/-- closed form on the whole domain: the multiplier moves by exactly the specified step, clamped to
    the range of a u128 (the clamp only acts for `m < 2` going down and within 2^121 of the top). -/
theorem C17_closed_form (m : Nat) (δ : Int) (tip901 : Bool) (hm : m ≤ U128_MAX)
    (hδ : -128 ≤ δ ∧ δ ≤ 127) :
    ((moveFeeMultiplier m δ tip901 : Nat) : Int) = max 0 (min ((m : Int) + specStep m δ tip901) (U128_MAX : Int)) := by
  sorry

/-- whenever the exact result is representable it is the result -/
theorem C17_exact (m : Nat) (δ : Int) (tip901 : Bool) (hm : m ≤ U128_MAX) (hδ : -128 ≤ δ ∧ δ ≤ 127)
    (hlo : 0 ≤ (m : Int) + specStep m δ tip901) (hhi : (m : Int) + specStep m δ tip901 ≤ (U128_MAX : Int)) :
    ((moveFeeMultiplier m δ tip901 : Nat) : Int) = (m : Int) + specStep m δ tip901 := by
  sorry

/-- for every multiplier from 2 up to 2^127 the move is exact (no clamping at all) -/
theorem C17_exact_range (m : Nat) (δ : Int) (tip901 : Bool) (h2 : 2 ≤ m) (hm : m ≤ 2 ^ 127)
    (hδ : -128 ≤ δ ∧ δ ≤ 127) :
    ((moveFeeMultiplier m δ tip901 : Nat) : Int) = (m : Int) + specStep m δ tip901 := by
  sorry

/-- never wraps: the result is a u128, and it differs from `m` by at most `maxMove` -/
theorem C17_no_wrap (m : Nat) (δ : Int) (tip901 : Bool) (hm : m ≤ U128_MAX) (hδ : -128 ≤ δ ∧ δ ≤ 127) :
    moveFeeMultiplier m δ tip901 ≤ U128_MAX ∧
    moveFeeMultiplier m δ tip901 ≤ m + maxMove m tip901 ∧
    m ≤ moveFeeMultiplier m δ tip901 + maxMove m tip901 := by
  sorry

/-- a block sealed without a proposer action leaves the fee multiplier unchanged -/
theorem C17_no_action (env : Env) (s : State) (ss : Sealed) (h : sealState env s none = .ok ss) :
    ss.st.feeMultiplier = s.feeMultiplier := by
  sorry

/-- a block sealed with an action moves it by exactly `moveFeeMultiplier` -/
theorem C17_action (env : Env) (s : State) (a : ProposerAction) (ss : Sealed)
    (h : sealState env s (some a) = .ok ss) :
    ss.st.feeMultiplier = moveFeeMultiplier s.feeMultiplier a.feeMultiplierDelta s.tip901 := by
  sorry

/-- what was wrong before the `fix:` commit (finding F7): the old code panics at both ends … -/
theorem C17_old_underflow : moveFeeMultiplierOld 1 (-128) true = none := by
  sorry
theorem C17_old_i64_overflow : moveFeeMultiplierOld (2 ^ 70) 127 true = none := by
  sorry
/-- … and the repaired code agrees with it wherever it did not panic or truncate. -/
theorem C17_old_agrees (m : Nat) (δ : Int) (tip901 : Bool) (h2 : 2 ≤ m) (hm : m < 2 ^ 63)
    (hδ : -128 ≤ δ ∧ δ ≤ 127) :
    moveFeeMultiplierOld m δ tip901 = some (moveFeeMultiplier m δ tip901) := by
  sorry

/-- non-vacuity -/
example : moveFeeMultiplier 1000000 (-128) true = 992188 ∧ moveFeeMultiplier 1 (-128) true = 0
    ∧ moveFeeMultiplier 100 127 true = 101 := by
  sorry

end Mel
